(* C08 / C10, host side: hta/analyzers/critical_path_analysis.py CPGraph._construct_graph_from_call_stack (enter_func / exit_func
   over CallStackGraph.dfs_traverse), _add_edge_helper and _attribute_edge.  The depth-first traversal is given as its action
   sequence (the implementation's own traversal order, recorded by the harness); the model is the state machine the two callbacks
   implement.  Events without graph nodes (user annotations, events outside the analysed window) are part of the traversal. *)
From HTA.lib Require Import Base.
Open Scope list_scope.
Open Scope Z_scope.

(* an event of the thread: id, start, end, has graph nodes, is a blocking call, call-stack parent *)
Record hev := mkH { h_id : Z; h_ts : Z; h_end : Z; h_an : bool; h_block : bool; h_parent : Z }.
Inductive act := Enter (i : Z) | Exit (i : Z).
Record hnode := mkHN { n_ev : Z; n_start : bool; n_ts : Z }.
(* edge: source, destination, weight, type (0 operator span, 1 dependency), attributed event (-2: none) *)
Record hedge := mkHE { he_src : hnode; he_dst : hnode; he_w : Z; he_ty : Z; he_attr : Z }.
(* last_node, last_ev_parent, op_depth, last_highlevel_op *)
Record hst := mkSt { s_last : option hnode; s_lastp : Z; s_depth : Z; s_high : option hnode }.

Definition hlookup (tab : list hev) (i : Z) : option hev := find (fun e => h_id e =? i) tab.

(* _attribute_edge for an operator span: start -> anything: the source's event; end -> end: the destination's event;
   end -> start: the parent handed in by the traversal *)
Definition attr_rule (src dst : hnode) (src_parent : Z) : Z :=
  if n_start src then n_ev src else if negb (n_start dst) then n_ev dst else src_parent.

Definition hstep (tab : list hev) (s : hst) (a : act) : hst * list hedge :=
  match a with
  | Enter i =>
      match hlookup tab i with
      | Some e =>
          if h_an e then
            let sn := mkHN i true (h_ts e) in
            let dep := match s_high s with
                       | Some h => if s_depth s =? 0 then [mkHE h sn 0 1 (-2)] else []
                       | None => []
                       end in
            let span := match s_last s with
                        | Some n => [mkHE n sn (h_ts e - n_ts n) 0 (attr_rule n sn (s_lastp s))]
                        | None => []
                        end in
            (mkSt (Some sn) (h_parent e) (s_depth s + 1) (s_high s), dep ++ span)
          else (s, [])
      | None => (s, [])
      end
  | Exit i =>
      match hlookup tab i with
      | Some e =>
          if h_an e then
            let en := mkHN i false (h_end e) in
            let d := s_depth s - 1 in
            let span := match s_last s with
                        | Some n => [mkHE n en (if h_block e then 0 else h_end e - n_ts n) 0 (attr_rule n en (s_lastp s))]
                        | None => []
                        end in
            ((if d =? 0 then mkSt None (s_lastp s) d (Some en) else mkSt (Some en) (h_parent e) d (s_high s)), span)
          else
            (* leaving an event without nodes: a pending end -> start gap now lies in its parent *)
            ((if s_lastp s =? i then mkSt (s_last s) (h_parent e) (s_depth s) (s_high s) else s), [])
      | None => (s, [])
      end
  end.

Fixpoint hrun (tab : list hev) (s : hst) (acts : list act) : list hedge :=
  match acts with
  | [] => []
  | a :: r => let '(s', es) := hstep tab s a in es ++ hrun tab s' r
  end.

Definition hinit : hst := mkSt None (-1) 0 None.
Definition host_edges_of (tab : list hev) (acts : list act) : list hedge := hrun tab hinit acts.

(* ---------- well-formed traversals (the quantifier: events of one host thread are properly nested, visited depth first
   in time order).  Checked by computation on every case; hypothesis of the theorems. ---------- *)
Definition ts_of (tab : list hev) (i : Z) : Z := match hlookup tab i with Some e => h_ts e | None => 0 end.
Definition end_of (tab : list hev) (i : Z) : Z := match hlookup tab i with Some e => h_end e | None => 0 end.
Definition memz (i : Z) (l : list Z) : bool := existsb (Z.eqb i) l.

(* ghost state: the stack of open events (innermost first), the ids entered so far, the time reached *)
Fixpoint wf_actions (tab : list hev) (stack seen : list Z) (cursor : Z) (acts : list act) : bool :=
  match acts with
  | [] => true
  | Enter i :: r =>
      match hlookup tab i with
      | Some e =>
          negb (memz i seen) && (cursor <=? h_ts e) && (h_ts e <=? h_end e) &&
          match stack with
          | p :: _ => (h_parent e =? p) && (h_end e <=? end_of tab p)
          | [] => true
          end &&
          wf_actions tab (i :: stack) (i :: seen) (h_ts e) r
      | None => false
      end
  | Exit i :: r =>
      match stack, hlookup tab i with
      | p :: rest, Some e => (p =? i) && (cursor <=? h_end e) && wf_actions tab rest seen (h_end e) r
      | _, _ => false
      end
  end.

(* ---------- what the harness evaluates ---------- *)
Definition enc_hedge (e : hedge) : list Z :=
  [n_ev (he_src e); b2z (n_start (he_src e)); n_ev (he_dst e); b2z (n_start (he_dst e)); he_w e; he_ty e; he_attr e].
Definition encode_host (tab : list hev) (acts : list act) (t0 : Z) : bool * list (list Z) :=
  (wf_actions tab [] [] t0 acts, sort_rows (map enc_hedge (host_edges_of tab acts))).
