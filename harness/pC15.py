"""C15: launch statistics list every launch/activity pair exactly."""
import tracegen
import framework as fw
import translate

ID = "C15"
COQ_IMPORTS = ["From HTA.model Require Import C15_Model."]
SOURCES = {"hta/analyzers/cuda_kernel_analysis.py": ["cuda_kernel_launch_stats"]}
TRANSLATE = [translate.gen_launch_stats]
INPUT_CONTRACT = True        # the loaded frame is re-checked against the file (framework.input_contract)
N_CASES = {"quick": 300, "thorough": 4000}
RULE = ("generated well-formed file sets (profiles default/fifo_tiny/fifo_steps/free_overlap (the last one places device activities anywhere, also before their launch call), 1-3 ranks, missing kernels, orphan kernels, "
        "memcpy/memset launches, equal timestamps), flag include_memory_events drawn per case; non-trivial = the rank has at least one "
        "linked launch/kernel pair; distinct = hash of the file set and parameters")
ASSUMPTIONS = ["wf_launch: a launch call's correlation id is carried by no other row on stream -1 (quantifier: a correlation id pairs at most one host call with one device activity)"]


def gen_cases(seed, tier, n):
    out = []
    profs = ["default", "fifo_tiny", "fifo_steps", "free_overlap"]
    for i in range(n):
        p = tracegen.bigvocab("default") if i % 12 == 7 else tracegen.PROFILES[profs[i % len(profs)]]
        c = tracegen.gen_case(seed, i, p)
        import random
        rng = random.Random(seed * 7919 + i)
        c["params"] = {"mem": rng.random() < 0.5}
        if i % 5 == 3:
            tracegen.lookalike_launch_names(c, rng)     # linked runtime calls whose names only contain a launch name
        if i % 3 == 1:
            tracegen.relabel_ranks(c)      # a subset of a job: rank ids are not 0..n-1, and not listed in order
        if i % 8 == 6:
            fw.set_quarter_us(c)           # quarter-microsecond resolution (framework.resolution)
        if i % 16 == 11 and not c["params"].get("quarter_us"):
            tracegen.scale_case(c, 10 ** 8)     # a long trace: sums beyond 2**24 and 2**31 (the models are homogeneous in time)
        out.append(c)
    return out


def run_impl(case, d):
    with fw.resolution(case):
        return _run_impl(case, d)


def _run_impl(case, d):
    k = fw.time_scale(case)
    ta, paths = fw.load_case_res(case, d)
    sym = ta.t.symbol_table.get_sym_table()
    ranks = sorted(ta.t.get_ranks())
    frames = {r: fw.dump_frame_res(case, ta.t.get_trace(r), sym) for r in ranks}
    mem = case["params"]["mem"]
    # two calls in sequence in one process (first with the drawn flag, then with the opposite one): a call must not
    # depend on the calls made before it
    outs = []
    for flag in (mem, not mem):
        try:
            res = ta.get_cuda_kernel_launch_stats(ranks=ranks, include_memory_events=flag, visualize=False)
            out = {}
            for r in ranks:
                df = res[r]
                out[r] = sorted([fw.as_int(a), fw.as_int(b_ * k), fw.as_int(c_ * k), fw.as_int(d_ * k)] for a, b_, c_, d_ in
                                zip(df["correlation"], df["cpu_duration"], df["gpu_duration"], df["launch_delay"]))
        except Exception as e:
            out = {"error": type(e).__name__ + ": " + str(e)[:200]}
        outs.append(out)
        if flag == mem and case.get("case_no", 0) % 2 == 0:
            # history: another analysis of the same object in between (critical path over an annotation window of one rank);
            # whether it succeeds is not this property's business, but the second call must still see the whole trace
            try:
                import random as _r
                import cp_common as cp
                rng = _r.Random(len(ranks) * 7919 + sum(len(v) for v in frames.values()))
                r0 = rng.choice(ranks)
                ann, inst = cp.draw_window(rng, frames[r0])
                if cp.window_has_events(frames[r0], ann, inst):
                    ta.critical_path_analysis(rank=r0, annotation=ann, instance_id=inst)
            except Exception:
                pass
    after = {r: fw.dump_frame_res(case, ta.t.get_trace(r), sym) for r in ranks}
    altered = [r for r in ranks if after[r] != frames[r]]
    return {"frames": frames, "out": outs[0], "out2": outs[1], "altered": altered}


def coq_term(case, impl):
    mem = case["params"]["mem"]
    return "[" + ";\n ".join(f"(encode_C15 {fw.b(mem)} {fw.evl(rows)}, encode_C15 {fw.b(not mem)} {fw.evl(rows)})"
                             for r, rows in sorted(impl["frames"].items())) + "]"


def compare(case, impl, model):
    disc = []
    if impl.get("altered"):
        disc.append(f"the loaded trace of rank(s) {impl['altered']} is no longer what was loaded after the analyses ran on it")
    for which, key in ((0, "out"), (1, "out2")):
        o = impl[key]
        if "error" in o:
            disc.append(f"call {which + 1}: implementation raised " + o["error"])
            continue
        for (r, rows), m in zip(sorted(o.items()), model):
            if [list(x) for x in rows] != [list(x) for x in m[which]]:
                disc.append(f"rank {r}, call {which + 1} (include_memory_events={case['params']['mem'] ^ bool(which)}): rows differ: impl={rows} model={m[which]}")
    return disc


def nontrivial(case, impl):
    return isinstance(impl["out"], dict) and any(len(v) > 0 for k, v in impl["out"].items() if k != "error")


def classify(case, impl, model, disc):
    return None

LEVEL_TEXT = ("Proof: Coq theorems C15_rows_bijection / C15_values / C15_memory_flag about the Gallina model of cuda_kernel_launch_stats "
              "(row list = exactly the linked launch/activity pairs, each once; values; flag semantics), for all frames; tied to the code by a "
              "correspondence run comparing every row of get_cuda_kernel_launch_stats with the model evaluated in Coq on the loaded frame."
              " C15_resolution_independent: times multiplied by k >= 0 multiply durations and delay of every row by k."
              " C15_rules_follow_source: the launch names and the delay rule are regenerated from cuda_kernel_launch_stats on every run (strict reading of the per-rank loop).")
LEVEL_NOTE = ("Model is hand-written (pandas isin/merge/clip); tie = correspondence on generated traces only. Hypothesis wf_launch (launch call's "
              "correlation id unique on stream -1) is the property's own quantifier. Trusted: Coq kernel, harness, pandas.")
TECHNIQUE = "Coq proof over Gallina model + differential correspondence (vm_compute) against the public API"
