(* C12: iteration numbers and the trimming rule at every resolution: multiplying the times by k > 0 changes no iteration number
   and keeps exactly the same rows *)
From HTA.lib Require Import Base.
From HTA.model Require Import Loader_Model.
From HTA.proof Require Import Scale.
Open Scope Z_scope.



Lemma step_of_scale k steps t : 0 < k -> step_of (scale_evs k steps) (k * t) = step_of steps t.
Proof.
  intro Hk. unfold step_of. generalize (-1). induction steps as [|s r IH]; intro acc; cbn [scale_evs map fold_left]; [reflexivity|].
  fold (scale_evs k r). unfold scale_ev at 1 2 3 4. cbn [ts dur name].
  replace (k * ts s + k * dur s) with (k * (ts s + dur s)) by ring.
  rewrite leb_scale, ltb_scale by exact Hk. apply IH.
Qed.

Lemma step_rows_scale k l : step_rows (scale_evs k l) = scale_evs k (step_rows l).
Proof. unfold step_rows, scale_evs. apply filter_map_comm. reflexivity. Qed.

Lemma iter_of_scale k l e : 0 < k -> iter_of (scale_evs k l) (scale_ev k e) = iter_of l e.
Proof.
  intro Hk. unfold iter_of. rewrite step_rows_scale.
  change (stream (scale_ev k e)) with (stream e). change (icorr (scale_ev k e)) with (icorr e).
  change (ts (scale_ev k e)) with (k * ts e).
  destruct (stream e <? 0); [apply step_of_scale; exact Hk|].
  destruct (0 <? stream e); [|reflexivity]. destruct (0 <? icorr e); [|reflexivity].
  rewrite (find_scale k (fun p => idx p =? icorr e)) by reflexivity.
  destruct (find (fun p => idx p =? icorr e) l) as [p|]; cbn [option_map]; [|reflexivity].
  change (ts (scale_ev k p)) with (k * ts p). apply step_of_scale. exact Hk.
Qed.

Theorem C12_iter_scale k l : 0 < k -> add_iter (scale_evs k l) = scale_evs k (add_iter l).
Proof.
  intro Hk. unfold add_iter.
  transitivity (map (fun e => set_iter (scale_ev k e) (iter_of (scale_evs k l) (scale_ev k e))) l).
  - exact (map_map (scale_ev k) (fun e => set_iter e (iter_of (scale_evs k l) e)) l).
  - transitivity (map (scale_ev k) (map (fun e => set_iter e (iter_of l e)) l)); [|reflexivity].
    rewrite map_map. apply map_ext. intro e. rewrite iter_of_scale by exact Hk. reflexivity.
Qed.

Lemma host_steps_scale k l : host_steps (scale_evs k l) = scale_evs k (host_steps l).
Proof. unfold host_steps, scale_evs. apply filter_map_comm. reflexivity. Qed.


Lemma keep_host_scale k incl l e : 0 < k -> keep_host incl (scale_evs k l) (scale_ev k e) = keep_host incl l e.
Proof.
  intro Hk. unfold keep_host. rewrite host_steps_scale. unfold scale_evs. rewrite !map_map.
  change (is_host (scale_ev k e)) with (is_host e). change (ts (scale_ev k e)) with (k * ts e).
  replace (map (fun x => eend (scale_ev k x)) (host_steps l)) with (map (Z.mul k) (map eend (host_steps l)))
    by (rewrite map_map; apply map_ext; intro x; symmetry; apply eend_scale).
  replace (map (fun x => ts (scale_ev k x)) (host_steps l)) with (map (Z.mul k) (map ts (host_steps l)))
    by (rewrite map_map; reflexivity).
  rewrite !maxZ0_scale by lia.
  destruct incl; [rewrite leb_scale by exact Hk | rewrite ltb_scale by exact Hk]; reflexivity.
Qed.

Lemma kept_host_scale k incl l : 0 < k -> kept_host incl (scale_evs k l) = scale_evs k (kept_host incl l).
Proof.
  intro Hk. unfold kept_host.
  transitivity (filter (keep_host incl (scale_evs k l)) (map (scale_ev k) l)); [reflexivity|].
  apply filter_map_comm. intro e. apply keep_host_scale. exact Hk.
Qed.


Lemma kept_dev_scale k incl l : 0 < k -> kept_dev incl (scale_evs k l) = scale_evs k (kept_dev incl l).
Proof.
  intro Hk. unfold kept_dev. rewrite kept_host_scale by exact Hk.
  transitivity (filter (fun g => existsb (fun c => corr c =? corr g) (scale_evs k (kept_host incl l)))
                       (filter is_dev (map (scale_ev k) l))); [reflexivity|].
  rewrite (filter_map_comm (scale_ev k) is_dev is_dev) by reflexivity.
  apply filter_map_comm. intro g. unfold scale_evs. rewrite existsb_map_f. reflexivity.
Qed.

Theorem C12_trim_scale k incl l : 0 < k -> trim incl (scale_evs k l) = scale_evs k (trim incl l).
Proof.
  intro Hk. unfold trim. rewrite host_steps_scale. unfold scale_evs at 1. rewrite map_length.
  destruct (Z.of_nat (List.length (host_steps l)) <? 2); [reflexivity|].
  rewrite kept_dev_scale, kept_host_scale by exact Hk. unfold scale_evs. rewrite map_app. reflexivity.
Qed.
