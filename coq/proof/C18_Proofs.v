From HTA.lib Require Import Base ListExtra Regex.
From HTA.model Require Import C18_Model.
Open Scope Z_scope.

(* induction principle for the nested type *)
Section FltInd.
  Variable P : flt -> Prop.
  Hypothesis HIter : forall its, P (FIter its).
  Hypothesis HIterIdx : forall ixs, P (FIterIdx ixs).
  Hypothesis HRank : forall rs, P (FRank rs).
  Hypothesis HTime : forall lo hi, P (FTime lo hi).
  Hypothesis HName : forall pat, P (FName pat).
  Hypothesis HGpu : P FGpu.
  Hypothesis HCpu : P FCpu.
  Hypothesis HMemcpy : forall nm, P (FMemcpy nm).
  Hypothesis HComp : forall fs, Forall P fs -> P (FComposite fs).
  Fixpoint flt_ind' (f : flt) : P f :=
    match f with
    | FIter its => HIter its | FIterIdx ixs => HIterIdx ixs | FRank rs => HRank rs
    | FTime lo hi => HTime lo hi | FName pat => HName pat | FGpu => HGpu | FCpu => HCpu
    | FMemcpy nm => HMemcpy nm
    | FComposite fs =>
        HComp fs ((fix go (fs : list flt) : Forall P fs :=
                     match fs with [] => Forall_nil P | g :: r => Forall_cons g (flt_ind' g) (go r) end) fs)
    end.
End FltInd.

Definition apply_seq wt tab (fs : list flt) (l : frame) : frame := fold_left (fun acc f => apply wt tab f acc) fs l.

Lemma apply_composite wt tab fs l : apply wt tab (FComposite fs) l = apply_seq wt tab fs l.
Proof.
  unfold apply_seq. simpl. revert l. induction fs as [|g r IH]; intro l; simpl; [reflexivity | apply IH].
Qed.

Lemma apply_atomic wt tab f l :
  (forall fs, f <> FComposite fs) -> apply wt tab f l = filter (pred wt tab f l) l.
Proof. intro H. destruct f; try reflexivity. exfalso. apply (H fs). reflexivity. Qed.

(* every filter returns a subsequence of its input: rows, order and contents unchanged *)
Theorem apply_sublist wt tab f : forall l, sublist (apply wt tab f l) l.
Proof.
  induction f using flt_ind'; intro l; try apply filter_sublist.
  rewrite apply_composite. unfold apply_seq. revert l.
  induction H as [|g r Hg Hr IH]; intro l; simpl; [apply sublist_refl|].
  eapply sublist_trans; [apply IH | apply Hg].
Qed.

Theorem apply_exact wt tab f l x :
  (forall fs, f <> FComposite fs) ->
  (In x (apply wt tab f l) <-> In x l /\ pred wt tab f l x = true).
Proof. intro H. rewrite apply_atomic by exact H. apply filter_In. Qed.

(* row-local filters are plain selections by a predicate that does not depend on the frame *)
Fixpoint rpred wt tab (f : flt) (x : frow) {struct f} : bool :=
  match f with
  | FComposite fs => (fix all (fs : list flt) : bool := match fs with [] => true | g :: r => rpred wt tab g x && all r end) fs
  | _ => pred wt tab f [] x
  end.

Lemma rpred_composite wt tab fs x :
  rpred wt tab (FComposite fs) x = forallb (fun g => rpred wt tab g x) fs.
Proof. simpl. induction fs as [|g r IH]; simpl; [reflexivity | rewrite IH; reflexivity]. Qed.

Lemma rowlocal_composite fs : rowlocal (FComposite fs) = forallb rowlocal fs.
Proof. simpl. induction fs as [|g r IH]; simpl; [reflexivity | rewrite IH; reflexivity]. Qed.

Theorem rowlocal_is_filter wt tab f : rowlocal f = true -> forall l, apply wt tab f l = filter (rpred wt tab f) l.
Proof.
  induction f using flt_ind'; intros Hr l; try reflexivity; try discriminate.
  rewrite apply_composite. rewrite rowlocal_composite in Hr. unfold apply_seq. revert l.
  induction H as [|g r Hg _ IH]; intro l.
  - simpl. symmetry. clear. induction l as [|x l IH]; simpl; [reflexivity | rewrite IH; reflexivity].
  - simpl in Hr. apply andb_prop in Hr. destruct Hr as [Hrg Hrr]. simpl fold_left.
    rewrite (Hg Hrg l). rewrite (IH Hrr). rewrite filter_filter. apply filter_ext_in'.
    intros x _. rewrite !rpred_composite. simpl. reflexivity.
Qed.

Theorem rowlocal_commute wt tab f g l : rowlocal f = true -> rowlocal g = true ->
  apply wt tab f (apply wt tab g l) = apply wt tab g (apply wt tab f l).
Proof. intros Hf Hg. rewrite !(rowlocal_is_filter wt tab f Hf), !(rowlocal_is_filter wt tab g Hg). apply filter_comm. Qed.

Theorem rowlocal_idempotent wt tab f l : rowlocal f = true -> apply wt tab f (apply wt tab f l) = apply wt tab f l.
Proof. intro Hf. rewrite !(rowlocal_is_filter wt tab f Hf). apply filter_idem. Qed.

Theorem rowlocal_intersection wt tab f g l x : rowlocal f = true -> rowlocal g = true ->
  (In x (apply wt tab (FComposite [f; g]) l) <-> In x (apply wt tab f l) /\ In x (apply wt tab g l)).
Proof.
  intros Hf Hg. rewrite apply_composite. unfold apply_seq. simpl.
  rewrite !(rowlocal_is_filter wt tab f Hf), !(rowlocal_is_filter wt tab g Hg). rewrite !filter_In. tauto.
Qed.

(* the documented predicates, spelled out *)
Theorem pred_spec wt tab l x :
  let e := fst x in
  (forall its, pred wt tab (FIter its) l x = true <-> In (iter e) its) /\
  (forall rs, pred wt tab (FRank rs) l x = true <-> In (snd x) rs) /\
  (forall lo hi, pred wt tab (FTime lo hi) l x = true <-> lo <= ts e /\ ts e + dur e <= hi) /\
  (forall pat, pred wt tab (FName pat) l x = true <-> exists s1 s2, name e = (s1 ++ s2)%string /\ matches pat s1) /\
  (pred true tab FGpu l x = is_dev e) /\ (pred true tab FCpu l x = negb (is_dev e)).
Proof.
  assert (M : forall v vs, memZ v vs = true <-> In v vs).
  { intros v vs. unfold memZ. rewrite existsb_exists. split.
    - intros [y [Hy E]]. apply Z.eqb_eq in E. subst. exact Hy.
    - intro H. exists v. split; [exact H | apply Z.eqb_refl]. }
  cbv zeta. split; [intro its; simpl; apply M|]. split; [intro rs; simpl; apply M|].
  split.
  { intros lo hi. simpl. rewrite andb_true_iff. lia. }
  split; [intro pat; simpl; apply match_prefix_spec|].
  split; reflexivity.
Qed.

(* position among the iterations present *)
Lemma insertZ_in x y l : In y (insertZ x l) <-> y = x \/ In y l.
Proof.
  induction l as [|z l IH]; simpl; [intuition|].
  destruct (x <? z) eqn:E1; [simpl; intuition|].
  destruct (x =? z) eqn:E2.
  - apply Z.eqb_eq in E2. subst. simpl. intuition.
  - simpl. rewrite IH. intuition.
Qed.

Theorem sorted_unique_in l y : In y (sorted_unique l) <-> In y l.
Proof.
  induction l as [|x l IH]; simpl; [tauto|]. rewrite insertZ_in, IH. intuition.
Qed.
