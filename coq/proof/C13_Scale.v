(* C13: the enhanced call graph's parent relation (host trees, backward attachment, device children) is the same at every
   resolution; depth and height are functions of that relation alone.  (The kernel totals scale with the times except for their
   sentinels -1 / 2*max ts; not stated here.) *)
From HTA.lib Require Import Base.
From HTA.gen Require Import Cmp_gen.
From HTA.model Require Import C03_Model C13_Model.
From HTA.proof Require Import Scale C03_Scale.
Open Scope Z_scope.


Lemma thread_of_scale k l e : thread_of (scale_evs k l) (scale_ev k e) = scale_evs k (thread_of l e).
Proof. unfold thread_of, scale_evs. apply filter_map_comm. reflexivity. Qed.


Lemma is_cpu_thread_scale k l e : is_cpu_thread (scale_evs k l) (scale_ev k e) = is_cpu_thread l e.
Proof.
  unfold is_cpu_thread. rewrite thread_of_scale. unfold scale_evs. rewrite forallb_map_f. reflexivity.
Qed.


Lemma thread_heads_scale k seen l :
  thread_heads (scale_evs k seen) (scale_evs k l) = scale_evs k (thread_heads seen l).
Proof.
  revert seen. induction l as [|e r IH]; intro seen; cbn [scale_evs map thread_heads]; [reflexivity|].
  fold (scale_evs k r). fold (scale_evs k seen). unfold scale_evs at 1. rewrite existsb_map_f.
  change (existsb (fun x => same_thread (scale_ev k e) (scale_ev k x)) seen) with (existsb (same_thread e) seen).
  destruct (existsb (same_thread e) seen); [apply IH|].
  cbn [map]. f_equal. apply (IH (e :: seen)).
Qed.

Lemma cpu_thread_heads_scale k l : cpu_thread_heads (scale_evs k l) = scale_evs k (cpu_thread_heads l).
Proof.
  unfold cpu_thread_heads. change (thread_heads [] (scale_evs k l)) with (thread_heads (scale_evs k []) (scale_evs k l)).
  rewrite thread_heads_scale. unfold scale_evs at 1 3. apply filter_map_comm.
  intro e. apply is_cpu_thread_scale.
Qed.

Lemma host_part_scale k l e : host_part (scale_evs k l) (scale_ev k e) = scale_evs k (host_part l e).
Proof. unfold host_part. rewrite thread_of_scale. unfold scale_evs. apply filter_map_comm. reflexivity. Qed.

Lemma host_edges_scale k l : 0 < k -> host_edges (scale_evs k l) = host_edges l.
Proof.
  intro Hk. unfold host_edges. rewrite cpu_thread_heads_scale.
  change (scale_evs k (cpu_thread_heads l)) with (map (scale_ev k) (cpu_thread_heads l)). rewrite flat_map_map.
  apply flat_map_ext_eq. intro h. rewrite host_part_scale. apply (C03_scale k (host_part l h) Hk).
Qed.


Lemma in_cpu_thread_scale k l i : in_cpu_thread (scale_evs k l) i = in_cpu_thread l i.
Proof.
  unfold in_cpu_thread.
  transitivity (existsb (fun e => (idx e =? i) && is_cpu_thread (scale_evs k l) e && (stream e =? -1)) (map (scale_ev k) l)); [reflexivity|].
  rewrite existsb_map_f. apply existsb_ext_eq. intro e.
  change (idx (scale_ev k e)) with (idx e). change (stream (scale_ev k e)) with (stream e). rewrite is_cpu_thread_scale. reflexivity.
Qed.

Lemma dev_edges_scale k l : dev_edges (scale_evs k l) = dev_edges l.
Proof.
  unfold dev_edges.
  rewrite (filter_ext _ (fun k0 => (0 <? stream k0) && (0 <? icorr k0) && in_cpu_thread l (icorr k0)))
    by (intro a; rewrite in_cpu_thread_scale; reflexivity).
  unfold scale_evs.
  rewrite (filter_map_comm (scale_ev k) _ (fun k0 => (0 <? stream k0) && (0 <? icorr k0) && in_cpu_thread l (icorr k0))) by reflexivity.
  rewrite map_map. reflexivity.
Qed.

Lemma is_main_scale k l h : is_main (scale_evs k l) (scale_ev k h) = is_main l h.
Proof. unfold is_main, has_name_prefix. rewrite thread_of_scale. unfold scale_evs. rewrite existsb_map_f. reflexivity. Qed.

Lemma is_bwd_scale k l h : is_bwd (scale_evs k l) (scale_ev k h) = is_bwd l h.
Proof.
  unfold is_bwd. rewrite is_main_scale. unfold has_name_infix. rewrite thread_of_scale. unfold scale_evs.
  rewrite existsb_map_f. reflexivity.
Qed.

Lemma bwd_parents_scale k th : bwd_parents (scale_evs k th) = scale_evs k (bwd_parents th).
Proof.
  unfold bwd_parents, scale_evs.
  rewrite (filter_map_comm (scale_ev k) _ (fun e => starts_with "## backward ##" (name e))) by reflexivity.
  destruct (filter (fun e => starts_with "## backward ##" (name e)) th) as [|p ps]; cbn [map].
  - apply filter_map_comm. reflexivity.
  - reflexivity.
Qed.

Lemma reparent_scale k l ids es p : 0 < k ->
  reparent (scale_evs k l) ids es (scale_ev k p) = reparent l ids es p.
Proof.
  intro Hk. unfold reparent. apply map_ext. intro cp.
  destruct ((snd cp <? 0) && existsb (Z.eqb (fst cp)) ids); [|reflexivity].
  rewrite (find_scale k (fun e => idx e =? fst cp)) by reflexivity.
  destruct (find (fun e => idx e =? fst cp) l) as [e|]; cbn [option_map]; [|reflexivity].
  rewrite !eend_scale. change (ts (scale_ev k p)) with (k * ts p). change (ts (scale_ev k e)) with (k * ts e).
  change (idx (scale_ev k p)) with (idx p). rewrite !leb_scale by exact Hk. reflexivity.
Qed.

Lemma fold_reparent_scale k l ids ps es : 0 < k ->
  fold_left (reparent (scale_evs k l) ids) (scale_evs k ps) es = fold_left (reparent l ids) ps es.
Proof.
  intro Hk. revert es. induction ps as [|p r IH]; intro es; cbn [scale_evs map fold_left]; [reflexivity|].
  rewrite reparent_scale by exact Hk. apply IH.
Qed.

Lemma map_idx_scale k x : map idx (scale_evs k x) = map idx x.
Proof. unfold scale_evs. rewrite map_map. reflexivity. Qed.

Lemma attach_bwd_scale k l edges : 0 < k -> attach_bwd (scale_evs k l) edges = attach_bwd l edges.
Proof.
  intro Hk. unfold attach_bwd. rewrite cpu_thread_heads_scale.
  change (scale_evs k (cpu_thread_heads l)) with (map (scale_ev k) (cpu_thread_heads l)).
  rewrite (filter_map_comm (scale_ev k) _ (is_main l)) by (intro e; apply is_main_scale).
  rewrite (filter_map_comm (scale_ev k) _ (is_bwd l)) by (intro e; apply is_bwd_scale).
  destruct (filter (is_main l) (cpu_thread_heads l)) as [|m [|m' ms]]; cbn [map]; try reflexivity.
  destruct (filter (is_bwd l) (cpu_thread_heads l)) as [|b [|b' bs]]; cbn [map]; try reflexivity.
  rewrite !thread_of_scale, bwd_parents_scale, map_idx_scale.
  apply fold_reparent_scale. exact Hk.
Qed.

Theorem C13_parent_map_scale k l : 0 < k -> parent_map (scale_evs k l) = parent_map l.
Proof.
  intro Hk. unfold parent_map. rewrite host_edges_scale, dev_edges_scale, attach_bwd_scale by exact Hk. reflexivity.
Qed.

(* ---------- kernel totals: count unchanged, summed duration and earliest start multiplied by k, latest end multiplied by k or
   still the sentinel -1 ---------- *)
Definition kinfo_rel (k : Z) (a a' : kinfo) : Prop :=
  let '(c, s, f, e) := a in let '(c', s', f', e') := a' in
  c' = c /\ s' = k * s /\ f' = k * f /\ (e' = k * e \/ (e = -1 /\ e' = -1)).

Lemma k_none_rel k tmax : kinfo_rel k (k_none tmax) (k_none (k * tmax)).
Proof. unfold kinfo_rel, k_none. repeat split; try ring. right. split; reflexivity. Qed.

Lemma k_join_rel k a a' b b' : 0 < k -> kinfo_rel k a a' -> kinfo_rel k b b' -> kinfo_rel k (k_join a b) (k_join a' b').
Proof.
  intro Hk. destruct a as [[[c1 s1] f1] e1], a' as [[[c1' s1'] f1'] e1'], b as [[[c2 s2] f2] e2], b' as [[[c2' s2'] f2'] e2'].
  unfold kinfo_rel, k_join. intros [Hc1 [Hs1 [Hf1 He1]]] [Hc2 [Hs2 [Hf2 He2]]]. subst c1' s1' f1' c2' s2' f2'.
  split; [reflexivity|]. split; [ring|]. split; [apply min_scale; lia|].
  destruct He1 as [He1|[He1 He1']]; destruct He2 as [He2|[He2 He2']]; subst.
  - left. apply max_scale. lia.
  - destruct (Z_le_gt_dec 0 e1) as [H|H].
    + left. rewrite !Z.max_l by nia. reflexivity.
    + right. split; apply Z.max_r; nia.
  - destruct (Z_le_gt_dec 0 e2) as [H|H].
    + left. rewrite !Z.max_r by nia. reflexivity.
    + right. split; apply Z.max_l; nia.
  - right. split; reflexivity.
Qed.

Lemma fold_join_rel k (g g' : Z -> kinfo) cs a a' : 0 < k ->
  kinfo_rel k a a' -> (forall c, kinfo_rel k (g c) (g' c)) ->
  kinfo_rel k (fold_left (fun acc c => k_join acc (g c)) cs a) (fold_left (fun acc c => k_join acc (g' c)) cs a').
Proof.
  intros Hk Ha Hg. revert a a' Ha. induction cs as [|c r IH]; intros a a' Ha; cbn [fold_left]; [exact Ha|].
  apply IH. apply k_join_rel; [exact Hk | exact Ha | apply Hg].
Qed.

Theorem C13_kinfo_scale k fuel l devs m tmax i : 0 < k ->
  kinfo_rel k (kinfo_of fuel l devs m tmax i) (kinfo_of fuel (scale_evs k l) devs m (k * tmax) i).
Proof.
  intro Hk. revert i. induction fuel as [|f IH]; intro i; cbn [kinfo_of]; [apply k_none_rel|].
  destruct (is_dev_node devs i).
  - rewrite (find_scale k (fun e => idx e =? i)) by reflexivity.
    destruct (find (fun e => idx e =? i) l) as [e|]; cbn [option_map]; [|apply k_none_rel].
    unfold kinfo_rel. rewrite eend_scale. repeat split; try reflexivity. left. reflexivity.
  - apply fold_join_rel; [exact Hk | apply k_none_rel | exact IH].
Qed.
