"""C03: call stack: parent is the innermost enclosing event on the thread (both builders)."""
import random
import tracegen
import framework as fw
import translate

ID = "C03"
COQ_IMPORTS = ["From HTA.model Require Import C03_Model."]
SOURCES = {"hta/common/trace_call_stack.py": ["_construct_call_stack_graph", "_add_edge", "sort_events", "is_events_sorted", "_less_than",
                                              "_cmp_events_with_zero_duration", "_get_all_root_indices", "_compute_depth", "get_depth"],
           "hta/common/call_stack.py": ["_construct_call_stack_graph", "_add_edge", "compare_events", "_construct_call_graph", "get_depth"],
           "hta/common/trace_call_graph.py": ["_build_call_stacks", "_connect_stacks"]}
TRANSLATE = [translate.gen_cmp]
N_CASES = {"quick": 300, "thorough": 6000}
RULE = ("generated properly nested host threads (1-3 per rank, depth <= 5, tiny time domains: shared starts and ends, identical spans, back-to-back siblings, "
        "zero-duration events at boundaries / inside / at touching instants; shuffled file order so that ids are arbitrary); both builders run on every thread; "
        "compared with the model exactly on threads without zero-duration events (the sorted endpoint order is then unique, theorem C03_new_cmp_total_order); "
        "the property itself (innermost encloser, zero-duration placement, depth, every event once, removal of zero-duration events leaves the positive "
        "parents alone) is evaluated on every implementation output; non-trivial = a thread with depth >= 2 and an equal-timestamp pair; distinct = hash of file set")
ASSUMPTIONS = ["events of one host thread are properly nested (generator; checked per thread, others skipped)",
               "Python's sorted() returns the unique sorted sequence when the comparator is a strict total order on the inputs"]


def gen_cases(seed, tier, n):
    out = []
    profs = ["stack_tiny", "stack_tiny", "stack_nozero", "default"]
    for i in range(n):
        c = tracegen.gen_case(seed, i, tracegen.PROFILES[profs[i % len(profs)]])
        if i % 150 == 9:
            c = tracegen.gen_deep_case(seed, i)      # 1100 levels of nesting ("any depth")
        c["params"] = {}
        if i % 6 == 5:
            _mixed_last_group(c, random.Random(seed * 104729 + i))
        if i % 8 == 6:
            fw.set_quarter_us(c)           # quarter-microsecond resolution (framework.resolution)
        if i % 7 == 3:
            tracegen.add_second_process(c, random.Random(seed * 15485863 + i))     # two processes, same thread id
        if i % 9 == 4:
            tracegen.huge_thread_ids(c)                                            # pthread-style thread ids far beyond 2**31
        out.append(c)
    return out


def _mixed_last_group(case, rng):
    """The (process, thread) group that sorts last in a rank is one whose rows mix 'no stream' with a stream id: the device
    rows get a process id above the host's, and a device-side annotation without args.stream sits on one of its streams
    (some ranks only).  The host threads' call stacks and columns must not depend on what another group holds."""
    for rk in case["ranks"].values():
        if rng.random() < 0.3:
            continue
        evs = rk["events"]
        gp = next((e["pid"] for e in evs if e.get("cat") in ("kernel", "Kernel", "gpu_memcpy", "gpu_memset")), None)
        if gp is None:
            continue
        new_pid = max(e.get("pid", 0) for e in evs if isinstance(e.get("pid", 0), int)) + rng.choice([1, 1000])
        dev = [e for e in evs if e.get("pid") == gp and e.get("ph") == "X" and "stream" in (e.get("args") or {})]
        if not dev:
            continue
        for e in evs:
            if e.get("pid") == gp:
                e["pid"] = new_pid
        last_tid = max(e["tid"] for e in dev)
        span = [e for e in dev if e["tid"] == last_tid]
        a = min(e["ts"] for e in span)
        b_ = max(e["ts"] + e["dur"] for e in span)
        evs.append({"ph": "X", "cat": "gpu_user_annotation", "name": "fwd", "pid": new_pid, "tid": last_tid, "ts": a, "dur": b_ - a + 1, "args": {}})


def threads_of(rows):
    th = {}
    for r in rows:
        th.setdefault((r["pid"], r["tid"]), []).append(r)
    return {k: v for k, v in th.items() if all(x["stream"] < 0 for x in v)}


def properly_nested(evs):
    for i, a in enumerate(evs):
        for b_ in evs[i + 1:]:
            a0, a1, b0, b1 = a["ts"], a["ts"] + a["dur"], b_["ts"], b_["ts"] + b_["dur"]
            if not (a1 <= b0 or b1 <= a0 or (a0 <= b0 and b1 <= a1) or (b0 <= a0 and a1 <= b1)):
                return False
    return True


def run_impl(case, d):
    with fw.resolution(case):
        return _run_impl(case, d)


def _run_impl(case, d):
    import pandas as pd
    from hta.common.trace import get_cpu_gpu_correlation
    from hta.common import trace_call_stack as new
    from hta.common import call_stack as old
    ta, paths = fw.load_case_res(case, d)
    sym = ta.t.symbol_table.get_sym_table()
    out = {}
    for r in sorted(ta.t.get_ranks()):
        df = ta.t.get_trace(r)
        rows = fw.dump_frame_res(case, df, sym)
        for (pid, tid), evs in threads_of(rows).items():
            ids = [e["idx"] for e in evs]
            res = {"evs": [[e["idx"], e["ts"], e["dur"]] for e in evs]}
            for label, sel in (("all", ids), ("pos", [e["idx"] for e in evs if e["dur"] > 0])):
                dft = df.loc[sel]
                if not len(dft):
                    res["new_" + label] = {}
                    res["old_" + label] = {}
                    continue
                try:
                    g = new.CallStackGraph(dft, new.CallStackIdentity(r, pid, tid), get_cpu_gpu_correlation(df), df.copy(), ta.t.symbol_table, None,
                                           save_call_stack_to_df=False)
                    nodes = g.get_nodes()
                    res["new_" + label] = {int(k): [int(v.parent) if int(v.parent) >= 0 else -1, int(v.depth)] for k, v in nodes.items() if int(k) in sel}
                    res["new_extra_" + label] = sorted(int(k) for k in nodes if int(k) >= 0 and int(k) not in set(sel) and df.loc[int(k), "stream"] == -1)
                except Exception as e:
                    res["new_" + label] = "error: " + type(e).__name__ + ": " + str(e)[:120]
                try:
                    g = old.CallStackGraph(dft, old.CallStackIdentity(r, pid, tid))
                    nodes = g.get_nodes()
                    res["old_" + label] = {int(k): [int(v.parent), int(v.depth)] for k, v in nodes.items() if int(k) >= 0}
                except Exception as e:
                    res["old_" + label] = "error: " + type(e).__name__ + ": " + str(e)[:120]
            out[f"{r}|{pid}|{tid}"] = res
    # the second observable: the parent / depth columns the two CallGraph classes write into the trace
    cols = {}
    for label, mod_name in (("old", "hta.common.call_stack"), ("new", "hta.common.trace_call_graph")):
        import importlib
        try:
            CG = importlib.import_module(mod_name).CallGraph
            ranks = sorted(ta.t.get_ranks())
            CG(ta.t, ranks=ranks)
            for r in ranks:
                df = ta.t.get_trace(r)
                cols[f"{label}|{r}"] = {int(i): [(-1 if (p != p or int(p) < 0) else int(p)), (-9 if d_ != d_ else int(d_))]
                                        for i, p, d_, st in zip(df.index, df["parent"], df["depth"], df["stream"]) if st == -1}
        except Exception as e:
            import traceback
            cols[f"{label}|error"] = type(e).__name__ + ": " + str(e)[:200] + " @ " + traceback.format_exc()[-300:]
    has_autograd = any("autograd::" in e.get("name", "") for rk in case["ranks"].values() for e in rk["events"])
    return {"threads": out, "columns": cols, "has_autograd": has_autograd}


def coq_term(case, impl):
    items = []
    for key, res in sorted(impl["threads"].items()):
        # a thread of a deep-nesting case is decided by the property check on the outputs alone (the model's depth computation is cubic)
        rows = [] if len(res["evs"]) > 600 else \
            [{"idx": i, "ts": t, "dur": d_, "pid": 0, "tid": 0, "stream": -1, "corr": -1, "icorr": -1, "iter": -1, "name": "e", "cat": "c"} for i, t, d_ in res["evs"]]
        items.append(f"encode_C03 {fw.evl(rows)}")
    return "[" + ";\n ".join(items) + "]"


def spec_check(evs, nodes, which):
    """The property itself on one thread: evs = [[idx, ts, dur]], nodes = {idx: [parent, depth]}."""
    bad = []
    E = {i: (t, t + d_, d_) for i, t, d_ in evs}
    if sorted(nodes) != sorted(E):
        bad.append(f"{which}: node set {sorted(nodes)[:8]} differs from the thread's events {sorted(E)[:8]} (every event exactly once)")
        return bad
    for b_, (p, dep) in nodes.items():
        t0, t1, d_ = E[b_]
        if p != -1 and p not in E:
            bad.append(f"{which}: parent {p} of {b_} is not an event of the thread")
            continue
        want_depth = 0 if p == -1 else nodes[p][1] + 1
        if dep != want_depth:
            bad.append(f"{which}: depth of {b_} is {dep}, its parent {p} has depth {nodes.get(p, [None, -1])[1]}")
        if d_ > 0:
            encl = [a for a, (a0, a1, ad) in E.items() if a != b_ and ad > 0 and a0 <= t0 and t1 <= a1 and ((a0, a1) != (t0, t1) or a < b_)]
            if not encl:
                want = -1
            else:
                want = max(encl, key=lambda a: (E[a][0], -E[a][1], a))
            if p != want:
                bad.append(f"{which}: parent of {b_} [{t0},{t1}) is {p}{'' if p == -1 else ' ' + str(list(E[p][:2]))}, innermost enclosing event is {want}"
                           f"{'' if want == -1 else ' ' + str(list(E[want][:2]))}")
        else:
            if p != -1 and not (E[p][0] <= t0 <= E[p][1]):
                bad.append(f"{which}: zero-duration event {b_} at {t0} placed under {p} {list(E[p][:2])} whose closed span does not contain it")
    return bad


def compare(case, impl, model):
    disc = []
    for (key, res), m in zip(sorted(impl["threads"].items()), model):
        evs = res["evs"]
        named = [{"ts": t, "dur": d_} for _, t, d_ in evs]
        if not properly_nested(named) or len({i for i, _, _ in evs}) != len(evs):
            continue
        haszero = any(d_ == 0 for _, _, d_ in evs)
        for which, mm in (("new", m[0]), ("old", m[1])):
            got = res[which + "_all"]
            if isinstance(got, str):
                disc.append(f"thread {key}: {which} builder raised {got}")
                continue
            got = {int(k): v for k, v in got.items()}
            if which == "new" and res.get("new_extra_all"):
                disc.append(f"thread {key}: new builder created nodes for host events of other threads: {res['new_extra_all'][:5]}")
            disc += [f"thread {key}: " + b for b in spec_check(evs, got, which + " builder")[:3]]
            if not haszero and len(evs) <= 600:
                want = {r[0]: [r[1], r[2]] for r in mm}
                if got != want:
                    diff = [(k, got.get(k), want.get(k)) for k in sorted(set(got) | set(want)) if got.get(k) != want.get(k)][:4]
                    disc.append(f"thread {key}: {which} builder differs from the model (idx, impl [parent, depth], model): {diff}")
            else:
                pos = res[which + "_pos"]
                if isinstance(pos, str):
                    disc.append(f"thread {key}: {which} builder raised {pos} on the thread without its zero-duration events")
                else:
                    pos = {int(k): v for k, v in pos.items()}
                    moved = [(k, got[k][0], pos[k][0]) for k in pos if k in got and got[k][0] != pos[k][0]]
                    if moved:
                        disc.append(f"thread {key}: {which} builder: zero-duration events change the parent of positive-duration events "
                                    f"(idx, parent with, parent without): {moved[:4]}")
    # the columns written into the trace by the two CallGraph classes agree with the call stacks of the threads
    cols = impl.get("columns", {})
    for label in ("old", "new"):
        if f"{label}|error" in cols:
            disc.append(f"{label} CallGraph raised {cols[label + '|error']}")
            continue
        if label == "new" and impl.get("has_autograd"):
            continue        # the autograd thread is re-parented beneath the main thread's annotations (C13's subject)
        for key, res in sorted(impl["threads"].items()):
            r = key.split("|")[0]
            nodes = res[label + "_all"]
            col = cols.get(f"{label}|{r}")
            if isinstance(nodes, str) or col is None:
                continue
            col = {int(k): v for k, v in col.items()}
            bad = [(int(k), col.get(int(k)), [v[0] if v[0] >= 0 else -1, v[1]]) for k, v in nodes.items()
                   if col.get(int(k)) != [v[0] if v[0] >= 0 else -1, v[1]]][:4]
            if bad:
                disc.append(f"thread {key}: [parent, depth] columns written by the {label} CallGraph differ from the thread's call stack "
                            f"(idx, columns, call stack): {bad}")
    return disc[:8]


def nontrivial(case, impl):
    for res in impl["threads"].values():
        got = res.get("new_all")
        if isinstance(got, dict) and any(v[1] >= 2 for v in got.values()):
            ts = [t for _, t, _ in res["evs"]] + [t + d_ for _, t, d_ in res["evs"]]
            if len(set(ts)) < len(ts):
                return True
    return False


def _touching_zero(evs):
    ends = {t + d_ for _, t, d_ in evs if d_ > 0}
    starts = {t for _, t, d_ in evs if d_ > 0}
    return any(d_ == 0 and t in ends and t in starts for _, t, d_ in evs)


def classify(case, impl, model, disc):
    if not disc:
        return None
    # known finding: the new builder's recursive passes exceed Python's recursion limit on a thread nested about 1000 levels deep
    if case.get("deep", 0) >= 990 and all("RecursionError" in dline and ("new builder" in dline or "new CallGraph" in dline) for dline in disc):
        return "C03-new-builder-recursion-limit"
    # known finding D2: a zero-duration event at an instant where one positive-duration event ends and another begins
    keys = set()
    for dline in disc:
        if not dline.startswith("thread "):
            return None
        key = dline.split(":")[0][7:]
        res = impl["threads"].get(key)
        if res is None or not _touching_zero(res["evs"]):
            return None
        if "raised" in dline or "differs from the model" in dline or "every event exactly once" in dline:
            return None
    return "C03-zero-duration-at-touching-instant"


LEVEL_TEXT = ("Proof: C03_new_cmp_total_order (the GENERATED _less_than is, on endpoints of positive-duration events with distinct ids, exactly the lexicographic key "
              "order: irreflexive, transitive, total), C03_enclosure_is_key_order, C03_no_crossing, C03_parent_innermost (the stack machine over the key-sorted "
              "endpoints of a properly nested family gives every event its innermost encloser), C03_each_once; zero-duration events: C03_zero_refuted exhibits the "
              "cyclic triple of the generated comparator. Correspondence of both builders with the model and the property evaluated on every implementation output."
              " C03_resolution_independent: multiplying all times by k > 0 changes neither builder's parent relation (proved over the generated comparators).")
LEVEL_NOTE = ("Translator (fail-closed) for _less_than, _cmp_events_with_zero_duration, compare_events; hand model of the endpoint array, the sort driver and the "
              "stack machine. Python's sorted() is trusted to return the unique sorted sequence of a strict total order.")
TECHNIQUE = "Coq proof over comparators regenerated from the source (order theory + stack-machine invariant) + differential correspondence + verified property check on outputs"
