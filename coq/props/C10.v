(* C10 property theorems (verified checker): the breakdown conserves the path weight and attributes it correctly. *)
From HTA.lib Require Import Base Dag.
From HTA.gen Require Import CpRules_gen.
From HTA.model Require Import C08_Model C08_Host C08_Dev.
From HTA.proof Require Import C08_Proofs C08_HostProofs C08_RulesTie.
Open Scope Z_scope.

(* host side, by proof about the builder's state machine: for EVERY depth-first traversal of properly nested events in time order,
   every operator-span edge is attributed to an existing event of the thread whose span covers the edge's time range (also when
   events without graph nodes, such as user annotations, sit anywhere in the nest); dependency edges carry no attribution *)
Theorem C10_host_attribution_covers : forall tab acts t0,
  wf_actions tab [] [] t0 acts = true -> Forall (attribution_covers tab) (host_edges_of tab acts).
Proof. exact host_attribution_covers. Qed.
Print Assumptions C10_host_attribution_covers.

(* the tie by regeneration: the attributions of the two builder models are those of the rule GENERATED from the current source
   (CPGraph._attribute_edge: which edge types are attributed, and the chain choosing source event / destination event / parent) *)
Theorem C10_attribution_follows_generated_rule :
  (forall tab s a e, In e (snd (hstep tab s a)) -> rule_attr e (s_lastp s)) /\ (forall zw st r e, In e (snd (fst (dstep zw st r))) -> rule_attr e (-1)).
Proof.
  split; [intros tab s a e H; apply (host_rules_are_generated tab s a e H)|].
  intros zw st r e H. destruct (dev_rules_are_generated zw st r e H) as [z [_ [_ H3]]]. exact H3.
Qed.
Print Assumptions C10_attribution_follows_generated_rule.

(* the bound-by class demanded by the checker is the one bound_by, GENERATED from the current source, returns for the row's type and
   the attributed event's stream and name *)
Theorem C10_bound_by_follows_generated_rule : forall clipped ty evid a, find_ev clipped evid = Some a ->
  bound_code clipped ty evid = bound_by_gen ty (stream a) (is_comm_kernel (name a)).
Proof. exact bound_code_is_generated. Qed.
Print Assumptions C10_bound_by_follows_generated_rule.

Theorem C10_row_rule : forall clipped N r, brow_ok clipped N r = true ->
  exists nu nv, find_node N (r_u r) = Some nu /\ find_node N (r_v r) = Some nv /\
    r_bound r = bound_code clipped (r_ty r) (r_ev r) /\
    (r_ty r = 0 -> exists a eu ev_, find_ev clipped (r_ev r) = Some a /\ find_ev clipped (c_ev nu) = Some eu /\ find_ev clipped (c_ev nv) = Some ev_ /\
                   ts a <= c_ts nu /\ c_ts nv <= ts a + dur a /\ pid a = pid eu /\ tid a = tid eu /\ pid a = pid ev_ /\ tid a = tid ev_) /\
    (r_ty r = 3 -> r_ev r = c_ev nu) /\
    (r_ty r <> 0 -> r_ty r <> 3 -> r_ev r = -1).
Proof. exact brow_ok_sound. Qed.
Print Assumptions C10_row_rule.

Theorem C10_check_sound : forall clipped N cp_edges rows path_w,
  check_C10 clipped N cp_edges rows path_w = [true; true; true] ->
  sumZ (map r_w rows) = path_w /\ forall r, In r rows -> brow_ok clipped N r = true.
Proof. exact check_C10_sound. Qed.
Print Assumptions C10_check_sound.

(* the bound-by rule spelled out *)
Theorem C10_bound_by_rule : forall clipped ty evid a, find_ev clipped evid = Some a -> ty = 0 ->
  bound_code clipped ty evid = (if stream a <? 0 then 0 else if is_comm_kernel (name a) then 2 else 1).
Proof. intros clipped ty evid a H T. unfold bound_code. subst ty. cbn. rewrite H. reflexivity. Qed.
Print Assumptions C10_bound_by_rule.

Definition cl10 : list ev :=
  [ mkEv 1 0 6 1 1 (-1) (-1) (-1) (-1) "aten::add" "cpu_op"; mkEv 2 1 2 1 1 (-1) 7 3 (-1) "cudaLaunchKernel" "cuda_runtime";
    mkEv 3 5 4 0 7 7 7 2 (-1) "ncclKernel_AllReduce" "kernel" ].
Definition n10 : list cpnode :=
  [ mkN 0 1 0 true false; mkN 1 2 1 true false; mkN 2 2 3 false false; mkN 3 3 5 true false; mkN 4 1 6 false false; mkN 5 3 9 false false ].
Example C10_nonvacuous :
  check_C10 cl10 n10 [mkE 0 1 1 0; mkE 1 3 4 2; mkE 3 5 4 0] [mkBR 0 1 1 0 1 0; mkBR 1 3 4 2 (-1) 4; mkBR 3 5 4 0 3 2] 9 = [true; true; true].
Proof. vm_compute. reflexivity. Qed.
