From Coq Require Import Permutation.
From HTA.lib Require Import Base.
From HTA.gen Require Import Symtab_gen.
From HTA.model Require Import C11_Model.
Open Scope list_scope.
Open Scope Z_scope.

(* the two structures agree: sym_index[s] = i  <->  sym_table[i] = s; no symbol twice *)
Definition consistent (t : symtab) : Prop :=
  NoDup (sym_table t) /\
  forall s i, lookup s (sym_index t) = Some i <-> (0 <= i /\ nth_error (sym_table t) (Z.to_nat i) = Some s).

Lemma consistent_empty : consistent empty_symtab.
Proof.
  split; [constructor|]. intros s i. simpl. split; [discriminate|].
  intros [_ H]. destruct (Z.to_nat i); discriminate.
Qed.

Lemma lookup_none_notin t s : consistent t -> lookup s (sym_index t) = None -> ~ In s (sym_table t).
Proof.
  intros [_ Hc] Hn Hin. apply In_nth_error in Hin. destruct Hin as [n Hn'].
  assert (H : lookup s (sym_index t) = Some (Z.of_nat n)).
  { apply Hc. split; [lia|]. rewrite Nat2Z.id. exact Hn'. }
  congruence.
Qed.

Lemma add_one_consistent t s : consistent t -> consistent (add_one t s).
Proof.
  intros Hc. unfold add_one. destruct (lookup s (sym_index t)) as [i|] eqn:L; [exact Hc|].
  pose proof (lookup_none_notin t s Hc L) as Hnotin. destruct Hc as [Hnd Hc]. split; simpl.
  - (* NoDup (tab ++ [s]) *)
    clear Hc L. induction (sym_table t) as [|x l IH]; simpl; [constructor; [intros [] | constructor]|].
    inversion Hnd as [|? ? Hx Hnd']; subst. constructor.
    + intro Hin. apply in_app_or in Hin. destruct Hin as [Hin|[Hin|[]]]; [auto|]. subst. apply Hnotin. left. reflexivity.
    + apply IH; [exact Hnd'|]. intro Hin. apply Hnotin. right. exact Hin.
  - intros s' i. destruct (String.eqb s' s) eqn:E.
    + apply String.eqb_eq in E. subst s'. split.
      * intro H. inversion H; subst. split; [lia|]. rewrite Nat2Z.id. rewrite nth_error_app2 by lia.
        rewrite Nat.sub_diag. reflexivity.
      * intros [Hi Hn]. f_equal.
        destruct (Nat.lt_ge_cases (Z.to_nat i) (List.length (sym_table t))) as [Hlt|Hge].
        -- rewrite nth_error_app1 in Hn by exact Hlt. exfalso. apply Hnotin. eapply nth_error_In. exact Hn.
        -- assert (Hlen : (Z.to_nat i < List.length (sym_table t ++ [s]))%nat).
           { apply nth_error_Some. rewrite Hn. discriminate. }
           rewrite app_length in Hlen. simpl in Hlen. lia.
    + rewrite Hc. split.
      * intros [Hi Hn]. split; [exact Hi|]. rewrite nth_error_app1; [exact Hn|]. apply nth_error_Some. rewrite Hn. discriminate.
      * intros [Hi Hn]. split; [exact Hi|].
        destruct (Nat.lt_ge_cases (Z.to_nat i) (List.length (sym_table t))) as [Hlt|Hge].
        -- rewrite nth_error_app1 in Hn by exact Hlt. exact Hn.
        -- rewrite nth_error_app2 in Hn by exact Hge. destruct (Z.to_nat i - List.length (sym_table t))%nat as [|k]; simpl in Hn.
           ++ inversion Hn; subst. rewrite String.eqb_refl in E. discriminate.
           ++ destruct k; discriminate.
Qed.

Lemma add_symbols_consistent syms : forall t, consistent t -> consistent (add_symbols t syms).
Proof.
  unfold add_symbols. induction syms as [|s syms IH]; intros t Hc; simpl; [exact Hc|].
  apply IH. apply add_one_consistent. exact Hc.
Qed.

(* ids once assigned never change: the table before a call is a prefix of the table after it *)
Lemma add_one_prefix t s : exists ext, sym_table (add_one t s) = sym_table t ++ ext.
Proof.
  unfold add_one. destruct (lookup s (sym_index t)); [exists []; rewrite app_nil_r; reflexivity | exists [s]; reflexivity].
Qed.

Lemma add_symbols_prefix syms : forall t, exists ext, sym_table (add_symbols t syms) = sym_table t ++ ext.
Proof.
  unfold add_symbols. induction syms as [|s syms IH]; intro t; simpl; [exists []; rewrite app_nil_r; reflexivity|].
  destruct (IH (add_one t s)) as [e1 H1]. destruct (add_one_prefix t s) as [e2 H2].
  exists (e2 ++ e1). rewrite H1, H2, app_assoc. reflexivity.
Qed.

Theorem prefix_stable t syms s i : consistent t ->
  lookup s (sym_index t) = Some i -> lookup s (sym_index (add_symbols t syms)) = Some i.
Proof.
  intros Hc H. pose proof (add_symbols_consistent syms t Hc) as [_ Hc'].
  destruct Hc as [_ Hc0]. apply Hc0 in H. destruct H as [Hi Hn]. apply Hc'. split; [exact Hi|].
  destruct (add_symbols_prefix syms t) as [ext E]. rewrite E. rewrite nth_error_app1; [exact Hn|].
  apply nth_error_Some. rewrite Hn. discriminate.
Qed.

(* every added symbol is in the table afterwards *)
Lemma add_one_mem t s : consistent t -> In s (sym_table (add_one t s)).
Proof.
  intro Hc. unfold add_one. destruct (lookup s (sym_index t)) as [i|] eqn:L.
  - destruct Hc as [_ Hc]. apply Hc in L. destruct L as [_ Hn]. eapply nth_error_In. exact Hn.
  - simpl. apply in_or_app. right. left. reflexivity.
Qed.

Lemma add_symbols_keeps syms : forall t x, In x (sym_table t) -> In x (sym_table (add_symbols t syms)).
Proof.
  intros t x H. destruct (add_symbols_prefix syms t) as [ext E]. rewrite E. apply in_or_app. left. exact H.
Qed.

Lemma add_symbols_mem syms : forall t s, consistent t -> In s syms -> In s (sym_table (add_symbols t syms)).
Proof.
  unfold add_symbols. induction syms as [|x syms IH]; intros t s Hc Hin; [destruct Hin|]. simpl.
  destruct Hin as [Hin|Hin].
  - subst. apply (add_symbols_keeps syms). apply add_one_mem. exact Hc.
  - apply IH; [apply add_one_consistent; exact Hc | exact Hin].
Qed.

Lemma add_symbols_only syms : forall t x, In x (sym_table (add_symbols t syms)) -> In x (sym_table t) \/ In x syms.
Proof.
  unfold add_symbols. induction syms as [|s syms IH]; intros t x H; simpl in H; [left; exact H|].
  apply IH in H. destruct H as [H|H]; [|right; right; exact H].
  unfold add_one in H. destruct (lookup s (sym_index t)); [left; exact H|]. simpl in H.
  apply in_app_or in H. destruct H as [H|[H|[]]]; [left; exact H | right; left; exact H].
Qed.

(* bijection: decoding an id yields the string that was encoded, and vice versa *)
Theorem encode_decode t s i : consistent t -> lookup s (sym_index t) = Some i -> decode t i = Some s.
Proof.
  intros [_ Hc] H. apply Hc in H. destruct H as [Hi Hn]. unfold decode. replace (i <? 0) with false by lia. exact Hn.
Qed.

Theorem decode_encode t s i : consistent t -> decode t i = Some s -> lookup s (sym_index t) = Some i.
Proof.
  intros [_ Hc] H. unfold decode in H. destruct (i <? 0) eqn:E; [discriminate|]. apply Hc. split; [lia | exact H].
Qed.

Theorem ids_injective t s1 s2 i : consistent t ->
  lookup s1 (sym_index t) = Some i -> lookup s2 (sym_index t) = Some i -> s1 = s2.
Proof.
  intros Hc H1 H2. apply (encode_decode t s1 i Hc) in H1. apply (encode_decode t s2 i Hc) in H2. congruence.
Qed.

(* every reachable pool of tables is consistent, whatever the history *)
Lemma combine_consistent tables : consistent (combine tables).
Proof.
  unfold combine. assert (H : forall acc, consistent acc ->
    consistent (fold_left (fun acc t => add_symbols acc (sym_table t)) tables acc)).
  { induction tables as [|t ts IH]; intros acc Hc; simpl; [exact Hc|]. apply IH. apply add_symbols_consistent. exact Hc. }
  apply H. apply consistent_empty.
Qed.

Lemma set_nth_Forall {A} (P : A -> Prop) n x l : Forall P l -> P x -> Forall P (set_nth n x l).
Proof.
  revert n. induction l as [|y l IH]; intros n Hl Hx; destruct n; simpl; try constructor; inversion Hl; subst; auto.
Qed.

Lemma nth_Forall {A} (P : A -> Prop) n l d : Forall P l -> P d -> P (nth n l d).
Proof.
  revert n. induction l as [|y l IH]; intros n Hl Hd; destruct n; simpl; auto; inversion Hl; subst; auto.
Qed.

Theorem history_consistent ops : Forall consistent (run ops).
Proof.
  unfold run. assert (H : forall pool, Forall consistent pool -> Forall consistent (fold_left step ops pool)).
  { induction ops as [|o ops IH]; intros pool Hp; simpl; [exact Hp|]. apply IH. destruct o as [t syms|t|ts]; simpl.
    - apply set_nth_Forall; [exact Hp|]. apply add_symbols_consistent. apply nth_Forall; [exact Hp | apply consistent_empty].
    - apply Forall_app. split; [exact Hp|]. constructor; [|constructor].
      pose proof (nth_Forall consistent t pool empty_symtab Hp consistent_empty) as Hn. exact Hn.
    - apply Forall_app. split; [exact Hp|]. constructor; [apply combine_consistent | constructor]. }
  apply H. constructor; [apply consistent_empty | constructor].
Qed.

(* multi-rank loading: whatever the order in which each local table was filled and whatever the global table held
   before, every local id of every gathered rank re-encodes to a global id that decodes to the same string *)
Lemma gather_consistent locals : forall g, consistent g -> consistent (gather g locals).
Proof.
  unfold gather. induction locals as [|t ts IH]; intros g Hc; simpl; [exact Hc|]. apply IH. apply add_symbols_consistent. exact Hc.
Qed.

Lemma gather_keeps locals : forall g x, In x (sym_table g) -> In x (sym_table (gather g locals)).
Proof.
  unfold gather. induction locals as [|t ts IH]; intros g x H; simpl; [exact H|]. apply IH. apply add_symbols_keeps. exact H.
Qed.

Lemma gather_mem locals : forall g t s, consistent g -> In t locals -> In s (sym_table t) -> In s (sym_table (gather g locals)).
Proof.
  unfold gather. induction locals as [|t0 ts IH]; intros g t s Hc Ht Hs; [destruct Ht|]. simpl.
  destruct Ht as [Ht|Ht].
  - subst t0. apply (gather_keeps ts). apply add_symbols_mem; assumption.
  - apply (IH _ t s); [apply add_symbols_consistent; exact Hc | exact Ht | exact Hs].
Qed.

Theorem reencode_commutes g locals local x s :
  consistent g -> In local locals -> decode local x = Some s ->
  exists y, reencode (gather g locals) local x = Some y /\ decode (gather g locals) y = Some s.
Proof.
  intros Hc Hl Hd. unfold decode in Hd. destruct (x <? 0) eqn:E; [discriminate|].
  pose proof (gather_consistent locals g Hc) as Hg.
  assert (Hin : In s (sym_table (gather g locals))).
  { apply (gather_mem locals g local s Hc Hl). eapply nth_error_In. exact Hd. }
  apply In_nth_error in Hin. destruct Hin as [n Hn].
  assert (Hl' : lookup s (sym_index (gather g locals)) = Some (Z.of_nat n)).
  { apply Hg. split; [lia|]. rewrite Nat2Z.id. exact Hn. }
  exists (Z.of_nat n). split.
  - unfold reencode. rewrite Hd. exact Hl'.
  - apply encode_decode; assumption.
Qed.

(* the set of symbols does not depend on the order of insertion *)
Theorem symbols_order_independent t syms syms' : consistent t -> Permutation syms syms' ->
  forall x, In x (sym_table (add_symbols t syms)) <-> In x (sym_table (add_symbols t syms')).
Proof.
  intros Hc Hp x. split; intro H.
  - apply add_symbols_only in H. destruct H as [H|H]; [apply add_symbols_keeps; exact H|].
    apply add_symbols_mem; [exact Hc | eapply Permutation_in; eauto].
  - apply add_symbols_only in H. destruct H as [H|H]; [apply add_symbols_keeps; exact H|].
    apply add_symbols_mem; [exact Hc | apply Permutation_sym in Hp; eapply Permutation_in; eauto].
Qed.
