(* C03: the two call-stack builders.
     new: hta/common/trace_call_stack.py CallStackGraph._construct_call_stack_graph (sort_events / _less_than)
     old: hta/common/call_stack.py       CallStackGraph._construct_call_stack_graph (compare_events)
   The comparators are GENERATED from the source (gen/Cmp_gen.v); the endpoint array, the sort driver and the
   push-on-open / pop-the-top-on-close machine are modelled by hand. *)
From HTA.lib Require Import Base.
From HTA.gen Require Import Cmp_gen.
Open Scope Z_scope.

(* events of one host thread: idx, ts, dur of the ev record are used *)
Definition open_new (e : ev) : ep := mkEp (idx e) (dur e) OPEN_END (ts e).
Definition close_new (e : ev) : ep := mkEp (idx e) (dur e) CLOSE_END (ts e + dur e).
(* melt(value_vars=[ts, end]): all starts, then all ends *)
Definition endpoints_new (l : list ev) : list ep := map open_new l ++ map close_new l.

Definition lt_new (x y : ep) : bool := match less_than_gen x y with Some b => b | None => false end.

(* sorted(key=cmp_to_key(c)) for a comparator that is a strict total order on the endpoints: insertion sort *)
Fixpoint insert_by (lt : ep -> ep -> bool) (x : ep) (l : list ep) : list ep :=
  match l with
  | [] => [x]
  | y :: r => if lt x y then x :: l else y :: insert_by lt x r
  end.
Definition sort_by (lt : ep -> ep -> bool) (l : list ep) : list ep := fold_right (insert_by lt) [] l.

(* the stack machine: an opening end gets the top of the stack (or the root) as parent and is pushed;
   a closing end pops the top, whoever it is *)
Fixpoint machine (open_kind root : Z) (st : list Z) (eps : list ep) : list (Z * Z) :=
  match eps with
  | [] => []
  | x :: r =>
      if e_kind x =? open_kind
      then (e_idx x, hd root st) :: machine open_kind root (e_idx x :: st) r
      else machine open_kind root (tl st) r
  end.

Definition parents_new (l : list ev) : list (Z * Z) := machine OPEN_END (-1) [] (sort_by lt_new (endpoints_new l)).

(* old builder: dur := max(dur, 0); Event(idx, time, dur, type); one start and one end per row, in row order *)
Definition dur0 (e : ev) : Z := Z.max (dur e) 0.
Definition endpoints_old (l : list ev) : list ep :=
  flat_map (fun e => [mkEp (idx e) (dur0 e) EVENT_START (ts e); mkEp (idx e) (dur0 e) EVENT_END (ts e + dur0 e)]) l.
Definition lt_old (x y : ep) : bool := match compare_events_gen x y with Some c => c <? 0 | None => false end.
Definition parents_old (l : list ev) : list (Z * Z) := machine EVENT_START (-1) [] (sort_by lt_old (endpoints_old l)).

(* depth = number of ancestors; computed from the parent map with fuel = number of events *)
Fixpoint lookupZ (k : Z) (m : list (Z * Z)) : option Z :=
  match m with [] => None | (a, b) :: r => if a =? k then Some b else lookupZ k r end.
Fixpoint depth_of (fuel : nat) (m : list (Z * Z)) (k : Z) : Z :=
  match fuel with
  | O => -1000000
  | S f => match lookupZ k m with
           | Some p => if p <? 0 then 0 else 1 + depth_of f m p
           | None => -1000000
           end
  end.

Definition encode_parents (m : list (Z * Z)) : list (list Z) :=
  sort_rows (map (fun cp => [fst cp; snd cp; depth_of (S (List.length m)) m (fst cp)]) m).
Definition encode_C03 (l : list ev) : list (list Z) * list (list Z) := (encode_parents (parents_new l), encode_parents (parents_old l)).
