"""C09: the reported critical path is a maximum-weight path of the graph."""
import random
import tracegen
import framework as fw
import cp_common as cp
import pC08
import translate

ID = "C09"
COQ_IMPORTS = ["From HTA.lib Require Import Dag.", "From HTA.model Require Import C08_Model."]
SOURCES = cp.SOURCES
TRANSLATE = [translate.gen_path_sets]
INPUT_CONTRACT = True        # the loaded frame is re-checked against the file (framework.input_contract)
N_CASES = {"quick": 250, "thorough": 4000}
RULE = ("the graphs critical_path_analysis builds for generated causally consistent traces and windows (as C08), and for each graph two re-weighted copies "
        "(random edges scaled by 0, 2, 3 or 10 through the networkx weight attribute, critical_path() recomputed: the documented what-if workflow); for every one of "
        "them a potential function is computed in Coq by dynamic programming over a node order and CHECKED in Coq (Dag.potential_okb), the reported node list must be "
        "a path of the graph whose weight equals the largest potential, and the reported edge and event sets must be exactly those of that path; original graphs "
        "also: weight <= makespan; non-trivial = the path has >= 3 edges and the graph has a competing path; distinct = hash of file set and parameters")
ASSUMPTIONS = ["networkx.dag_longest_path is library code: it is trusted only through the checked result",
               "the node order handed to the dynamic programme (networkx's topological order) is an unchecked hint; a wrong hint makes the potential check fail"]
CHECKS = ["the computed potential is valid on every edge (certificate)", "the reported node list is a non-empty path of graph edges",
          "the path's weight equals the maximum over all paths (largest potential)", "critical_path_edges_set = the edges of that path",
          "critical_path_events_set = the events of the path's nodes", "the path's weight does not exceed the makespan of the analysed window",
          "no edge weighs more than the time difference of its end points (hypothesis of C09_makespan_guaranteed: then NO path of the graph can exceed the makespan)"]


def gen_cases(seed, tier, n):
    return pC08.gen_cases_shared(seed, tier, n)


def _snapshot(g, T=int):
    return {"w": sorted([int(u), int(v), T(g.edges[u, v]["weight"])] for u, v in g.edges),
            "cp_nodes": [int(x) for x in g.critical_path_nodes],
            "cp_events": sorted(int(x) for x in g.critical_path_events_set),
            "cp_pairs": sorted([int(e.begin), int(e.end)] for e in g.critical_path_edges_set),
            # the members of the reported edge set are the graph's own edges (not look-alikes joining the same nodes)
            "foreign_edges": sorted([int(e.begin), int(e.end)] for e in g.critical_path_edges_set
                                    if not g.has_edge(e.begin, e.end) or g.edges[e.begin, e.end]["object"] != e)}


def run_impl(case, d):
    import os
    # every third case runs with the documented strict negative-weight option (a causally consistent trace has no negative weight, so
    # the analysis must behave the same; the what-if weights stay the user's in either mode)
    strict = case.get("case_no", 0) % 3 == 2
    if strict:
        os.environ["CRITICAL_PATH_STRICT_NEGATIVE_WEIGHT_CHECKS"] = "1"
    try:
        res = _run_impl(case, d)
    finally:
        os.environ.pop("CRITICAL_PATH_STRICT_NEGATIVE_WEIGHT_CHECKS", None)
    if isinstance(res, dict):
        res["strict"] = strict
    return res


def _run_impl(case, d):
    # the zero-weight launch edges (CRITICAL_PATH_ADD_ZERO_WEIGHT_LAUNCH_EDGE) are switched on in about a third of the cases: the reported
    # path is a maximum-weight path of the graph that is handed back, whatever edges the options add to it
    res, ta, g = cp.run_cp(case, d, zero_weight_env=case["params"]["zw"])
    if g is None or "graph" not in res:
        return res
    res["order"] = pC08.topo_order(res["graph"])
    rng = random.Random(case["params"]["pseed"] + 17)
    k = fw.time_scale(case)
    T = int if k == 1 else (lambda x: fw.as_int(x * k))
    snaps = [_snapshot(g, T)]
    # history: the path is drawn into a trace file (any option combination); the reported sets are read again afterwards
    try:
        import os
        oc, sa = rng.random() < 0.5, rng.random() < 0.5
        ta.overlay_critical_path_analysis(res["rank"], g, os.path.join(d, "ov_c09"), only_show_critical_events=oc, show_all_edges=sa)
        s = _snapshot(g, T)
        s["after_overlay"] = [oc, sa]
        s["restored"] = True
        snaps.append(s)
    except Exception as e:
        snaps.append({"error": "overlay_critical_path_analysis: " + type(e).__name__ + ": " + str(e)[:160]})
    for _ in range(2):
        for u, v in list(g.edges):
            if rng.random() < 0.3:
                g.edges[u, v]["weight"] = (int(g.edges[u, v]["weight"]) if k == 1 else g.edges[u, v]["weight"]) * rng.choice([0, 2, 3, 10])
        if all(T(g.edges[u, v]["weight"]) == 0 for u, v in g.edges):
            break           # a graph whose weights are all zero has no critical path to speak of (C08's known finding)
        try:
            wset = {(int(u), int(v)): T(g.edges[u, v]["weight"]) for u, v in g.edges}
            ok = g.critical_path()
            s = _snapshot(g, T)
            s["ok"] = bool(ok)
            # the what-if weights are the user's: recomputing the path must not alter them
            s["weights_changed"] = [[u, v, wset[(u, v)], T(g.edges[u, v]["weight"])] for (u, v) in wset if T(g.edges[u, v]["weight"]) != wset[(u, v)]][:3]
            snaps.append(s)
        except Exception as e:
            snaps.append({"error": type(e).__name__ + ": " + str(e)[:160]})
    # history: the measured weights are put back and the path is recomputed once more (what-if, then back to the measurement)
    if len(snaps) > 1 and "w" in snaps[0]:
        try:
            for u, v, w0 in snaps[0]["w"]:
                g.edges[u, v]["weight"] = w0 if k == 1 else w0 / k
            ok = g.critical_path()
            s = _snapshot(g, T)
            s["ok"] = bool(ok)
            s["restored"] = True
            snaps.append(s)
        except Exception as e:
            snaps.append({"error": type(e).__name__ + ": " + str(e)[:160]})
    res["snaps"] = snaps
    return res


def coq_term(case, impl):
    if "snaps" not in impl:
        return "[[false]]"
    nodes = pC08.nodes_lit(impl["graph"])
    order = fw.zl(impl["order"])
    items = []
    for s in impl["snaps"]:
        if "error" in s:
            items.append("[false]")
            continue
        W = "[" + "; ".join(f"mkEdge {fw.z(u)} {fw.z(v)} {fw.z(w)}" for u, v, w in s["w"]) + "]"
        pairs = "[" + "; ".join(fw.zl(p) for p in s["cp_pairs"]) + "]"
        items.append(f"check_C09 nodes {W} order {fw.zl(s['cp_nodes'])} {pairs} {fw.zl(s['cp_events'])}")
    return f"let nodes := {nodes} in let order := {order} in\n [" + ";\n  ".join(items) + "]"


def compare(case, impl, model):
    w = f"(rank {impl.get('rank')}, annotation {impl.get('annotation')!r}, instance {impl.get('instance')})"
    if "error" in impl:
        if impl["error"].startswith("AssertionError") and impl.get("all_zero_weights"):
            return []      # not a successful analysis (C08's known finding): outside this property's quantifier
        return [f"critical_path_analysis raised {impl['error'][:300]} {w}"]
    if impl.get("none") or "snaps" not in impl:
        return []
    disc = []
    for k, (s, m) in enumerate(zip(impl["snaps"], model)):
        which = "original weights" if k == 0 else f"after overlay_critical_path_analysis(only_show_critical_events, show_all_edges = {s['after_overlay']})" if s.get("after_overlay") else ("measured weights put back after the what-if runs" if s.get("restored") else f"re-weighted copy {k}")
        if "error" in s:
            disc.append(f"{which}: critical_path() raised {s['error']} {w}")
            continue
        if s.get("weights_changed"):
            disc.append(f"{which}: critical_path() altered the weights it was given (u, v, given, afterwards): {s['weights_changed']} {w}")
        if s.get("foreign_edges"):
            disc.append(f"{which}: critical_path_edges_set holds objects that are not the graph's edges (begin, end): {s['foreign_edges'][:6]} {w}")
        if k > 0 and not s.get("ok", True):
            disc.append(f"{which}: critical_path() returned False")
        for j, (ok, what) in enumerate(zip(m, CHECKS)):
            if k > 0 and j in (5, 6) and not s.get("restored"):
                continue        # a re-weighted copy is not bound by the measured time stamps
            if not ok:
                disc.append(f"{which}: {what} -- rejected by check_C09; reported path {s['cp_nodes'][:12]} {w}")
        if len(m) == 1 and not m[0]:
            disc.append(f"{which}: the reported node list {s['cp_nodes'][:12]} is not a path of the graph {w}")
    return disc[:6]


def nontrivial(case, impl):
    return "snaps" in impl and len(impl["snaps"][0].get("cp_nodes", [])) >= 4 and len(impl["graph"]["edges"]) > len(impl["snaps"][0]["cp_nodes"])


def classify(case, impl, model, disc):
    return pC08.classify(case, impl, model, disc)


LEVEL_TEXT = ("Proof: Dag.path_bound / optimum_bound (a potential function valid on every edge bounds the weight of EVERY path, no bound on the graph's size), "
              "C09_check_sound (a node list accepted by check_C09 is a path of the graph and no path weighs more), C09_le_makespan, C09_makespan_guaranteed (on a graph "
              "accepted by span_okb no path at all exceeds the makespan), C08_acyclic. For every graph the "
              "analysis builds, and for re-weighted copies, the potential is computed (dynamic programme) and checked in Coq, and the reported path, edge set and event "
              "set are judged by the verified checker."
              " C09_path_sets_follow_source: how the reported sets are built (events rebuilt, edges reset and refilled from consecutive nodes) is read from CPGraph.critical_path on every run.")
LEVEL_NOTE = ("networkx is trusted only through the checked result: whichever of several maximum-weight paths it returns is accepted. The graph itself comes from the "
              "implementation (C08 judges it).")
TECHNIQUE = "Coq proof (LP-duality style certificate: potentials bound all paths) + certificate computed and checked by vm_compute on every real graph"
