(* Host side of the critical-path graph: for EVERY depth-first traversal of properly nested events in time order (any nesting depth,
   any mix of events with and without graph nodes) every edge the builder's state machine emits points forward in time, weighs the
   time difference (or zero for a blocking call's closing edge / a dependency) and is attributed to an existing event whose span
   covers the edge. *)
From Coq Require Import ZArith List Bool Lia.
From HTA.lib Require Import Base.
From HTA.model Require Import C08_Host.
Import ListNotations.
Open Scope list_scope.
Open Scope Z_scope.

Definition an_of (tab : list hev) (i : Z) : bool := match hlookup tab i with Some e => h_an e | None => false end.
Definition par_of (tab : list hev) (i : Z) : Z := match hlookup tab i with Some e => h_parent e | None => -1 end.
Definition block_of (tab : list hev) (i : Z) : bool := match hlookup tab i with Some e => h_block e | None => false end.

Fixpoint count_an (tab : list hev) (stack : list Z) : Z :=
  match stack with [] => 0 | i :: r => (if an_of tab i then 1 else 0) + count_an tab r end.

Lemma count_an_nonneg tab stack : 0 <= count_an tab stack.
Proof. induction stack as [|i r IH]; simpl; [lia|]. destruct (an_of tab i); lia. Qed.

(* the open events, innermost first: each exists, is well-formed, and is nested in the next one, which is its call-stack parent *)
Fixpoint chain (tab : list hev) (stack : list Z) : Prop :=
  match stack with
  | [] => True
  | i :: rest =>
      (exists e, hlookup tab i = Some e) /\ ts_of tab i <= end_of tab i /\
      match rest with
      | p :: _ => par_of tab i = p /\ ts_of tab p <= ts_of tab i /\ end_of tab i <= end_of tab p
      | [] => True
      end /\ chain tab rest
  end.

Lemma chain_in tab : forall stack top, chain tab (top :: stack) -> forall i, In i (top :: stack) ->
  ts_of tab i <= ts_of tab top /\ end_of tab top <= end_of tab i /\ ts_of tab i <= end_of tab i.
Proof.
  induction stack as [|p rest IH]; intros top Hc i Hi.
  - destruct Hi as [Hi|[]]. subst. destruct Hc as [_ [H _]]. lia.
  - destruct Hc as [He [Hte [[Hp [H1 H2]] Hc']]]. destruct Hi as [Hi|Hi]; [subst; lia|].
    destruct (IH p Hc' i Hi) as [A [B C]]. lia.
Qed.

Definition anchor (s : hst) (n : hnode) : Z := if n_start n then n_ev n else s_lastp s.

Record Inv (tab : list hev) (stack seen : list Z) (cursor : Z) (s : hst) : Prop := mkInv {
  inv_chain : chain tab stack;
  inv_nodup : NoDup stack;
  inv_seen : forall i, In i stack -> In i seen;
  inv_top : match stack with top :: _ => ts_of tab top <= cursor <= end_of tab top | [] => True end;
  inv_depth : s_depth s = count_an tab stack;
  inv_high : match s_high s with Some h => n_ts h <= cursor | None => True end;
  inv_last : match s_last s with
             | None => True
             | Some n =>
                 n_ts n <= cursor /\ 0 < count_an tab stack /\
                 (n_start n = true -> an_of tab (n_ev n) = true) /\
                 ts_of tab (anchor s n) <= n_ts n /\
                 exists above rest, stack = above ++ anchor s n :: rest /\ Forall (fun u => an_of tab u = false) above
             end }.

(* what the property demands of an emitted edge *)
Definition Good (tab : list hev) (e : hedge) : Prop :=
  n_ts (he_src e) <= n_ts (he_dst e) /\ 0 <= he_w e /\
  (he_ty e = 1 /\ he_w e = 0 /\ he_attr e = -2 \/
   he_ty e = 0 /\
   (he_w e = n_ts (he_dst e) - n_ts (he_src e) \/
    he_w e = 0 /\ n_start (he_dst e) = false /\ block_of tab (n_ev (he_dst e)) = true) /\
   exists a, hlookup tab (he_attr e) = Some a /\ h_ts a <= n_ts (he_src e) /\ n_ts (he_dst e) <= h_end a).

Lemma lookup_ts tab i e : hlookup tab i = Some e -> ts_of tab i = h_ts e /\ end_of tab i = h_end e /\ an_of tab i = h_an e /\
  par_of tab i = h_parent e /\ block_of tab i = h_block e.
Proof. intro H. unfold ts_of, end_of, an_of, par_of, block_of. rewrite H. repeat split; reflexivity. Qed.

Lemma anchor_in (stack : list Z) s n above rest : stack = above ++ anchor s n :: rest -> In (anchor s n) stack.
Proof. intro H. rewrite H. apply in_or_app. right. left. reflexivity. Qed.

(* the anchor's span reaches at least to the end of the innermost open event *)
Lemma anchor_covers_top tab top stack s n above rest :
  chain tab (top :: stack) -> top :: stack = above ++ anchor s n :: rest ->
  end_of tab top <= end_of tab (anchor s n) /\ exists a, hlookup tab (anchor s n) = Some a.
Proof.
  intros Hc Hst. assert (Hin : In (anchor s n) (top :: stack)) by (rewrite Hst; apply in_or_app; right; left; reflexivity).
  destruct (chain_in tab stack top Hc _ Hin) as [_ [H _]]. split; [exact H|].
  clear - Hc Hin. revert top Hc Hin. induction stack as [|p r IH]; intros top Hc Hin.
  - destruct Hin as [Hin|[]]. subst. destruct Hc as [He _]. exact He.
  - destruct Hin as [Hin|Hin]; [subst; destruct Hc as [He _]; exact He|]. destruct Hc as [_ [_ [_ Hc']]]. apply (IH p Hc' Hin).
Qed.

Lemma above_nil_when_top_analysed tab top stack x rest above :
  top :: stack = above ++ x :: rest -> Forall (fun u => an_of tab u = false) above -> an_of tab top = true -> above = [] /\ x = top /\ rest = stack.
Proof.
  intros H Hf Ha. destruct above as [|u above'].
  - simpl in H. inversion H. auto.
  - simpl in H. inversion H; subst u. inversion Hf; subst. congruence.
Qed.

Section Step.
  Variable tab : list hev.

  Lemma step_enter stack seen cursor s i e :
    Inv tab stack seen cursor s -> hlookup tab i = Some e ->
    ~ In i seen -> cursor <= h_ts e -> h_ts e <= h_end e ->
    match stack with p :: _ => h_parent e = p /\ h_end e <= end_of tab p | [] => True end ->
    Inv tab (i :: stack) (i :: seen) (h_ts e) (fst (hstep tab s (Enter i))) /\ Forall (Good tab) (snd (hstep tab s (Enter i))).
  Proof.
    intros HI Hl Hns Hcur Hte Hpar. destruct (lookup_ts tab i e Hl) as [Hts [Hen [Han [Hpa Hbl]]]].
    destruct HI as [Hch Hnd Hseen Htop Hdep Hhigh Hlast].
    assert (Hch' : chain tab (i :: stack)).
    { cbn [chain]. split; [exists e; exact Hl|]. split; [lia|]. split; [|exact Hch].
      destruct stack as [|p r]; [exact I|]. destruct Hpar as [Hp1 Hp2]. split; [congruence|]. split; lia. }
    assert (Hnd' : NoDup (i :: stack)) by (constructor; [intro Hin; apply Hns, Hseen, Hin | exact Hnd]).
    assert (Hseen' : forall j, In j (i :: stack) -> In j (i :: seen)).
    { intros j [Hj|Hj]; [left; exact Hj | right; apply Hseen; exact Hj]. }
    assert (Htop' : ts_of tab i <= h_ts e <= end_of tab i) by lia.
    cbn [hstep]. rewrite Hl. destruct (h_an e) eqn:Ea; cbn [fst snd].
    - (* an event with nodes *)
      split.
      + constructor; cbn [s_last s_lastp s_depth s_high]; try assumption.
        * cbn [count_an]. rewrite Han. lia.
        * destruct (s_high s) as [h|]; [lia | exact I].
        * cbn [n_ts]. split; [lia|]. split; [cbn [count_an]; rewrite Han; pose proof (count_an_nonneg tab stack); lia|].
          split; [intros _; cbn [n_ev]; exact Han|]. unfold anchor. cbn [n_start n_ev]. split; [lia|].
          exists [], stack. split; [reflexivity | constructor].
      + apply Forall_app. split.
        * destruct (s_high s) as [h|]; [|constructor]. destruct (s_depth s =? 0); [|constructor]. constructor; [|constructor].
          unfold Good. cbn [he_src he_dst he_w he_ty he_attr n_ts]. split; [lia|]. split; [lia|]. left. auto.
        * destruct (s_last s) as [n|] eqn:El; [|constructor]. constructor; [|constructor].
          destruct Hlast as [Hn [Hcnt [Hst [Hanc [above [rest [Hstack Hab]]]]]]].
          unfold Good. cbn [he_src he_dst he_w he_ty he_attr n_ts n_start]. split; [lia|]. split; [lia|]. right. split; [reflexivity|].
          split; [left; reflexivity|].
          assert (Hattr : attr_rule n (mkHN i true (h_ts e)) (s_lastp s) = anchor s n).
          { unfold attr_rule, anchor. cbn [n_start]. destruct (n_start n); reflexivity. }
          rewrite Hattr. destruct stack as [|top st]; [destruct above; discriminate|].
          destruct (anchor_covers_top tab top st s n above rest Hch Hstack) as [Hcov [a Ha]].
          exists a. split; [exact Ha|]. destruct (lookup_ts tab _ a Ha) as [Ta [Ea' _]]. destruct Hpar as [_ Hp2]. lia.
    - (* an event without nodes: the state is unchanged *)
      split; [|constructor].
      constructor; try assumption.
      + cbn [count_an]. rewrite Han. lia.
      + destruct (s_high s) as [h|]; [lia | exact I].
      + destruct (s_last s) as [n|]; [|exact I]. destruct Hlast as [Hn [Hcnt [Hst [Hanc [above [rest [Hstack Hab]]]]]]].
        split; [lia|]. split; [cbn [count_an]; rewrite Han; lia|]. split; [exact Hst|]. split; [exact Hanc|].
        exists (i :: above), rest. split; [rewrite Hstack; reflexivity|]. constructor; [exact Han | exact Hab].
  Qed.

  Lemma step_exit stack seen cursor s i e :
    Inv tab (i :: stack) seen cursor s -> hlookup tab i = Some e -> cursor <= h_end e ->
    Inv tab stack seen (h_end e) (fst (hstep tab s (Exit i))) /\ Forall (Good tab) (snd (hstep tab s (Exit i))).
  Proof.
    intros HI Hl Hcur. destruct (lookup_ts tab i e Hl) as [Hts [Hen [Han [Hpa Hbl]]]].
    destruct HI as [Hch Hnd Hseen Htop Hdep Hhigh Hlast].
    assert (Hch' : chain tab stack) by (destruct Hch as [_ [_ [_ H]]]; exact H).
    assert (Hnd' : NoDup stack) by (inversion Hnd; assumption).
    assert (Hni : ~ In i stack) by (inversion Hnd; assumption).
    assert (Hseen' : forall j, In j stack -> In j seen) by (intros j Hj; apply Hseen; right; exact Hj).
    assert (Htop' : match stack with top :: _ => ts_of tab top <= h_end e <= end_of tab top | [] => True end).
    { destruct stack as [|p r]; [exact I|]. destruct Hch as [_ [Hte [[_ [H1 H2]] _]]]. lia. }
    assert (Hpar : match stack with p :: _ => h_parent e = p /\ ts_of tab p <= h_ts e | [] => True end).
    { destruct stack as [|p r]; [exact I|]. destruct Hch as [_ [_ [[H0 [H1 _]] _]]]. split; [congruence | lia]. }
    assert (Htee : h_ts e <= h_end e) by (destruct Hch as [_ [H _]]; lia).
    cbn [hstep]. rewrite Hl. destruct (h_an e) eqn:Ea; cbn [fst snd].
    - (* an event with nodes closes *)
      assert (Hcount : count_an tab (i :: stack) = 1 + count_an tab stack) by (cbn [count_an]; rewrite Han; reflexivity).
      split.
      + destruct (s_depth s - 1 =? 0) eqn:Ed.
        * constructor; cbn [s_last s_lastp s_depth s_high]; try assumption; [lia | cbn [n_ts]; lia | exact I].
        * constructor; cbn [s_last s_lastp s_depth s_high]; try assumption; [lia | destruct (s_high s); [lia | exact I] |].
          cbn [n_ts]. split; [lia|]. pose proof (count_an_nonneg tab stack) as Hnn. split; [lia|].
          split; [cbn [n_start]; discriminate|]. unfold anchor. cbn [n_start s_lastp].
          destruct stack as [|p r]; [cbn [count_an] in *; lia|]. destruct Hpar as [Hp1 Hp2]. rewrite Hp1. split; [lia|].
          exists [], r. split; [reflexivity | constructor].
      + destruct (s_last s) as [n|] eqn:El; [|constructor]. constructor; [|constructor].
        destruct Hlast as [Hn [Hcnt [Hst [Hanc [above [rest [Hstack Hab]]]]]]].
        assert (Hai : an_of tab i = true) by exact Han.
        destruct (above_nil_when_top_analysed tab i stack _ rest above Hstack Hab Hai) as [_ [Hanchor _]].
        assert (Hattr : attr_rule n (mkHN i false (h_end e)) (s_lastp s) = i).
        { unfold attr_rule. cbn [n_start n_ev negb]. unfold anchor in Hanchor. destruct (n_start n); [exact Hanchor | reflexivity]. }
        unfold Good. cbn [he_src he_dst he_w he_ty he_attr n_ts n_start n_ev]. rewrite Hattr. rewrite Hanchor in Hanc.
        split; [lia|]. split; [destruct (h_block e); lia|]. right. split; [reflexivity|]. split.
        * destruct (h_block e) eqn:Eb; [right; rewrite Hbl; auto | left; reflexivity].
        * exists e. split; [exact Hl|]. lia.
    - (* an event without nodes closes *)
      split; [|constructor].
      assert (Hcount : count_an tab (i :: stack) = count_an tab stack) by (cbn [count_an]; rewrite Han; lia).
      destruct (s_last s) as [n|] eqn:El.
      + destruct Hlast as [Hn [Hcnt [Hst [Hanc [above [rest [Hstack Hab]]]]]]].
        destruct above as [|u above'].
        * (* the anchor is the closing event itself: only possible for an end node, and then the parent takes over *)
          simpl in Hstack. injection Hstack as Hanchor Hrest. unfold anchor in Hanchor.
          destruct (n_start n) eqn:Es.
          { exfalso. specialize (Hst eq_refl). rewrite <- Hanchor in Hst. congruence. }
          rewrite <- Hanchor. rewrite Z.eqb_refl.
          constructor; cbn [s_last s_lastp s_depth s_high]; try assumption; [lia | destruct (s_high s); [lia | exact I] |].
          rewrite ?El. split; [lia|]. split; [lia|]. split; [intro Hx; congruence|]. unfold anchor. rewrite Es. cbn [s_lastp].
          destruct stack as [|p r]; [cbn [count_an] in *; lia|]. destruct Hpar as [Hp1 Hp2]. rewrite Hp1.
          unfold anchor in Hanc. rewrite Es in Hanc. rewrite <- Hanchor in Hanc. split; [lia|].
          exists [], r. split; [reflexivity | constructor].
        * (* the closing event lies above the anchor *)
          simpl in Hstack. injection Hstack as Hu Hrest. subst u.
          assert (Hin : In (anchor s n) stack) by (rewrite Hrest; apply in_or_app; right; left; reflexivity).
          assert (Hne : anchor s n <> i) by (intro E; apply Hni; rewrite <- E; exact Hin).
          pose proof (Forall_inv_tail Hab) as Hab'.
          destruct (s_lastp s =? i) eqn:Ep.
          { (* the pending parent is the closing event: then n is a start node (its anchor is its own event) *)
            assert (Es : n_start n = true).
            { destruct (n_start n) eqn:Es; [reflexivity|]. exfalso. apply Hne. unfold anchor. rewrite Es. lia. }
            constructor; cbn [s_last s_lastp s_depth s_high]; try assumption; [lia | destruct (s_high s); [lia | exact I] |].
            rewrite ?El. split; [lia|]. split; [lia|]. split; [exact Hst|].
            assert (Ha' : anchor (mkSt (Some n) (h_parent e) (s_depth s) (s_high s)) n = anchor s n) by (unfold anchor; rewrite Es; reflexivity).
            rewrite Ha'. split; [exact Hanc|]. exists above', rest. split; [exact Hrest | exact Hab']. }
          constructor; try assumption; [lia | destruct (s_high s); [lia | exact I] |].
          rewrite ?El. split; [lia|]. split; [lia|]. split; [exact Hst|]. split; [exact Hanc|].
          exists above', rest. split; [exact Hrest | exact Hab'].
      + destruct (s_lastp s =? i); constructor; cbn [s_last s_lastp s_depth s_high]; try assumption; try lia;
          try (destruct (s_high s); [lia | exact I]); rewrite ?El; exact I.
  Qed.
End Step.

Lemma memz_in i l : memz i l = false -> ~ In i l.
Proof.
  unfold memz. intros H Hin. assert (existsb (Z.eqb i) l = true); [|congruence].
  apply existsb_exists. exists i. split; [exact Hin | apply Z.eqb_refl].
Qed.

Lemma run_good tab : forall acts stack seen cursor s,
  Inv tab stack seen cursor s -> wf_actions tab stack seen cursor acts = true -> Forall (Good tab) (hrun tab s acts).
Proof.
  induction acts as [|a r IH]; intros stack seen cursor s HI Hwf; [constructor|].
  cbn [hrun]. destruct a as [i|i].
  - cbn [wf_actions] in Hwf. destruct (hlookup tab i) as [e|] eqn:El; [|discriminate].
    repeat (apply andb_prop in Hwf; destruct Hwf as [Hwf ?]).
    match goal with H : wf_actions _ _ _ _ _ = true |- _ => rename H into Hrest end.
    assert (Hns : ~ In i seen) by (apply memz_in; destruct (memz i seen); [discriminate | reflexivity]).
    assert (Hpar : match stack with p :: _ => h_parent e = p /\ h_end e <= end_of tab p | [] => True end).
    { destruct stack as [|p st]; [exact I|].
      match goal with H : (_ && _) = true |- _ => apply andb_prop in H; destruct H as [Ha Hb] end. split; lia. }
    assert (Hc1 : cursor <= h_ts e) by lia. assert (Hc2 : h_ts e <= h_end e) by lia.
    destruct (step_enter tab stack seen cursor s i e HI El Hns Hc1 Hc2 Hpar) as [HI' Hg].
    destruct (hstep tab s (Enter i)) as [s' es]. cbn [fst snd] in *. apply Forall_app. split; [exact Hg|].
    apply (IH _ _ _ _ HI' Hrest).
  - cbn [wf_actions] in Hwf. destruct stack as [|p rest]; [discriminate|]. destruct (hlookup tab i) as [e|] eqn:El; [|discriminate].
    repeat (apply andb_prop in Hwf; destruct Hwf as [Hwf ?]).
    match goal with H : wf_actions _ _ _ _ _ = true |- _ => rename H into Hrest end.
    assert (p = i) by lia. subst p. assert (Hc1 : cursor <= h_end e) by lia.
    destruct (step_exit tab rest seen cursor s i e HI El Hc1) as [HI' Hg].
    destruct (hstep tab s (Exit i)) as [s' es]. cbn [fst snd] in *. apply Forall_app. split; [exact Hg|].
    apply (IH _ _ _ _ HI' Hrest).
Qed.

Lemma inv_init tab t0 : Inv tab [] [] t0 hinit.
Proof. constructor; cbn; auto; constructor. Qed.

Theorem host_edges_good tab acts t0 : wf_actions tab [] [] t0 acts = true -> Forall (Good tab) (host_edges_of tab acts).
Proof. intro H. apply (run_good tab acts [] [] t0 hinit (inv_init tab t0) H). Qed.

(* the two readings used by the property files *)
Definition forward_nonneg (tab : list hev) (e : hedge) : Prop :=
  n_ts (he_src e) <= n_ts (he_dst e) /\ 0 <= he_w e /\
  (he_ty e = 1 /\ he_w e = 0 \/
   he_ty e = 0 /\ (he_w e = n_ts (he_dst e) - n_ts (he_src e) \/
                   he_w e = 0 /\ n_start (he_dst e) = false /\ block_of tab (n_ev (he_dst e)) = true)).
Definition attribution_covers (tab : list hev) (e : hedge) : Prop :=
  (he_ty e = 1 -> he_attr e = -2) /\
  (he_ty e = 0 -> exists a, hlookup tab (he_attr e) = Some a /\ h_ts a <= n_ts (he_src e) /\ n_ts (he_dst e) <= h_end a).

Theorem host_forward_nonneg tab acts t0 : wf_actions tab [] [] t0 acts = true -> Forall (forward_nonneg tab) (host_edges_of tab acts).
Proof.
  intro H. eapply Forall_impl; [|apply (host_edges_good tab acts t0 H)]. intros e [H1 [H2 H3]]. unfold forward_nonneg.
  split; [exact H1|]. split; [exact H2|]. destruct H3 as [[A [B _]]|[A [B _]]]; [left; auto | right; auto].
Qed.

Theorem host_attribution_covers tab acts t0 : wf_actions tab [] [] t0 acts = true -> Forall (attribution_covers tab) (host_edges_of tab acts).
Proof.
  intro H. eapply Forall_impl; [|apply (host_edges_good tab acts t0 H)]. intros e [_ [_ H3]]. unfold attribution_covers.
  destruct H3 as [[A [_ C]]|[A [_ C]]]; split; intro Hx; try lia; try exact C.
Qed.
