#!/venv/bin/python
"""baseline_check.py <junit.xml>: the 87 stable-pass tests of /root/.vp/BASELINE.json must all pass."""
import json, sys, xml.etree.ElementTree as ET
passed = set()
for tc in ET.parse(sys.argv[1]).getroot().iter("testcase"):
    if not any(ch.tag in ("failure", "error", "skipped") for ch in tc):
        passed.add(f"{tc.get('classname')}::{tc.get('name')}")
base = set(json.load(open("/root/.vp/BASELINE.json"))["stable_pass"])
print("baseline", len(base), "still pass", len(base & passed), "lost", sorted(base - passed), "newly passing", len(passed - base))
sys.exit(0 if base <= passed else 1)
