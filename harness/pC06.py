"""C06: idle-time breakdown: gaps between stream-consecutive kernels, classified by rule."""
import math
import random
import tracegen
import framework as fw
import translate

ID = "C06"
COQ_IMPORTS = ["From HTA.model Require Import C06_Model."]
SOURCES = {"hta/analyzers/breakdown_analysis.py": ["get_idle_time_breakdown", "_analyze_idle_time_for_stream"],
           "hta/trace_analysis.py": ["get_idle_time_breakdown"], "hta/utils/utils.py": ["IdleTimeType"]}
TRANSLATE = [translate.gen_idle_rules]
INPUT_CONTRACT = True        # the loaded frame is re-checked against the file (framework.input_contract)
N_CASES = {"quick": 300, "thorough": 5000}
RULE = ("generated well-formed file sets whose kernels do not overlap within a stream (FIFO placement; tiny and wide time domains; kernels starting exactly "
        "when the previous one ends; zero-length kernels; missing launches, orphan kernels with and without id; memcpy/memset; first file entry starting late); "
        "threshold drawn from {0,1,2,5,30} and gap values +-1; stream subsets; every rank requested; compared: idle_time of each (stream, category) and the "
        "ratios; non-trivial = some stream has gaps in at least two categories; distinct = hash of the file set and parameters")
ASSUMPTIONS = ["a stream holding two activities with identical start and end leaves the order of the two to the sort's tie handling: only the stream's total "
               "idle time is compared there",
               "kernels of a stream do not overlap (quantifier); streams with two kernels sharing a start time are compared only when the stream has fewer than "
               "16 kernels (numpy's quicksort is then an insertion sort and keeps the frame order, which is what the model's stable sort does)",
               "a requested rank with no kernel at all is outside the quantifier (the API raises 'No objects to concatenate'); counted as skipped",
               "ratios compared with tolerance 0.005+1e-9 (round(.,2) in the code)"]
KCATS = ["kernel", "Kernel", "gpu_memset", "Memset", "gpu_memcpy", "Memcpy", "mtia_ccp_events"]


def gen_cases(seed, tier, n):
    out = []
    profs = ["idle", "idle", "fifo_tiny", "idle_steps"]
    for i in range(n):
        prof = tracegen.PROFILES[profs[i % len(profs)]]
        if i % 11 == 5:
            # clock skew between host and device: some activities are stamped before their launch call (the classification is a rule about
            # the recorded instants, whatever their order)
            from dataclasses import replace as _replace
            prof = _replace(prof, name=prof.name + "+skew", kernel_causal=False)
        c = tracegen.gen_case(seed, i, prof)
        rng = random.Random(seed * 7919 + i)
        c["params"] = {"pseed": rng.randint(0, 10 ** 9)}
        if i % 3 == 1:
            tracegen.relabel_ranks(c)      # a subset of a job: rank ids are not 0..n-1, and not listed in order
        if i % 4 == 2:
            # a device-side annotation over the first kernels of a stream, so that the annotation analysis has something to do
            for rk in c["ranks"].values():
                ks = [e for e in rk["events"] if e.get("cat") == "kernel" and isinstance((e.get("args") or {}).get("stream"), int)]
                if ks:
                    k0 = min(ks, key=lambda e: e["ts"])
                    rk["events"].append({"ph": "X", "cat": "gpu_user_annotation", "name": "fwd", "pid": k0["pid"], "tid": k0["tid"], "ts": k0["ts"],
                                         "dur": k0["dur"] + 3, "args": {"stream": k0["args"]["stream"]}})
        if i % 8 == 6:
            fw.set_quarter_us(c)           # quarter-microsecond resolution (framework.resolution); the threshold is scaled with the times
        if i % 16 == 3 and not c["params"].get("quarter_us"):
            tracegen.scale_case_int32_edge(c)    # latest start just below 2**31, latest ends above
        if i % 16 == 11 and not c["params"].get("quarter_us"):
            tracegen.scale_case(c, 10 ** 8)     # a long trace: sums beyond 2**24 and 2**31 (the models are homogeneous in time)
        out.append(c)
    return out


def run_impl(case, d):
    with fw.resolution(case):
        return _run_impl(case, d)


def _run_impl(case, d):
    k = fw.time_scale(case)
    ta, paths = fw.load_case_res(case, d)
    sym = ta.t.symbol_table.get_sym_table()
    ranks = sorted(ta.t.get_ranks())
    frames = {r: fw.dump_frame_res(case, ta.t.get_trace(r), sym) for r in ranks}
    rng = random.Random(case["params"]["pseed"])
    gaps = []
    streams_all = {}
    for r, rows in frames.items():
        ks = [x for x in rows if x["stream"] != -1 and x["cat"] in KCATS]
        streams_all[r] = sorted({x["stream"] for x in ks})
        for s in streams_all[r]:
            kk = sorted([x for x in ks if x["stream"] == s], key=lambda x: x["ts"])
            gaps += [b["ts"] - a["ts"] - a["dur"] for a, b in zip(kk, kk[1:])]
    if any(not streams_all[r] for r in ranks):
        return {"skip": True}
    dpool = [0, 1, 2, 5, 30] + [g + k for g in gaps[:6] for k in (-1, 0, 1) if g + k >= 0]
    d_ = rng.choice(dpool)
    common = sorted(set.intersection(*[set(v) for v in streams_all.values()]))
    union = sorted(set.union(*[set(v) for v in streams_all.values()]))
    u = rng.random()
    if common and u < 0.3:
        ssel = sorted(rng.sample(common, rng.randint(1, len(common))))
    elif u < 0.5:
        # a subset of the streams of ANY rank: a requested stream may be missing on some of the ranks (also on the first one listed)
        ssel = sorted(rng.sample(union, rng.randint(1, len(union))))
    else:
        ssel = None
    if case.get("case_no", 0) % 4 == 2:
        # history: another per-rank analysis of the same object runs first (kernels matched to device-side annotations)
        for r in ranks:
            try:
                ta.get_gpu_kernels_with_user_annotations(r)
            except Exception:
                pass
    try:
        df, _ = ta.get_idle_time_breakdown(ranks=ranks, streams=ssel, visualize=False, consecutive_kernel_delay=(d_ if k == 1 else d_ / k))
        out = []
        for rec in df.to_dict("records"):
            out.append([int(rec["rank"]), int(rec["stream"]), str(rec["idle_category"]), float(rec["idle_time"]) * k, float(rec["idle_time_ratio"])])
    except Exception as e:
        out = {"error": type(e).__name__ + ": " + str(e)[:200]}
    return {"frames": frames, "d": d_, "streams": ssel, "streams_all": streams_all, "out": out,
            "frames_altered": fw.frames_altered(case, ta, frames, sym)}


def _streams(impl, r):
    # list(gpu_kernels.stream.unique()): order of first appearance is irrelevant for the comparison
    return impl["streams"] if impl["streams"] else impl["streams_all"][r]


def coq_term(case, impl):
    return "[" + ";\n ".join(f"encode_C06 {fw.evl(rows)} {fw.z(impl['d'])} {fw.zl(_streams(impl, r))}"
                             for r, rows in sorted(impl["frames"].items())) + "]"


CAT = {"host_wait": 0, "kernel_wait": 1, "other": 2}


def _twins(rows, s):
    """two activities of the stream with the same start AND the same end: the property does not say which of them is 'the next kernel'
    (the sort key (ts, end) leaves them tied), so only the stream's total is determined"""
    ks = [(x["ts"], x["ts"] + x["dur"]) for x in rows if x["stream"] == s and x["cat"] in KCATS]
    return len(set(ks)) < len(ks)


def _tie_big(rows, s):
    ks = [x for x in rows if x["stream"] == s and x["cat"] in KCATS]
    return len(ks) >= 16 and len({x["ts"] for x in ks}) < len(ks)


def compare(case, impl, model):
    o = impl["out"]
    if isinstance(o, dict):
        return [f"get_idle_time_breakdown raised {o['error']} (threshold {impl['d']}, streams {impl['streams']})"]
    disc = []
    got = {}
    for rank, s, c, t, ratio in o:
        if c not in CAT:
            disc.append(f"unknown idle category {c}")
            continue
        if (rank, s, CAT[c]) in got:
            disc.append(f"rank {rank} stream {s}: category {c} listed twice")
        got[(rank, s, CAT[c])] = (t, ratio)
    for (r, rows), m in zip(sorted(impl["frames"].items()), model):
        want_streams = set(_streams(impl, r))
        extra = sorted({s for (rk, s, _c) in got if rk == r and s not in want_streams})
        if extra:
            disc.append(f"rank {r}: rows for stream(s) {extra} that were not requested (requested {impl['streams']})")
        for s, sums in zip(_streams(impl, r), m):
            if _tie_big(rows, s):
                continue
            tot = sum(sums)
            if _twins(rows, s):
                gt = sum(got.get((r, s, c), (0.0, None))[0] for c in range(3))
                if gt != tot:
                    disc.append(f"rank {r} stream {s} threshold {impl['d']}: total idle time impl={gt} model={tot} (stream with identical twin activities: "
                                f"only the total is determined)")
                continue
            for c in range(3):
                t, ratio = got.get((r, s, c), (0.0, None))
                if t != int(t) or int(t) != sums[c]:
                    disc.append(f"rank {r} stream {s} threshold {impl['d']}: idle_time[{list(CAT)[c]}] impl={t} model={sums[c]} (model sums {list(sums)})")
                elif ratio is not None and tot != 0 and not (abs(ratio - sums[c] / tot) <= 0.005 + 1e-9):
                    disc.append(f"rank {r} stream {s}: ratio[{list(CAT)[c]}] impl={ratio} exact={sums[c] / tot}")
            present = s in impl["streams_all"].get(r, impl["streams_all"].get(str(r), []))
            if present and (r, s, 2) not in got:
                disc.append(f"rank {r} stream {s}: no 'other' row (the first kernel of a stream always falls there)")
            if not present and any((r, s, c) in got for c in range(3)):
                disc.append(f"rank {r} stream {s}: rows reported for a requested stream the rank does not have")
    extra = [k for k in got if k[1] not in _streams(impl, k[0])]
    if extra:
        disc.append(f"rows for streams that were not requested: {extra[:3]}")
    return disc[:8]


def nontrivial(case, impl):
    o = impl["out"]
    if isinstance(o, dict):
        return False
    per = {}
    for rank, s, c, t, ratio in o:
        if t > 0:
            per.setdefault((rank, s), set()).add(c)
    return any(len(v) >= 2 for v in per.values())


def classify(case, impl, model, disc):
    return None


LEVEL_TEXT = ("Proof: C06_gaps_are_consecutive + C06_start_order (the idle intervals are the gaps between start-ordered consecutive kernels), C06_gaps_nonneg (under "
              "non-overlap), C06_classification (three-way, exclusive, exhaustive, with the strictness of both comparisons), C06_launch_call (only a positively "
              "linked row counts as launch call), C06_telescope (categories add up to span minus busy time), C06_last_ends_last. Correspondence on every "
              "(rank, stream, category) cell of get_idle_time_breakdown and the ratios, thresholds on gap boundaries, stream subsets."
              " C06_resolution_independent: times and threshold multiplied by k > 0 multiply every category's idle time by k."
              " C06_rules_follow_source: the classification rule is regenerated from _analyze_idle_time_for_stream on every run.")
LEVEL_NOTE = ("Hand model of get_idle_time_breakdown/_analyze_idle_time_for_stream (category filter, join on index_correlation, shift(1), the two masks). "
              "Float division/rounding of the ratios not modelled (tolerance).")
TECHNIQUE = "Coq proof (telescoping sum over start-ordered kernels, case analysis of the classification) + differential correspondence via vm_compute"
