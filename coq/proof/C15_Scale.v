(* C15: resolution independence of the launch-statistics model *)
From HTA.lib Require Import Base.
From HTA.model Require Import C15_Model.
From HTA.proof Require Import Scale.
Open Scope Z_scope.

Definition scale_row15 (k : Z) (r : list Z) : list Z :=
  match r with
  | [c; a; b; d] => [c; k * a; k * b; k * d]
  | _ => r
  end.

Lemma launch_corrs_scale k mem l : launch_corrs mem (scale_evs k l) = launch_corrs mem l.
Proof.
  unfold launch_corrs, scale_evs.
  rewrite (filter_map_comm (scale_ev k) _ (fun e => is_launch_name mem (name e))) by reflexivity.
  rewrite map_map. reflexivity.
Qed.

Lemma cpu_sel_scale k mem l : cpu_sel mem (scale_evs k l) = scale_evs k (cpu_sel mem l).
Proof.
  unfold cpu_sel. rewrite launch_corrs_scale. unfold scale_evs.
  apply filter_map_comm. reflexivity.
Qed.

Lemma gpu_sel_scale k mem l : gpu_sel mem (scale_evs k l) = scale_evs k (gpu_sel mem l).
Proof.
  unfold gpu_sel. rewrite launch_corrs_scale. unfold scale_evs.
  apply filter_map_comm. reflexivity.
Qed.

Lemma pairs_scale k mem l :
  pairs mem (scale_evs k l) = map (fun p => (scale_ev k (fst p), scale_ev k (snd p))) (pairs mem l).
Proof.
  unfold pairs. rewrite cpu_sel_scale, gpu_sel_scale. unfold scale_evs.
  generalize (gpu_sel mem l) as G. intro G.
  induction (cpu_sel mem l) as [|r rs IH]; cbn [flat_map map]; [reflexivity|].
  rewrite map_app, IH. f_equal.
  rewrite (filter_map_comm (scale_ev k) _ (fun k0 => corr k0 =? corr r)) by reflexivity.
  rewrite !map_map. reflexivity.
Qed.

Lemma row_scale k r g : 0 <= k -> row (scale_ev k r, scale_ev k g) = scale_row15 k (row (r, g)).
Proof.
  intro Hk. unfold row, scale_row15, scale_ev. cbn [corr dur ts].
  replace (k * ts g - k * ts r - k * dur r) with (k * (ts g - ts r - dur r)) by ring.
  rewrite max0_scale by exact Hk. reflexivity.
Qed.

Theorem C15_scale k mem l : 0 <= k -> model_C15 mem (scale_evs k l) = map (scale_row15 k) (model_C15 mem l).
Proof.
  intro Hk. unfold model_C15. rewrite pairs_scale, !map_map. apply map_ext.
  intros [r g]. cbn [fst snd]. apply row_scale. exact Hk.
Qed.
