(* C16: resolution independence of the kernel-sequence model: the same instances with the same patterns and counts, GPU and CPU
   durations multiplied by k *)
From HTA.lib Require Import Base.
From HTA.gen Require Import Cmp_gen.
From HTA.model Require Import C03_Model C13_Model C16_Model.
From HTA.proof Require Import Scale C03_Scale C13_Scale.
Open Scope Z_scope.

Definition sinst (k : Z) (i : inst) : inst := mkInst (i_pat i) (k * i_gpu i) (k * i_cpu i).

Lemma insert_k_scale k x l : 0 < k -> insert_k (scale_ev k x) (scale_evs k l) = scale_evs k (insert_k x l).
Proof.
  intro Hk. induction l as [|y r IH]; cbn [scale_evs map insert_k]; [reflexivity|].
  change (ts (scale_ev k x)) with (k * ts x). change (ts (scale_ev k y)) with (k * ts y).
  rewrite ltb_scale by exact Hk. destruct (ts x <? ts y); cbn [map]; [reflexivity|]. f_equal. exact IH.
Qed.

Lemma sort_k_scale k l : 0 < k -> sort_k (scale_evs k l) = scale_evs k (sort_k l).
Proof.
  intro Hk. unfold sort_k. induction l as [|x r IH]; cbn [scale_evs map fold_right]; [reflexivity|].
  fold (scale_evs k r). rewrite IH. apply insert_k_scale. exact Hk.
Qed.

Lemma ev_of_scale k l i : ev_of (scale_evs k l) i = scale_evs k (ev_of l i).
Proof.
  unfold ev_of. rewrite (find_scale k (fun e => idx e =? i)) by reflexivity.
  destruct (find (fun e => idx e =? i) l); reflexivity.
Qed.

Lemma flat_map_ev_of_scale k l ids : flat_map (ev_of (scale_evs k l)) ids = scale_evs k (flat_map (ev_of l) ids).
Proof.
  induction ids as [|i r IH]; cbn [flat_map]; [reflexivity|].
  rewrite ev_of_scale, IH. unfold scale_evs. rewrite map_app. reflexivity.
Qed.

Lemma map_name_scale k l : map name (scale_evs k l) = map name l.
Proof. unfold scale_evs. rewrite map_map. reflexivity. Qed.

Lemma kinfo_count_sum k a a' : kinfo_rel k a a' ->
  fst (fst (fst a')) = fst (fst (fst a)) /\ snd (fst (fst a')) = k * snd (fst (fst a)).
Proof. destruct a as [[[c s] f] e], a' as [[[c' s'] f'] e']. cbn. intros [Hc [Hs _]]. split; assumption. Qed.

Lemma map_inv_scale {B} (g : ev -> B) k X : (forall e, g (scale_ev k e) = g e) -> map g (scale_evs k X) = map g X.
Proof. intro H. unfold scale_evs. rewrite map_map. apply map_ext. exact H. Qed.

Lemma cand_scale k op l :
  filter (fun e => contains op (name e)) (scale_evs k l) = scale_evs k (filter (fun e => contains op (name e)) l).
Proof. unfold scale_evs. apply filter_map_comm. reflexivity. Qed.

Theorem C16_instances_scale k l op minlen : 0 < k ->
  instances (scale_evs k l) op minlen = map (sinst k) (instances l op minlen).
Proof.
  intro Hk. unfold instances.
  rewrite C13_parent_map_scale, dev_edges_scale by exact Hk.
  replace (List.length (scale_evs k l)) with (List.length l) by (unfold scale_evs; rewrite map_length; reflexivity).
  rewrite map_ts_scale, maxZ0_scale by lia.
  replace (2 * (k * maxZ 0 (map ts l))) with (k * (2 * maxZ 0 (map ts l))) by ring.
  rewrite !cand_scale.
  generalize (filter (fun e => contains op (name e)) l) as cand. intro cand.
  set (m := parent_map l). set (devs := map fst (dev_edges l)). set (fuel := S (List.length l)). set (tmax := 2 * maxZ 0 (map ts l)).
  destruct cand as [|c0 cs]; [reflexivity|].
  set (depth := fun e : ev => match lookupZ (idx e) m with Some _ => depth_of fuel m (idx e) | None => -1 end).
  assert (Hd : forall e, depth (scale_ev k e) = depth e) by (intro e; reflexivity).
  cbv beta iota. cbn [scale_evs map].
  fold (scale_evs k cs).
  change (idx (scale_ev k c0)) with (idx c0).
  rewrite Hd, (map_inv_scale depth k cs Hd).
  change (depth c0 :: map depth cs) with (map depth (c0 :: cs)).
  set (dmin := minZ (match lookupZ (idx c0) m with Some _ => depth_of fuel m (idx c0) | None => -1 end) (map depth (c0 :: cs))).
  change (scale_ev k c0 :: scale_evs k cs) with (map (scale_ev k) (c0 :: cs)).
  rewrite (filter_map_comm (scale_ev k)
             (fun e => (match lookupZ (idx e) m with Some _ => depth_of fuel m (idx e) | None => -1 end =? dmin) &&
                       (minlen <=? match lookupZ (idx e) m with
                                   | Some _ => fst (fst (fst (kinfo_of fuel (scale_evs k l) devs m (k * tmax) (idx e)))) | None => 0 end))
             (fun e => (match lookupZ (idx e) m with Some _ => depth_of fuel m (idx e) | None => -1 end =? dmin) &&
                       (minlen <=? match lookupZ (idx e) m with
                                   | Some _ => fst (fst (fst (kinfo_of fuel l devs m tmax (idx e)))) | None => 0 end))).
  - rewrite !map_map. apply map_ext. intro r. unfold sinst. cbn [i_pat i_gpu i_cpu].
    change (idx (scale_ev k r)) with (idx r). change (name (scale_ev k r)) with (name r). change (dur (scale_ev k r)) with (k * dur r).
    rewrite flat_map_ev_of_scale, sort_k_scale, map_name_scale by exact Hk.
    destruct (kinfo_count_sum k _ _ (C13_kinfo_scale k fuel l devs m tmax (idx r) Hk)) as [Hc Hs].
    destruct (lookupZ (idx r) m); [|cbn; rewrite Z.mul_0_r; reflexivity].
    rewrite Hc, Hs. destruct (fst (fst (fst (kinfo_of fuel l devs m tmax (idx r)))) <=? 0); [rewrite Z.mul_0_r|]; reflexivity.
  - intro e. change (idx (scale_ev k e)) with (idx e).
    destruct (kinfo_count_sum k _ _ (C13_kinfo_scale k fuel l devs m tmax (idx e) Hk)) as [Hc _].
    destruct (lookupZ (idx e) m); [rewrite Hc|]; reflexivity.
Qed.

Definition spat (k : Z) (r : list string * Z * Z * Z) : list string * Z * Z * Z :=
  let '(p, c, g, u) := r in (p, c, k * g, k * u).

Lemma pat_filter_scale k p is :
  filter (fun i => list_eqb (i_pat i) p) (map (sinst k) is) = map (sinst k) (filter (fun i => list_eqb (i_pat i) p) is).
Proof. apply filter_map_comm. reflexivity. Qed.

Theorem C16_patterns_scale k is : patterns (map (sinst k) is) = map (spat k) (patterns is).
Proof.
  unfold patterns. rewrite !map_map.
  replace (map (fun x => i_pat (sinst k x)) is) with (map i_pat is) by (apply map_ext; reflexivity).
  apply map_ext. intro p. unfold spat, pat_count, pat_gpu, pat_cpu, count.
  rewrite !pat_filter_scale, map_length, !map_map.
  replace (map (fun x => i_gpu (sinst k x)) (filter (fun i => list_eqb (i_pat i) p) is))
    with (map (Z.mul k) (map i_gpu (filter (fun i => list_eqb (i_pat i) p) is))) by (rewrite map_map; reflexivity).
  replace (map (fun x => i_cpu (sinst k x)) (filter (fun i => list_eqb (i_pat i) p) is))
    with (map (Z.mul k) (map i_cpu (filter (fun i => list_eqb (i_pat i) p) is))) by (rewrite map_map; reflexivity).
  rewrite !sumZ_scale. reflexivity.
Qed.

Theorem C16_scale k l op minlen : 0 < k ->
  patterns (instances (scale_evs k l) op minlen) = map (spat k) (patterns (instances l op minlen)).
Proof. intro Hk. rewrite C16_instances_scale by exact Hk. apply C16_patterns_scale. Qed.
