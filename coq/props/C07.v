(* C07 property theorems: communication/computation overlap is the exact time ratio. *)
From Coq Require Import Permutation Sorted.
From HTA.lib Require Import Base Cells Intervals Sweep.
From HTA.model Require Import C04_Model C07_Model.
From HTA.gen Require Import KernelRules_gen.
From HTA.proof Require Import KernelRulesTie C04_Proofs C07_Proofs.
From HTA.gen Require Import OverlapRules_gen.
From HTA.proof Require Import Scale C04_Scale C07_Scale C07_RulesTie.

(* For EVERY ts-sorted permutation A', B' of the communication / computation intervals and EVERY
   time-sorted permutation R' of the +-1 / +-2 status rows (ties inside an instant in any order):
   numerator = time during which a communication AND a computation kernel run, denominator = time during
   which a communication kernel runs, 0 <= numerator <= denominator (so the percentage is in [0,100]). *)
Theorem C07_overlap_exact : forall (l : list ev), durs_nonneg l ->
  forall A' B' R' lo hi,
  Permutation (comm_itvs l) A' -> sorted_ts A' -> Permutation (comp_itvs l) B' -> sorted_ts B' ->
  Permutation (status_rows (merge_sorted A') (merge_sorted B')) R' -> sorted_time R' ->
  (forall i, In i (comm_itvs l ++ comp_itvs l) -> lo <= fst i /\ snd i <= hi) ->
  let (num, den) := overlap A' R' in
  num = cells (fun t => covered (comm_itvs l) t && covered (comp_itvs l) t) lo hi /\
  den = cells (covered (comm_itvs l)) lo hi /\ 0 <= num <= den.
Proof. exact overlap_exact. Qed.
Print Assumptions C07_overlap_exact.

Theorem C07_model_is_instance : forall l,
  let A' := sort_ts (comm_itvs l) in let B' := sort_ts (comp_itvs l) in
  let R' := sort_time (status_rows (merge_sorted A') (merge_sorted B')) in
  model_C07 l = overlap A' R' /\
  Permutation (comm_itvs l) A' /\ sorted_ts A' /\ Permutation (comp_itvs l) B' /\ sorted_ts B' /\
  Permutation (status_rows (merge_sorted A') (merge_sorted B')) R' /\ sorted_time R'.
Proof. exact model_C07_instance. Qed.
Print Assumptions C07_model_is_instance.

Theorem C07_bounds : forall num den, 0 <= num <= den -> 0 < den -> 0 <= 100 * num <= 100 * den.
Proof. exact pct_bounds. Qed.
Print Assumptions C07_bounds.

(* the sweep itself, for any selection of running values and any tie order *)
Theorem C07_sweep_exact : forall sel rows rows' lo hi,
  sel 0 = false -> sumZ (map snd rows) = 0 -> Permutation rows rows' -> sorted_time rows' ->
  (forall r, In r rows -> lo <= fst r <= hi) ->
  sweep sel 0 rows' = cells (fun u => sel (level rows u)) lo hi.
Proof. exact sweep_exact. Qed.
Print Assumptions C07_sweep_exact.

(* non-vacuity: comm [2,8) and [8,9) touching, comp [0,3), [3,3) zero length, [5,7), identical [5,7), comp starting
   at the instant comm ends [9,12); overlap = [2,3) + [5,7) = 3, comm time = 7 *)
Definition ex07 : list ev :=
  [ mkEv 0 0 1 1 1 (-1) (-1) (-1) (-1) "aten::zeros" "cpu_op";
    mkEv 1 2 6 0 7 7 1 0 (-1) "ncclKernel_AllReduce" "kernel";
    mkEv 2 8 1 0 7 7 2 0 (-1) "ncclDevKernel_x" "kernel";
    mkEv 3 0 3 0 8 8 3 0 (-1) "gemm" "kernel";
    mkEv 4 3 0 0 8 8 4 0 (-1) "gemm" "kernel";
    mkEv 5 5 2 0 8 8 5 0 (-1) "relu" "kernel";
    mkEv 6 5 2 0 9 9 6 0 (-1) "relu" "kernel";
    mkEv 7 9 3 0 9 9 7 0 (-1) "relu" "kernel";
    mkEv 8 4 1 0 9 9 8 0 (-1) "Memcpy DtoH" "gpu_memcpy" ].
Example C07_nonvacuous : encode_C07 ex07 = [3; 7].
Proof. vm_compute. reflexivity. Qed.

(* the tie by regeneration: the kernel classification of the model is the chain GENERATED from the current source (get_kernel_type, the codes of
   KernelType, the three regex wrappers; the regular expressions themselves are compared literally on every run) *)
Theorem C07_kernel_types_follow_source : forall n,
  ktype_code (get_kernel_type n) = kernel_type_gen (is_comm_kernel n) (is_memory_kernel n) (is_compute_kernel n).
Proof. exact kernel_type_is_generated. Qed.
Print Assumptions C07_kernel_types_follow_source.

(* resolution independence: times multiplied by k > 0 multiply numerator and denominator by k -- the ratio is unchanged *)
Theorem C07_resolution_independent : forall k l, 0 < k ->
  model_C07 (scale_evs k l) = (k * fst (model_C07 l), k * snd (model_C07 l)).
Proof. exact C07_scale. Qed.
Print Assumptions C07_resolution_independent.

(* the weights of the boundary rows (+-1 communication, +-2 computation) and the running value that counts as overlap (their sum) are
   read from get_comm_comp_overlap_value on every run (strict statement-by-statement reading) and are the model's *)
Theorem C07_rules_follow_source : forall (A B A' : list itv) (R' : list row),
  status_rows A B = (rows_of comm_weight_gen A ++ rows_of comp_weight_gen B)%list /\
  overlap A' R' = (sweep (Z.eqb overlap_level_gen) 0 R', total (merge_sorted A')) /\
  overlap_level_gen = comm_weight_gen + comp_weight_gen.
Proof. exact overlap_rules_are_generated. Qed.
Print Assumptions C07_rules_follow_source.
