From Coq Require Import ZArith List Bool Lia String.
From HTA.lib Require Import Base.
From HTA.model Require Import C08_Model C20_Model.
Import ListNotations.
Open Scope list_scope.
Open Scope Z_scope.

(* ---------- (1) counters ---------- *)
Lemma counters_preserve {A} (src ctr : list A) :
  firstn (List.length src) (with_counters src ctr) = src /\ skipn (List.length src) (with_counters src ctr) = ctr.
Proof.
  unfold with_counters. split.
  - rewrite firstn_app, Nat.sub_diag, firstn_all. simpl. apply app_nil_r.
  - rewrite skipn_app, Nat.sub_diag, skipn_all. reflexivity.
Qed.

(* ---------- (2) marking ---------- *)
Lemma clear_mark crit i e : clear_crit (mark crit i e) = clear_crit e.
Proof. unfold mark. destruct (memZ i crit); reflexivity. Qed.

Lemma crit_mark crit i e : w_crit (mark crit i e) = memZ i crit || w_crit e.
Proof. unfold mark. destruct (memZ i crit); reflexivity. Qed.

Lemma mark_all_length crit : forall l i, List.length (mark_all crit i l) = List.length l.
Proof. induction l as [|e r IH]; intro i; simpl; [reflexivity | rewrite IH; reflexivity]. Qed.

Lemma mark_all_clear crit : forall l i, map clear_crit (mark_all crit i l) = map clear_crit l.
Proof. induction l as [|e r IH]; intro i; simpl; [reflexivity | rewrite clear_mark, IH; reflexivity]. Qed.

Lemma mark_all_nth crit : forall l i k e, nth_error l k = Some e ->
  nth_error (mark_all crit i l) k = Some (mark crit (i + Z.of_nat k) e).
Proof.
  induction l as [|x r IH]; intros i k e H; [destruct k; discriminate|].
  destruct k as [|k].
  - simpl in H. inversion H; subst. simpl. rewrite Z.add_0_r. reflexivity.
  - simpl in H. cbn [mark_all nth_error]. rewrite (IH (i + 1) k e H). f_equal. f_equal. lia.
Qed.

Lemma mark_all_nth_none crit : forall l i k, nth_error l k = None -> nth_error (mark_all crit i l) k = None.
Proof. intros l i k H. apply nth_error_None. rewrite mark_all_length. apply nth_error_None. exact H. Qed.

Lemma overlay_keep_all sa zw src crit N cp all :
  overlay false sa zw src crit N cp all =
  map ISrc (mark_all crit 0 src) ++ map IFlow (flows_from src N cp 0 (drawn_edges false sa zw cp all)).
Proof. reflexivity. Qed.

(* every source event is at its own position, unchanged except for the marker, which is set exactly on the critical positions *)
Lemma overlay_preserves sa zw src crit N cp all :
  exists flows,
    overlay false sa zw src crit N cp all = map ISrc (mark_all crit 0 src) ++ map IFlow flows /\
    List.length (mark_all crit 0 src) = List.length src /\
    map clear_crit (mark_all crit 0 src) = map clear_crit src /\
    (forall k e, nth_error src k = Some e ->
       exists e', nth_error (overlay false sa zw src crit N cp all) k = Some (ISrc e') /\
                  clear_crit e' = clear_crit e /\ w_crit e' = memZ (Z.of_nat k) crit || w_crit e).
Proof.
  eexists. split; [apply overlay_keep_all|]. split; [apply mark_all_length|]. split; [apply mark_all_clear|].
  intros k e H. exists (mark crit (Z.of_nat k) e). split.
  - rewrite overlay_keep_all. rewrite nth_error_app1.
    + rewrite nth_error_map. rewrite (mark_all_nth crit src 0 k e H). reflexivity.
    + rewrite map_length, mark_all_length. apply nth_error_Some. congruence.
  - split; [apply clear_mark | apply crit_mark].
Qed.

(* with an unmarked source: marked iff the position is in the critical set *)
Lemma overlay_marks_exact sa zw src crit N cp all :
  forallb (fun e => negb (w_crit e)) src = true ->
  forall k e, nth_error src k = Some e ->
    exists e', nth_error (overlay false sa zw src crit N cp all) k = Some (ISrc e') /\
               (w_crit e' = true <-> memZ (Z.of_nat k) crit = true).
Proof.
  intros Hun k e H. destruct (overlay_preserves sa zw src crit N cp all) as [_ [_ [_ [_ Hk]]]].
  destruct (Hk k e H) as [e' [H1 [_ H3]]]. exists e'. split; [exact H1|].
  rewrite forallb_forall in Hun. specialize (Hun e (nth_error_In _ _ H)). rewrite H3.
  destruct (w_crit e); [discriminate|]. rewrite orb_false_r. tauto.
Qed.

(* nothing but flow events after the source events *)
Lemma overlay_tail sa zw src crit N cp all k x :
  (List.length src <= k)%nat -> nth_error (overlay false sa zw src crit N cp all) k = Some x -> exists f, x = IFlow f.
Proof.
  intros Hk H. rewrite overlay_keep_all in H. rewrite nth_error_app2 in H; [|rewrite map_length, mark_all_length; exact Hk].
  rewrite nth_error_map in H. destruct (nth_error _ _) as [f|]; [|discriminate]. inversion H. exists f. reflexivity.
Qed.

(* ---------- flows ---------- *)
Lemma flow_pair_wf src N cp id e : edge_wf src N e = true ->
  exists nu eu nv ev_, edge_events src N e = Some (nu, eu, nv, ev_) /\
    flow_pair src N cp id e =
      [ mkF true id (w_pid eu) (w_tid eu) (flow_ts nu eu) (g_ty e) (g_w e) (on_cp cp e);
        mkF false id (w_pid ev_) (w_tid ev_) (flow_ts nv ev_) (g_ty e) (g_w e) (on_cp cp e) ].
Proof.
  unfold edge_wf, flow_pair. destruct (edge_events src N e) as [[[[nu eu] nv] ev_]|]; [|discriminate].
  intros _. exists nu, eu, nv, ev_. split; reflexivity.
Qed.

Lemma flows_length src N cp : forall drawn id, forallb (edge_wf src N) drawn = true ->
  List.length (flows_from src N cp id drawn) = (2 * List.length drawn)%nat.
Proof.
  induction drawn as [|e r IH]; intros id H; [reflexivity|]. simpl in H. apply andb_prop in H. destruct H as [He Hr].
  destruct (flow_pair_wf src N cp id e He) as [nu [eu [nv [ev_ [_ Hp]]]]].
  cbn [flows_from]. rewrite Hp. cbn [app List.length]. rewrite (IH (id + 1) Hr). lia.
Qed.

Lemma flows_nth src N cp : forall drawn id k e, forallb (edge_wf src N) drawn = true -> nth_error drawn k = Some e ->
  exists nu eu nv ev_, edge_events src N e = Some (nu, eu, nv, ev_) /\
    nth_error (flows_from src N cp id drawn) (2 * k) =
      Some (mkF true (id + Z.of_nat k) (w_pid eu) (w_tid eu) (flow_ts nu eu) (g_ty e) (g_w e) (on_cp cp e)) /\
    nth_error (flows_from src N cp id drawn) (2 * k + 1) =
      Some (mkF false (id + Z.of_nat k) (w_pid ev_) (w_tid ev_) (flow_ts nv ev_) (g_ty e) (g_w e) (on_cp cp e)).
Proof.
  induction drawn as [|x r IH]; intros id k e H Hk; [destruct k; discriminate|].
  simpl in H. apply andb_prop in H. destruct H as [Hx Hr].
  destruct (flow_pair_wf src N cp id x Hx) as [nu [eu [nv [ev_ [Hev Hp]]]]].
  destruct k as [|k].
  - simpl in Hk. inversion Hk; subst x. exists nu, eu, nv, ev_. split; [exact Hev|].
    cbn [flows_from]. rewrite Hp. rewrite Z.add_0_r. split; reflexivity.
  - simpl in Hk. destruct (IH (id + 1) k e Hr Hk) as [nu' [eu' [nv' [ev' [Hev' [H1 H2]]]]]].
    exists nu', eu', nv', ev'. split; [exact Hev'|].
    cbn [flows_from]. rewrite Hp.
    replace (2 * S k)%nat with (S (S (2 * k))) by lia. replace (S (S (2 * k)) + 1)%nat with (S (S (2 * k + 1))) by lia.
    cbn [app nth_error]. rewrite H1, H2. replace (id + 1 + Z.of_nat k) with (id + Z.of_nat (S k)) by lia. split; reflexivity.
Qed.

(* every flow event belongs to exactly one pair: ids are the positions of the drawn edges *)
Lemma flows_ids src N cp : forall drawn id j f, forallb (edge_wf src N) drawn = true ->
  nth_error (flows_from src N cp id drawn) j = Some f -> f_id f = id + Z.of_nat (j / 2) /\ f_start f = Nat.even j.
Proof.
  induction drawn as [|x r IH]; intros id j f H Hj; [destruct j; discriminate|].
  simpl in H. apply andb_prop in H. destruct H as [Hx Hr].
  destruct (flow_pair_wf src N cp id x Hx) as [nu [eu [nv [ev_ [_ Hp]]]]].
  cbn [flows_from] in Hj. rewrite Hp in Hj.
  destruct j as [|[|j]].
  - simpl in Hj. inversion Hj. simpl. split; [lia | reflexivity].
  - simpl in Hj. inversion Hj. simpl. split; [lia | reflexivity].
  - cbn [app nth_error] in Hj. destruct (IH (id + 1) j f Hr Hj) as [H1 H2]. split.
    + rewrite H1. replace (S (S j)) with (j + 1 * 2)%nat by lia. rewrite Nat.div_add by lia. lia.
    + rewrite H2. reflexivity.
Qed.

Lemma drawn_spec oc sa zw cp all e :
  In e (drawn_edges oc sa zw cp all) <->
  (if sa && negb oc then In e all /\ (zw = true \/ zero_launch e = false) else In e cp).
Proof.
  unfold drawn_edges. destruct (sa && negb oc); [|tauto]. rewrite filter_In.
  destruct zw; simpl; [tauto|]. destruct (zero_launch e); simpl; intuition congruence.
Qed.

(* ---------- (3) rank update ---------- *)
Fixpoint lookup_key (k : string) (l : list (string * jval)) : option jval :=
  match l with [] => None | (a, v) :: r => if String.eqb a k then Some v else lookup_key k r end.

Definition info_wf (d : doc) : Prop := has_key "distributedInfo" (d_keys d) = true -> exists f, get_info (d_keys d) = Some f.

Lemma update_events d r : d_events (update_rank d r) = d_events d.
Proof. unfold update_rank. destruct (has_key _ _); reflexivity. Qed.

Lemma get_set_field k v : forall l, get_field k (set_field k v l) = Some v.
Proof.
  induction l as [|[a b] l IH]; simpl; [rewrite String.eqb_refl; reflexivity|].
  destruct (String.eqb a k) eqn:E; simpl; rewrite E; [reflexivity | exact IH].
Qed.
Lemma get_set_other k k' v : k' <> k -> forall l, get_field k' (set_field k v l) = get_field k' l.
Proof.
  intros Hne. induction l as [|[a b] l IH]; simpl.
  - destruct (String.eqb k k') eqn:E; [apply String.eqb_eq in E; congruence | reflexivity].
  - destruct (String.eqb a k) eqn:E; simpl.
    + destruct (String.eqb a k') eqn:E'; [|reflexivity]. apply String.eqb_eq in E, E'. congruence.
    + destruct (String.eqb a k'); [reflexivity | exact IH].
Qed.
Lemma set_field_keys k v : forall l, map fst (set_field k v l) = map fst l ++ (if existsb (fun kv => String.eqb (fst kv) k) l then [] else [k]).
Proof.
  induction l as [|[a b] l IH]; simpl; [reflexivity|]. destruct (String.eqb a k) eqn:E; simpl.
  - rewrite app_nil_r. reflexivity.
  - rewrite IH. reflexivity.
Qed.

Lemma upd_info_keys r : forall l, map fst (upd_info r l) = map fst l.
Proof.
  induction l as [|[a v] l IH]; simpl; [reflexivity|]. destruct (String.eqb a "distributedInfo"); simpl; [reflexivity | rewrite IH; reflexivity].
Qed.
Lemma upd_info_other r k : k <> "distributedInfo"%string -> forall l, lookup_key k (upd_info r l) = lookup_key k l.
Proof.
  intros Hne. induction l as [|[a v] l IH]; simpl; [reflexivity|].
  destruct (String.eqb a "distributedInfo") eqn:E; simpl.
  - destruct (String.eqb a k) eqn:E'; [|reflexivity]. apply String.eqb_eq in E, E'. congruence.
  - destruct (String.eqb a k); [reflexivity | exact IH].
Qed.
Lemma upd_info_get r : forall l f, get_info l = Some f -> get_info (upd_info r l) = Some (set_field "rank" r f).
Proof.
  induction l as [|[a v] l IH]; intros f H; simpl in *; [discriminate|].
  destruct (String.eqb a "distributedInfo") eqn:E; simpl; rewrite E.
  - destruct v; [discriminate|]. inversion H; subst. reflexivity.
  - apply IH. exact H.
Qed.
Lemma lookup_app_other k l x v : k <> x -> lookup_key k (l ++ [(x, v)]) = lookup_key k l.
Proof.
  intros Hne. induction l as [|[a w] l IH]; simpl.
  - destruct (String.eqb x k) eqn:E; [apply String.eqb_eq in E; congruence | reflexivity].
  - destruct (String.eqb a k); [reflexivity | exact IH].
Qed.
Lemma get_info_app_new : forall l f, has_key "distributedInfo" l = false -> get_info (l ++ [("distributedInfo"%string, JInfo f)]) = Some f.
Proof.
  induction l as [|[a w] l IH]; intros f H; simpl in *; [reflexivity|].
  apply orb_false_iff in H. destruct H as [H1 H2]. rewrite H1. apply IH. exact H2.
Qed.

Lemma update_rank_sets d r : info_wf d -> doc_rank (update_rank d r) = Some r.
Proof.
  intros Hwf. unfold update_rank, doc_rank. destruct (has_key "distributedInfo" (d_keys d)) eqn:E; cbn [d_keys].
  - destruct (Hwf E) as [f Hf]. rewrite (upd_info_get r _ f Hf). apply get_set_field.
  - rewrite (get_info_app_new _ _ E). simpl. reflexivity.
Qed.

Lemma update_rank_other_keys d r k : k <> "distributedInfo"%string ->
  lookup_key k (d_keys (update_rank d r)) = lookup_key k (d_keys d).
Proof.
  intros Hne. unfold update_rank. destruct (has_key _ _); cbn [d_keys]; [apply upd_info_other; exact Hne | apply lookup_app_other; exact Hne].
Qed.

Lemma update_rank_key_order d r :
  map fst (d_keys (update_rank d r)) = map fst (d_keys d) ++ (if has_key "distributedInfo" (d_keys d) then [] else ["distributedInfo"%string]).
Proof.
  unfold update_rank. destruct (has_key _ _); cbn [d_keys]; [rewrite upd_info_keys, app_nil_r; reflexivity | rewrite map_app; reflexivity].
Qed.

Lemma update_rank_other_info d r f k : get_info (d_keys d) = Some f -> k <> "rank"%string ->
  exists f', get_info (d_keys (update_rank d r)) = Some f' /\ get_field k f' = get_field k f.
Proof.
  intros Hf Hne. unfold update_rank.
  assert (Hk : has_key "distributedInfo" (d_keys d) = true).
  { clear - Hf. induction (d_keys d) as [|[a v] l IH]; simpl in *; [discriminate|]. destruct (String.eqb a "distributedInfo"); [reflexivity | apply IH; exact Hf]. }
  rewrite Hk. cbn [d_keys]. exists (set_field "rank" r f). split; [apply upd_info_get; exact Hf | apply get_set_other; exact Hne].
Qed.

Lemma set_field_twice k v v' : forall l, set_field k v' (set_field k v l) = set_field k v' l.
Proof.
  induction l as [|[a b] l IH]; simpl; [rewrite String.eqb_refl; reflexivity|].
  destruct (String.eqb a k) eqn:E; simpl; rewrite E; [reflexivity | rewrite IH; reflexivity].
Qed.
Lemma upd_info_twice r r' : forall l, upd_info r' (upd_info r l) = upd_info r' l.
Proof.
  induction l as [|[a v] l IH]; simpl; [reflexivity|]. destruct (String.eqb a "distributedInfo") eqn:E; simpl; rewrite E.
  - destruct v; [reflexivity | rewrite set_field_twice; reflexivity].
  - rewrite IH. reflexivity.
Qed.
Lemma has_key_upd r : forall l, has_key "distributedInfo" (upd_info r l) = has_key "distributedInfo" l.
Proof.
  induction l as [|[a v] l IH]; simpl; [reflexivity|]. destruct (String.eqb a "distributedInfo") eqn:E; simpl; rewrite E; [reflexivity | exact IH].
Qed.
Lemma has_key_app_new : forall l v, has_key "distributedInfo" (l ++ [("distributedInfo"%string, v)]) = true.
Proof. induction l as [|[a w] l IH]; intro v; simpl; [reflexivity | rewrite IH; apply orb_true_r]. Qed.
Lemma upd_info_app_new r r' : forall l, has_key "distributedInfo" l = false ->
  upd_info r' (l ++ [("distributedInfo"%string, JInfo [("rank"%string, r)])]) = l ++ [("distributedInfo"%string, JInfo [("rank"%string, r')])].
Proof.
  induction l as [|[a w] l IH]; intro H; simpl in *; [reflexivity|]. apply orb_false_iff in H. destruct H as [H1 H2]. rewrite H1, (IH H2). reflexivity.
Qed.

(* the last update wins; in particular updating twice with the same rank is the same as once *)
Lemma update_rank_twice d r r' : update_rank (update_rank d r) r' = update_rank d r'.
Proof.
  unfold update_rank. destruct (has_key "distributedInfo" (d_keys d)) eqn:E; cbn [d_keys d_events].
  - rewrite has_key_upd, E, upd_info_twice. reflexivity.
  - rewrite has_key_app_new, (upd_info_app_new r r' _ E). reflexivity.
Qed.

(* the byte-level codecs (json + gzip) are runtime behaviour: hypotheses here, exercised by the correspondence run *)
Section Codec.
  Variable bytes : Type.
  Variable enc : bool -> doc -> bytes.            (* true: .gz *)
  Variable dec : bool -> bytes -> option doc.
  Hypothesis codec_rt : forall gz d, dec gz (enc gz d) = Some d.

  Definition write_file (gz : bool) (d : doc) : bytes := enc gz d.
  Definition read_file (gz : bool) (b : bytes) : option doc := dec gz b.
  Definition update_file (gz : bool) (b : bytes) (r : Z) : option bytes :=
    match read_file gz b with Some d => Some (write_file gz (update_rank d r)) | None => None end.

  Lemma read_write gz d : read_file gz (write_file gz d) = Some d.
  Proof. apply codec_rt. Qed.

  Lemma update_file_spec gz d r : exists b, update_file gz (write_file gz d) r = Some b /\ read_file gz b = Some (update_rank d r).
  Proof. unfold update_file. rewrite read_write. eexists. split; [reflexivity | apply read_write]. Qed.
End Codec.

(* ---------- (4) rank discovery ---------- *)
Fixpoint getm (m : list (Z * Z)) (k : Z) : option Z :=
  match m with [] => None | (a, b) :: r => if a =? k then Some b else getm r k end.

Lemma getm_put k v : forall m r, getm (put k v m) r = if k =? r then Some v else getm m r.
Proof.
  induction m as [|[a b] m IH]; intro r; simpl; [reflexivity|].
  destruct (a =? k) eqn:E; simpl.
  - assert (a = k) by lia. subst a. destruct (k =? r); reflexivity.
  - rewrite IH. destruct (a =? r) eqn:E2; [|reflexivity]. destruct (k =? r) eqn:E3; [lia | reflexivity].
Qed.

Definition last_with (r : Z) (files : list (Z * list Z)) (acc : option Z) : option Z :=
  fold_left (fun a f => if file_rank (snd f) =? r then Some (fst f) else a) files acc.

Lemma discover_acc r : forall files m,
  getm (fold_left (fun m f => put (file_rank (snd f)) (fst f) m) files m) r = last_with r files (getm m r).
Proof.
  induction files as [|f files IH]; intro m; [reflexivity|]. unfold last_with in *. cbn [fold_left]. rewrite IH, getm_put. reflexivity.
Qed.

(* the path stored for a rank is the last file that shows that rank *)
Lemma discover_last files r : getm (discover files) r = last_with r files None.
Proof. unfold discover. rewrite discover_acc. reflexivity. Qed.

Lemma last_with_none r : forall files acc, (forall f, In f files -> file_rank (snd f) <> r) -> last_with r files acc = acc.
Proof.
  induction files as [|f files IH]; intros acc H; [reflexivity|]. unfold last_with in *. cbn [fold_left].
  destruct (file_rank (snd f) =? r) eqn:E; [exfalso; apply (H f (or_introl eq_refl)); lia|].
  apply IH. intros g Hg. apply H. right. exact Hg.
Qed.

Lemma discover_unique files : NoDup (map (fun f => file_rank (snd f)) files) ->
  forall f, In f files -> getm (discover files) (file_rank (snd f)) = Some (fst f).
Proof.
  intros Hnd f Hin. rewrite discover_last. destruct (in_split f files Hin) as [l1 [l2 Heq]]. subst files.
  unfold last_with. rewrite fold_left_app. cbn [fold_left]. rewrite Z.eqb_refl.
  change (last_with (file_rank (snd f)) l2 (Some (fst f)) = Some (fst f)). apply last_with_none.
  intros g Hg Heq. rewrite map_app in Hnd. cbn [map] in Hnd. apply NoDup_remove_2 in Hnd. apply Hnd.
  apply in_or_app. right. rewrite <- Heq. apply (in_map (fun f => file_rank (snd f))). exact Hg.
Qed.

Lemma discover_only_files files r p : getm (discover files) r = Some p -> exists f, In f files /\ fst f = p /\ file_rank (snd f) = r.
Proof.
  rewrite discover_last. unfold last_with.
  assert (H : forall files acc, fold_left (fun a f => if file_rank (snd f) =? r then Some (fst f) else a) files acc = Some p ->
             acc = Some p \/ exists f, In f files /\ fst f = p /\ file_rank (snd f) = r).
  { clear. induction files as [|f files IH]; intros acc H; [left; exact H|]. cbn [fold_left] in H.
    destruct (IH _ H) as [H1|[g [Hg1 Hg2]]].
    - destruct (file_rank (snd f) =? r) eqn:E; [|left; exact H1]. right. exists f. split; [left; reflexivity|]. split; [congruence | lia].
    - right. exists g. split; [right; exact Hg1 | exact Hg2]. }
  intro H0. destruct (H files None H0) as [H1|H1]; [discriminate | exact H1].
Qed.

(* files described with the rank their metadata records; when the first "rank" occurrence of every file is that rank
   and the ranks are distinct, discovery is exactly the metadata map *)
Lemma discover_metadata (files : list (Z * Z * list Z)) :
  (forall f, In f files -> hd_error (snd f) = Some (snd (fst f))) ->
  NoDup (map (fun f => snd (fst f)) files) ->
  forall f, In f files -> getm (discover (map (fun f => (fst (fst f), snd f)) files)) (snd (fst f)) = Some (fst (fst f)).
Proof.
  intros Hfirst Hnd f Hin.
  assert (Hr : forall g, In g files -> file_rank (snd g) = snd (fst g)).
  { intros g Hg. specialize (Hfirst g Hg). unfold file_rank. destruct (snd g); [discriminate | inversion Hfirst; reflexivity]. }
  pose proof (discover_unique (map (fun f => (fst (fst f), snd f)) files)) as H.
  assert (Hnd' : NoDup (map (fun f : Z * list Z => file_rank (snd f)) (map (fun f : Z * Z * list Z => (fst (fst f), snd f)) files))).
  { rewrite map_map. cbn [snd]. erewrite map_ext_in; [exact Hnd|]. intros g Hg. apply Hr. exact Hg. }
  specialize (H Hnd' (fst (fst f), snd f) (in_map _ _ _ Hin)). cbn [fst snd] in H. rewrite (Hr f Hin) in H. exact H.
Qed.
