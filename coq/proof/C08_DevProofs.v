(* Device side of the critical-path graph: for EVERY processing sequence that is causally consistent (an activity starts no earlier than
   its launch call and than the end of the previous activity of its stream; a synchronising call returns no earlier than the work it
   waits for) every edge the loop emits points forward in time, weighs the time difference or zero as its type prescribes, and joins
   what its type stands for. *)
From Coq Require Import ZArith List Bool Lia.
From HTA.lib Require Import Base.
From HTA.model Require Import C08_Host C08_Dev.
Import ListNotations.
Open Scope list_scope.
Open Scope Z_scope.

Definition DGood (e : hedge) : Prop :=
  n_ts (he_src e) <= n_ts (he_dst e) /\ 0 <= he_w e /\
  (he_ty e = 0 /\ he_w e = n_ts (he_dst e) - n_ts (he_src e) /\ n_start (he_src e) = true /\ n_start (he_dst e) = false /\
     n_ev (he_src e) = n_ev (he_dst e) /\ he_attr e = n_ev (he_src e)
   \/ he_ty e = 2 /\ n_start (he_src e) = true /\ n_start (he_dst e) = true /\ (he_w e = n_ts (he_dst e) - n_ts (he_src e) \/ he_w e = 0)
   \/ he_ty e = 3 /\ n_start (he_src e) = false /\ n_start (he_dst e) = true /\ he_w e = n_ts (he_dst e) - n_ts (he_src e) /\
     he_attr e = n_ev (he_src e)
   \/ he_ty e = 4 /\ he_w e = 0 /\ n_start (he_src e) = false /\ n_start (he_dst e) = false).

Definition ends_only (st : list (Z * hnode)) : Prop := Forall (fun sn : Z * hnode => n_start (snd sn) = false) st.

Lemma last_of_in s : forall st n, last_of s st = Some n -> In (s, n) st \/ exists a, In (a, n) st.
Proof.
  induction st as [|[a m] r IH]; intros n H; [discriminate|]. simpl in H. destruct (a =? s) eqn:E.
  - inversion H; subst. right. exists a. left. reflexivity.
  - destruct (IH n H) as [H1|[b H1]]; [left; right; exact H1 | right; exists b; right; exact H1].
Qed.

Lemma last_of_end s st n : ends_only st -> last_of s st = Some n -> n_start n = false.
Proof.
  intros He H. unfold ends_only in He. rewrite Forall_forall in He.
  destruct (last_of_in s st n H) as [H1|[a H1]]; apply (He _ H1).
Qed.

Lemma set_last_ends s n : forall st, ends_only st -> n_start n = false -> ends_only (set_last s n st).
Proof.
  induction st as [|[a m] r IH]; intros He Hn; simpl.
  - constructor; [exact Hn | constructor].
  - inversion He as [|x l Hx Hl]; subst. destruct (a =? s); constructor; [exact Hn | exact Hl | exact Hx | apply IH; assumption].
Qed.

Lemma dstep_state zw st r : fst (fst (dstep zw st r)) = fst (fst (dstep false st r)).
Proof. destruct r; cbn; try reflexivity; try (destruct (last_of _ st); reflexivity). Qed.

Lemma dstep_good zw st r : ends_only st -> dwf_step st r = true ->
  ends_only (fst (fst (dstep zw st r))) /\ Forall DGood (snd (fst (dstep zw st r))).
Proof.
  intros He Hw. destruct r as [eid s t0 t1 rt rt_ts rt_has q_rt q_k | s rt rt_end rt_has | rt rt_end rt_has | ].
  - cbn [dwf_step] in Hw. apply andb_prop in Hw. destruct Hw as [Hw H3]. apply andb_prop in Hw. destruct Hw as [H1 H2].
    cbn [dstep fst snd]. split; [apply set_last_ends; [exact He | reflexivity]|].
    apply Forall_app. split.
    + constructor; [|constructor]. unfold DGood. cbn. split; [lia|]. split; [lia|]. left. repeat split; reflexivity.
    + apply Forall_app. split.
      * destruct ((q_rt =? 1) && (q_k =? 0) && match last_of s st with Some n => n_ts n <? rt_ts | None => true end).
        { constructor; [|constructor]. unfold DGood. cbn. split; [lia|]. split; [lia|]. right. left. repeat split; try reflexivity. left. reflexivity. }
        destruct (last_of s st) as [n|] eqn:El; [|constructor]. constructor; [|constructor].
        unfold DGood. cbn. split; [lia|]. split; [lia|]. right. right. left.
        pose proof (last_of_end s st n He El) as Hn. repeat split; try reflexivity; exact Hn.
      * destruct (zw && negb _ && rt_has); [|constructor]. constructor; [|constructor].
        unfold DGood. cbn. split; [lia|]. split; [lia|]. right. left. repeat split; try reflexivity. right. reflexivity.
  - cbn [dwf_step] in Hw. cbn [dstep]. destruct (last_of s st) as [n|] eqn:El; cbn [fst snd]; [|split; [exact He | constructor]].
    split; [exact He|]. destruct rt_has; [|constructor]. constructor; [|constructor]. unfold DGood. cbn. split; [lia|]. split; [lia|]. right. right. right.
    pose proof (last_of_end s st n He El) as Hn. repeat split; try reflexivity; exact Hn.
  - cbn [dwf_step] in Hw. cbn [dstep fst snd]. split; [exact He|]. destruct rt_has; [|constructor]. rewrite forallb_forall in Hw. unfold ends_only in He. rewrite Forall_forall in He.
    apply Forall_forall. intros e Hin. apply in_map_iff in Hin. destruct Hin as [sn [Heq Hin]]. subst e.
    specialize (Hw sn Hin). specialize (He sn Hin). unfold DGood. cbn. split; [lia|]. split; [lia|]. right. right. right. repeat split; try reflexivity; exact He.
  - cbn. split; [exact He | constructor].
Qed.

Lemma drun_good zw : forall rows st, ends_only st -> dwf st rows = true -> Forall DGood (fst (drun zw st rows)).
Proof.
  induction rows as [|r rest IH]; intros st He Hw; [constructor|].
  cbn [dwf] in Hw. apply andb_prop in Hw. destruct Hw as [H1 H2].
  destruct (dstep_good zw st r He H1) as [He' Hg]. cbn [drun].
  pose proof (dstep_state zw st r) as Hst.
  destruct (dstep zw st r) as [[st' es] ok]. cbn [fst snd] in *. rewrite <- Hst in H2.
  specialize (IH st' He' H2). destruct (drun zw st' rest) as [es' ok']. cbn [fst] in *. apply Forall_app. split; assumption.
Qed.

Theorem dev_edges_good zw rows : dwf [] rows = true -> Forall DGood (fst (drun zw [] rows)).
Proof. intro H. apply (drun_good zw rows [] (Forall_nil _) H). Qed.
