(* C17: resolution independence of the trace diff: the same names, the same counts, total durations multiplied by k *)
From HTA.lib Require Import Base.
From HTA.model Require Import C17_Model.
From HTA.proof Require Import Scale.
Open Scope Z_scope.

Definition sdr (k : Z) (r : drow) : drow := mkDrow (d_key r) (d_cc r) (d_tc r) (k * d_cd r) (k * d_td r).

Lemma concat_map_map {A B} (f : A -> B) (ll : list (list A)) : List.concat (map (map f) ll) = map f (List.concat ll).
Proof. induction ll as [|l r IH]; cbn [map List.concat]; [reflexivity|]. rewrite map_app, IH. reflexivity. Qed.

Lemma sel_scale k frames its dev : sel (map (scale_evs k) frames) its dev = scale_evs k (sel frames its dev).
Proof.
  unfold sel. unfold scale_evs at 1. rewrite concat_map_map. unfold scale_evs. apply filter_map_comm. reflexivity.
Qed.

Lemma cnt_scale k short key0 l : cnt short key0 (scale_evs k l) = cnt short key0 l.
Proof.
  unfold cnt, count, scale_evs.
  rewrite (filter_map_comm (scale_ev k) _ (fun e => String.eqb (key short e) key0)) by reflexivity.
  rewrite map_length. reflexivity.
Qed.

Lemma tot_scale k short key0 l : tot short key0 (scale_evs k l) = k * tot short key0 l.
Proof.
  unfold tot, scale_evs.
  rewrite (filter_map_comm (scale_ev k) _ (fun e => String.eqb (key short e) key0)) by reflexivity.
  rewrite map_map, <- sumZ_scale, map_map. reflexivity.
Qed.

Lemma keys_scale k short c t : keys short (scale_evs k c) (scale_evs k t) = keys short c t.
Proof. unfold keys, scale_evs. rewrite <- map_app, map_map. reflexivity. Qed.

Theorem C17_scale k short c t : diff_rows short (scale_evs k c) (scale_evs k t) = map (sdr k) (diff_rows short c t).
Proof.
  unfold diff_rows. rewrite keys_scale, map_map. apply map_ext. intro key0.
  rewrite !cnt_scale, !tot_scale. reflexivity.
Qed.
