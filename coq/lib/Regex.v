(* Regular expressions: Brzozowski-derivative matcher, proved equivalent to the language semantics;
   prefix matching (Python re.match / Series.str.match). *)
From Coq Require Import List Bool String Ascii.
Import ListNotations.
Open Scope string_scope.

Inductive re : Type :=
| Empty : re                      (* no string *)
| Eps : re                        (* "" *)
| Chr : ascii -> re
| Any : re                        (* any one character (names contain no newline) *)
| Cls : list ascii -> re          (* one character of a class *)
| Cat : re -> re -> re
| Alt : re -> re -> re
| Star : re -> re.

Definition Plus (r : re) : re := Cat r (Star r).
Definition Opt (r : re) : re := Alt Eps r.
Fixpoint Lit (s : string) : re :=
  match s with EmptyString => Eps | String c s' => Cat (Chr c) (Lit s') end.

Inductive matches : re -> string -> Prop :=
| MEps : matches Eps ""
| MChr c : matches (Chr c) (String c "")
| MAny c : matches Any (String c "")
| MCls c cs : In c cs -> matches (Cls cs) (String c "")
| MCat r1 r2 s1 s2 : matches r1 s1 -> matches r2 s2 -> matches (Cat r1 r2) (s1 ++ s2)
| MAltL r1 r2 s : matches r1 s -> matches (Alt r1 r2) s
| MAltR r1 r2 s : matches r2 s -> matches (Alt r1 r2) s
| MStar0 r : matches (Star r) ""
| MStarS r s1 s2 : matches r s1 -> matches (Star r) s2 -> matches (Star r) (s1 ++ s2).

Fixpoint nullable (r : re) : bool :=
  match r with
  | Empty | Chr _ | Any | Cls _ => false
  | Eps | Star _ => true
  | Cat a b => nullable a && nullable b
  | Alt a b => nullable a || nullable b
  end.

Definition in_cls (c : ascii) (cs : list ascii) : bool := existsb (Ascii.eqb c) cs.

Fixpoint deriv (c : ascii) (r : re) : re :=
  match r with
  | Empty | Eps => Empty
  | Chr d => if Ascii.eqb c d then Eps else Empty
  | Any => Eps
  | Cls cs => if in_cls c cs then Eps else Empty
  | Cat a b => if nullable a then Alt (Cat (deriv c a) b) (deriv c b) else Cat (deriv c a) b
  | Alt a b => Alt (deriv c a) (deriv c b)
  | Star a => Cat (deriv c a) (Star a)
  end.

Fixpoint match_full (r : re) (s : string) : bool :=
  match s with
  | EmptyString => nullable r
  | String c s' => match_full (deriv c r) s'
  end.

(* re.match: some prefix of s is in the language *)
Fixpoint match_prefix (r : re) (s : string) : bool :=
  nullable r || match s with EmptyString => false | String c s' => match_prefix (deriv c r) s' end.

(* ---------------- correctness ---------------- *)
Lemma append_nil_inv s1 s2 : s1 ++ s2 = "" -> s1 = "" /\ s2 = "".
Proof. destruct s1; simpl; intro H; [auto | discriminate]. Qed.

Lemma append_assoc' (a b c : string) : (a ++ b) ++ c = a ++ (b ++ c).
Proof. induction a as [|x a IH]; simpl; [reflexivity | rewrite IH; reflexivity]. Qed.

Lemma append_nil_r (s : string) : s ++ "" = s.
Proof. induction s as [|c s IH]; simpl; [reflexivity | rewrite IH; reflexivity]. Qed.

Lemma cat_inv r1 r2 s : matches (Cat r1 r2) s -> exists s1 s2, s = s1 ++ s2 /\ matches r1 s1 /\ matches r2 s2.
Proof. intro H. inversion H; subst. eauto. Qed.

Lemma alt_inv r1 r2 s : matches (Alt r1 r2) s -> matches r1 s \/ matches r2 s.
Proof. intro H. inversion H; subst; auto. Qed.

Lemma nullable_spec r : nullable r = true <-> matches r "".
Proof.
  induction r as [| | c | | cs | a IHa b IHb | a IHa b IHb | a IHa]; simpl.
  - split; [discriminate | intro H; inversion H].
  - split; [constructor | reflexivity].
  - split; [discriminate | intro H; inversion H].
  - split; [discriminate | intro H; inversion H].
  - split; [discriminate | intro H; inversion H].
  - rewrite andb_true_iff, IHa, IHb. split.
    + intros [H1 H2]. change "" with ("" ++ ""). constructor; assumption.
    + intro H. apply cat_inv in H. destruct H as [s1 [s2 [E [H1 H2]]]]. symmetry in E.
      apply append_nil_inv in E. destruct E; subst. split; assumption.
  - rewrite orb_true_iff, IHa, IHb. split.
    + intros [H|H]; [apply MAltL | apply MAltR]; assumption.
    + intro H. inversion H; subst; [left | right]; assumption.
  - split; [constructor | reflexivity].
Qed.

Lemma in_cls_spec c cs : in_cls c cs = true <-> In c cs.
Proof.
  unfold in_cls. rewrite existsb_exists. split.
  - intros [x [Hx E]]. apply Ascii.eqb_eq in E. subst. exact Hx.
  - intro H. exists c. split; [exact H | apply Ascii.eqb_refl].
Qed.

(* a non-empty match of Star r starts with a non-empty match of r *)
Lemma star_cons_inv_gen R S : matches R S -> forall r0 c0 s0, R = Star r0 -> S = String c0 s0 ->
  exists s1 s2, s0 = s1 ++ s2 /\ matches r0 (String c0 s1) /\ matches (Star r0) s2.
Proof.
  induction 1 as [| | | | | | | |r' s1 s2 H1 IH1 H2 IH2]; intros r0 c0 s0 ER ES; try discriminate.
  inversion ER; subst r'. destruct s1 as [|d s1']; simpl in ES.
  - eapply IH2; [reflexivity | exact ES].
  - inversion ES; subst. exists s1', s2. repeat split; assumption.
Qed.

Lemma star_cons_inv r c s :
  matches (Star r) (String c s) ->
  exists s1 s2, s = s1 ++ s2 /\ matches r (String c s1) /\ matches (Star r) s2.
Proof. intro H. eapply star_cons_inv_gen; [exact H | reflexivity | reflexivity]. Qed.

Lemma deriv_spec r : forall c s, matches (deriv c r) s <-> matches r (String c s).
Proof.
  induction r as [| | d | | cs | a IHa b IHb | a IHa b IHb | a IHa]; intros c s; simpl.
  - split; intro H; inversion H.
  - split; intro H; inversion H.
  - destruct (Ascii.eqb c d) eqn:E.
    + apply Ascii.eqb_eq in E. subst. split; intro H; inversion H; subst; constructor.
    + apply Ascii.eqb_neq in E. split; intro H; inversion H; subst. congruence.
  - split; intro H; inversion H; subst; constructor.
  - destruct (in_cls c cs) eqn:E.
    + apply in_cls_spec in E. split; intro H; inversion H; subst; constructor; assumption.
    + split; intro H; inversion H; subst. apply in_cls_spec in H2. congruence.
  - assert (Hcat : matches (Cat (deriv c a) b) s -> matches (Cat a b) (String c s)).
    { intro H. apply cat_inv in H. destruct H as [s1 [s2 [E [H1 H2]]]]. subst.
      apply IHa in H1. change (String c (s1 ++ s2)) with (String c s1 ++ s2). constructor; assumption. }
    assert (Hinv : matches (Cat a b) (String c s) ->
                   (exists s1 s2, s = s1 ++ s2 /\ matches a (String c s1) /\ matches b s2) \/
                   (matches a "" /\ matches b (String c s))).
    { intro H. apply cat_inv in H. destruct H as [s1 [s2 [E [H1 H2]]]].
      destruct s1 as [|d s1]; simpl in E.
      - right. subst. split; assumption.
      - inversion E; subst. left. exists s1, s2. repeat split; assumption. }
    destruct (nullable a) eqn:N.
    + split.
      * intro H. apply alt_inv in H. destruct H as [H|H2]; [apply Hcat; assumption|].
        apply IHb in H2. apply nullable_spec in N. change (String c s) with ("" ++ String c s).
        constructor; assumption.
      * intro H. apply Hinv in H. destruct H as [[s1 [s2 [E [H1 H2]]]] | [H1 H2]].
        -- subst. apply MAltL. constructor; [apply IHa; assumption | assumption].
        -- apply MAltR. apply IHb. assumption.
    + split; [exact Hcat|].
      intro H. apply Hinv in H. destruct H as [[s1 [s2 [E [H1 H2]]]] | [H1 H2]].
      * subst. constructor; [apply IHa; assumption | assumption].
      * apply nullable_spec in H1. congruence.
  - split; intro H; apply alt_inv in H; destruct H as [H|H].
    + apply MAltL. apply IHa. assumption.
    + apply MAltR. apply IHb. assumption.
    + apply MAltL. apply IHa. assumption.
    + apply MAltR. apply IHb. assumption.
  - split.
    + intro H. apply cat_inv in H. destruct H as [s1 [s2 [E [H1 H2]]]]. subst.
      apply IHa in H1. change (String c (s1 ++ s2)) with (String c s1 ++ s2). constructor; assumption.
    + intro H. apply star_cons_inv in H. destruct H as [s1 [s2 [E [H1 H2]]]]. subst.
      constructor; [apply IHa; assumption | assumption].
Qed.

Theorem match_full_spec : forall s r, match_full r s = true <-> matches r s.
Proof.
  induction s as [|c s IH]; intro r; simpl.
  - apply nullable_spec.
  - rewrite IH. apply deriv_spec.
Qed.

Theorem match_prefix_spec : forall s r,
  match_prefix r s = true <-> exists s1 s2, s = s1 ++ s2 /\ matches r s1.
Proof.
  induction s as [|c s IH]; intro r; simpl.
  - rewrite orb_false_r, nullable_spec. split.
    + intro H. exists "", "". split; [reflexivity | exact H].
    + intros [s1 [s2 [E H]]]. symmetry in E. apply append_nil_inv in E. destruct E; subst. exact H.
  - rewrite orb_true_iff, IH, nullable_spec. split.
    + intros [H | [s1 [s2 [E H]]]].
      * exists "", (String c s). split; [reflexivity | exact H].
      * subst. exists (String c s1), s2. split; [reflexivity | apply deriv_spec; exact H].
    + intros [s1 [s2 [E H]]]. destruct s1 as [|d s1]; simpl in E.
      * left. exact H.
      * inversion E; subst. right. exists s1, s2. split; [reflexivity | apply deriv_spec; exact H].
Qed.
