"""Source -> Gallina translator (fail-closed) and source sentinels.

run(prop) regenerates the files under coq/gen that the property's theorems depend on and
returns {"ok": bool, "generated": [...], "hashes": {...}, "drift": bool, "error": str}.
A construct outside the supported subset stops the translator: that is a broken proof obligation.
"""
from __future__ import annotations

import ast
import json
import os
import re
from typing import Any, Dict, List

import framework as fw

GEN = os.path.join(fw.COQ, "gen")
HASHFILE = os.path.join(fw.VERIF, "harness", "source_hashes.json")

# which hand-modelled functions each property depends on (source-drift sentinel, DESIGN 4.6)
SOURCES: Dict[str, Dict[str, List[str]]] = {}


def write_if_changed(path: str, text: str) -> bool:
    if os.path.exists(path) and open(path).read() == text:
        return False
    os.makedirs(os.path.dirname(path), exist_ok=True)
    open(path, "w").write(text)
    return True


class Stop(Exception):
    pass


# ---- regex constants of hta/utils/utils.py: must be exactly the patterns Base.v models ----
EXPECTED_RE = {
    "NCCL_KERNEL_RE": r"^nccl.*Kernel",
    "MEMORY_KERNEL_RE": r"(^Memcpy)|(^Memset)|(^dma)",
    "NCCL_COMPUTE_KERNEL_RE": r"(^nccl.*Kernel)|(.*(Memcpy)|(Memset))|(.*Sync)",
}


def check_regex_constants() -> None:
    tree = ast.parse(open(os.path.join(fw.REPO, "hta/utils/utils.py")).read())
    found = {}
    for node in tree.body:
        if isinstance(node, ast.Assign) and len(node.targets) == 1 and isinstance(node.targets[0], ast.Name):
            nm = node.targets[0].id
            if nm in EXPECTED_RE:
                v = node.value
                if not (isinstance(v, ast.Call) and isinstance(v.func, ast.Attribute) and v.func.attr == "compile"
                        and len(v.args) == 1 and isinstance(v.args[0], ast.Constant) and not v.keywords):
                    raise Stop(f"{nm}: not a plain re.compile(<literal>)")
                found[nm] = v.args[0].value
    for nm, pat in EXPECTED_RE.items():
        if found.get(nm) != pat:
            raise Stop(f"regex constant {nm} is {found.get(nm)!r}, the model in lib/Base.v is for {pat!r}")


def run(prop: str) -> Dict[str, Any]:
    res: Dict[str, Any] = {"ok": True, "generated": [], "hashes": {}, "drift": False}
    try:
        check_regex_constants()
        import importlib
        try:
            mod = importlib.import_module(f"p{prop}")
        except Exception:
            mod = None
        for fn in getattr(mod, "TRANSLATE", []):
            res["generated"].append(fn())
        hashes: Dict[str, str] = {}
        for rel, funcs in getattr(mod, "SOURCES", {}).items():
            hashes.update(fw.src_hash(rel, funcs))
        res["hashes"] = hashes
        pinned = json.load(open(HASHFILE)) if os.path.exists(HASHFILE) else {}
        changed = [k for k, v in hashes.items() if pinned.get(k) not in (None, v)]
        res["drift"] = bool(changed)
        res["changed_since_model_was_written"] = changed
    except Stop as e:
        res["ok"] = False
        res["error"] = str(e)
    return res


def pin_hashes() -> None:
    """(development) record the current AST hashes as the ones the hand models were written against."""
    import glob
    import importlib
    pinned: Dict[str, str] = {}
    for f in sorted(glob.glob(os.path.join(fw.VERIF, "harness", "pC*.py"))):
        mod = importlib.import_module(os.path.basename(f)[:-3])
        for rel, funcs in getattr(mod, "SOURCES", {}).items():
            pinned.update(fw.src_hash(rel, funcs))
    json.dump(pinned, open(HASHFILE, "w"), indent=1, sort_keys=True)
