(* C04: get_temporal_breakdown (hta/analyzers/breakdown_analysis.py:625-727), hand model. *)
From HTA.lib Require Import Base Cells Intervals.

Definition on_device (e : ev) : bool := negb (stream e =? -1).
Definition is_comp (e : ev) : bool := ktype_eqb (get_kernel_type (name e)) COMPUTATION.
Definition itv_of (e : ev) : itv := (ts e, ts e + dur e).

Definition dev_itvs (l : list ev) : list itv := map itv_of (filter on_device l).
Definition comp_itvs (l : list ev) : list itv := map itv_of (filter (fun e => on_device e && is_comp e) l).

(* D', C': the ts-sorted frames handed to the group-by (any ts-sorted permutation) *)
Definition breakdown (D' C' : list itv) : Z * Z * Z * Z :=
  let m := merge_sorted D' in
  let kernel_time := last_end m - first_ts m in
  let idle := kernel_time - total m in
  let compute := total (merge_sorted C') in
  (idle, compute, kernel_time - compute - idle, kernel_time).

Definition model_C04 (l : list ev) : Z * Z * Z * Z :=
  breakdown (sort_ts (dev_itvs l)) (sort_ts (comp_itvs l)).

Definition encode_C04 (l : list ev) : list Z :=
  let '(i, c, n, k) := model_C04 l in [i; c; n; k].
