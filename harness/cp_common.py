"""Shared by C08, C09, C10, C19, C20: run critical-path analysis on a generated case and dump the graph."""
from __future__ import annotations

import math
import os
import random
from typing import Any, Dict, List

import framework as fw

SOURCES = {"hta/analyzers/critical_path_analysis.py": ["CPGraph", "CriticalPathAnalysis", "restore_cpgraph", "bound_by", "CPNode", "CPEdge", "_CPGraphData"],
           "hta/common/call_stack.py": ["CallGraph", "CallStackGraph", "compare_events"],
           "hta/analyzers/trace_counters.py": ["_get_queue_length_time_series_for_rank"]}


def draw_window(rng, rows):
    """annotation / instance selection valid for the rank"""
    steps = sorted((r["ts"], r["idx"]) for r in rows if r["name"].startswith("ProfilerStep#"))
    annos = sorted({r["name"] for r in rows if r["cat"] == "user_annotation" and not r["name"].startswith("ProfilerStep")})
    choices = [("", None)]
    if steps:
        n = len(steps)
        i = rng.randrange(n)
        j = rng.randrange(i, n)
        choices += [("ProfilerStep", None), ("ProfilerStep", i), ("ProfilerStep", (i, j))]
        if n >= 2:
            a = rng.randrange(n - 1)
            choices += [("ProfilerStep", (a, rng.randrange(a + 1, n)))] * 2      # a range of at least two instances
    if annos:
        choices.append((rng.choice(annos), None))
    return rng.choice(choices)


def cp_analysis_first(ta, frames, ranks, salt=0):
    """history: a critical-path analysis over an annotation window of one rank, on the same object, before the analysis under test.  Whether
    it succeeds is not the caller's business; the analysis called afterwards must still see the whole trace.  Returns what was run."""
    import random as _r
    try:
        rng = _r.Random(len(ranks) * 7919 + sum(len(v) for v in frames.values()) + salt)
        r0 = rng.choice(ranks)
        ann, inst = "", None
        for _ in range(4):                      # prefer a window that leaves part of the trace out
            ann, inst = draw_window(rng, frames[r0])
            if ann != "":
                break
        if window_has_events(frames[r0], ann, inst):
            ta.critical_path_analysis(rank=r0, annotation=ann, instance_id=inst)
        return [r0, ann, inst]
    except Exception as e:
        return ["raised", type(e).__name__]


def window_has_events(rows, annotation, instance) -> bool:
    """does the selected window contain at least one event the analysis creates nodes for?  (an empty window is outside
    the property: there is nothing to analyse; the code then fails an internal assertion)"""
    if annotation == "":
        lo = min(r["ts"] for r in rows)
        hi = max(r["ts"] + r["dur"] for r in rows)
    else:
        ann = [r for r in rows if annotation in r["name"]]
        if instance is None:
            i, j = 0, 0
        elif isinstance(instance, (tuple, list)):
            i, j = instance
        else:
            i, j = instance, instance
        sel = ann[i:j + 1]
        if not sel:
            return False
        lo = min(r["ts"] for r in sel)
        hi = max(r["ts"] + r["dur"] for r in sel)
    return any(r["stream"] == -1 and lo <= r["ts"] <= hi and r["dur"] > 0 and r["cat"] in ("cpu_op", "cuda_runtime", "cuda_driver") for r in rows)


def dump_graph(g, k: int = 1) -> Dict[str, Any]:
    """k: time scale of a quarter-microsecond case (framework.resolution); times and weights must be whole after scaling"""
    T = int if k == 1 else (lambda x: fw.as_int(x * k))
    nodes = [[int(n.idx), int(n.ev_idx), T(n.ts), bool(n.is_start), bool(n.is_blocking)] for n in g.node_list]
    edges = []
    for u, v in g.edges:
        e = g.edges[u, v]["object"]
        edges.append([int(u), int(v), T(e.weight), T(g.edges[u, v]["weight"]), str(e.type.name), [int(e.begin), int(e.end)]])
    attrib = [[int(k[0]), int(k[1]), int(v)] for k, v in g.edge_to_event_map.items()]
    return {"nodes": nodes, "edges": sorted(edges), "attrib": sorted(attrib),
            "start_map": sorted([int(k), int(v)] for k, v in g.event_to_start_node_map.items()),
            "end_map": sorted([int(k), int(v)] for k, v in g.event_to_end_node_map.items()),
            "cp_nodes": [int(x) for x in g.critical_path_nodes],
            "cp_events": sorted(int(x) for x in g.critical_path_events_set),
            "cp_edges": sorted([int(e.begin), int(e.end), T(e.weight), str(e.type.name)] for e in g.critical_path_edges_set),
            "graph_nodes": sorted(int(n) for n in g.nodes)}


def dump_breakdown(g, k: int = 1) -> Any:
    T = int if k == 1 else (lambda x: fw.as_int(x * k))
    df = g.get_critical_path_breakdown()
    if df is None:
        return None
    out = []
    for rec in df.to_dict("records"):
        ev = rec["event_idx"]
        out.append({"event_idx": None if ev is None or (isinstance(ev, float) and math.isnan(ev)) else int(ev), "duration": T(rec["duration"]),
                    "type": str(rec["type"]), "bound_by": str(rec["bound_by"]),
                    "stream": None if isinstance(rec["stream"], float) and math.isnan(rec["stream"]) else int(rec["stream"]),
                    "s_name": None if not isinstance(rec["s_name"], str) else rec["s_name"]})
    return out


def run_cp(case: dict, d: str, zero_weight_env: bool = False) -> Dict[str, Any]:
    """returns frames, window parameters and the dumped graph (or the error)"""
    if zero_weight_env:
        os.environ["CRITICAL_PATH_ADD_ZERO_WEIGHT_LAUNCH_EDGE"] = "1"
    else:
        os.environ.pop("CRITICAL_PATH_ADD_ZERO_WEIGHT_LAUNCH_EDGE", None)
    k = fw.time_scale(case)
    with fw.resolution(case):
        ta, paths = fw.load_case_res(case, d)
    sym = ta.t.symbol_table.get_sym_table()
    rng = random.Random(case["params"]["pseed"])
    rank = rng.choice(sorted(ta.t.get_ranks()))
    rows = fw.dump_frame_res(case, ta.t.get_trace(rank), sym)
    annotation, instance = draw_window(rng, rows)
    res: Dict[str, Any] = {"rank": rank, "rows": rows, "annotation": annotation, "instance": instance, "zero_weight_env": zero_weight_env}
    if not window_has_events(rows, annotation, instance):
        res["skip"] = True
        return res, ta, None
    captured = []
    try:
        from hta.analyzers.critical_path_analysis import CPGraph as _G
        if not hasattr(_G, "_verif_orig_critical_path"):
            _G._verif_orig_critical_path = _G.critical_path
        def _wrapped(self):
            captured.append(self)
            return _G._verif_orig_critical_path(self)
        _G.critical_path = _wrapped
    except Exception:
        pass
    if case.get("case_no", 0) % 4 == 1:
        # history: another window of the same rank is analysed first on the same object (whether that succeeds is not this case's business)
        rng0 = random.Random(case["params"]["pseed"] + 99)
        ann0, inst0 = draw_window(rng0, rows)
        if (ann0, inst0) != (annotation, instance) and window_has_events(rows, ann0, inst0):
            try:
                ta.critical_path_analysis(rank=rank, annotation=ann0, instance_id=inst0)
                res["analysed_before"] = [ann0, inst0]
            except Exception:
                pass
    try:
        out = ta.critical_path_analysis(rank=rank, annotation=annotation, instance_id=instance)
        res["frames_altered"] = fw.frames_altered(case, ta, {rank: rows}, sym)
        if out is None:
            res["none"] = True
            return res, ta, None
        g, ok = out
        res["success"] = bool(ok)
        res["graph"] = dump_graph(g, k)
        res["clipped"] = sorted(int(i) for i in g.trace_df.index)
        return res, ta, g
    except Exception as e:
        import traceback
        res["error"] = type(e).__name__ + ": " + str(e)[:200] + " @ " + traceback.format_exc()[-500:]
        if isinstance(e, AssertionError) and captured:
            g = captured[-1]
            ws = [g.edges[u, v]["weight"] for u, v in g.edges]
            # the known finding: a graph WITH edges, all of weight 0 (an empty graph is something else: no event was given nodes)
            res["all_zero_weights"] = bool(len(ws) > 0 and all(w == 0 for w in ws))
            res["n_graph_edges"] = len(ws)
        return res, ta, None


def dump_host_traversal(ta, rank, g=None) -> List[List[List[int]]]:
    """the depth-first traversal the graph builder performs over every host thread's call stack, recorded with the implementation's
    own CallStackGraph.dfs_traverse: per thread a list of [is_enter, event id, call-stack parent]"""
    from hta.common.call_stack import CallGraph, DeviceType
    # the call stacks of the events the analysis works on: the graph's own clipped trace (events of positive duration inside the
    # window), as the builder is documented to use; a zero-duration host event is not part of it
    cg = CallGraph(g.t if g is not None and hasattr(g, "t") else ta.t, ranks=[rank])
    threads = []
    for csg in cg.call_stacks:
        if csg.device_type != DeviceType.CPU:
            continue
        acts: List[List[int]] = []
        csg.dfs_traverse(lambda i, n: acts.append([1, int(i), int(n.parent)]), lambda i, n: acts.append([0, int(i), int(n.parent)]))
        threads.append([a for a in acts if a[1] >= 0])
    return threads


def host_model_inputs(res: Dict[str, Any]):
    """per host thread: (event table rows [id, ts, end, analysed, blocking, parent], actions [is_enter, id]) for coq/model/C08_Host.v,
    and the implementation's host-to-host edges in the model's encoding"""
    rows = {r["idx"]: r for r in res["rows"]}
    g = res["graph"]
    start_node = {ev: n for n, ev, _ts, st, _b in [(x[0], x[1], x[2], x[3], x[4]) for x in g["nodes"]] if st}
    node = {x[0]: x for x in g["nodes"]}
    block = {x[1]: bool(x[4]) for x in g["nodes"] if x[3]}
    threads = []
    for acts in res["traversal"]:
        tab = []
        seen = set()
        for ent, i, par in acts:
            if i in seen:
                continue
            seen.add(i)
            r = rows[i]
            tab.append([i, r["ts"], r["ts"] + r["dur"], i in start_node, block.get(i, False), par])
        if not any(row[3] for row in tab):
            continue            # a pseudo-thread without any event that has graph nodes (e.g. the Context Sync records of a device): it yields no edge
        threads.append((tab, [[a[0], a[1]] for a in acts]))
    attrib = {(u, v): ev for u, v, ev in g["attrib"]}
    ty = {"OPERATOR_KERNEL": 0, "DEPENDENCY": 1, "KERNEL_LAUNCH_DELAY": 2, "KERNEL_KERNEL_DELAY": 3, "SYNC_DEPENDENCY": 4}
    impl_edges = []
    for u, v, w, _wa, t, be in g["edges"]:
        nu, nv = node[be[0]], node[be[1]]
        if rows[nu[1]]["stream"] == -1 and rows[nv[1]]["stream"] == -1:
            impl_edges.append([nu[1], 1 if nu[3] else 0, nv[1], 1 if nv[3] else 0, w, ty[t], attrib.get((be[0], be[1]), -2)])
    return threads, sorted(impl_edges)


def queue_lengths(ta, rank) -> Dict[int, int]:
    """the queue-length series the device-side builder joins to the activities (event id -> queue length after that row)"""
    from hta.analyzers.trace_counters import TraceCounters
    q = TraceCounters._get_queue_length_time_series_for_rank(ta.t, rank)
    if q is None:
        return {}
    return {int(i): int(v) for i, v in q["queue_length"].items() if v == v}


def dev_model_inputs(res: Dict[str, Any]):
    """rows for coq/model/C08_Dev.v in the order of the builder's sort (activities by start, sync records by end, ties by end, then by the start
    of the launching / synchronising host call, then by position), and the implementation's edges that touch the device side, in the model's encoding"""
    rows = {r["idx"]: r for r in res["rows"]}
    g = res["graph"]
    has_nodes = {x[1] for x in g["nodes"]}
    q = {int(k): v for k, v in res.get("queue", {}).items()}
    sel = []
    for i in res["clipped"]:
        r = rows[i]
        if not ((r["stream"] != -1 or r["name"] in ("Event Sync", "Context Sync")) and r["icorr"] >= 0):
            continue
        end = r["ts"] + r["dur"]
        if r["cat"] == "cuda_sync":
            rt = r["icorr"]
            rt_end = rows[rt]["ts"] + rows[rt]["dur"] if rt in rows else 0
            if r["name"] == "Stream Sync":
                lit = ("DS", r["stream"], rt, rt_end, rt in has_nodes)
            elif r["name"] == "Context Sync":
                lit = ("DC", rt, rt_end, rt in has_nodes)
            else:
                lit = ("DE",)
            sel.append(((end, end, rows[rt]["ts"] if rt in rows else -1, i), lit))
        else:
            rt = r["icorr"]
            rt_ts = rows[rt]["ts"] if rt in rows else 0
            lit = ("DK", i, r["stream"], r["ts"], end, rt, rt_ts, rt in has_nodes, q.get(rt, -1), q.get(i, -1))
            sel.append(((r["ts"], end, rows[rt]["ts"] if rt in rows else -1, i), lit))
    sel.sort(key=lambda x: x[0])
    node = {x[0]: x for x in g["nodes"]}
    attrib = {(u, v): ev for u, v, ev in g["attrib"]}
    ty = {"OPERATOR_KERNEL": 0, "DEPENDENCY": 1, "KERNEL_LAUNCH_DELAY": 2, "KERNEL_KERNEL_DELAY": 3, "SYNC_DEPENDENCY": 4}
    impl_edges = []
    for u, v, w, _wa, t, be in g["edges"]:
        nu, nv = node[be[0]], node[be[1]]
        if rows[nu[1]]["stream"] == -1 and rows[nv[1]]["stream"] == -1:
            continue
        impl_edges.append([nu[1], 1 if nu[3] else 0, nv[1], 1 if nv[3] else 0, w, ty[t], attrib.get((be[0], be[1]), -2)])
    return [lit for _, lit in sel], sorted(impl_edges)
