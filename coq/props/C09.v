(* C09 property theorems: the reported critical path is a maximum-weight path of the graph. *)
From HTA.lib Require Import Base Dag.
From HTA.model Require Import C08_Model.
From HTA.gen Require Import PathSets_gen.
From HTA.proof Require Import C08_Proofs C09_RulesTie.
Open Scope Z_scope.

(* a potential function valid on every edge bounds the weight of EVERY path (any number of nodes and edges) *)
Theorem C09_potential_bounds_all_paths : forall G dist M p,
  potential_ok G dist -> (forall v, dist v <= M) -> is_path G p -> path_weight p <= M.
Proof. exact optimum_bound. Qed.
Print Assumptions C09_potential_bounds_all_paths.

(* what the checker's first three answers mean: the reported node list is a path and no path of the graph weighs more *)
Theorem C09_check_sound : forall W order cp p,
  potential_okb W (dp W order) = true -> path_edges W cp = Some p -> p <> [] ->
  path_weight p = max_value (dp W order) ->
  is_path W p /\ forall q, is_path W q -> path_weight q <= path_weight p.
Proof. exact check_C09_optimal. Qed.
Print Assumptions C09_check_sound.

Theorem C09_le_makespan : forall G tsf p lo hi,
  (forall e, In e G -> e_w e <= tsf (e_dst e) - tsf (e_src e)) -> (forall v, lo <= tsf v <= hi) ->
  is_path G p -> path_weight p <= hi - lo.
Proof. exact path_le_makespan. Qed.
Print Assumptions C09_le_makespan.

(* the makespan clause for EVERY path of an accepted graph (in particular for whichever maximum-weight path is reported) *)
Theorem C09_makespan_guaranteed : forall N W p, span_okb N W = true -> is_path W p ->
  path_weight p <= maxZ 0 (map c_ts N) - minZ 0 (map c_ts N).
Proof. exact makespan_guaranteed. Qed.
Print Assumptions C09_makespan_guaranteed.

Theorem C09_reported_path_is_a_path : forall G nodes p, path_edges G nodes = Some p -> p <> [] ->
  is_path G p /\ path_start p = hd 0 nodes.
Proof. exact path_edges_spec. Qed.
Print Assumptions C09_reported_path_is_a_path.

(* non-vacuity: a diamond with a heavier lower branch *)
Definition g09 : list edge := [mkEdge 0 1 2; mkEdge 1 3 2; mkEdge 0 2 1; mkEdge 2 3 5; mkEdge 3 4 0].
Definition n09 : list cpnode := [mkN 0 10 0 true false; mkN 1 11 2 true false; mkN 2 12 1 true false; mkN 3 10 6 false false; mkN 4 11 9 false false].
Example C09_nonvacuous : check_C09 n09 g09 [0; 1; 2; 3; 4] [0; 2; 3; 4] [[0; 2]; [2; 3]; [3; 4]] [10; 11; 12] = [true; true; true; true; true; true; true].
Proof. vm_compute. reflexivity. Qed.

(* the sets the checker compares the reported edge and event sets with are built the way CPGraph.critical_path builds them, read from
   the source on every run (strict statement-by-statement reading: the events set is REBUILT and the edge set RESET on every call) *)
Theorem C09_path_sets_follow_source : forall (N : list cpnode) (p : list Z),
  pairs_of p = path_pairs_gen p /\
  flat_map (fun i => match find_node N i with Some n => [c_ev n] | None => [-7] end) p =
    path_events_gen (fun i => match find_node N i with Some n => [c_ev n] | None => [-7] end) p.
Proof. exact path_sets_are_generated. Qed.
Print Assumptions C09_path_sets_follow_source.
