(* C08: the analysed window and the kept rows at every resolution *)
From HTA.lib Require Import Base.
From HTA.model Require Import C08_Clip.
From HTA.proof Require Import Scale.
Open Scope list_scope.
Open Scope Z_scope.





Theorem C08_window_scale k ann i j l : 0 < k ->
  window ann i j (scale_evs k l) = (k * fst (window ann i j l), k * snd (window ann i j l)).
Proof.
  intro Hk. unfold window. destruct (String.eqb ann ""); cbn [fst snd].
  - rewrite map_ts_scale, map_eend_scale, minZ0_scale, maxZ0_scale by lia. reflexivity.
  - unfold scale_evs at 1 2.
    rewrite (filter_map_comm (scale_ev k) _ (fun e => contains ann (name e))) by reflexivity.
    unfold slice. rewrite skipn_map_f, firstn_map_f. fold (scale_evs k (firstn (S j - i) (skipn i (filter (fun e => contains ann (name e)) l)))).
    rewrite map_ts_scale, map_eend_scale, minZ0_scale, maxZ0_scale by lia. reflexivity.
Qed.

Lemma in_window_scale k lo hi e : 0 < k -> in_window (k * lo) (k * hi) (scale_ev k e) = in_window lo hi e.
Proof.
  intro Hk. unfold in_window. change (ts (scale_ev k e)) with (k * ts e). change (dur (scale_ev k e)) with (k * dur e).
  rewrite !leb_scale, ltb0_scale by exact Hk. reflexivity.
Qed.

Lemma partner_scale k l d : partner (scale_evs k l) (scale_ev k d) = option_map (scale_ev k) (partner l d).
Proof. unfold partner. apply find_scale. reflexivity. Qed.

Lemma dev_kept_scale k lo hi l d : 0 < k -> dev_kept (k * lo) (k * hi) (scale_evs k l) (scale_ev k d) = dev_kept lo hi l d.
Proof.
  intro Hk. unfold dev_kept. rewrite partner_scale. change (stream (scale_ev k d)) with (stream d). change (name (scale_ev k d)) with (name d).
  destruct (partner l d) as [h|]; cbn [option_map]; [rewrite in_window_scale by exact Hk|]; reflexivity.
Qed.

Theorem C08_clip_scale k lo hi l : 0 < k -> clip (k * lo) (k * hi) (scale_evs k l) = scale_evs k (clip lo hi l).
Proof.
  intro Hk. unfold clip.
  transitivity (filter (fun e => ((stream e =? -1) && in_window (k * lo) (k * hi) e) || dev_kept (k * lo) (k * hi) (scale_evs k l) e)
                       (map (scale_ev k) l)); [reflexivity|].
  apply filter_map_comm. intro e. change (stream (scale_ev k e)) with (stream e).
  rewrite in_window_scale, dev_kept_scale by exact Hk. reflexivity.
Qed.
