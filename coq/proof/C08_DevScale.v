(* C08, device side: the kernel loop's edges scale with the times (queue lengths and stream ids are not times) *)
From HTA.lib Require Import Base.
From HTA.model Require Import C08_Host C08_Dev.
From HTA.proof Require Import Scale C08_HostScale.
Open Scope list_scope.
Open Scope Z_scope.

Definition sdrow (k : Z) (r : drow) : drow :=
  match r with
  | DK eid s t0 t1 rt rt_ts rt_has q_rt q_k => DK eid s (k * t0) (k * t1) rt (k * rt_ts) rt_has q_rt q_k
  | DS s rt rt_end rt_has => DS s rt (k * rt_end) rt_has
  | DC rt rt_end rt_has => DC rt (k * rt_end) rt_has
  | DE => DE
  end.
Definition sdst (k : Z) (st : list (Z * hnode)) : list (Z * hnode) := map (fun sn => (fst sn, shnode k (snd sn))) st.

Lemma last_of_scale k s st : last_of s (sdst k st) = option_map (shnode k) (last_of s st).
Proof.
  induction st as [|[a n] r IH]; cbn [sdst map last_of fst snd]; [reflexivity|].
  destruct (a =? s); [reflexivity|]. exact IH.
Qed.

Lemma set_last_scale k s n st : set_last s (shnode k n) (sdst k st) = sdst k (set_last s n st).
Proof.
  induction st as [|[a m] r IH]; cbn [sdst map set_last fst snd]; [reflexivity|].
  destruct (a =? s); cbn [map fst snd]; [reflexivity|]. f_equal. exact IH.
Qed.

Ltac dev_norm :=
  unfold shedge, shnode;
  cbn [option_map map app fst snd he_src he_dst he_w he_ty he_attr n_ev n_start n_ts];
  rewrite ?Z.mul_0_r, <- ?Z.mul_sub_distr_l.

Lemma dstep_scale k zw st r : 0 < k ->
  dstep zw (sdst k st) (sdrow k r) =
  (sdst k (fst (fst (dstep zw st r))), map (shedge k) (snd (fst (dstep zw st r))), snd (dstep zw st r)).
Proof.
  intro Hk. destruct r as [eid s t0 t1 rt rt_ts rt_has q_rt q_k | s rt rt_end rt_has | rt rt_end rt_has | ]; cbn [sdrow dstep].
  - rewrite last_of_scale. destruct (last_of s st) as [n|]; cbn [option_map fst snd].
    + change (n_ts (shnode k n)) with (k * n_ts n). rewrite ltb_scale by exact Hk.
      change (mkHN eid false (k * t1)) with (shnode k (mkHN eid false t1)). rewrite set_last_scale.
      destruct ((q_rt =? 1) && (q_k =? 0) && (n_ts n <? rt_ts)); cbn [negb andb];
        destruct (zw && true && rt_has); destruct (zw && false && rt_has); dev_norm; reflexivity.
    + change (mkHN eid false (k * t1)) with (shnode k (mkHN eid false t1)). rewrite set_last_scale.
      destruct ((q_rt =? 1) && (q_k =? 0) && true); cbn [negb andb];
        destruct (zw && true && rt_has); destruct (zw && false && rt_has); dev_norm; reflexivity.
  - rewrite last_of_scale. destruct (last_of s st) as [n|]; cbn [option_map fst snd]; [|reflexivity].
    destruct rt_has; dev_norm; reflexivity.
  - destruct rt_has; cbn [fst snd map]; [|reflexivity].
    f_equal. f_equal. unfold sdst. rewrite !map_map. apply map_ext. intro sn. dev_norm. reflexivity.
  - reflexivity.
Qed.

Lemma drun_scale k zw st rows : 0 < k ->
  drun zw (sdst k st) (map (sdrow k) rows) = (map (shedge k) (fst (drun zw st rows)), snd (drun zw st rows)).
Proof.
  intro Hk. revert st. induction rows as [|r rest IH]; intro st; cbn [map drun]; [reflexivity|].
  rewrite dstep_scale by exact Hk. destruct (dstep zw st r) as [[st' es] ok]. cbn [fst snd].
  rewrite IH. destruct (drun zw st' rest) as [es' ok']. cbn [fst snd]. rewrite map_app. reflexivity.
Qed.

Theorem C08_dev_scale k zw rows : 0 < k ->
  drun zw [] (map (sdrow k) rows) = (map (shedge k) (fst (drun zw [] rows)), snd (drun zw [] rows)).
Proof. intro Hk. change (@nil (Z * hnode)) with (sdst k []) at 1. apply drun_scale. exact Hk. Qed.
