(* The weight and attribution rules used by the two builder models are the ones GENERATED from the current source
   (gen/CpRules_gen.v: CPGraph._add_edge_helper, CPGraph._attribute_edge, the member order of CPEdgeType). *)
From Coq Require Import ZArith List Bool Lia.
From HTA.lib Require Import Base.
From HTA.gen Require Import CpRules_gen.
From HTA.model Require Import C08_Host C08_Dev.
Import ListNotations.
Open Scope list_scope.
Open Scope Z_scope.

Definition rule_weight (e : hedge) (zero : bool) : Prop :=
  he_w e = edge_weight_gen (he_ty e) zero (n_ts (he_src e)) (n_ts (he_dst e)).
Definition rule_attr (e : hedge) (src_parent : Z) : Prop :=
  he_attr e = if existsb (Z.eqb (he_ty e)) attributed_types_gen
              then attr_rule_gen (he_ty e) (n_start (he_src e)) (n_start (he_dst e)) (n_ev (he_src e)) (n_ev (he_dst e)) src_parent
              else -2.

Definition closing_blocking (tab : list hev) (a : act) : bool :=
  match a with Exit i => match hlookup tab i with Some ev => h_block ev | None => false end | Enter _ => false end.

Lemma attr_rule_is_generated src dst p :
  attr_rule src dst p = attr_rule_gen 0 (n_start src) (n_start dst) (n_ev src) (n_ev dst) p.
Proof. unfold attr_rule, attr_rule_gen. cbn. destruct (n_start src); destruct (n_start dst); reflexivity. Qed.

Theorem host_rules_are_generated tab s a e : In e (snd (hstep tab s a)) ->
  rule_weight e (closing_blocking tab a) /\ rule_attr e (s_lastp s).
Proof.
  unfold hstep, closing_blocking, rule_weight, rule_attr. destruct a as [i|i]; destruct (hlookup tab i) as [ev|]; cbn [snd]; try (intros []).
  - destruct (h_an ev); cbn [snd]; [|intros []]. intro H. apply in_app_or in H. destruct H as [H|H].
    + destruct (s_high s) as [h|]; [|destruct H]. destruct (s_depth s =? 0); [|destruct H]. destruct H as [H|[]]. subst e. cbn. split; reflexivity.
    + destruct (s_last s) as [n|]; [|destruct H]. destruct H as [H|[]]. subst e.
      cbn [he_w he_ty he_src he_dst he_attr n_ts n_start n_ev]. split; [cbn; reflexivity|].
      cbn [existsb attributed_types_gen Z.eqb orb]. rewrite attr_rule_is_generated. reflexivity.
  - destruct (h_an ev); cbn [snd]; [|destruct (s_lastp s =? i); intros []].
    destruct (s_last s) as [n|]; [|destruct (s_depth s - 1 =? 0); intros []].
    intro H. assert (He : e = mkHE n (mkHN i false (h_end ev)) (if h_block ev then 0 else h_end ev - n_ts n) 0 (attr_rule n (mkHN i false (h_end ev)) (s_lastp s))).
    { destruct (s_depth s - 1 =? 0); cbn [snd] in H; destruct H as [H|[]]; symmetry; exact H. }
    subst e. cbn [he_w he_ty he_src he_dst he_attr n_ts n_start n_ev]. split.
    + unfold edge_weight_gen. cbn. destruct (h_block ev); reflexivity.
    + cbn [existsb attributed_types_gen Z.eqb orb]. rewrite attr_rule_is_generated. reflexivity.
Qed.

Theorem dev_rules_are_generated zw st r e : In e (snd (fst (dstep zw st r))) ->
  exists zero, rule_weight e zero /\ (zero = true -> he_ty e = 2 /\ zw = true) /\ rule_attr e (-1).
Proof.
  unfold rule_weight, rule_attr. destruct r as [eid s t0 t1 rt rt_ts rt_has q_rt q_k | s rt rt_end rt_has | rt rt_end rt_has | ]; cbn [dstep fst snd].
  - intro H. apply in_app_or in H. destruct H as [H|H].
    + destruct H as [H|[]]. subst e. exists false. cbn. repeat split; try reflexivity; discriminate.
    + apply in_app_or in H. destruct H as [H|H].
      * destruct ((q_rt =? 1) && (q_k =? 0) && match last_of s st with Some n => n_ts n <? rt_ts | None => true end).
        { destruct H as [H|[]]. subst e. exists false. cbn. repeat split; try reflexivity; discriminate. }
        destruct (last_of s st) as [n|]; [|destruct H]. destruct H as [H|[]]. subst e. exists false. cbn. repeat split; try reflexivity; discriminate.
      * destruct zw; cbn [andb] in H; [|destruct H].
        destruct (negb _ && rt_has); [|destruct H]. destruct H as [H|[]]. subst e. exists true. cbn. repeat split; reflexivity.
  - destruct (last_of s st) as [n|]; cbn [fst snd]; [|intros []]. destruct rt_has; [|intros []]. intros [H|[]]. subst e. exists false. cbn. repeat split; try reflexivity; discriminate.
  - destruct rt_has; [|intros []]. intro H. apply in_map_iff in H. destruct H as [sn [H _]]. subst e. exists false. cbn. repeat split; try reflexivity; discriminate.
  - intros [].
Qed.

(* the bound-by class the verified checker demands of a breakdown row is the one the GENERATED bound_by gives *)
From HTA.model Require Import C08_Model.
Theorem bound_code_is_generated clipped ty evid a : find_ev clipped evid = Some a ->
  bound_code clipped ty evid = bound_by_gen ty (stream a) (is_comm_kernel (name a)).
Proof.
  intro H. unfold bound_code, bound_by_gen. rewrite H. cbn [existsb]. rewrite orb_false_r.
  destruct (ty =? 3); [reflexivity|]. destruct (ty =? 2); [reflexivity|]. destruct ((ty =? 1) || (ty =? 4)); reflexivity.
Qed.

Theorem bound_code_delay_rows clipped ty evid : ty = 1 \/ ty = 2 \/ ty = 3 \/ ty = 4 ->
  forall s c, bound_code clipped ty evid = bound_by_gen ty s c.
Proof. intros [H|[H|[H|H]]] s c; subst ty; reflexivity. Qed.
