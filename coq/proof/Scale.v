(* Resolution independence, shared part: multiplying every time stamp and duration of a frame by a positive constant k.
   A trace with fractional microseconds (ns rounding disabled) whose times share the denominator k is decided by the integer
   models on the scaled trace (the harness uses k = 4: quarter-microsecond cases, framework.resolution); the per-property files
   Cxx_Scale.v prove that the models' time-valued results are multiplied by k and everything else is unchanged. *)
From HTA.lib Require Import Base Cells Intervals Sweep.
Open Scope Z_scope.

Definition scale_ev (k : Z) (e : ev) : ev :=
  mkEv (idx e) (k * ts e) (k * dur e) (pid e) (tid e) (stream e) (corr e) (icorr e) (iter e) (name e) (cat e).

Definition scale_evs (k : Z) (l : list ev) : list ev := map (scale_ev k) l.

Lemma filter_map_comm {A B} (f : A -> B) (p : B -> bool) (q : A -> bool) (l : list A) :
  (forall x, p (f x) = q x) -> filter p (map f l) = map f (filter q l).
Proof.
  intro H. induction l as [|x l IH]; cbn [map filter]; [reflexivity|].
  rewrite H. destruct (q x); cbn [map]; rewrite IH; reflexivity.
Qed.

Lemma flat_map_map {A B C} (f : A -> B) (g : B -> list C) (l : list A) :
  flat_map g (map f l) = flat_map (fun x => g (f x)) l.
Proof. induction l as [|x l IH]; cbn [map flat_map]; [reflexivity|]. rewrite IH. reflexivity. Qed.

Lemma flat_map_ext_eq {A B} (f g : A -> list B) (l : list A) :
  (forall x, f x = g x) -> flat_map f l = flat_map g l.
Proof. intro H. induction l as [|x l IH]; cbn [flat_map]; [reflexivity|]. rewrite H, IH. reflexivity. Qed.

Lemma ltb_scale k a b : 0 < k -> (k * a <? k * b) = (a <? b).
Proof. intro Hk. destruct (Z.ltb_spec a b); destruct (Z.ltb_spec (k * a) (k * b)); try reflexivity; nia. Qed.

Lemma eqb_scale k a b : 0 < k -> (k * a =? k * b) = (a =? b).
Proof. intro Hk. destruct (Z.eqb_spec a b); destruct (Z.eqb_spec (k * a) (k * b)); try reflexivity; nia. Qed.

Lemma eqb0_scale k a : 0 < k -> (k * a =? 0) = (a =? 0).
Proof. intro Hk. destruct (Z.eqb_spec a 0); destruct (Z.eqb_spec (k * a) 0); try reflexivity; nia. Qed.

Lemma ltb0_scale k a : 0 < k -> (0 <? k * a) = (0 <? a).
Proof. intro Hk. destruct (Z.ltb_spec 0 a); destruct (Z.ltb_spec 0 (k * a)); try reflexivity; nia. Qed.

Lemma sub_eqb0_scale k a b : 0 < k -> (k * a - k * b =? 0) = (a - b =? 0).
Proof. intro Hk. destruct (Z.eqb_spec (a - b) 0); destruct (Z.eqb_spec (k * a - k * b) 0); try reflexivity; nia. Qed.

Lemma sub_ltb0_scale k a b : 0 < k -> (k * a - k * b <? 0) = (a - b <? 0).
Proof. intro Hk. destruct (Z.ltb_spec (a - b) 0); destruct (Z.ltb_spec (k * a - k * b) 0); try reflexivity; nia. Qed.

Lemma max0_scale k x : 0 <= k -> Z.max 0 (k * x) = k * Z.max 0 x.
Proof.
  intro Hk. destruct (Z.max_spec 0 x) as [[H1 H2]|[H1 H2]]; rewrite H2.
  - apply Z.max_r. apply Z.mul_nonneg_nonneg; lia.
  - rewrite Z.mul_0_r. apply Z.max_l. apply Z.mul_nonneg_nonpos; lia.
Qed.

Lemma max_scale k a b : 0 <= k -> Z.max (k * a) (k * b) = k * Z.max a b.
Proof. intro Hk. destruct (Z.max_spec a b) as [[H1 H2]|[H1 H2]]; rewrite H2; [apply Z.max_r|apply Z.max_l]; nia. Qed.

Lemma min_scale k a b : 0 <= k -> Z.min (k * a) (k * b) = k * Z.min a b.
Proof. intro Hk. destruct (Z.min_spec a b) as [[H1 H2]|[H1 H2]]; rewrite H2; [apply Z.min_l|apply Z.min_r]; nia. Qed.

Lemma sumZ_scale k l : sumZ (map (Z.mul k) l) = k * sumZ l.
Proof. induction l as [|x r IH]; cbn [map sumZ fold_right]; [ring|]. unfold sumZ in *. cbn [fold_right]. rewrite IH. ring. Qed.

Lemma eend_scale k e : eend (scale_ev k e) = k * eend e.
Proof. unfold eend, scale_ev. cbn [ts dur]. ring. Qed.

Lemma find_scale k (p : ev -> bool) l :
  (forall e, p (scale_ev k e) = p e) -> find p (scale_evs k l) = option_map (scale_ev k) (find p l).
Proof.
  intro H. induction l as [|x r IH]; cbn [scale_evs map find]; [reflexivity|].
  rewrite H. destruct (p x); [reflexivity|]. exact IH.
Qed.

Definition sitv (k : Z) (i : itv) : itv := (k * fst i, k * snd i).

Definition sitvs (k : Z) (l : list itv) : list itv := map (sitv k) l.

Definition srow (k : Z) (r : row) : row := (k * fst r, snd r).

Lemma insert_ts_scale k x l : 0 < k -> insert_ts (sitv k x) (sitvs k l) = sitvs k (insert_ts x l).
Proof.
  intro Hk. induction l as [|y r IH]; cbn [sitvs map insert_ts]; [reflexivity|].
  unfold sitv at 1 2. cbn [fst]. rewrite ltb_scale by exact Hk.
  destruct (fst x <? fst y); cbn [map]; [reflexivity|]. f_equal. exact IH.
Qed.

Lemma sort_ts_scale k l : 0 < k -> sort_ts (sitvs k l) = sitvs k (sort_ts l).
Proof.
  intro Hk. unfold sort_ts. induction l as [|x r IH]; cbn [sitvs map fold_right]; [reflexivity|].
  fold (sitvs k r). rewrite IH. apply insert_ts_scale. exact Hk.
Qed.

Lemma merge_aux_scale k cs ce m l : 0 < k ->
  merge_aux (k * cs) (k * ce) (k * m) (sitvs k l) = sitvs k (merge_aux cs ce m l).
Proof.
  intro Hk. revert cs ce m. induction l as [|[s e] r IH]; intros cs ce m; cbn [sitvs map merge_aux]; [reflexivity|].
  unfold sitv at 1. cbn [fst snd]. fold (sitvs k r). rewrite ltb_scale by exact Hk.
  rewrite !max_scale, min_scale by lia. destruct (m <? s).
  - cbn [map]. f_equal. apply IH.
  - apply IH.
Qed.

Lemma merge_sorted_scale k l : 0 < k -> merge_sorted (sitvs k l) = sitvs k (merge_sorted l).
Proof.
  intro Hk. destruct l as [|[s e] r]; cbn [sitvs map merge_sorted]; [reflexivity|].
  unfold sitv at 1. cbn [fst snd]. apply merge_aux_scale. exact Hk.
Qed.

Lemma total_scale k l : total (sitvs k l) = k * total l.
Proof.
  unfold total, sitvs. rewrite map_map, <- sumZ_scale, map_map. f_equal. apply map_ext.
  intro i. unfold sitv. cbn [fst snd]. ring.
Qed.

Lemma first_ts_scale k l : first_ts (sitvs k l) = k * first_ts l.
Proof. destruct l as [|i r]; cbn [sitvs map first_ts]; [ring|reflexivity]. Qed.

Lemma last_map_f {A B} (f : A -> B) (l : list A) (d : A) : last (map f l) (f d) = f (last l d).
Proof. induction l as [|x r IH]; [reflexivity|]. destruct r as [|y r']; [reflexivity|]. exact IH. Qed.

Lemma last_end_scale k l : last_end (sitvs k l) = k * last_end l.
Proof.
  unfold last_end, sitvs. replace (0, 0) with (sitv k (0, 0)) at 1 by (unfold sitv; cbn [fst snd]; rewrite Z.mul_0_r; reflexivity).
  rewrite last_map_f. reflexivity.
Qed.

Lemma rows_of_scale k v l : rows_of v (sitvs k l) = map (srow k) (rows_of v l).
Proof. unfold rows_of, sitvs. rewrite map_app, !map_map. reflexivity. Qed.

Lemma sweep_cons2 sel acc r r' rest :
  sweep sel acc (r :: r' :: rest) = (if sel (acc + snd r) then fst r' - fst r else 0) + sweep sel (acc + snd r) (r' :: rest).
Proof. reflexivity. Qed.

Lemma sweep_scale k sel acc rows : sweep sel acc (map (srow k) rows) = k * sweep sel acc rows.
Proof.
  revert acc. induction rows as [|r rest IH]; intro acc; [cbn [map sweep]; ring|].
  destruct rest as [|r' rest']; [cbn [map sweep]; ring|].
  rewrite sweep_cons2. rewrite !map_cons, sweep_cons2. rewrite <- map_cons, IH.
  unfold srow. cbn [fst snd]. destruct (sel (acc + snd r)); ring.
Qed.

(* ---------- more shared lemmas ---------- *)
Lemma leb_scale k a b : 0 < k -> (k * a <=? k * b) = (a <=? b).
Proof. intro Hk. destruct (Z.leb_spec a b); destruct (Z.leb_spec (k * a) (k * b)); try reflexivity; nia. Qed.

Lemma minZ_scale k d l : 0 <= k -> minZ (k * d) (map (Z.mul k) l) = k * minZ d l.
Proof.
  intro Hk. revert d. induction l as [|x r IH]; intro d; cbn [map minZ]; [reflexivity|].
  rewrite IH, min_scale by exact Hk. reflexivity.
Qed.

Lemma maxZ_scale k d l : 0 <= k -> maxZ (k * d) (map (Z.mul k) l) = k * maxZ d l.
Proof.
  intro Hk. revert d. induction l as [|x r IH]; intro d; cbn [map maxZ]; [reflexivity|].
  rewrite IH, max_scale by exact Hk. reflexivity.
Qed.

Lemma minZ0_scale k l : 0 <= k -> minZ 0 (map (Z.mul k) l) = k * minZ 0 l.
Proof. intro Hk. rewrite <- (minZ_scale k 0 l Hk). rewrite Z.mul_0_r. reflexivity. Qed.

Lemma maxZ0_scale k l : 0 <= k -> maxZ 0 (map (Z.mul k) l) = k * maxZ 0 l.
Proof. intro Hk. rewrite <- (maxZ_scale k 0 l Hk). rewrite Z.mul_0_r. reflexivity. Qed.

Lemma map_ts_scale k l : map ts (scale_evs k l) = map (Z.mul k) (map ts l).
Proof. unfold scale_evs. rewrite !map_map. reflexivity. Qed.

Lemma map_eend_scale k l : map eend (scale_evs k l) = map (Z.mul k) (map eend l).
Proof. unfold scale_evs. rewrite !map_map. apply map_ext. intro e. apply eend_scale. Qed.

Lemma firstn_map_f {A B} (f : A -> B) n l : firstn n (map f l) = map f (firstn n l).
Proof. revert l. induction n as [|n IH]; intro l; [reflexivity|]. destruct l as [|x r]; [reflexivity|]. cbn [map firstn]. rewrite IH. reflexivity. Qed.

Lemma skipn_map_f {A B} (f : A -> B) n l : skipn n (map f l) = map f (skipn n l).
Proof. revert l. induction n as [|n IH]; intro l; [reflexivity|]. destruct l as [|x r]; [reflexivity|]. cbn [map skipn]. apply IH. Qed.

Lemma forallb_map_f {A B} (f : A -> B) (p : B -> bool) (l : list A) : forallb p (map f l) = forallb (fun x => p (f x)) l.
Proof. induction l as [|x r IH]; cbn [map forallb]; [reflexivity|]. rewrite IH. reflexivity. Qed.

Lemma existsb_map_f {A B} (f : A -> B) (p : B -> bool) (l : list A) : existsb p (map f l) = existsb (fun x => p (f x)) l.
Proof. induction l as [|x r IH]; cbn [map existsb]; [reflexivity|]. rewrite IH. reflexivity. Qed.

Lemma existsb_ext_eq {A} (p q : A -> bool) (l : list A) : (forall x, p x = q x) -> existsb p l = existsb q l.
Proof. intro H. induction l as [|x r IH]; cbn [existsb]; [reflexivity|]. rewrite H, IH. reflexivity. Qed.

