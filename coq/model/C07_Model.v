(* C07: get_comm_comp_overlap (hta/analyzers/communication_analysis.py:24-105), hand model. *)
From HTA.lib Require Import Base Cells Intervals Sweep.
From HTA.model Require Import C04_Model.

Definition is_comm (e : ev) : bool := ktype_eqb (get_kernel_type (name e)) COMMUNICATION.
Definition comm_itvs (l : list ev) : list itv := map itv_of (filter (fun e => on_device e && is_comm e) l).

(* pd.concat([comm.melt().replace({ts:1,end:-1}), comp.melt().replace({ts:2,end:-2})]) *)
Definition status_rows (A B : list itv) : list row := rows_of 1 A ++ rows_of 2 B.

(* stable insertion sort by time; the theorems quantify over every time-sorted permutation *)
Fixpoint insert_time (x : row) (l : list row) : list row :=
  match l with
  | [] => [x]
  | y :: r => if fst x <? fst y then x :: l else y :: insert_time x r
  end.
Definition sort_time (l : list row) : list row := fold_right insert_time [] l.

(* A': ts-sorted communication intervals; R': time-sorted status rows.
   numerator: time to the next row summed over rows with running = 3;
   denominator: (comm.end - comm.ts).sum() over the merged communication intervals *)
Definition overlap (A' : list itv) (R' : list row) : Z * Z :=
  (sweep (Z.eqb 3) 0 R', total (merge_sorted A')).

Definition model_C07 (l : list ev) : Z * Z :=
  let A' := sort_ts (comm_itvs l) in
  let B' := sort_ts (comp_itvs l) in
  overlap A' (sort_time (status_rows (merge_sorted A') (merge_sorted B'))).

Definition encode_C07 (l : list ev) : list Z := let (n, d) := model_C07 l in [n; d].
