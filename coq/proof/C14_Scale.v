(* C14: resolution independence of the queue-length series (same rows, same counts, times multiplied by k).  The bandwidth series
   is NOT homogeneous in time: the implementation gives a zero-length copy a floor of one microsecond, an absolute constant
   (model: dur1); the harness applies that floor at the case's own scale. *)
From HTA.lib Require Import Base.
From HTA.model Require Import C14_Model.
From HTA.proof Require Import Scale.
Open Scope Z_scope.

Definition sq (k : Z) (q : qrow) : qrow := mkQ (k * q_ts q) (q_delta q) (q_id q) (q_stream q) (q_pid q) (q_tid q).

Lemma dev_rows_scale k l : dev_rows (scale_evs k l) = scale_evs k (dev_rows l).
Proof. unfold dev_rows, scale_evs. apply filter_map_comm. reflexivity. Qed.

Lemma launches_scale k l : launches (scale_evs k l) = scale_evs k (launches l).
Proof. unfold launches, scale_evs. apply filter_map_comm. reflexivity. Qed.

Lemma launch_rows_scale k l : launch_rows (scale_evs k l) = map (sq k) (launch_rows l).
Proof.
  unfold launch_rows. rewrite launches_scale, dev_rows_scale. unfold scale_evs.
  generalize (dev_rows l) as D. intro D.
  induction (launches l) as [|r rs IH]; cbn [flat_map map]; [reflexivity|].
  rewrite map_app, IH. f_equal.
  rewrite (filter_map_comm (scale_ev k) _ (fun k0 => corr k0 =? corr r)) by reflexivity.
  rewrite !map_map. reflexivity.
Qed.

Lemma kernel_rows_scale k l : kernel_rows (scale_evs k l) = map (sq k) (kernel_rows l).
Proof.
  unfold kernel_rows. rewrite launches_scale, dev_rows_scale. unfold scale_evs. rewrite map_map.
  change (map (fun x => corr (scale_ev k x)) (launches l)) with (map corr (launches l)).
  rewrite (filter_map_comm (scale_ev k) _ (fun k0 => memZ (corr k0) (map corr (launches l)))) by reflexivity.
  rewrite !map_map. reflexivity.
Qed.

Lemma q_lt_scale k x y : 0 < k -> q_lt (sq k x) (sq k y) = q_lt x y.
Proof. intro Hk. unfold q_lt, sq. cbn [q_ts q_delta]. rewrite ltb_scale, eqb_scale by exact Hk. reflexivity. Qed.

Lemma insert_q_scale k x l : 0 < k -> insert_q (sq k x) (map (sq k) l) = map (sq k) (insert_q x l).
Proof.
  intro Hk. induction l as [|y r IH]; cbn [map insert_q]; [reflexivity|].
  rewrite q_lt_scale by exact Hk. destruct (q_lt x y); cbn [map]; [reflexivity|]. f_equal. exact IH.
Qed.

Lemma sort_q_scale k l : 0 < k -> sort_q (map (sq k) l) = map (sq k) (sort_q l).
Proof.
  intro Hk. unfold sort_q. induction l as [|x r IH]; cbn [map fold_right]; [reflexivity|].
  rewrite IH. apply insert_q_scale. exact Hk.
Qed.

Lemma cumsum_scale k acc l : cumsum acc (map (sq k) l) = map (fun p => (sq k (fst p), snd p)) (cumsum acc l).
Proof. revert acc. induction l as [|x r IH]; intro acc; cbn [map cumsum]; [reflexivity|]. rewrite IH. reflexivity. Qed.

Theorem C14_queue_scale k l s : 0 < k ->
  stream_series (scale_evs k l) s = map (fun p => (sq k (fst p), snd p)) (stream_series l s).
Proof.
  intro Hk. unfold stream_series. rewrite launch_rows_scale, kernel_rows_scale, <- map_app.
  rewrite (filter_map_comm (sq k) _ (fun x => q_stream x =? s)) by reflexivity.
  rewrite sort_q_scale by exact Hk. apply cumsum_scale.
Qed.

Theorem C14_streams_scale k l : streams_of (scale_evs k l) = streams_of l.
Proof.
  unfold streams_of. rewrite launch_rows_scale, kernel_rows_scale, <- map_app, map_map. reflexivity.
Qed.
