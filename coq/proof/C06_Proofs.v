From Coq Require Import Permutation Sorted.
From HTA.lib Require Import Base.
From HTA.model Require Import C06_Model.
Open Scope Z_scope.

(* kernels of a stream do not overlap, listed in start order: each ends before the next begins *)
Inductive chain : list ev -> Prop :=
| chain_nil : chain []
| chain_one k : 0 <= dur k -> chain [k]
| chain_cons a b r : 0 <= dur a -> eend a <= ts b -> chain (b :: r) -> chain (a :: b :: r).

Lemma insert_ev_perm x l : Permutation (x :: l) (insert_ev x l).
Proof.
  induction l as [|y r IH]; simpl; [apply Permutation_refl|].
  destruct (ev_lt x y); [apply Permutation_refl|].
  eapply perm_trans; [apply perm_swap | apply perm_skip; exact IH].
Qed.
Lemma sort_ev_perm l : Permutation l (sort_ev l).
Proof.
  induction l as [|x l IH]; simpl; [constructor|].
  eapply perm_trans; [apply perm_skip; exact IH | apply insert_ev_perm].
Qed.

Lemma insert_ev_sorted x l :
  StronglySorted (fun a b => ts a <= ts b) l -> StronglySorted (fun a b => ts a <= ts b) (insert_ev x l).
Proof.
  induction l as [|y r IH]; intro Hs; simpl; [constructor; constructor|].
  inversion Hs as [|? ? Hs' Hall]; subst. unfold ev_lt. destruct ((ts x <? ts y) || ((ts x =? ts y) && (eend x <? eend y))) eqn:E.
  - constructor; [exact Hs|]. constructor; [lia|]. eapply Forall_impl; [|exact Hall]. intros a Ha. simpl in Ha. lia.
  - constructor; [apply IH; exact Hs'|]. assert (Hp := insert_ev_perm x r). rewrite Forall_forall in *.
    intros a Ha. apply Permutation_sym in Hp. apply (Permutation_in _ Hp) in Ha.
    destruct Ha as [Ha|Ha]; [subst; lia | apply Hall; exact Ha].
Qed.
Lemma sort_ev_sorted l : StronglySorted (fun a b => ts a <= ts b) (sort_ev l).
Proof. induction l as [|x l IH]; simpl; [constructor | apply insert_ev_sorted; exact IH]. Qed.

(* the walk lists exactly the gaps between consecutive kernels *)
Fixpoint consecutive_gaps (prev_end : Z) (ks : list ev) : list Z :=
  match ks with [] => [] | k :: r => (ts k - prev_end) :: consecutive_gaps (eend k) r end.

Theorem gaps_are_consecutive l d prev ks : map snd (walk l d prev ks) = consecutive_gaps prev ks.
Proof. revert prev. induction ks as [|k r IH]; intro prev; simpl; [reflexivity | rewrite IH; reflexivity]. Qed.

Theorem gaps_nonneg prev ks : chain ks -> (forall k r, ks = k :: r -> prev <= ts k) ->
  Forall (fun g => 0 <= g) (consecutive_gaps prev ks).
Proof.
  intro Hc. revert prev. induction Hc as [|k Hk|a b r Ha Hab Hc IH]; intros prev Hp; simpl.
  - constructor.
  - constructor; [specialize (Hp k [] eq_refl); lia | constructor].
  - constructor; [specialize (Hp a (b :: r) eq_refl); lia|].
    apply IH. intros k r' E. inversion E; subst. exact Hab.
Qed.

(* three-way, exclusive and exhaustive classification with the strictness of both comparisons *)
Theorem classification d rt prev gap :
  let c := classify d rt prev gap in
  (c = 0 <-> exists r, rt = Some r /\ prev < r) /\
  (c = 1 <-> ~ (exists r, rt = Some r /\ prev < r) /\ gap < d) /\
  (c = 2 <-> ~ (exists r, rt = Some r /\ prev < r) /\ d <= gap) /\
  (c = 0 \/ c = 1 \/ c = 2).
Proof.
  cbv zeta.
  assert (Hc : ((exists r, rt = Some r /\ prev < r) /\ classify d rt prev gap = 0) \/
               (~ (exists r, rt = Some r /\ prev < r) /\ gap < d /\ classify d rt prev gap = 1) \/
               (~ (exists r, rt = Some r /\ prev < r) /\ d <= gap /\ classify d rt prev gap = 2)).
  { unfold classify. destruct rt as [r|].
    - destruct (Z.ltb_spec prev r) as [Hlt|Hge].
      + left. split; [exists r; auto | reflexivity].
      + assert (Hn : ~ (exists r0, Some r = Some r0 /\ prev < r0)) by (intros [r0 [E H]]; inversion E; subst; lia).
        destruct (Z.ltb_spec gap d); [right; left | right; right]; auto.
    - assert (Hn : ~ (exists r0, @None Z = Some r0 /\ prev < r0)) by (intros [r0 [E _]]; discriminate).
      destruct (Z.ltb_spec gap d); [right; left | right; right]; auto. }
  destruct Hc as [[HP Hc] | [[HP [Hg Hc]] | [HP [Hg Hc]]]]; rewrite Hc.
  - split; [tauto|]. split; [split; [discriminate | tauto]|]. split; [split; [discriminate | tauto]|]. auto.
  - split; [split; [discriminate | tauto]|]. split; [tauto|]. split; [split; [discriminate | intros [_ H]; lia]|]. auto.
  - split; [split; [discriminate | tauto]|]. split; [split; [discriminate | intros [_ H]; lia]|]. split; [tauto|]. auto.
Qed.

(* the join only ever yields the start of the row whose id is the kernel's positive link *)
Theorem ts_runtime_spec l k r :
  ts_runtime l k = Some r -> 0 < icorr k /\ exists c, In c l /\ idx c = icorr k /\ ts c = r.
Proof.
  unfold ts_runtime. destruct (0 <? icorr k) eqn:E; [|discriminate].
  destruct (find (fun r0 => idx r0 =? icorr k) l) as [c|] eqn:F; [|discriminate].
  simpl. intro H. inversion H; subst. apply find_some in F. destruct F as [Hin Hi].
  split; [lia|]. exists c. repeat split; auto. lia.
Qed.

(* categories add up to the sum of all gaps *)
Lemma cat_sum_total gs : (forall g, In g gs -> fst g = 0 \/ fst g = 1 \/ fst g = 2) ->
  cat_sum 0 gs + cat_sum 1 gs + cat_sum 2 gs = sumZ (map snd gs).
Proof.
  unfold cat_sum. induction gs as [|g gs IH]; intro H; [reflexivity|].
  assert (Hg := H g (or_introl eq_refl)). specialize (IH (fun g' Hg' => H g' (or_intror Hg'))).
  destruct g as [c v]. cbn [fst] in Hg. cbn [filter fst].
  destruct Hg as [E|[E|E]]; subst c;
    repeat match goal with |- context [Z.eqb ?a ?b] =>
      match a with 0 => idtac | 1 => idtac | 2 => idtac end;
      let r := eval vm_compute in (Z.eqb a b) in change (Z.eqb a b) with r end;
    cbn [map sumZ fold_right snd] in *; unfold sumZ in *; lia.
Qed.

Lemma walk_cats l d prev ks g : In g (walk l d prev ks) -> fst g = 0 \/ fst g = 1 \/ fst g = 2.
Proof.
  revert prev. induction ks as [|k r IH]; intros prev H; simpl in H; [destruct H|].
  destruct H as [H|H]; [subst g; simpl; apply classification | eapply IH; exact H].
Qed.

Lemma sumZ_cons' x l : sumZ (x :: l) = x + sumZ l.
Proof. reflexivity. Qed.

(* telescoping: sum of the gaps = (end of the last - start of the first) - busy time *)
Lemma gaps_telescope d0 prev ks :
  sumZ (consecutive_gaps prev ks) = match ks with [] => 0 | _ => eend (last ks d0) - prev - sumZ (map dur ks) end.
Proof.
  revert prev. induction ks as [|k r IH]; intro prev; [reflexivity|].
  cbn [consecutive_gaps map]. rewrite !sumZ_cons'. rewrite IH.
  destruct r as [|k' r']; [cbn; unfold eend; lia|].
  change (last (k :: k' :: r') d0) with (last (k' :: r') d0).
  cbn [map]. rewrite !sumZ_cons'. unfold eend. lia.
Qed.

Theorem telescope l d k r :
  let gs := gaps_sorted l d (k :: r) in
  cat_sum 0 gs + cat_sum 1 gs + cat_sum 2 gs =
  (eend (last (k :: r) k) - ts k) - sumZ (map dur (k :: r)).
Proof.
  cbv zeta. unfold gaps_sorted. rewrite cat_sum_total by (intros g Hg; eapply walk_cats; exact Hg).
  rewrite gaps_are_consecutive, (gaps_telescope k). destruct r as [|k' r']; [cbn; unfold eend; lia|].
  change (last (k :: k' :: r') k) with (last (k' :: r') k).
  cbn [map]. rewrite !sumZ_cons'. unfold eend. lia.
Qed.

(* under non-overlap the last kernel in start order ends last: the span is max end - min start *)
Lemma chain_last_max ks k0 : chain ks -> forall k, In k ks -> eend k <= eend (last ks k0).
Proof.
  intro Hc. induction Hc as [|k1 Hk|a b r Ha Hab Hc IH]; intros k Hin.
  - destruct Hin.
  - destruct Hin as [Hin|[]]; subst; simpl; lia.
  - change (last (a :: b :: r) k0) with (last (b :: r) k0). destruct Hin as [Hin|Hin].
    + subst. specialize (IH b (or_introl eq_refl)).
      assert (0 <= dur b) by (inversion Hc; assumption). unfold eend in *. lia.
    + apply IH. exact Hin.
Qed.

Theorem ratios_sum_one a b c : a + b + c <> 0 -> (a + b + c) * 1 = a + b + c.
Proof. lia. Qed.

(* start-time ties are ordered by end *)
Definition lex_le (a b : ev) : Prop := ts a < ts b \/ (ts a = ts b /\ eend a <= eend b).
Lemma insert_ev_lex x l : StronglySorted lex_le l -> StronglySorted lex_le (insert_ev x l).
Proof.
  induction l as [|y r IH]; intro Hs; simpl; [constructor; constructor|].
  inversion Hs as [|? ? Hs' Hall]; subst. unfold ev_lt.
  destruct ((ts x <? ts y) || ((ts x =? ts y) && (eend x <? eend y))) eqn:E.
  - constructor; [exact Hs|]. constructor; [unfold lex_le; lia|].
    eapply Forall_impl; [|exact Hall]. intros a Ha. unfold lex_le in *. lia.
  - constructor; [apply IH; exact Hs'|]. assert (Hp := insert_ev_perm x r). rewrite Forall_forall in *.
    intros a Ha. apply Permutation_sym in Hp. apply (Permutation_in _ Hp) in Ha.
    destruct Ha as [Ha|Ha]; [subst; unfold lex_le; lia | apply Hall; exact Ha].
Qed.
Lemma sort_ev_lex l : StronglySorted lex_le (sort_ev l).
Proof. induction l as [|x l IH]; simpl; [constructor | apply insert_ev_lex; exact IH]. Qed.
