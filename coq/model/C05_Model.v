(* C05: get_gpu_kernel_breakdown: _get_gpu_kernel_type_time and _aggr_gpu_kernel_time
   (hta/analyzers/breakdown_analysis.py), hand model. *)
From HTA.lib Require Import Base Cells Intervals Sweep.
From HTA.model Require Import C04_Model C07_Model.
Open Scope Z_scope.

(* ---------------- kernel-type table ---------------- *)
(* types analysed, in the code's order: COMPUTATION (bit 1), COMMUNICATION (bit 2), MEMORY (bit 4) when requested *)
Definition type_list (mem : bool) : list ktype := [COMPUTATION; COMMUNICATION] ++ (if mem then [MEMORY] else []).
Definition type_itvs (ty : ktype) (l : list ev) : list itv :=
  map itv_of (filter (fun e => on_device e && ktype_eqb (get_kernel_type (name e)) ty) l).

(* boundary rows: merged intervals of the i-th type with weight 2^i *)
Fixpoint type_rows (v : Z) (tys : list ktype) (l : list ev) : list row :=
  match tys with
  | [] => []
  | ty :: r => rows_of v (merge_sorted (sort_ts (type_itvs ty l))) ++ type_rows (2 * v) r l
  end.

(* time during which the running bit pattern equals m *)
Definition pattern_time (rows' : list row) (m : Z) : Z := sweep (Z.eqb m) 0 rows'.

Definition model_types (mem : bool) (l : list ev) : list Z :=
  let rows' := sort_time (type_rows 1 (type_list mem) l) in
  map (pattern_time rows') (if mem then [1; 2; 3; 4; 5; 6; 7] else [1; 2; 3]).

(* ---------------- per-kernel table: _aggr_gpu_kernel_time ---------------- *)
Record grp := mkGrp { g_name : string; g_sum : Z; g_max : Z; g_min : Z; g_cnt : Z }.

(* groupby("name")["dur"].agg([sum, max, min, mean]): one record per distinct name, built from that name's durations *)
Definition kdurs (n : string) (ks : list (string * Z)) : list Z := map snd (filter (fun k => String.eqb (fst k) n) ks).
Fixpoint dedup_s (l : list string) : list string :=
  match l with
  | [] => []
  | x :: r => if str_in x r then dedup_s r else x :: dedup_s r
  end.
Definition mk_group (ks : list (string * Z)) (n : string) : grp :=
  let ds := kdurs n ks in mkGrp n (sumZ ds) (maxZ 0 ds) (minZ 0 ds) (Z.of_nat (List.length ds)).
Definition group_by_name (ks : list (string * Z)) : list grp := map (mk_group ks) (dedup_s (map fst ks)).

(* sort by sum, descending (stable) *)
Fixpoint insert_g (x : grp) (l : list grp) : list grp :=
  match l with
  | [] => [x]
  | y :: r => if g_sum y <? g_sum x then x :: l else y :: insert_g x r
  end.
Definition sort_g (l : list grp) : list grp := fold_right insert_g [] l.

Fixpoint cumsums (acc : Z) (l : list grp) : list Z :=
  match l with [] => [] | g :: r => (acc + g_sum g) :: cumsums (acc + g_sum g) r end.

(* 16 * quantile(k/16) of a list of integers, linear interpolation (numpy/pandas default) *)
Definition quantile16 (c : list Z) (k : Z) : Z :=
  let n := Z.of_nat (List.length c) in
  let h := (n - 1) * k in
  let fl := Z.to_nat (h / 16) in
  let fr := h mod 16 in
  16 * nth fl c 0 + fr * (nth (S fl) c (nth fl c 0) - nth fl c 0).

(* is_other i c: the row at position i with cumulative sum c is moved to 'others' *)
Definition is_other (q16 numk i c : Z) : bool := (q16 <? 16 * c) || (numk <=? i).

Fixpoint bucket (q16 numk i : Z) (gs : list grp) (cs : list Z) : list grp * list grp :=
  match gs, cs with
  | g :: gr, c :: cr =>
      let (named, others) := bucket q16 numk (i + 1) gr cr in
      if is_other q16 numk i c then (named, g :: others) else (g :: named, others)
  | _, _ => ([], [])
  end.

(* result: the named rows (with the statistics of their own kernels) and the total of the 'others' bucket *)
Definition aggr (numk k16 : Z) (ks : list (string * Z)) : list grp * option Z :=
  let gs := sort_g (group_by_name ks) in
  if numk <? Z.of_nat (List.length gs) then
    let cs := cumsums 0 gs in
    let (named, others) := bucket (quantile16 cs k16) numk 0 gs cs in
    (named, match others with [] => None | _ => Some (sumZ (map g_sum others)) end)
  else (gs, None).

Definition kernels_of_type (ty : ktype) (l : list ev) : list (string * Z) :=
  map (fun e => (name e, dur e)) (filter (fun e => on_device e && ktype_eqb (get_kernel_type (name e)) ty) l).

Definition kernels_of_cat (c : string) (l : list ev) : list (string * Z) :=
  map (fun e => (name e, dur e)) (filter (fun e => String.eqb (cat e) c) l).

Definition encode_grp (tab : list string) (g : grp) : list Z := [index_of (g_name g) tab; g_sum g; g_max g; g_min g; g_cnt g].
Definition encode_aggr (tab : list string) (r : list grp * option Z) : list (list Z) * Z :=
  (sort_rows (map (encode_grp tab) (fst r)), match snd r with Some s => s | None => -1 end).

Definition encode_C05 (tab : list string) (mem : bool) (numk k16 : Z) (l : list ev)
  : list Z * list (list (list Z) * Z) * list (list (list Z)) * ((list (list Z) * Z) * list (list Z)) :=
  (model_types mem l,
   map (fun ty => encode_aggr tab (aggr numk k16 (kernels_of_type ty l))) (type_list mem),
   (* all groups with their statistics, for the property-level check when equal sums make the bucketing ambiguous *)
   map (fun ty => sort_rows (map (encode_grp tab) (group_by_name (kernels_of_type ty l)))) (type_list mem),
   (* get_gpu_user_annotation_breakdown: the same aggregator over the gpu_user_annotation rows *)
   (encode_aggr tab (aggr numk k16 (kernels_of_cat "gpu_user_annotation" l)),
    sort_rows (map (encode_grp tab) (group_by_name (kernels_of_cat "gpu_user_annotation" l))))).
