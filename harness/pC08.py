"""C08: the critical-path graph is a forward-in-time DAG with typed, non-negative edges."""
import random
import tracegen
import framework as fw
import cp_common as cp
import translate

ID = "C08"
COQ_IMPORTS = ["From HTA.lib Require Import Dag.", "From HTA.model Require Import C08_Model C08_Host C08_Dev C08_Clip."]
SOURCES = cp.SOURCES
TRANSLATE = [translate.gen_cprules]
ASSUMPTIONS_HOST = "the depth-first traversal order is taken from the implementation's CallStackGraph.dfs_traverse; its well-formedness (wf_actions) is decided in Coq on every case"
INPUT_CONTRACT = True        # the loaded frame is re-checked against the file (framework.input_contract)
N_CASES = {"quick": 250, "thorough": 4000}
RULE = ("generated causally consistent well-formed file sets (device work starts no earlier than its launch call; every synchronising call returns after the work it "
        "waits for; FIFO kernels on 1-3 streams; cudaDeviceSynchronize / cudaStreamSynchronize with Context / Stream Sync records; missing and orphan kernels; "
        "profiler steps and user annotations; every fifth case from the synchronisation-scenario template family, every fifth from the CUDA-event template family: "
        "cudaEventRecord / cudaEventSynchronize / cudaStreamWaitEvent with Event Sync / Stream Wait Event records), window drawn from {whole trace, ProfilerStep (default / one instance / a range), a user annotation}, with and "
        "without CRITICAL_PATH_ADD_ZERO_WEIGHT_LAUNCH_EDGE; the graph the analysis returns is judged by the verified checker check_C08 evaluated in Coq: node "
        "bijection, every edge forward in time with the weight its type prescribes, launch / kernel-kernel / sync edges joining what they stand for, acyclicity by a "
        "rank witness; non-trivial = the graph has edges of at least four types; distinct = hash of file set and parameters")
ASSUMPTIONS = [ASSUMPTIONS_HOST, "causally consistent traces (quantifier); kernels of one stream do not overlap (the generator's FIFO placement)",
               "event-record / stream-wait-event synchronisation is generated (every fifth case), but under pandas 3 the builder attaches no edge to it (Series.fillna(inplace=True) on a column attribute is a no-op under copy-on-write, so the previous-launch look-up stays empty): the check confirms the analysis succeeds and every edge present is legal; no clause of the property demands the presence of an edge",
               "the topological order used as rank witness is networkx's; it is only a hint: the ranks are checked in Coq (Dag.rank_okb)"]
TY = {"OPERATOR_KERNEL": 0, "DEPENDENCY": 1, "KERNEL_LAUNCH_DELAY": 2, "KERNEL_KERNEL_DELAY": 3, "SYNC_DEPENDENCY": 4}
CHECKS = ["every analysed event contributes exactly one start and one end node carrying its times (node bijection)",
          "every edge points forward in time, weighs what its type prescribes (never a negative amount) and joins what its type stands for",
          "the edge relation is acyclic (rank witness)", "edge end points are nodes of the graph"]


def gen_cases(seed, tier, n):
    """C08's own cases: the shared ones plus a thread nested 1100 levels deep"""
    out = gen_cases_shared(seed, tier, n)
    for i in range(len(out)):
        if i % 150 == 9:
            c = tracegen.gen_deep_case(seed, i)
            c["params"] = {"pseed": out[i]["params"]["pseed"], "zw": False}
            out[i] = c
    return out


def gen_cases_shared(seed, tier, n):
    out = []
    profs = ["cp", "cp_tiny", "cp"]
    for i in range(n):
        if i % 5 == 4:
            c = tracegen.gen_sync_scenario(seed, i)
        elif i % 5 == 2:
            c = tracegen.gen_event_sync_scenario(seed, i)
        elif i % 10 == 8:
            c = tracegen.gen_backlog_scenario(seed, i)      # the device runs behind: work of one step is still queued when the next begins
        elif i % 10 == 1:
            # zero-duration host events (also in the instant where one operator ends and the next begins): the analysis drops them
            # before it builds the call stacks, so they must not disturb the graph
            c = tracegen.gen_case(seed, i, tracegen.PROFILES["cp_zero"])
        else:
            c = tracegen.gen_case(seed, i, tracegen.PROFILES[profs[i % len(profs)]])
        rng = random.Random(seed * 7919 + i)
        c["params"] = {"pseed": rng.randint(0, 10 ** 9), "zw": rng.random() < 0.3}
        if i % 6 == 1:
            # the profiler-step annotations are written to the file in reverse time order (a window given as an instance RANGE is the hull
            # of the selected rows, whatever their order)
            for rk in c["ranks"].values():
                pos = [k for k, e in enumerate(rk["events"]) if str(e.get("name", "")).startswith("ProfilerStep#") and "dur" in e and k > 0]
                evs = [rk["events"][k] for k in pos]
                for k, e in zip(pos, reversed(evs)):
                    rk["events"][k] = e
        if i % 7 == 3:
            # a second host process whose thread has the same thread id as one of the first (its events shifted a little, so that they overlap
            # the originals without nesting): call stacks are per (process, thread)
            tracegen.add_second_process(c, random.Random(seed * 104729 + i), shift=rng.choice([1, 2, 3, 5]))
        if i % 8 == 6:
            fw.set_quarter_us(c)           # quarter-microsecond resolution (framework.resolution): times and weights are compared after scaling by 4
        out.append(c)
    return out


def topo_order(graph):
    import networkx as nx
    g = nx.DiGraph()
    g.add_nodes_from(graph["graph_nodes"])
    g.add_edges_from((e[0], e[1]) for e in graph["edges"])
    try:
        return [int(x) for x in nx.topological_sort(g)]
    except Exception:
        return sorted(graph["graph_nodes"])


def run_impl(case, d):
    res, ta, g = cp.run_cp(case, d, zero_weight_env=case["params"]["zw"])
    if "graph" in res:
        res["order"] = topo_order(res["graph"])
        try:
            res["traversal"] = cp.dump_host_traversal(ta, res["rank"], g)
            res["queue"] = cp.queue_lengths(ta, res["rank"])
        except Exception as e:
            res["traversal_error"] = type(e).__name__ + ": " + str(e)[:200]
    return res


def nodes_lit(graph):
    return "[" + "; ".join(f"mkN {fw.z(i)} {fw.z(ev)} {fw.z(ts)} {fw.b(st)} {fw.b(bl)}" for i, ev, ts, st, bl in graph["nodes"]) + "]"


def edges_lit(graph):
    return "[" + "; ".join(f"mkE {fw.z(u)} {fw.z(v)} {fw.z(w)} {TY[t]}" for u, v, w, _wa, t, _be in graph["edges"]) + "]"


def clipped_lit(impl):
    ids = set(impl["clipped"])
    return fw.evl([r for r in impl["rows"] if r["idx"] in ids])


def coq_term(case, impl):
    if "graph" not in impl:
        return "[false]"
    g = impl["graph"]
    return (f"(check_C08 {fw.b(impl['zero_weight_env'])} {clipped_lit(impl)} {nodes_lit(g)} {edges_lit(g)} {fw.zl(impl['order'])}, {host_term(impl)}, "
            f"{dev_term(impl)}, {clip_term(impl)})")


def clip_term(impl):
    """the window and the kept rows (coq/model/C08_Clip.v) for the analysed rank's frame"""
    inst = impl["instance"]
    i, j = (0, 0) if inst is None else (tuple(inst) if isinstance(inst, (list, tuple)) else (inst, inst))
    return f"encode_clip {fw.s(impl['annotation'])} {int(i)}%nat {int(j)}%nat {fw.evl(impl['rows'])}"


def _drow_lit(r):
    z, b = fw.z, fw.b
    if r[0] == "DK":
        return f"DK {z(r[1])} {z(r[2])} {z(r[3])} {z(r[4])} {z(r[5])} {z(r[6])} {b(r[7])} {z(r[8])} {z(r[9])}"
    if r[0] == "DS":
        return f"DS {z(r[1])} {z(r[2])} {z(r[3])} {b(r[4])}"
    if r[0] == "DC":
        return f"DC {z(r[1])} {z(r[2])} {b(r[3])}"
    return "DE"


def dev_term(impl):
    """the device-side builder model (coq/model/C08_Dev.v) applied to the window's activities and sync records"""
    if "queue" not in impl:
        return "(true, true, [])"
    rows, _ = cp.dev_model_inputs(impl)
    return f"encode_dev {fw.b(impl['zero_weight_env'])} [" + "; ".join(_drow_lit(r) for r in rows) + "]"


def host_term(impl):
    """the host-side builder model (coq/model/C08_Host.v) applied to the traversal of every host thread"""
    if "traversal" not in impl:
        return "[]"
    threads, _ = cp.host_model_inputs(impl)
    t0 = min([r["ts"] for r in impl["rows"]] + [0])
    parts = []
    for tab, acts in threads:
        tl = "[" + "; ".join(f"mkH {fw.z(i)} {fw.z(a)} {fw.z(b)} {fw.b(an)} {fw.b(bl)} {fw.z(par)}" for i, a, b, an, bl, par in tab) + "]"
        al = "[" + "; ".join(("Enter " if e else "Exit ") + fw.z(i) for e, i in acts) + "]"
        parts.append(f"encode_host {tl} {al} {fw.z(t0)}")
    return "[" + ";\n   ".join(parts) + "]"


def compare(case, impl, model):
    w = f"(rank {impl['rank']}, annotation {impl['annotation']!r}, instance {impl['instance']}, zero-weight launch edges {impl['zero_weight_env']})"
    if "error" in impl:
        return [f"critical_path_analysis raised {impl['error']} {w}"]
    if impl.get("none"):
        return []
    disc = []
    if not impl["success"]:
        disc.append(f"critical_path_analysis reported failure (success=False) {w}")
    g = impl["graph"]
    for e in g["edges"]:
        if [e[0], e[1]] != e[5]:
            disc.append(f"edge object {e[5]} stored on graph edge ({e[0]}, {e[1]})")
    checks, host, dev = split_model(model)
    for ok, what in zip(checks, CHECKS):
        if not ok:
            disc.append(f"check_C08 rejects the graph: {what} {w}")
    disc += compare_host(impl, host, w)
    disc += compare_dev(impl, dev, w)
    if len(model) >= 4:
        lo, hi, ids = model[3][0], model[3][1], list(model[3][2])
        if sorted(ids) != sorted(impl["clipped"]):
            disc.append(f"events kept for the graph differ from the model of the window clipping (window [{lo}, {hi}]): only kept by the code "
                        f"{sorted(set(impl['clipped']) - set(ids))[:6]}; only by the model {sorted(set(ids) - set(impl['clipped']))[:6]} {w}")
    return disc[:6]


def split_model(model):
    """Coq prints nested pairs flat: (checks, host, dev) or (checks, host, ok, dwf, edges)"""
    model = list(model)
    checks, host = model[0], model[1]
    dev = model[2] if len(model) >= 3 else None
    return checks, host, dev


def compare_dev(impl, dev, w):
    """edges touching the device side (activity spans, launch delays, kernel-to-kernel delays, synchronisation) of the real graph against the
    device-side model"""
    if "queue" not in impl or dev is None:
        return []
    ok, dwf, edges = dev[0], dev[1], [list(e) for e in dev[2]]
    _, impl_edges = cp.dev_model_inputs(impl)
    disc = []
    if not ok:
        disc.append(f"device-side model: the builder's assertion about the launch call would fail (launch-delay edge wanted from a call without nodes) {w}")
    if not dwf:
        disc.append(f"harness: the processing sequence of the window is not causally consistent (dwf = false): outside the quantifier {w}")
    if edges != impl_edges:
        only_i = [e for e in impl_edges if e not in edges][:3]
        only_m = [e for e in edges if e not in impl_edges][:3]
        disc.append(f"device-side edges differ from the model of _construct_graph_from_kernels: only in the graph {only_i}; only in the model {only_m} "
                    f"as (event, is_start, event, is_start, weight, type, attributed event) {w}")
    return disc


def compare_host(impl, host, w):
    """host-to-host edges (operator spans and dependencies, with their attribution) of the real graph against the host-side model"""
    if "traversal_error" in impl:
        return [f"harness: could not record the call-stack traversal: {impl['traversal_error']} {w}"]
    if "traversal" not in impl:
        return []
    _, impl_edges = cp.host_model_inputs(impl)
    disc = []
    model_edges = []
    for k, th in enumerate(host):
        wf, edges = th[0], th[1]
        if not wf:
            disc.append(f"host thread {k}: the call-stack traversal is not a depth-first visit of properly nested events in time order (wf_actions = false) {w}")
        model_edges += [list(e) for e in edges]
    model_edges.sort()
    if model_edges != impl_edges:
        only_i = [e for e in impl_edges if e not in model_edges][:3]
        only_m = [e for e in model_edges if e not in impl_edges][:3]
        disc.append(f"host-side edges differ from the model of _construct_graph_from_call_stack: only in the graph {only_i}; only in the model {only_m} "
                    f"as (event, is_start, event, is_start, weight, type, attributed event) {w}")
    return disc


def nontrivial(case, impl):
    return "graph" in impl and len({e[4] for e in impl["graph"]["edges"]}) >= 4


def classify(case, impl, model, disc):
    # known finding: the call-stack traversal of the graph builder is recursive; a thread nested about 1000 levels deep exceeds Python's limit
    if case.get("deep", 0) >= 990 and "error" in impl and impl["error"].startswith("RecursionError"):
        return "C08-recursion-limit-on-deep-nesting"
    # known finding: a window whose graph has only zero-weight edges (e.g. nothing but blocking synchronisation calls)
    if "error" in impl and impl["error"].startswith("AssertionError") and impl.get("all_zero_weights"):
        return "C08-window-with-only-zero-weight-edges"
    return None


LEVEL_TEXT = ("Proof (verified checker): C08_check_sound: a graph accepted by check_C08 has exactly one start and one end node per analysed event carrying its times, "
              "every edge points forward in time with a non-negative weight equal to the time difference or zero as its type prescribes, launch-delay / "
              "kernel-to-kernel / synchronisation edges join what they stand for, and (Dag.acyclic) no path returns to its start. The checker is evaluated in "
              "Coq on the graph critical_path_analysis returns for every generated window. Host side additionally by proof about the builder itself: "
              "C08_host_edges_forward_nonneg: the enter / exit state machine of _construct_graph_from_call_stack (coq/model/C08_Host.v), run over ANY depth-first "
              "traversal of properly nested events in time order, emits only forward, non-negative edges weighing the time difference (or zero for dependencies "
              "and blocking calls); its edges and attributions are compared with the real graph's host-to-host edges on every case. Device side likewise: "
              "C08_dev_edges_forward_typed: the loop of _construct_graph_from_kernels with its per-stream state (coq/model/C08_Dev.v), over ANY causally consistent "
              "processing sequence, emits only forward, non-negative, correctly typed edges; the model's edges are compared with all device-side edges of the real "
              "graph on every case. CUDA-event synchronisation is modelled as attaching no edge (what the code does under pandas 3). The window clipping "
              "(coq/model/C08_Clip.v) is modelled too: C08_window_closed (a kept device row's launching / synchronising call is kept, so the builder's look-up of "
              "its nodes cannot fail; host rows are kept exactly when they start in the window and last); the kept row set is compared on every case."
              " C08_host_resolution_independent: the host-side builder yields the same edges with node times and weights multiplied by k."
              " C08_dev_resolution_independent / C08_window_resolution_independent: the device-side loop, the window and the kept rows behave the same at every resolution.")
LEVEL_NOTE = ("Translation-validation style: the theorem is about the checker, the tie to the code is the per-run evaluation of the checker on the real graph. "
              "Event-record / stream-wait synchronisation is generated but attaches no edge under pandas 3 (see assumptions), so the event-sync edge rules are exercised only vacuously. networkx's topological order is an unchecked hint for the checked rank witness.")
TECHNIQUE = "Coq-verified checker (reflection of the property's clauses; acyclicity by rank function) evaluated by vm_compute on every real graph + Gallina model of the host-side builder (state-machine invariant proof) in differential correspondence"
