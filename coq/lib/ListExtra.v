(* List lemmas missing from the 8.16 standard library. *)
From Coq Require Import List Permutation Lia ZArith.
Import ListNotations.

Lemma NoDup_app_intro {A} (l1 l2 : list A) :
  NoDup l1 -> NoDup l2 -> (forall x, In x l1 -> ~ In x l2) -> NoDup (l1 ++ l2).
Proof.
  intros H1 H2 Hd. induction H1 as [|x l1 Hx Hnd IH]; simpl; [exact H2|].
  constructor.
  - intro Hin. apply in_app_or in Hin. destruct Hin as [Hin|Hin]; [auto|].
    apply (Hd x); [left; reflexivity | exact Hin].
  - apply IH. intros y Hy. apply Hd. right. exact Hy.
Qed.

Lemma NoDup_map_inj {A B} (f : A -> B) (l : list A) :
  (forall x y, In x l -> In y l -> f x = f y -> x = y) -> NoDup l -> NoDup (map f l).
Proof.
  intros Hinj Hnd. induction Hnd as [|x l Hx Hnd IH]; simpl; [constructor|].
  constructor.
  - intro Hin. apply in_map_iff in Hin. destruct Hin as [y [Hfy Hy]].
    assert (y = x) by (apply Hinj; [right; exact Hy | left; reflexivity | exact Hfy]).
    subst. auto.
  - apply IH. intros a b Ha Hb. apply Hinj; right; assumption.
Qed.

Lemma NoDup_flat_map_pairs {A B} (f : A -> list B) (l : list A) :
  NoDup l -> (forall a, In a l -> NoDup (f a)) ->
  NoDup (flat_map (fun a => map (fun b => (a, b)) (f a)) l).
Proof.
  intros Hnd Hf. induction Hnd as [|a l Ha Hnd IH]; simpl; [constructor|].
  apply NoDup_app_intro.
  - apply NoDup_map_inj; [|apply Hf; left; reflexivity].
    intros x y _ _ H. inversion H. reflexivity.
  - apply IH. intros b Hb. apply Hf. right. exact Hb.
  - intros [a' b'] Hin1 Hin2. apply in_map_iff in Hin1. destruct Hin1 as [b0 [Heq _]].
    inversion Heq; subst a' b'. apply in_flat_map in Hin2. destruct Hin2 as [a1 [Ha1 Hin2]].
    apply in_map_iff in Hin2. destruct Hin2 as [b1 [Heq1 _]]. inversion Heq1; subst. auto.
Qed.

Lemma filter_filter {A} (f g : A -> bool) l :
  filter f (filter g l) = filter (fun x => andb (g x) (f x)) l.
Proof.
  induction l as [|x l IH]; simpl; [reflexivity|].
  destruct (g x); simpl; [destruct (f x); simpl; rewrite IH; reflexivity | exact IH].
Qed.

Lemma filter_ext_in' {A} (f g : A -> bool) l :
  (forall x, In x l -> f x = g x) -> filter f l = filter g l.
Proof.
  induction l as [|x l IH]; simpl; intro H; [reflexivity|].
  rewrite (H x (or_introl eq_refl)). rewrite IH; [reflexivity|].
  intros y Hy. apply H. right. exact Hy.
Qed.

Lemma flat_map_filter_out {A B} (p : A -> bool) (f : A -> list B) l :
  flat_map f (filter p l) = flat_map (fun a => if p a then f a else []) l.
Proof.
  induction l as [|a l IH]; simpl; [reflexivity|].
  destruct (p a); simpl; rewrite IH; reflexivity.
Qed.

(* subsequence: order and contents preserved *)
Inductive sublist {A} : list A -> list A -> Prop :=
| sub_nil : sublist [] []
| sub_skip x l1 l2 : sublist l1 l2 -> sublist l1 (x :: l2)
| sub_take x l1 l2 : sublist l1 l2 -> sublist (x :: l1) (x :: l2).

Lemma sublist_refl {A} (l : list A) : sublist l l.
Proof. induction l; constructor; assumption. Qed.

Lemma sublist_trans {A} (l1 l2 l3 : list A) : sublist l1 l2 -> sublist l2 l3 -> sublist l1 l3.
Proof.
  intros H12 H23. revert l1 H12. induction H23 as [|x l2 l3 H IH|x l2 l3 H IH]; intros l1 H12.
  - exact H12.
  - constructor. apply IH. exact H12.
  - inversion H12; subst; constructor; apply IH; assumption.
Qed.

Lemma filter_sublist {A} (p : A -> bool) l : sublist (filter p l) l.
Proof. induction l as [|x l IH]; simpl; [constructor|]. destruct (p x); constructor; exact IH. Qed.

Lemma sublist_nil {A} (l : list A) : sublist [] l.
Proof. induction l; constructor; assumption. Qed.

Lemma filter_comm {A} (p q : A -> bool) l : filter p (filter q l) = filter q (filter p l).
Proof. rewrite !filter_filter. apply filter_ext_in'. intros x _. apply Bool.andb_comm. Qed.

Lemma filter_idem {A} (p : A -> bool) l : filter p (filter p l) = filter p l.
Proof. rewrite filter_filter. apply filter_ext_in'. intros x _. destruct (p x); reflexivity. Qed.
