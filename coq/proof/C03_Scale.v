(* C03: both call-stack builders see the same nesting at every resolution (over the comparators generated from the source) *)
From HTA.lib Require Import Base.
From HTA.gen Require Import Cmp_gen.
From HTA.model Require Import C03_Model.
From HTA.proof Require Import Scale.
Open Scope Z_scope.

Definition sep (k : Z) (x : ep) : ep := mkEp (e_idx x) (k * e_dur x) (e_kind x) (k * e_time x).

Ltac scale_conds Hk :=
  rewrite ?eqb0_scale, ?ltb0_scale, ?sub_eqb0_scale, ?eqb_scale, ?ltb_scale by exact Hk.

Lemma lt_new_scale k x y : 0 < k -> lt_new (sep k x) (sep k y) = lt_new x y.
Proof.
  intro Hk. unfold lt_new, less_than_gen, cmp_zero_gen, sep. cbn [e_idx e_dur e_kind e_time].
  scale_conds Hk. reflexivity.
Qed.

Lemma lt_old_scale k x y : 0 < k -> lt_old (sep k x) (sep k y) = lt_old x y.
Proof.
  intro Hk. unfold lt_old, compare_events_gen, sep. cbn [e_idx e_dur e_kind e_time].
  scale_conds Hk.
  repeat match goal with |- context [if ?c then _ else _] => destruct c end;
    try reflexivity; apply sub_ltb0_scale; exact Hk.
Qed.

Lemma insert_by_scale (lt : ep -> ep -> bool) k x l :
  (forall a b, lt (sep k a) (sep k b) = lt a b) ->
  insert_by lt (sep k x) (map (sep k) l) = map (sep k) (insert_by lt x l).
Proof.
  intro H. induction l as [|y r IH]; cbn [map insert_by]; [reflexivity|].
  rewrite H. destruct (lt x y); cbn [map]; [reflexivity|]. f_equal. exact IH.
Qed.

Lemma sort_by_scale (lt : ep -> ep -> bool) k l :
  (forall a b, lt (sep k a) (sep k b) = lt a b) ->
  sort_by lt (map (sep k) l) = map (sep k) (sort_by lt l).
Proof.
  intro H. unfold sort_by. induction l as [|x r IH]; cbn [map fold_right]; [reflexivity|].
  rewrite IH. apply insert_by_scale. exact H.
Qed.

Lemma machine_scale k ok root st eps : machine ok root st (map (sep k) eps) = machine ok root st eps.
Proof.
  revert st. induction eps as [|x r IH]; intro st; cbn [map machine]; [reflexivity|].
  unfold sep at 1 2 3. cbn [e_kind e_idx]. destruct (e_kind x =? ok); rewrite IH; reflexivity.
Qed.

Lemma open_new_scale k e : open_new (scale_ev k e) = sep k (open_new e).
Proof. reflexivity. Qed.

Lemma close_new_scale k e : close_new (scale_ev k e) = sep k (close_new e).
Proof.
  unfold close_new, sep, scale_ev. cbn [idx dur ts e_idx e_dur e_kind e_time].
  replace (k * ts e + k * dur e) with (k * (ts e + dur e)) by ring. reflexivity.
Qed.

Lemma endpoints_new_scale k l : endpoints_new (scale_evs k l) = map (sep k) (endpoints_new l).
Proof.
  unfold endpoints_new, scale_evs. rewrite map_app, !map_map. f_equal; apply map_ext; intro e;
    first [apply open_new_scale | apply close_new_scale].
Qed.

Lemma dur0_scale k e : 0 < k -> dur0 (scale_ev k e) = k * dur0 e.
Proof. intro Hk. unfold dur0, scale_ev. cbn [dur]. rewrite <- (Z.mul_0_r k) at 1. apply max_scale. lia. Qed.

Lemma endpoints_old_scale k l : 0 < k -> endpoints_old (scale_evs k l) = map (sep k) (endpoints_old l).
Proof.
  intro Hk. unfold endpoints_old, scale_evs. induction l as [|e r IH]; cbn [map flat_map app]; [reflexivity|].
  rewrite IH, !dur0_scale by exact Hk. unfold sep. cbn [e_idx e_dur e_kind e_time].
  unfold scale_ev at 1 2 3 4. cbn [idx ts].
  replace (k * ts e + k * dur0 e) with (k * (ts e + dur0 e)) by ring. reflexivity.
Qed.

Theorem C03_scale k l : 0 < k ->
  parents_new (scale_evs k l) = parents_new l /\ parents_old (scale_evs k l) = parents_old l.
Proof.
  intro Hk. unfold parents_new, parents_old. split.
  - rewrite endpoints_new_scale, sort_by_scale by (intros a b; apply lt_new_scale; exact Hk). apply machine_scale.
  - rewrite endpoints_old_scale by exact Hk.
    rewrite sort_by_scale by (intros a b; apply lt_old_scale; exact Hk). apply machine_scale.
Qed.
