(* C04: the grouping test of merge_kernel_intervals and the arithmetic of the breakdown are those read from the source
   (gen/BreakdownRules_gen.v) *)
From HTA.lib Require Import Base Cells Intervals.
From HTA.model Require Import C04_Model.
From HTA.gen Require Import BreakdownRules_gen.
Open Scope list_scope.
Open Scope Z_scope.

Theorem breakdown_rules_are_generated : forall (D' C' : list itv) cs ce m s e r,
  breakdown D' C' = breakdown_gen (first_ts (merge_sorted D')) (last_end (merge_sorted D')) (total (merge_sorted D')) (total (merge_sorted C')) /\
  merge_aux cs ce m ((s, e) :: r) =
    (if new_group_gen m s then (cs, ce) :: merge_aux s e (Z.max m e) r else merge_aux (Z.min cs s) (Z.max ce e) (Z.max m e) r).
Proof. intros. split; reflexivity. Qed.
