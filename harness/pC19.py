"""C19: a saved critical-path graph restores to an identical graph."""
import os
import random
import shutil
import tracegen
import framework as fw
import translate
import cp_common as cp
import pC08

ID = "C19"
COQ_IMPORTS = ["From HTA.gen Require Import SaveFields_gen.", "From HTA.model Require Import C19_Model."]
SOURCES = cp.SOURCES
TRANSLATE = [translate.gen_savefields]
N_CASES = {"quick": 120, "thorough": 2000}
RULE = ("every graph a successful analysis builds for generated causally consistent traces and windows (as C08) is saved and restored 1, 2 or 3 times with the real "
        "CPGraph.save / restore_cpgraph; after every cycle the observation (nodes, edges with weight, type and stored object, attribution map, node list, start/end "
        "maps, critical path nodes / events / edges, breakdown rows) must equal the original's, and critical_path() recomputed on the restored graph must give a "
        "path of the same total weight; in addition a second graph (another window of the rank) is saved into a directory that already holds the first and must "
        "restore to itself; the Coq side re-checks on every run that the field lists read out of the current source cover every attribute the observers "
        "read; non-trivial = the graph has >= 10 edges; distinct = hash of file set and parameters")
ASSUMPTIONS = ["codec round trips (pickle of dataclasses and enums, networkx node-link data, CSV dtypes, zip paths) are runtime behaviour: hypotheses of the theorems, "
               "exercised by the real save/restore cycles here",
               "restore_cpgraph extracts under /tmp (hard-coded in the code under test); the harness removes what it extracted"]


def gen_cases(seed, tier, n):
    """C08's cases, every fourth replaced by a trace that is NOT causally consistent (kernels overlapping the previous kernel of their stream by
    1-2 units, kernels starting before their launch call): the analysis tolerates the negative edge weights by zeroing the graph's weight while
    the stored edge object keeps the negative value, so graph weight and object weight differ -- both must survive a save / restore"""
    out = pC08.gen_cases_shared(seed, tier, n)
    for i in range(len(out)):
        if i % 4 == 3:
            c = tracegen.gen_case(seed, i, tracegen.PROFILES["cp_neg"])
            c["params"] = out[i]["params"]
            out[i] = c
    return out


_K = [1]         # time scale of the case being run (quarter-microsecond cases, framework.resolution)


def observe(g):
    k = _K[0]
    o = cp.dump_graph(g, k)
    bd = cp.dump_breakdown(g, k)
    o["breakdown"] = sorted(([r["event_idx"] if r["event_idx"] is not None else -1, r["duration"], r["type"], r["bound_by"]] for r in (bd or [])))
    o["path_weight"] = sum((int(g.edges[u, v]["weight"]) if k == 1 else fw.as_int(g.edges[u, v]["weight"] * k)) for u, v in zip(g.critical_path_nodes, g.critical_path_nodes[1:]))
    o["trace_index"] = sorted(int(i) for i in g.trace_df.index)
    return o


def run_impl(case, d):
    from hta.analyzers.critical_path_analysis import restore_cpgraph
    _K[0] = fw.time_scale(case)
    res, ta, g = cp.run_cp(case, d, zero_weight_env=case["params"]["zw"])
    if g is None or "graph" not in res or not res.get("success"):
        return res
    rng = random.Random(case["params"]["pseed"] + 5)
    ncycles = rng.randint(1, 3)
    res["ncycles"] = ncycles
    try:
        before = observe(g)
        res["before_edges"] = len(before["edges"])
        cur = g
        diffs = []
        for k in range(ncycles):
            out_dir = os.path.join(d, f"cp_save_{k}")
            before = observe(cur)         # the graph as it is saved in this cycle (a recomputed path may be another of several maximum-weight paths)
            z = cur.save(out_dir)
            if (case.get("case_no", 0) + k) % 2 == 1:
                # the archive is moved / renamed between saving and restoring (it is a file like any other): what it restores to is decided by
                # what it holds, not by what it is called
                moved = os.path.join(d, f"moved_{k}", "graph of rank %d.zip" % res["rank"])
                os.makedirs(os.path.dirname(moved), exist_ok=True)
                shutil.move(z, moved)
                z = moved
            cur = restore_cpgraph(z, ta.t, res["rank"])
            shutil.rmtree("/tmp" + out_dir, ignore_errors=True)
            after = observe(cur)
            for key in before:
                if before[key] != after[key]:
                    diffs.append(f"after {k + 1} cycle(s): {key} differs: {str(before[key])[:160]} vs {str(after[key])[:160]}")
            if k == ncycles - 1:
                # only after the last cycle: a restored graph that is saved again must be stored as it is (saving must not recompute or alter it)
                ok = cur.critical_path()
                w2 = sum((int(cur.edges[u, v]["weight"]) if _K[0] == 1 else fw.as_int(cur.edges[u, v]["weight"] * _K[0]))
                         for u, v in zip(cur.critical_path_nodes, cur.critical_path_nodes[1:]))
                if not ok or w2 != before["path_weight"]:
                    diffs.append(f"after {k + 1} cycle(s): recomputed critical path weighs {w2} (success={ok}), the original {before['path_weight']}")
        # history: what-if weights set on the (restored) graph WITHOUT recomputing the path, then saved: the file must hold the graph as it is --
        # the re-weighted edges and the path that was stored -- and restore to exactly that (saving must not recompute or repair anything)
        edges_ = list(cur.edges)
        if edges_:
            for (u, v) in edges_:
                if rng.random() < 0.4:
                    cur.edges[u, v]["weight"] = (int(cur.edges[u, v]["weight"]) if _K[0] == 1 else cur.edges[u, v]["weight"]) * rng.choice([2, 3, 10]) + rng.choice([0, 1])
            b3 = observe(cur)
            z3 = cur.save(os.path.join(d, "cp_save_whatif"))
            r3 = restore_cpgraph(z3, ta.t, res["rank"])
            shutil.rmtree("/tmp" + os.path.join(d, "cp_save_whatif"), ignore_errors=True)
            a3 = observe(r3)
            a3s = observe(cur)
            for key in b3:
                if key == "path_weight":
                    continue
                if b3[key] != a3s[key]:
                    diffs.append(f"save() altered the graph it was asked to save (re-weighted, path not recomputed): {key}: {str(b3[key])[:120]} vs {str(a3s[key])[:120]}")
                elif b3[key] != a3[key]:
                    diffs.append(f"re-weighted graph (path not recomputed) saved and restored: {key} differs: {str(b3[key])[:140]} vs {str(a3[key])[:140]}")
        # history: a different graph (another window of the same rank) saved into a directory that already holds a saved graph
        ann2 = "" if res["annotation"] != "" else "ProfilerStep"
        if cp.window_has_events(res["rows"], ann2, None):
            try:
                out2 = ta.critical_path_analysis(rank=res["rank"], annotation=ann2, instance_id=None)
            except (AssertionError, ValueError):
                out2 = None          # the other window has no successful analysis (e.g. a trace that is not causally consistent): nothing to save
            if out2 is not None and out2[1]:
                g2 = out2[0]
                before2 = observe(g2)
                shared = os.path.join(d, "cp_save_shared")
                g.save(shared)
                z2 = g2.save(shared)
                r2 = restore_cpgraph(z2, ta.t, res["rank"])
                shutil.rmtree("/tmp" + shared, ignore_errors=True)
                after2 = observe(r2)
                res["second_graph"] = True
                # ... and two graphs saved under names that differ only after a dot: each archive must restore to its own graph
                obs1 = observe(g)
                z_a = g.save(os.path.join(d, "cp_graph.first"))
                z_b = g2.save(os.path.join(d, "cp_graph.second"))
                r_a = restore_cpgraph(z_a, ta.t, res["rank"])
                shutil.rmtree("/tmp" + os.path.join(d, "cp_graph.first"), ignore_errors=True)
                shutil.rmtree("/tmp" + os.path.join(d, "cp_graph"), ignore_errors=True)
                after_a = observe(r_a)
                for key in obs1:
                    if obs1[key] != after_a[key]:
                        diffs.append(f"first of two graphs saved as cp_graph.first / cp_graph.second (archives {os.path.basename(z_a)}, {os.path.basename(z_b)}): "
                                     f"{key} differs after restoring the first archive: {str(obs1[key])[:140]} vs {str(after_a[key])[:140]}")
                        break
                for key in before2:
                    if before2[key] != after2[key]:
                        diffs.append(f"second graph (window {ann2!r}) saved into a directory already holding the first: {key} differs after restore: "
                                     f"{str(before2[key])[:160]} vs {str(after2[key])[:160]}")
        res["diffs"] = diffs
    except Exception as e:
        import traceback
        res["sr_error"] = type(e).__name__ + ": " + str(e)[:200] + " @ " + traceback.format_exc()[-400:]
    return res


def coq_term(case, impl):
    return "(fields_covered, lists_agree)"


def compare(case, impl, model):
    w = f"(rank {impl.get('rank')}, annotation {impl.get('annotation')!r}, instance {impl.get('instance')}, cycles {impl.get('ncycles')})"
    if "error" in impl:
        if case.get("profile") == "cp_neg" and impl["error"].startswith("ValueError: Graph is not valid"):
            # a trace that is NOT causally consistent may have no valid graph at all (a zero-weight launch edge pointing back in time can
            # close a cycle): no successful analysis, so no graph to save -- outside this property's quantifier
            return []
        if impl["error"].startswith("AssertionError") and impl.get("all_zero_weights"):
            return []
        return [f"critical_path_analysis raised {impl['error'][:300]} {w}"]
    if impl.get("none") or "graph" not in impl or not impl.get("success"):
        return []
    disc = []
    if list(model) != [True, True]:
        disc.append(f"field lists of the current source: fields_covered / lists_agree = {list(model)}")
    if "sr_error" in impl:
        disc.append(f"save / restore raised {impl['sr_error']} {w}")
    disc += [x + " " + w for x in impl.get("diffs", [])]
    return disc[:6]


def nontrivial(case, impl):
    return impl.get("before_edges", 0) >= 10


def classify(case, impl, model, disc):
    return None


LEVEL_TEXT = ("Proof (partial): C19_fields_covered (decided by computation on the field lists REGENERATED from the source on every run: every attribute the observers read "
              "is restored from a saved field, set by __init__ on the restore path or read back from the csv; dataclass, save and restore agree), C19_roundtrip and "
              "C19_iterated (any number of cycles, any graph, frame and attribute values) under the codec round-trip hypotheses. Correspondence: real save / "
              "restore_cpgraph for 1-3 cycles on every generated graph, full observation compared, critical path recomputed.")
LEVEL_NOTE = ("The codecs (pickle, node-link, CSV, zip, the /tmp extraction path) are runtime behaviour a theorem cannot exhibit: assumed as hypotheses, exercised by the "
              "correspondence. Translator: fail-closed reader of _CPGraphData, CPGraph.save, restore_cpgraph, CPGraph.__init__ and the observers' attribute reads.")
TECHNIQUE = "Coq proof over field lists regenerated from the source (coverage decided by vm_compute; round trip by induction on cycles) + real save/restore correspondence"
