"""Source -> Gallina translator (fail-closed) and source sentinels.

run(prop) regenerates the files under coq/gen that the property's theorems depend on and
returns {"ok": bool, "generated": [...], "hashes": {...}, "drift": bool, "error": str}.
A construct outside the supported subset stops the translator: that is a broken proof obligation.
"""
from __future__ import annotations

import ast
import json
import os
import re
from typing import Any, Dict, List

import framework as fw

GEN = os.path.join(fw.COQ, "gen")
HASHFILE = os.path.join(fw.VERIF, "harness", "source_hashes.json")

# which hand-modelled functions each property depends on (source-drift sentinel, DESIGN 4.6)
SOURCES: Dict[str, Dict[str, List[str]]] = {}


def write_if_changed(path: str, text: str) -> bool:
    if os.path.exists(path) and open(path).read() == text:
        return False
    os.makedirs(os.path.dirname(path), exist_ok=True)
    open(path, "w").write(text)
    return True


class Stop(Exception):
    pass


# ---- regex constants of hta/utils/utils.py: must be exactly the patterns Base.v models ----
EXPECTED_RE = {
    "NCCL_KERNEL_RE": r"^nccl.*Kernel",
    "MEMORY_KERNEL_RE": r"(^Memcpy)|(^Memset)|(^dma)",
    "NCCL_COMPUTE_KERNEL_RE": r"(^nccl.*Kernel)|(.*(Memcpy)|(Memset))|(.*Sync)",
}


def check_regex_constants() -> None:
    tree = ast.parse(open(os.path.join(fw.REPO, "hta/utils/utils.py")).read())
    found = {}
    for node in tree.body:
        if isinstance(node, ast.Assign) and len(node.targets) == 1 and isinstance(node.targets[0], ast.Name):
            nm = node.targets[0].id
            if nm in EXPECTED_RE:
                v = node.value
                if not (isinstance(v, ast.Call) and isinstance(v.func, ast.Attribute) and v.func.attr == "compile"
                        and len(v.args) == 1 and isinstance(v.args[0], ast.Constant) and not v.keywords):
                    raise Stop(f"{nm}: not a plain re.compile(<literal>)")
                found[nm] = v.args[0].value
    for nm, pat in EXPECTED_RE.items():
        if found.get(nm) != pat:
            raise Stop(f"regex constant {nm} is {found.get(nm)!r}, the model in lib/Base.v is for {pat!r}")


def run(prop: str) -> Dict[str, Any]:
    res: Dict[str, Any] = {"ok": True, "generated": [], "hashes": {}, "drift": False}
    try:
        check_regex_constants()
        import importlib
        try:
            mod = importlib.import_module(f"p{prop}")
        except Exception:
            mod = None
        for fn in getattr(mod, "TRANSLATE", []):
            res["generated"].append(fn())
        hashes: Dict[str, str] = {}
        for rel, funcs in getattr(mod, "SOURCES", {}).items():
            hashes.update(fw.src_hash(rel, funcs))
        res["hashes"] = hashes
        pinned = json.load(open(HASHFILE)) if os.path.exists(HASHFILE) else {}
        changed = [k for k, v in hashes.items() if pinned.get(k) not in (None, v)]
        res["drift"] = bool(changed)
        res["changed_since_model_was_written"] = changed
    except Stop as e:
        res["ok"] = False
        res["error"] = str(e)
    return res


def pin_hashes() -> None:
    """(development) record the current AST hashes as the ones the hand models were written against."""
    import glob
    import importlib
    pinned: Dict[str, str] = {}
    for f in sorted(glob.glob(os.path.join(fw.VERIF, "harness", "pC*.py"))):
        mod = importlib.import_module(os.path.basename(f)[:-3])
        for rel, funcs in getattr(mod, "SOURCES", {}).items():
            pinned.update(fw.src_hash(rel, funcs))
    json.dump(pinned, open(HASHFILE, "w"), indent=1, sort_keys=True)


# ---- TraceSymbolTable.add_symbols (hta/common/trace_symbol_table.py) -> coq/gen/Symtab_gen.v ----
def gen_symtab() -> str:
    """Reads the insertion loop of add_symbols and emits it as a Gallina step function.  Supported shape only:
         for s in symbols:
             if s not in self.sym_index:
                 idx = len(self.sym_table)
                 self.sym_table.append(s)
                 self.sym_index[s] = idx
       (the three statements in any order as long as idx is computed before the append).  Anything else stops."""
    src = open(os.path.join(fw.REPO, "hta/common/trace_symbol_table.py")).read()
    tree = ast.parse(src)
    fn = None
    for node in ast.walk(tree):
        if isinstance(node, ast.ClassDef) and node.name == "TraceSymbolTable":
            for it in node.body:
                if isinstance(it, ast.FunctionDef) and it.name == "add_symbols":
                    fn = it
    if fn is None:
        raise Stop("TraceSymbolTable.add_symbols not found")
    body = [st for st in fn.body if not (isinstance(st, ast.Expr) and isinstance(st.value, ast.Constant))]
    if len(body) != 1 or not isinstance(body[0], ast.For):
        raise Stop("add_symbols: body is not a single for loop")
    loop = body[0]
    if not (isinstance(loop.target, ast.Name) and isinstance(loop.iter, ast.Name) and loop.iter.id == fn.args.args[1].arg and not loop.orelse):
        raise Stop("add_symbols: loop is not `for s in <argument>`")
    s = loop.target.id
    if len(loop.body) != 1 or not isinstance(loop.body[0], ast.If) or loop.body[0].orelse:
        raise Stop("add_symbols: loop body is not a single if without else")
    cond = loop.body[0]
    t = cond.test
    if not (isinstance(t, ast.Compare) and len(t.ops) == 1 and isinstance(t.ops[0], ast.NotIn) and isinstance(t.left, ast.Name) and t.left.id == s
            and ast.unparse(t.comparators[0]) == "self.sym_index"):
        raise Stop(f"add_symbols: membership test is `{ast.unparse(t)}`, expected `{s} not in self.sym_index`")
    stmts = [ast.unparse(x) for x in cond.body]
    want = {f"idx = len(self.sym_table)", f"self.sym_table.append({s})", f"self.sym_index[{s}] = idx"}
    if set(stmts) != want or len(stmts) != 3:
        raise Stop(f"add_symbols: insertion statements are {stmts}")
    if stmts.index("idx = len(self.sym_table)") > stmts.index(f"self.sym_table.append({s})"):
        raise Stop("add_symbols: idx is computed after the append")
    text = '''(* GENERATED by harness/translate.py from hta/common/trace_symbol_table.py TraceSymbolTable.add_symbols -- do not edit.
   State: sym_table (list of symbols, id = position) and sym_index (association list symbol -> id). *)
From HTA.lib Require Import Base.
Open Scope Z_scope.

Record symtab := mkSym { sym_table : list string; sym_index : list (string * Z) }.
Definition empty_symtab : symtab := mkSym [] [].

Fixpoint lookup (s : string) (m : list (string * Z)) : option Z :=
  match m with
  | [] => None
  | (k, v) :: r => if String.eqb s k then Some v else lookup s r
  end.

(* if s not in self.sym_index: idx = len(self.sym_table); self.sym_table.append(s); self.sym_index[s] = idx *)
Definition add_one (st : symtab) (s : string) : symtab :=
  match lookup s (sym_index st) with
  | None => let idx := Z.of_nat (List.length (sym_table st)) in
            mkSym (sym_table st ++ [s])%list ((s, idx) :: sym_index st)
  | Some _ => st
  end.

(* for s in symbols: ... *)
Definition add_symbols (st : symtab) (symbols : list string) : symtab := fold_left add_one symbols st.
'''
    path = os.path.join(GEN, "Symtab_gen.v")
    write_if_changed(path, text)
    return "gen/Symtab_gen.v"


# ---- the call-stack endpoint comparators -> coq/gen/Cmp_gen.v ----
class _Fn:
    """Symbolic execution of a small Python function (if/elif/else, returns, assignments to locals, raise) into one
    Gallina expression of type `option T` (None = the Python code raises)."""

    def __init__(self, fn: ast.FunctionDef, rtype: str, fields: Dict[str, str], consts: Dict[str, int], calls: Dict[str, str]):
        self.fn, self.rtype, self.fields, self.consts, self.calls = fn, rtype, fields, consts, calls
        self.args = [a.arg for a in fn.args.args]

    # -- expressions: returns (text, type) with type in {"Z", "bool", "optbool"}
    def ex(self, e, env) -> tuple:
        if isinstance(e, ast.Constant):
            if isinstance(e.value, bool):
                return ("true" if e.value else "false", "bool")
            if isinstance(e.value, int):
                return (f"({e.value})" if e.value < 0 else str(e.value), "Z")
            raise Stop(f"constant {e.value!r}")
        if isinstance(e, ast.Name):
            if e.id in env:
                return env[e.id]
            if e.id in self.args:
                return (e.id, "ep")
            if e.id in self.consts:
                v = self.consts[e.id]
                return (f"({v})" if v < 0 else str(v), "Z")
            raise Stop(f"unknown name {e.id}")
        if isinstance(e, ast.UnaryOp) and isinstance(e.op, ast.USub):
            t, ty = self.ex(e.operand, env)
            if ty != "Z":
                raise Stop("negation of a non-integer")
            return (f"(- {t})", "Z")
        if isinstance(e, ast.UnaryOp) and isinstance(e.op, ast.Not):
            t, ty = self.ex(e.operand, env)
            return (f"(negb {t})", "bool")
        if isinstance(e, ast.BinOp) and isinstance(e.op, (ast.Sub, ast.Add)):
            a, ta = self.ex(e.left, env)
            b_, tb = self.ex(e.right, env)
            if ta != "Z" or tb != "Z":
                raise Stop("arithmetic on non-integers")
            return (f"({a} {'-' if isinstance(e.op, ast.Sub) else '+'} {b_})", "Z")
        if isinstance(e, ast.Subscript) and isinstance(e.value, ast.Name) and e.value.id in self.args and isinstance(e.slice, ast.Name):
            if e.slice.id not in self.fields:
                raise Stop(f"subscript {e.slice.id}")
            return (f"({self.fields[e.slice.id]} {e.value.id})", "Z")
        if isinstance(e, ast.Attribute) and isinstance(e.value, ast.Name) and e.value.id in self.args:
            if e.attr not in self.fields:
                raise Stop(f"attribute {e.attr}")
            return (f"({self.fields[e.attr]} {e.value.id})", "Z")
        if isinstance(e, ast.Compare) and len(e.ops) == 1:
            a, ta = self.ex(e.left, env)
            b_, tb = self.ex(e.comparators[0], env)
            if ta != "Z" or tb != "Z":
                raise Stop("comparison of non-integers")
            op = e.ops[0]
            tbl = {ast.Eq: "{a} =? {b}", ast.NotEq: "negb ({a} =? {b})", ast.Lt: "{a} <? {b}", ast.Gt: "{b} <? {a}", ast.LtE: "{a} <=? {b}",
                   ast.GtE: "{b} <=? {a}"}
            for k, v in tbl.items():
                if isinstance(op, k):
                    return ("(" + v.format(a=a, b=b_) + ")", "bool")
            raise Stop("comparison operator")
        if isinstance(e, ast.BoolOp):
            parts = [self.ex(v, env) for v in e.values]
            if any(t != "bool" for _, t in parts):
                raise Stop("and/or of non-booleans")
            sep = " && " if isinstance(e.op, ast.And) else " || "
            return ("(" + sep.join(p for p, _ in parts) + ")", "bool")
        if isinstance(e, ast.IfExp):
            c, tc = self.ex(e.test, env)
            a, ta = self.ex(e.body, env)
            b_, tb = self.ex(e.orelse, env)
            if tc != "bool" or ta != tb:
                raise Stop("conditional expression")
            return (f"(if {c} then {a} else {b_})", ta)
        if isinstance(e, ast.Call) and isinstance(e.func, ast.Name) and e.func.id in self.calls and not e.keywords:
            args = [self.ex(a, env)[0] for a in e.args]
            return (f"({self.calls[e.func.id]} {' '.join(args)})", "optbool")
        raise Stop(f"expression {ast.dump(e)[:80]}")

    # -- statements: the expression for executing stmts (then `rest` if control falls through)
    def block(self, stmts, env) -> str:
        if not stmts:
            raise Stop("control falls off the end of the function")
        st, rest = stmts[0], stmts[1:]
        if isinstance(st, ast.Expr) and isinstance(st.value, ast.Constant) and isinstance(st.value.value, str):
            return self.block(rest, env)
        if isinstance(st, ast.Return):
            t, ty = self.ex(st.value, env)
            if ty == "optbool":
                if self.rtype != "bool":
                    raise Stop("returning an optional boolean from an integer function")
                return t
            if ty != self.rtype:
                raise Stop(f"return of type {ty}, expected {self.rtype}")
            return f"Some {t}"
        if isinstance(st, ast.Raise):
            return "None"
        if isinstance(st, (ast.Assign, ast.AnnAssign)):
            tgt = st.targets[0] if isinstance(st, ast.Assign) else st.target
            if not isinstance(tgt, ast.Name) or st.value is None:
                raise Stop("assignment target")
            env2 = dict(env)
            env2[tgt.id] = self.ex(st.value, env)
            return self.block(rest, env2)
        if isinstance(st, ast.If):
            c, tc = self.ex(st.test, env)
            if tc != "bool":
                raise Stop("if on a non-boolean")
            # variables assigned in the branches are threaded by duplicating the continuation
            a = self.block(list(st.body) + rest, env)
            b_ = self.block(list(st.orelse) + rest, env)
            return f"(if {c}\n   then {a}\n   else {b_})"
        raise Stop(f"statement {type(st).__name__}")


def _find_fn(path: str, name: str) -> ast.FunctionDef:
    tree = ast.parse(open(os.path.join(fw.REPO, path)).read())
    for node in tree.body:
        if isinstance(node, ast.FunctionDef) and node.name == name:
            return node
    raise Stop(f"{path}: function {name} not found")


def _module_consts(path: str, names: List[str]) -> Dict[str, int]:
    tree = ast.parse(open(os.path.join(fw.REPO, path)).read())
    out: Dict[str, int] = {}
    for node in tree.body:
        tgt = None
        if isinstance(node, ast.Assign) and len(node.targets) == 1 and isinstance(node.targets[0], ast.Name):
            tgt, val = node.targets[0].id, node.value
        elif isinstance(node, ast.AnnAssign) and isinstance(node.target, ast.Name) and node.value is not None:
            tgt, val = node.target.id, node.value
        if tgt in names:
            try:
                out[tgt] = int(ast.literal_eval(val))
            except Exception:
                raise Stop(f"{path}: constant {tgt} is not an integer literal")
    missing = [n for n in names if n not in out]
    if missing:
        raise Stop(f"{path}: constants {missing} not found")
    return out


def gen_cmp() -> str:
    new = "hta/common/trace_call_stack.py"
    old = "hta/common/call_stack.py"
    cn = _module_consts(new, ["_I_INDEX", "_I_DUR", "_I_KIND", "_I_TIME", "OPEN_END", "CLOSE_END"])
    co = _module_consts(old, ["EVENT_START", "EVENT_END"])
    pos = {cn["_I_INDEX"]: "e_idx", cn["_I_DUR"]: "e_dur", cn["_I_KIND"]: "e_kind", cn["_I_TIME"]: "e_time"}
    if sorted(pos) != [0, 1, 2, 3]:
        raise Stop("endpoint array layout is not a permutation of 0..3")
    fields_new = {k: pos[cn[k]] for k in ("_I_INDEX", "_I_DUR", "_I_KIND", "_I_TIME")}
    consts_new = {"OPEN_END": cn["OPEN_END"], "CLOSE_END": cn["CLOSE_END"]}
    f0 = _Fn(_find_fn(new, "_cmp_events_with_zero_duration"), "bool", fields_new, consts_new, {})
    f1 = _Fn(_find_fn(new, "_less_than"), "bool", fields_new, consts_new, {"_cmp_events_with_zero_duration": "cmp_zero_gen"})
    f2 = _Fn(_find_fn(old, "compare_events"), "Z", {"idx": "e_idx", "dur": "e_dur", "type": "e_kind", "time": "e_time"},
             {"EVENT_START": co["EVENT_START"], "EVENT_END": co["EVENT_END"]}, {})
    for f in (f0, f1, f2):
        if len(f.args) != 2:
            raise Stop(f"{f.fn.name}: expected two arguments")
    text = f'''(* GENERATED by harness/translate.py from hta/common/trace_call_stack.py (_cmp_events_with_zero_duration, _less_than)
   and hta/common/call_stack.py (compare_events) -- do not edit.  None = the Python code raises. *)
From HTA.lib Require Import Base.
Open Scope Z_scope.

(* one end of an event: (index, dur, kind, time) *)
Record ep := mkEp {{ e_idx : Z; e_dur : Z; e_kind : Z; e_time : Z }}.
Definition OPEN_END : Z := {fw.z(cn["OPEN_END"])}.
Definition CLOSE_END : Z := {fw.z(cn["CLOSE_END"])}.
Definition EVENT_START : Z := {fw.z(co["EVENT_START"])}.
Definition EVENT_END : Z := {fw.z(co["EVENT_END"])}.

Definition cmp_zero_gen ({f0.args[0]} {f0.args[1]} : ep) : option bool :=
  {f0.block(list(f0.fn.body), {})}.

Definition less_than_gen ({f1.args[0]} {f1.args[1]} : ep) : option bool :=
  {f1.block(list(f1.fn.body), {})}.

Definition compare_events_gen ({f2.args[0]} {f2.args[1]} : ep) : option Z :=
  {f2.block(list(f2.fn.body), {})}.
'''
    write_if_changed(os.path.join(GEN, "Cmp_gen.v"), text)
    return "gen/Cmp_gen.v"


# ---- save / restore field lists of the critical-path graph -> coq/gen/SaveFields_gen.v ----
def _self_attr_reads(fn: ast.FunctionDef, selfname: str = "self") -> List[str]:
    out = []
    for node in ast.walk(fn):
        if isinstance(node, ast.Attribute) and isinstance(node.value, ast.Name) and node.value.id == selfname and isinstance(node.ctx, ast.Load):
            if node.attr not in out:
                out.append(node.attr)
    return out


def gen_savefields() -> str:
    path = "hta/analyzers/critical_path_analysis.py"
    tree = ast.parse(open(os.path.join(fw.REPO, path)).read())
    classes = {n.name: n for n in tree.body if isinstance(n, ast.ClassDef)}
    funcs = {n.name: n for n in tree.body if isinstance(n, ast.FunctionDef)}
    if "_CPGraphData" not in classes or "CPGraph" not in classes or "restore_cpgraph" not in funcs:
        raise Stop("critical_path_analysis.py: _CPGraphData / CPGraph / restore_cpgraph not found")
    data_fields = [st.target.id for st in classes["_CPGraphData"].body if isinstance(st, ast.AnnAssign) and isinstance(st.target, ast.Name)]
    methods = {n.name: n for n in classes["CPGraph"].body if isinstance(n, ast.FunctionDef)}
    # keyword arguments of the _CPGraphData(...) call in save(): field = self.<attr>
    saved = []
    for node in ast.walk(methods["save"]):
        if isinstance(node, ast.Call) and isinstance(node.func, ast.Name) and node.func.id == "_CPGraphData":
            if node.args:
                raise Stop("save(): positional arguments to _CPGraphData")
            for kw in node.keywords:
                if not (isinstance(kw.value, ast.Attribute) and isinstance(kw.value.value, ast.Name) and kw.value.value.id == "self" and kw.value.attr == kw.arg):
                    raise Stop(f"save(): field {kw.arg} is not saved from self.{kw.arg}")
                saved.append(kw.arg)
    # restored_instance.<attr> = pickled_obj.<attr>
    restored, other_restored = [], []
    for st in ast.walk(funcs["restore_cpgraph"]):
        if isinstance(st, ast.Assign) and len(st.targets) == 1 and isinstance(st.targets[0], ast.Attribute) and isinstance(st.targets[0].value, ast.Name) \
                and st.targets[0].value.id == "restored_instance":
            tgt = st.targets[0].attr
            v = st.value
            if isinstance(v, ast.Attribute) and isinstance(v.value, ast.Name) and v.value.id == "pickled_obj":
                if v.attr != tgt:
                    raise Stop(f"restore_cpgraph: {tgt} restored from field {v.attr}")
                restored.append(tgt)
            else:
                other_restored.append(tgt)
    # attributes __init__ sets before the early return taken on restore (t is None)
    init_attrs = []
    for st in methods["__init__"].body:
        if isinstance(st, ast.If) and ast.unparse(st.test) == "t is None":
            break
        for node in ast.walk(st):
            if isinstance(node, (ast.Assign, ast.AnnAssign)):
                tg = node.targets[0] if isinstance(node, ast.Assign) else node.target
                if isinstance(tg, ast.Attribute) and isinstance(tg.value, ast.Name) and tg.value.id == "self":
                    init_attrs.append(tg.attr)
    observers = ["critical_path", "get_critical_path_breakdown", "summary", "get_event_attribution_for_edge", "get_nodes_for_event", "get_events_for_edge",
                 "_validate_graph", "_get_node_name", "get_edges_attributed_to_event", "_event_to_attributed_edges_map"]
    method_names = set(methods)
    nx_api = {"edges", "nodes", "add_node", "add_edge", "neighbors"}
    reads = {}
    for o in observers:
        if o not in methods:
            raise Stop(f"CPGraph.{o} not found")
        reads[o] = [a for a in _self_attr_reads(methods[o]) if a not in method_names and a not in nx_api]

    def sl(xs):
        return "[" + "; ".join('"' + x + '"' for x in xs) + "]"
    text = f'''(* GENERATED by harness/translate.py from hta/analyzers/critical_path_analysis.py -- do not edit.
   Field lists of the save / restore code of the critical-path graph. *)
From HTA.lib Require Import Base.

(* fields of the _CPGraphData dataclass *)
Definition data_fields : list string := {sl(data_fields)}.
(* keyword arguments of _CPGraphData(...) in CPGraph.save (each saved from the attribute of the same name) *)
Definition saved_fields : list string := {sl(saved)}.
(* attributes restore_cpgraph copies back from the pickled object (each from the field of the same name) *)
Definition restored_fields : list string := {sl(restored)}.
(* attributes restore_cpgraph sets from other sources (the trace csv) *)
Definition restored_other : list string := {sl(other_restored)}.
(* attributes CPGraph.__init__ sets before the early return taken when restoring *)
Definition init_fields : list string := {sl(init_attrs)}.
(* instance attributes read by the observers (methods and networkx API excluded) *)
Definition observer_reads : list (string * list string) :=
  [{"; ".join('("' + o + '", ' + sl(reads[o]) + ")" for o in observers)}].
'''
    write_if_changed(os.path.join(GEN, "SaveFields_gen.v"), text)
    return "gen/SaveFields_gen.v"


# ---- edge weight and attribution rules of the critical-path graph -> coq/gen/CpRules_gen.v ----
def gen_cprules() -> str:
    """Reads CPEdgeType (member order = type codes), CPGraph._add_edge_helper (the weight expression) and CPGraph._attribute_edge (the
    attributed types and the if / elif chain choosing the event) and emits them as Gallina.  Supported shapes only:
        weight = (0 if (type in [CPEdgeType.A, ...] or zero_weight) else (dest.ts - src.ts))
        if e.type not in {CPEdgeType.A, ...}: return
        ev_idx = 0
        if <test>: ev_idx = <choice>  elif ... else: ev_idx = <choice>
      tests: e.type == CPEdgeType.X | src.is_start | dest.is_start | not <test>;  choices: src.ev_idx | dest.ev_idx | src_parent"""
    path = "hta/analyzers/critical_path_analysis.py"
    tree = ast.parse(open(os.path.join(fw.REPO, path)).read())
    classes = {n.name: n for n in tree.body if isinstance(n, ast.ClassDef)}
    if "CPEdgeType" not in classes or "CPGraph" not in classes:
        raise Stop("critical_path_analysis.py: CPEdgeType / CPGraph not found")
    members = [st.targets[0].id for st in classes["CPEdgeType"].body if isinstance(st, ast.Assign) and isinstance(st.targets[0], ast.Name)]
    expected = ["OPERATOR_KERNEL", "DEPENDENCY", "KERNEL_LAUNCH_DELAY", "KERNEL_KERNEL_DELAY", "SYNC_DEPENDENCY"]
    if members != expected:
        raise Stop(f"CPEdgeType members {members} (the models number the types in the order {expected})")
    code = {m: i for i, m in enumerate(members)}
    methods = {n.name: n for n in classes["CPGraph"].body if isinstance(n, ast.FunctionDef)}

    def ty_of(e) -> int:
        if isinstance(e, ast.Attribute) and isinstance(e.value, ast.Name) and e.value.id == "CPEdgeType" and e.attr in code:
            return code[e.attr]
        raise Stop(f"edge type expression {ast.unparse(e)}")

    # -- _add_edge_helper: weight
    helper = methods.get("_add_edge_helper")
    if helper is None:
        raise Stop("CPGraph._add_edge_helper not found")
    hargs = [a.arg for a in helper.args.args]
    if hargs != ["self", "src", "dest", "type", "zero_weight"]:
        raise Stop(f"_add_edge_helper arguments {hargs}")
    wexpr = None
    for st in helper.body:
        if isinstance(st, ast.Assign) and isinstance(st.targets[0], ast.Name) and st.targets[0].id == "weight":
            wexpr = st.value
    if not isinstance(wexpr, ast.IfExp):
        raise Stop("_add_edge_helper: weight is not a conditional expression")
    if not (isinstance(wexpr.body, ast.Constant) and wexpr.body.value == 0):
        raise Stop("_add_edge_helper: the zero branch is not the constant 0")
    if ast.unparse(wexpr.orelse).replace(" ", "") not in ("dest.ts-src.ts", "(dest.ts-src.ts)"):
        raise Stop(f"_add_edge_helper: time-difference branch is {ast.unparse(wexpr.orelse)}")
    t = wexpr.test
    if not (isinstance(t, ast.BoolOp) and isinstance(t.op, ast.Or) and len(t.values) == 2):
        raise Stop("_add_edge_helper: zero-weight condition is not `type in [...] or zero_weight`")
    a, b_ = t.values
    if not (isinstance(b_, ast.Name) and b_.id == "zero_weight" and isinstance(a, ast.Compare) and len(a.ops) == 1 and isinstance(a.ops[0], ast.In)
            and isinstance(a.left, ast.Name) and a.left.id == "type" and isinstance(a.comparators[0], (ast.List, ast.Set, ast.Tuple))):
        raise Stop("_add_edge_helper: zero-weight condition is not `type in [...] or zero_weight`")
    zero_types = [ty_of(x) for x in a.comparators[0].elts]

    # -- _attribute_edge
    attr = methods.get("_attribute_edge")
    if attr is None or [x.arg for x in attr.args.args] != ["self", "e", "src_parent"]:
        raise Stop("CPGraph._attribute_edge(self, e, src_parent) not found")
    body = [st for st in attr.body if not (isinstance(st, ast.Expr) and isinstance(st.value, ast.Constant))]
    guard = body[0]
    if not (isinstance(guard, ast.If) and isinstance(guard.test, ast.Compare) and isinstance(guard.test.ops[0], ast.NotIn)
            and ast.unparse(guard.test.left) == "e.type" and isinstance(guard.test.comparators[0], (ast.Set, ast.List, ast.Tuple))
            and len(guard.body) == 1 and isinstance(guard.body[0], ast.Return) and guard.body[0].value is None and not guard.orelse):
        raise Stop("_attribute_edge: first statement is not `if e.type not in {...}: return`")
    attributed = sorted(ty_of(x) for x in guard.test.comparators[0].elts)
    chain = [st for st in body[1:] if isinstance(st, ast.If) and "logger" not in ast.unparse(st.test)]
    if len(chain) != 1:
        raise Stop("_attribute_edge: expected exactly one if / elif chain after the guard")
    binds = [st for st in body[1:] if isinstance(st, ast.Assign)]
    if [ast.unparse(b) for b in binds[:1]] != ["src, dest = (self.node_list[e.begin], self.node_list[e.end])"] and \
            [ast.unparse(b) for b in binds[:1]] != ["(src, dest) = (self.node_list[e.begin], self.node_list[e.end])"]:
        raise Stop(f"_attribute_edge: src / dest are not the edge's end nodes: {[ast.unparse(b) for b in binds[:1]]}")
    stores = [st for st in body[1:] if isinstance(st, ast.Assign) and ast.unparse(st.targets[0]).startswith("self.edge_to_event_map")]
    if len(stores) != 1 or ast.unparse(stores[0].targets[0]) != "self.edge_to_event_map[src.idx, dest.idx]" or ast.unparse(stores[0].value) != "int(ev_idx)":
        raise Stop("_attribute_edge: the result is not stored as edge_to_event_map[(src.idx, dest.idx)] = int(ev_idx)")

    def test(e) -> str:
        if isinstance(e, ast.UnaryOp) and isinstance(e.op, ast.Not):
            return f"negb ({test(e.operand)})"
        u = ast.unparse(e)
        if u == "src.is_start":
            return "src_start"
        if u == "dest.is_start":
            return "dst_start"
        if isinstance(e, ast.Compare) and len(e.ops) == 1 and isinstance(e.ops[0], ast.Eq) and ast.unparse(e.left) == "e.type":
            return f"(ty =? {ty_of(e.comparators[0])})"
        raise Stop(f"_attribute_edge: test {u}")

    def choice(stmts) -> str:
        if len(stmts) != 1 or not isinstance(stmts[0], ast.Assign) or ast.unparse(stmts[0].targets[0]) != "ev_idx":
            raise Stop("_attribute_edge: a branch is not a single assignment to ev_idx")
        u = ast.unparse(stmts[0].value)
        tbl = {"src.ev_idx": "src_ev", "dest.ev_idx": "dst_ev", "src_parent": "src_parent"}
        if u not in tbl:
            raise Stop(f"_attribute_edge: choice {u}")
        return tbl[u]

    def chain_text(node: ast.If) -> str:
        els = node.orelse
        if len(els) == 1 and isinstance(els[0], ast.If):
            rest = chain_text(els[0])
        else:
            rest = choice(els)
        return f"if {test(node.test)} then {choice(node.body)}\n  else {rest}"

    # -- bound_by(row): the class of a breakdown row
    funcs = {n.name: n for n in tree.body if isinstance(n, ast.FunctionDef)}
    if "bound_by" not in funcs or [a.arg for a in funcs["bound_by"].args.args] != ["row"]:
        raise Stop("bound_by(row) not found")
    value_code = {}
    for st in classes["CPEdgeType"].body:
        if isinstance(st, ast.Assign) and isinstance(st.value, ast.Constant) and isinstance(st.value.value, str):
            value_code[st.value.value] = code[st.targets[0].id]
    classes_code = {"cpu_bound": 0, "gpu_compute_bound": 1, "gpu_communication_bound": 2, "gpu_kernel_kernel_overhead": 3,
                    "gpu_kernel_launch_overhead": 4, "": 5}

    def b_test(e) -> str:
        u = ast.unparse(e)
        if isinstance(e, ast.Compare) and len(e.ops) == 1 and ast.unparse(e.left) == "row['type']":
            if isinstance(e.ops[0], ast.Eq) and isinstance(e.comparators[0], ast.Constant) and e.comparators[0].value in value_code:
                return f"(ty =? {value_code[e.comparators[0].value]})"
            if isinstance(e.ops[0], ast.In) and isinstance(e.comparators[0], (ast.List, ast.Set, ast.Tuple)) and \
                    all(isinstance(x, ast.Constant) and x.value in value_code for x in e.comparators[0].elts):
                return "existsb (Z.eqb ty) " + fw.zl([value_code[x.value] for x in e.comparators[0].elts])
        if u == "row['stream'] < 0":
            return "(stream <? 0)"
        if u == "is_comm_kernel(row['s_name'])":
            return "is_comm"
        raise Stop(f"bound_by: test {u}")

    def b_ret(st) -> str:
        if not (isinstance(st, ast.Return) and isinstance(st.value, ast.Constant) and st.value.value in classes_code):
            raise Stop(f"bound_by: {ast.unparse(st)} is not the return of a known class")
        return str(classes_code[st.value.value])

    def b_block(stmts) -> str:
        if not stmts:
            raise Stop("bound_by: control falls off the end")
        st, rest = stmts[0], stmts[1:]
        if isinstance(st, ast.Expr) and isinstance(st.value, ast.Constant):
            return b_block(rest)
        if isinstance(st, ast.Assert):
            return b_block(rest)          # assert not pd.isna(row["s_name"]): an attributed row always has a name (checked by check_C10: the event exists)
        if isinstance(st, ast.Return):
            return b_ret(st)
        if isinstance(st, ast.If) and not st.orelse and len(st.body) == 1:
            return f"if {b_test(st.test)} then {b_ret(st.body[0])}\n  else {b_block(rest)}"
        raise Stop(f"bound_by: statement {type(st).__name__}")
    bound_text = b_block(list(funcs["bound_by"].body))

    text = f'''(* GENERATED by harness/translate.py from hta/analyzers/critical_path_analysis.py (CPEdgeType, CPGraph._add_edge_helper,
   CPGraph._attribute_edge, bound_by) -- do not edit.  Edge types are numbered in the order of the members of CPEdgeType:
   {", ".join(f"{i} {m}" for m, i in code.items())}. *)
From HTA.lib Require Import Base.
Open Scope Z_scope.

(* weight = 0 if (type in zero_weight_types or zero_weight) else dest.ts - src.ts *)
Definition zero_weight_types_gen : list Z := {fw.zl(zero_types)}.
Definition edge_weight_gen (ty : Z) (zero_weight : bool) (src_ts dst_ts : Z) : Z :=
  if existsb (Z.eqb ty) zero_weight_types_gen || zero_weight then 0 else dst_ts - src_ts.

(* only these edge types are attributed to an event *)
Definition attributed_types_gen : list Z := {fw.zl(attributed)}.
Definition attr_rule_gen (ty : Z) (src_start dst_start : bool) (src_ev dst_ev src_parent : Z) : Z :=
  {chain_text(chain[0])}.

(* bound_by(row): 0 cpu_bound, 1 gpu_compute_bound, 2 gpu_communication_bound, 3 gpu_kernel_kernel_overhead, 4 gpu_kernel_launch_overhead,
   5 the empty class; ty = the row's edge type, stream / is_comm = stream and communication-kernel test of the attributed event *)
Definition bound_by_gen (ty : Z) (stream : Z) (is_comm : bool) : Z :=
  {bound_text}.
'''
    write_if_changed(os.path.join(GEN, "CpRules_gen.v"), text)
    return "gen/CpRules_gen.v"


# ---- kernel classification of hta/utils/utils.py -> coq/gen/KernelRules_gen.v ----
def gen_kernel_rules() -> str:
    """Reads KernelType (member values = codes), the three regex wrappers (which constant each uses, and how its match result is turned into
    a boolean), the if / elif chain of get_kernel_type and the prefix rules of get_memory_kernel_type.  The regular expressions themselves
    are checked literally by check_regex_constants (lib/Base.v encodes them)."""
    path = "hta/utils/utils.py"
    tree = ast.parse(open(os.path.join(fw.REPO, path)).read())
    classes = {n.name: n for n in tree.body if isinstance(n, ast.ClassDef)}
    funcs = {n.name: n for n in tree.body if isinstance(n, ast.FunctionDef)}
    if "KernelType" not in classes:
        raise Stop("utils.py: KernelType not found")
    kcode = {}
    for st in classes["KernelType"].body:
        if isinstance(st, ast.Assign) and isinstance(st.value, ast.Constant) and isinstance(st.value.value, int):
            kcode[st.targets[0].id] = st.value.value
    if kcode != {"COMMUNICATION": 0, "MEMORY": 1, "COMPUTATION": 2, "OTHER": 3}:
        raise Stop(f"KernelType members {kcode}")

    def body_of(fn):
        return [st for st in fn.body if not (isinstance(st, ast.Expr) and isinstance(st.value, ast.Constant))]

    wrappers = {"is_comm_kernel": ("NCCL_KERNEL_RE", "{0}.match(name) is not None"), "is_memory_kernel": ("MEMORY_KERNEL_RE", "{0}.match(name) is not None"),
                "is_compute_kernel": ("NCCL_COMPUTE_KERNEL_RE", "not {0}.match(name)")}
    for fn, (const, shape) in wrappers.items():
        if fn not in funcs or [a.arg for a in funcs[fn].args.args] != ["name"]:
            raise Stop(f"utils.py: {fn}(name) not found")
        b = body_of(funcs[fn])
        if len(b) != 1 or not isinstance(b[0], ast.Return) or ast.unparse(b[0].value) != shape.format(const):
            raise Stop(f"{fn}: body is not `return {shape.format(const)}`")
    # get_kernel_type: if is_comm_kernel(name): return KernelType.X.name elif ... else ...
    g = funcs.get("get_kernel_type")
    if g is None or [a.arg for a in g.args.args] != ["name"]:
        raise Stop("utils.py: get_kernel_type(name) not found")
    tests = {"is_comm_kernel(name)": "comm", "is_memory_kernel(name)": "mem", "is_compute_kernel(name)": "compute"}

    def kret(stmts):
        if len(stmts) != 1 or not isinstance(stmts[0], ast.Return):
            raise Stop("get_kernel_type: a branch is not a single return")
        u = ast.unparse(stmts[0].value)
        mm = re.fullmatch(r"KernelType\.(\w+)\.name", u)
        if not mm or mm.group(1) not in kcode:
            raise Stop(f"get_kernel_type: returns {u}")
        return str(kcode[mm.group(1)])

    def kchain(node):
        if not isinstance(node, ast.If) or ast.unparse(node.test) not in tests:
            raise Stop("get_kernel_type: not an if / elif chain over is_comm_kernel / is_memory_kernel / is_compute_kernel")
        els = node.orelse
        rest = kchain(els[0]) if (len(els) == 1 and isinstance(els[0], ast.If)) else kret(els)
        return f"if {tests[ast.unparse(node.test)]} then {kret(node.body)}\n  else {rest}"
    gb = body_of(g)
    if len(gb) != 1:
        raise Stop("get_kernel_type: expected a single if / elif chain")
    ktext = kchain(gb[0])
    # get_memory_kernel_type: prefix rules
    m = funcs.get("get_memory_kernel_type")
    if m is None or [a.arg for a in m.args.args] != ["name"]:
        raise Stop("utils.py: get_memory_kernel_type(name) not found")

    def mblock(stmts, env):
        if not stmts:
            raise Stop("get_memory_kernel_type: control falls off the end")
        st, rest = stmts[0], stmts[1:]
        if isinstance(st, ast.Assign) and isinstance(st.targets[0], ast.Name) and isinstance(st.value, ast.Constant) and isinstance(st.value.value, int):
            return mblock(rest, dict(env, **{st.targets[0].id: st.value.value}))
        if isinstance(st, ast.Return):
            v = st.value
            if isinstance(v, ast.Constant) and isinstance(v.value, str):
                return '"' + v.value + '"'
            return pref(v, env)
        if isinstance(st, ast.If) and not st.orelse and len(st.body) == 1 and isinstance(st.body[0], ast.Return):
            t = st.test
            if not (isinstance(t, ast.Compare) and len(t.ops) == 1 and isinstance(t.ops[0], (ast.Eq, ast.NotEq)) and isinstance(t.comparators[0], ast.Constant)
                    and isinstance(t.comparators[0].value, str)):
                raise Stop(f"get_memory_kernel_type: test {ast.unparse(t)}")
            c = f'String.eqb ({pref(t.left, env)}) "{t.comparators[0].value}"'
            if isinstance(t.ops[0], ast.NotEq):
                c = f"negb ({c})"
            return f"if {c} then {mblock(list(st.body), env)}\n  else {mblock(rest, env)}"
        raise Stop(f"get_memory_kernel_type: statement {type(st).__name__}")

    def pref(e, env):
        if isinstance(e, ast.Subscript) and isinstance(e.value, ast.Name) and e.value.id == "name" and isinstance(e.slice, ast.Slice) and e.slice.lower is None \
                and e.slice.step is None:
            up = e.slice.upper
            if isinstance(up, ast.Constant) and isinstance(up.value, int):
                return f"take_str {up.value} name"
            if isinstance(up, ast.Name) and up.id in env:
                return f"take_str {env[up.id]} name"
        raise Stop(f"get_memory_kernel_type: expression {ast.unparse(e)}")
    mtext = mblock(body_of(m), {})
    text = f'''(* GENERATED by harness/translate.py from hta/utils/utils.py (KernelType, is_comm_kernel / is_memory_kernel / is_compute_kernel,
   get_kernel_type, get_memory_kernel_type) -- do not edit.  Type codes = the values of KernelType: 0 COMMUNICATION, 1 MEMORY, 2 COMPUTATION, 3 OTHER.
   The wrappers were checked to be:  is_comm_kernel = NCCL_KERNEL_RE.match(name) is not None,  is_memory_kernel = MEMORY_KERNEL_RE.match(name) is not None,
   is_compute_kernel = not NCCL_COMPUTE_KERNEL_RE.match(name). *)
From HTA.lib Require Import Base.
Open Scope Z_scope.

Definition kernel_type_gen (comm mem compute : bool) : Z :=
  {ktext}.

Definition mem_type_gen (name : string) : string :=
  {mtext}.
'''
    write_if_changed(os.path.join(GEN, "KernelRules_gen.v"), text)
    return "gen/KernelRules_gen.v"


# ---- the launch-call names of hta/common/trace_symbol_table.py -> coq/gen/LaunchNames_gen.v ----
def gen_launch_names() -> str:
    """Reads TraceSymbolTable.get_runtime_launch_events_query: every `x_id = self.sym_index.get("<name>", self.NULL)` binding, and the returned
    f-string, which must be `((name == {a_id}) or ... ) and (index_correlation > 0)` over exactly the bound ids."""
    path = "hta/common/trace_symbol_table.py"
    tree = ast.parse(open(os.path.join(fw.REPO, path)).read())
    cls = next((n for n in tree.body if isinstance(n, ast.ClassDef) and n.name == "TraceSymbolTable"), None)
    fn = next((n for n in (cls.body if cls else []) if isinstance(n, ast.FunctionDef) and n.name == "get_runtime_launch_events_query"), None)
    if fn is None:
        raise Stop("TraceSymbolTable.get_runtime_launch_events_query not found")
    names: Dict[str, str] = {}
    ret = None
    for st in fn.body:
        if isinstance(st, ast.Expr) and isinstance(st.value, ast.Constant):
            continue
        if isinstance(st, ast.Assign) and len(st.targets) == 1 and isinstance(st.targets[0], ast.Name):
            v = st.value
            if not (isinstance(v, ast.Call) and ast.unparse(v.func) == "self.sym_index.get" and len(v.args) == 2 and isinstance(v.args[0], ast.Constant)
                    and isinstance(v.args[0].value, str) and ast.unparse(v.args[1]) == "self.NULL"):
                raise Stop(f"get_runtime_launch_events_query: {ast.unparse(st)[:80]} is not `x = self.sym_index.get(<name>, self.NULL)`")
            names[st.targets[0].id] = v.args[0].value
        elif isinstance(st, ast.Return):
            ret = st.value
        else:
            raise Stop(f"get_runtime_launch_events_query: statement {type(st).__name__}")
    if not isinstance(ret, ast.JoinedStr):
        raise Stop("get_runtime_launch_events_query: does not return an f-string")
    text, used = "", []
    for part in ret.values:
        if isinstance(part, ast.Constant):
            text += part.value
        elif isinstance(part, ast.FormattedValue) and isinstance(part.value, ast.Name) and part.value.id in names:
            text += "@"
            used.append(part.value.id)
        else:
            raise Stop("get_runtime_launch_events_query: unexpected part in the f-string")
    want = "((" + ") or (".join(["name == @"] * len(used)) + ")) and (index_correlation > 0)"
    if text.replace("  ", " ") != want or sorted(used) != sorted(names):
        raise Stop(f"get_runtime_launch_events_query: query text {text!r} is not a disjunction over all bound names with `index_correlation > 0`")
    lst = [names[u] for u in used]
    out = f'''(* GENERATED by harness/translate.py from hta/common/trace_symbol_table.py (TraceSymbolTable.get_runtime_launch_events_query) -- do not edit.
   The query is  (name is one of these) and (index_correlation > 0). *)
From HTA.lib Require Import Base.

Definition launch_names_gen : list string :=
  {fw.sl(lst)}.
'''
    write_if_changed(os.path.join(GEN, "LaunchNames_gen.v"), out)
    return "gen/LaunchNames_gen.v"


# ---- round_down_time_stamps (hta/common/trace_parser.py) -> coq/gen/Rounding_gen.v ----
def gen_rounding() -> str:
    """Reads round_down_time_stamps statement by statement.  Supported shape only (docstrings and logger calls aside):
         if df["ts"].dtype != np.dtype("float64"): return
         if hta_options.disable_ns_rounding(): <logger call>; return
         df["end"] = df["ts"] + df["dur"]
         df["ts"]  = df[~df["ts"].isnull()]["ts"].apply(lambda x: math.ceil(x))
         df["end"] = df[~df["end"].isnull()]["end"].apply(lambda x: math.floor(x))
         df["dur"] = df["end"] - df["ts"]
       Anything else -- another early return, another order, another rounding function -- stops the translator."""
    path = "hta/common/trace_parser.py"
    tree = ast.parse(open(os.path.join(fw.REPO, path)).read())
    fn = next((n for n in tree.body if isinstance(n, ast.FunctionDef) and n.name == "round_down_time_stamps"), None)
    if fn is None:
        raise Stop("round_down_time_stamps not found")

    def is_log(st):
        return isinstance(st, ast.Expr) and (isinstance(st.value, ast.Constant) or
                                             (isinstance(st.value, ast.Call) and ast.unparse(st.value.func).startswith("logger.")))
    body = [st for st in fn.body if not is_log(st)]
    if len(body) != 6:
        raise Stop(f"round_down_time_stamps: {len(body)} statements besides logging, expected 6 (two guards, four assignments)")
    g1, g2, a1, a2, a3, a4 = body

    def guard(st, test_text, what):
        if not (isinstance(st, ast.If) and not st.orelse and ast.unparse(st.test) == test_text):
            raise Stop(f"round_down_time_stamps: {what} guard is `{ast.unparse(st)[:70]}`")
        inner = [x for x in st.body if not is_log(x)]
        if not (len(inner) == 1 and isinstance(inner[0], ast.Return) and inner[0].value is None):
            raise Stop(f"round_down_time_stamps: the {what} guard does more than return")
    guard(g1, "df['ts'].dtype != np.dtype('float64')", "dtype")
    guard(g2, "hta_options.disable_ns_rounding()", "option")
    want = ["df['end'] = df['ts'] + df['dur']",
            "df['ts'] = df[~df['ts'].isnull()]['ts'].apply(lambda x: math.ceil(x))",
            "df['end'] = df[~df['end'].isnull()]['end'].apply(lambda x: math.floor(x))",
            "df['dur'] = df['end'] - df['ts']"]
    for st, w in zip((a1, a2, a3, a4), want):
        if ast.unparse(st) != w:
            raise Stop(f"round_down_time_stamps: statement `{ast.unparse(st)[:90]}` is not `{w}`")
    fun = {"ceil": "Qceiling", "floor": "Qfloor"}
    out = f'''(* GENERATED by harness/translate.py from hta/common/trace_parser.py (round_down_time_stamps) -- do not edit.
   For a frame whose ts column is float64, unless ns rounding is disabled:  end := ts + dur (a double addition, supplied as e);
   ts := ceil(ts); end := floor(end); dur := end - ts.  No other early return exists. *)
From Coq Require Import QArith Qround.
From HTA.lib Require Import Base.

Definition round_ts_gen (t : Q) : Z := {fun["ceil"]} t.
Definition round_end_gen (e : Q) : Z := {fun["floor"]} e.
Definition round_event_gen (t e : Q) : Z * Z := (round_ts_gen t, (round_end_gen e - round_ts_gen t)%Z).
Definition rounding_guards_gen : list string := ["ts column is not float64"; "ns rounding disabled by option"].
'''
    write_if_changed(os.path.join(GEN, "Rounding_gen.v"), out)
    return "gen/Rounding_gen.v"


# ---- CudaKernelAnalysis.cuda_kernel_launch_stats (hta/analyzers/cuda_kernel_analysis.py) -> coq/gen/LaunchStats_gen.v ----
def gen_launch_stats() -> str:
    """Reads cuda_kernel_launch_stats statement by statement (strict shape): the symbol look-ups `x = sym_index.get("<name>", None)`
    inside the per-rank loop, the list `launch_ids`, the two memory names of the `|` mask, the host / device split on stream -1, the
    isin(merged_series) selections, the inner merge on correlation, `launch_delay = ts_y - ts_x - dur_x` clipped at 0, the result
    columns.  Every statement of the loop body must be one of these, in this order; nothing may be hoisted out of the loop."""
    path = "hta/analyzers/cuda_kernel_analysis.py"
    tree = ast.parse(open(os.path.join(fw.REPO, path)).read())
    cls = next((n for n in tree.body if isinstance(n, ast.ClassDef) and n.name == "CudaKernelAnalysis"), None)
    fn = next((n for n in (cls.body if cls else []) if isinstance(n, ast.FunctionDef) and n.name == "cuda_kernel_launch_stats"), None)
    if fn is None:
        raise Stop("CudaKernelAnalysis.cuda_kernel_launch_stats not found")
    body = [st for st in fn.body if not (isinstance(st, ast.Expr) and isinstance(st.value, ast.Constant))]
    pre = [ast.unparse(st) for st in body[:-2]]
    want_pre = ["if ranks is None or ranks == []:\n    ranks = [0]", "result_dict: Dict = {}", "sym_index = t.symbol_table.get_sym_id_map()"]
    if pre != want_pre:
        raise Stop(f"cuda_kernel_launch_stats: statements before the rank loop are {pre}, expected {want_pre}")
    loop, ret = body[-2], body[-1]
    if not (isinstance(loop, ast.For) and ast.unparse(loop.target) == "rank" and ast.unparse(loop.iter) == "ranks" and not loop.orelse):
        raise Stop("cuda_kernel_launch_stats: no `for rank in ranks` loop")
    if ast.unparse(ret) != "return result_dict":
        raise Stop("cuda_kernel_launch_stats: does not end with `return result_dict`")
    names: Dict[str, str] = {}
    rest = []
    for st in loop.body:
        if isinstance(st, ast.Assign) and len(st.targets) == 1 and isinstance(st.targets[0], ast.Name) and isinstance(st.value, ast.Call) \
                and ast.unparse(st.value.func) == "sym_index.get":
            a = st.value.args
            if not (len(a) == 2 and isinstance(a[0], ast.Constant) and isinstance(a[0].value, str) and ast.unparse(a[1]) == "None"):
                raise Stop(f"cuda_kernel_launch_stats: look-up `{ast.unparse(st)[:80]}`")
            names[st.targets[0].id] = a[0].value
        else:
            rest.append(st)
    texts = [ast.unparse(st) for st in rest]

    def ids_of(txt):
        return [x.strip() for x in txt.strip("[]").split(",") if x.strip()]
    if not (len(texts) == 15 and texts[0] == "trace_df: pd.DataFrame = t.get_trace(rank)" and texts[1].startswith("launch_ids = [")):
        raise Stop(f"cuda_kernel_launch_stats: loop body has {len(texts)} statements besides the look-ups, or does not start as expected")
    launch = ids_of(texts[1][len("launch_ids = "):])
    if any(x not in names for x in launch):
        raise Stop("cuda_kernel_launch_stats: launch_ids holds something that is not a looked-up symbol")
    if texts[2] != "cuda_launch_kernel_correlation_series: pd.Series = trace_df[trace_df['name'].isin(launch_ids)].correlation":
        raise Stop(f"cuda_kernel_launch_stats: launch series is `{texts[2][:100]}`")
    m = re.fullmatch(r"if include_memory_events:\n    memory_event_correlation_series: pd\.Series = trace_df\[\(trace_df\['name'\] == (\w+)\) \| "
                     r"\(trace_df\['name'\] == (\w+)\)\]\.correlation\n    merged_series: pd\.Series = pd\.concat\(\[cuda_launch_kernel_correlation_series, "
                     r"memory_event_correlation_series\]\)\nelse:\n    merged_series = cuda_launch_kernel_correlation_series", texts[3])
    if not m or m.group(1) not in names or m.group(2) not in names:
        raise Stop(f"cuda_kernel_launch_stats: the include_memory_events block is `{texts[3][:160]}`")
    mem = [m.group(1), m.group(2)]
    want = ["cpu_kernels = trace_df[trace_df['stream'].eq(-1)].copy()",
            "gpu_kernels = trace_df[trace_df['stream'].ne(-1)].copy()",
            "cpu_kernels_filtered = cpu_kernels[cpu_kernels['correlation'].isin(merged_series)][['correlation', 'dur', 'name', 'ts']]",
            "gpu_kernels_filtered = gpu_kernels[gpu_kernels['correlation'].isin(merged_series)][['correlation', 'dur', 'name', 'ts']]",
            "joined_df = pd.merge(cpu_kernels_filtered, gpu_kernels_filtered, how='inner', on='correlation')",
            "joined_df['launch_delay'] = joined_df['ts_y'] - joined_df['ts_x'] - joined_df['dur_x']",
            "joined_df['launch_delay'] = joined_df['launch_delay'].clip(lower=0)",
            "renamed_df = joined_df.rename(columns={'dur_x': 'cpu_duration', 'dur_y': 'gpu_duration'})",
            "events_df = renamed_df[['correlation', 'cpu_duration', 'gpu_duration', 'launch_delay']]"]
    if texts[4:13] != want:
        bad = next((a for a, b in zip(texts[4:13], want) if a != b), "?")
        raise Stop(f"cuda_kernel_launch_stats: statement `{bad[:120]}` is not what the model was written for")
    if not (texts[13].startswith("if visualize:\n    cls.visualize_cuda_launch_kernel_info(") and texts[14] == "result_dict[rank] = events_df"):
        raise Stop(f"cuda_kernel_launch_stats: the loop does not end with the visualisation and `result_dict[rank] = events_df`")
    if len(set(names) - set(launch) - set(mem)) != 0:
        raise Stop("cuda_kernel_launch_stats: a looked-up symbol is used neither as a launch nor as a memory name")
    out = f'''(* GENERATED by harness/translate.py from hta/analyzers/cuda_kernel_analysis.py (CudaKernelAnalysis.cuda_kernel_launch_stats) -- do not edit.
   Per rank: correlation ids of the rows named like a launch (plus the two memory launches when asked); host rows (stream -1) and device
   rows with such an id, inner-joined on the id; launch_delay = max 0 (ts_device - ts_host - dur_host). *)
From HTA.lib Require Import Base.
Open Scope Z_scope.

Definition kernel_launch_names_gen : list string :=
  {fw.sl([names[x] for x in launch])}.
Definition memory_launch_names_gen : list string :=
  {fw.sl([names[x] for x in mem])}.
Definition launch_delay_gen (ts_x dur_x ts_y : Z) : Z := Z.max 0 (ts_y - ts_x - dur_x).
'''
    write_if_changed(os.path.join(GEN, "LaunchStats_gen.v"), out)
    return "gen/LaunchStats_gen.v"


# ---- Trace._filter_irrelevant_gpu_kernels (hta/common/trace.py) -> coq/gen/TrimRules_gen.v ----
def gen_trim_rules() -> str:
    """Reads the per-rank helper of Trace._filter_irrelevant_gpu_kernels statement by statement (strict shape): host rows and device rows
    by the two shared filters, the early return below two steps, the latest step start / end, the cut (<= end when the last step is
    kept, < start otherwise), device rows joined with the kept host rows' distinct correlation ids, the concatenation."""
    path = "hta/common/trace.py"
    tree = ast.parse(open(os.path.join(fw.REPO, path)).read())
    cls = next((n for n in tree.body if isinstance(n, ast.ClassDef) and n.name == "Trace"), None)
    fn = next((n for n in (cls.body if cls else []) if isinstance(n, ast.FunctionDef) and n.name == "_filter_irrelevant_gpu_kernels"), None)
    if fn is None:
        raise Stop("Trace._filter_irrelevant_gpu_kernels not found")
    inner = next((n for n in fn.body if isinstance(n, ast.FunctionDef) and n.name == "filter_gpu_kernels_for_one_rank"), None)
    if inner is None:
        raise Stop("_filter_irrelevant_gpu_kernels: helper filter_gpu_kernels_for_one_rank not found")
    texts = [ast.unparse(st) for st in inner.body if not (isinstance(st, ast.Expr) and isinstance(st.value, ast.Constant))]
    want = ["cpu_kernels = CPUOperatorFilter()(trace_df, self.symbol_table)",
            "gpu_kernels = GPUKernelFilter()(trace_df, self.symbol_table)",
            "if cpu_kernels['name'].isin(profiler_steps).sum() < 2:\n    return trace_df",
            "last_profiler_start = cpu_kernels[cpu_kernels['name'].isin(profiler_steps)]['ts'].max()",
            "last_profiler_end = cpu_kernels[cpu_kernels['name'].isin(profiler_steps)]['end'].max()",
            "cpu_kernels = cpu_kernels[cpu_kernels['ts'] <= last_profiler_end] if include_last_profiler_step else cpu_kernels[cpu_kernels['ts'] < last_profiler_start]",
            "filtered_gpu_kernels = gpu_kernels.merge(cpu_kernels['correlation'].drop_duplicates(), on='correlation', how='inner')",
            "return pd.concat([filtered_gpu_kernels, cpu_kernels], axis=0)"]
    if texts != want:
        bad = next((a for a, b in zip(texts, want) if a != b), f"{len(texts)} statements instead of {len(want)}")
        raise Stop(f"_filter_irrelevant_gpu_kernels: `{bad[:140]}` is not what the model was written for")
    steps = next((ast.unparse(st) for st in fn.body if isinstance(st, ast.Assign) and ast.unparse(st.targets[0]) == "profiler_steps"), None)
    if steps != "profiler_steps = [v for k, v in sym_index.items() if 'ProfilerStep' in k]":
        raise Stop(f"_filter_irrelevant_gpu_kernels: profiler_steps is `{steps}`")
    out = '''(* GENERATED by harness/translate.py from hta/common/trace.py (Trace._filter_irrelevant_gpu_kernels) -- do not edit.
   A rank with fewer than min_steps_gen host rows named like a step is returned as it is; otherwise host rows are kept by the cut
   below (latest step start / latest step end over those rows), device rows when a kept host row carries their correlation id. *)
From HTA.lib Require Import Base.
Open Scope Z_scope.

Definition min_steps_gen : Z := 2.
Definition step_marker_gen : string := "ProfilerStep".
Definition host_cut_gen (incl : bool) (ts_ last_start last_end : Z) : bool :=
  if incl then ts_ <=? last_end else ts_ <? last_start.
'''
    write_if_changed(os.path.join(GEN, "TrimRules_gen.v"), out)
    return "gen/TrimRules_gen.v"


# ---- BreakdownAnalysis._analyze_idle_time_for_stream (hta/analyzers/breakdown_analysis.py) -> coq/gen/IdleRules_gen.v ----
def gen_idle_rules() -> str:
    """Reads _analyze_idle_time_for_stream statement by statement (strict shape, docstrings / logging aside): the stream's rows, end_ts,
    the sort by (ts, end_ts), prev_end_ts = end_ts.shift(1), idle_interval = ts - prev_end_ts, the default category OTHER, host wait
    (ts_runtime > prev_end_ts), kernel wait (not host wait and idle_interval < threshold), the per-category sums and the ratio."""
    path = "hta/analyzers/breakdown_analysis.py"
    tree = ast.parse(open(os.path.join(fw.REPO, path)).read())
    cls = next((n for n in tree.body if isinstance(n, ast.ClassDef) and n.name == "BreakdownAnalysis"), None)
    fn = next((n for n in (cls.body if cls else []) if isinstance(n, ast.FunctionDef) and n.name == "_analyze_idle_time_for_stream"), None)
    if fn is None:
        raise Stop("BreakdownAnalysis._analyze_idle_time_for_stream not found")

    def noise(st):
        return isinstance(st, ast.Expr) and (isinstance(st.value, ast.Constant) or
                                             (isinstance(st.value, ast.Call) and ast.unparse(st.value.func).startswith("logger.")))
    texts = [ast.unparse(st) for st in fn.body if not noise(st)]
    want = ["idle_interval_stats: Optional[pd.DataFrame] = None",
            "gpu_kernels_s = gpu_kernels[gpu_kernels.stream == stream].copy()",
            "gpu_kernels_s['end_ts'] = gpu_kernels_s.ts + gpu_kernels_s.dur",
            "gpu_kernels_s = gpu_kernels_s.sort_values(by=['ts', 'end_ts'])",
            "gpu_kernels_s['prev_end_ts'] = gpu_kernels_s.end_ts.shift(1)",
            "gpu_kernels_s['idle_interval'] = gpu_kernels_s['ts'] - gpu_kernels_s['prev_end_ts']",
            "gpu_kernels_s['idle_category'] = IdleTimeType.OTHER.value",
            "is_host_wait = gpu_kernels_s['ts_runtime'] > gpu_kernels_s['prev_end_ts']",
            "gpu_kernels_s.loc[is_host_wait, 'idle_category'] = IdleTimeType.HOST_WAIT.value",
            "is_kernel_kernel_delay = ~is_host_wait & (gpu_kernels_s['idle_interval'] < consecutive_kernel_delay)",
            "gpu_kernels_s.loc[is_kernel_kernel_delay, 'idle_category'] = IdleTimeType.KERNEL_WAIT.value",
            "gpu_kernels_groupby = gpu_kernels_s.groupby('idle_category')",
            None,       # the optional statistics block
            "result = pd.DataFrame(gpu_kernels_groupby.idle_interval.sum())",
            "total_idle_time = result.idle_interval.sum()",
            "result['stream'] = stream",
            "result['idle_time_ratio'] = result['idle_interval'] / total_idle_time",
            "result.rename(columns={'idle_interval': 'idle_time'}, inplace=True)",
            "return (result, idle_interval_stats)"]
    if len(texts) != len(want):
        raise Stop(f"_analyze_idle_time_for_stream: {len(texts)} statements, the model was written for {len(want)}")
    for a, b in zip(texts, want):
        if b is None:
            if not a.startswith("if show_idle_interval_stats:"):
                raise Stop(f"_analyze_idle_time_for_stream: `{a[:80]}` where the statistics block was expected")
        elif a != b:
            raise Stop(f"_analyze_idle_time_for_stream: `{a[:140]}` is not `{b}`")
    out = '''(* GENERATED by harness/translate.py from hta/analyzers/breakdown_analysis.py (BreakdownAnalysis._analyze_idle_time_for_stream)
   -- do not edit.  Rows of the stream sorted by (ts, end_ts); for each row after the first: gap = ts - previous end; host wait when
   the launch call's start is known and lies after the previous end (a comparison with NaN is false); otherwise kernel wait when the gap is
   below the threshold; otherwise other.  Categories: 0 host_wait, 1 kernel_wait, 2 other. *)
From HTA.lib Require Import Base.
Open Scope Z_scope.

Definition idle_sort_keys_gen : list string := ["ts"; "end_ts"].
Definition classify_gen (d : Z) (rt : option Z) (prev_end gap : Z) : Z :=
  let host_wait := match rt with Some r => prev_end <? r | None => false end in
  if host_wait then 0 else if gap <? d then 1 else 2.
'''
    write_if_changed(os.path.join(GEN, "IdleRules_gen.v"), out)
    return "gen/IdleRules_gen.v"


# ---- transform_correlation_to_index and Trace._align_all_ranks (hta/common/trace.py) -> coq/gen/LinkRules_gen.v ----
def gen_link_rules() -> str:
    """Reads transform_correlation_to_index and Trace._align_all_ranks statement by statement (strict shape): the fallback
    min(correlation, 0), the selection of rows with an id (correlation != -1), the two shared filters, the inner merge on the id, the two
    symmetric assignments; the global minimum start, subtracted from ts and end of every rank."""
    path = "hta/common/trace.py"
    tree = ast.parse(open(os.path.join(fw.REPO, path)).read())
    fn = next((n for n in tree.body if isinstance(n, ast.FunctionDef) and n.name == "transform_correlation_to_index"), None)
    if fn is None:
        raise Stop("transform_correlation_to_index not found")
    texts = [ast.unparse(st) for st in fn.body if not (isinstance(st, ast.Expr) and isinstance(st.value, ast.Constant))]
    want = ["if 'correlation' not in df.columns:\n    return df",
            "df['index_correlation'] = np.minimum(df['correlation'], 0).astype('int64')",
            "corr_df = df.loc[df['correlation'].ne(-1), ['index', 'correlation', 'stream', 'name']]",
            "on_cpu = CPUOperatorFilter()(corr_df, symbol_table)",
            "on_gpu = GPUKernelFilter()(corr_df, symbol_table)",
            "merged = on_cpu.merge(on_gpu, on='correlation', how='inner')",
            "df.loc[merged['index_x'], 'index_correlation'] = merged['index_y'].values",
            "df.loc[merged['index_y'], 'index_correlation'] = merged['index_x'].values",
            "df['index_correlation'] = pd.to_numeric(df['index_correlation'], downcast='integer')",
            "return df"]
    if texts != want:
        bad = next((a for a, b in zip(texts, want) if a != b), f"{len(texts)} statements instead of {len(want)}")
        raise Stop(f"transform_correlation_to_index: `{bad[:140]}` is not what the model was written for")
    cls = next((n for n in tree.body if isinstance(n, ast.ClassDef) and n.name == "Trace"), None)
    al = next((n for n in (cls.body if cls else []) if isinstance(n, ast.FunctionDef) and n.name == "_align_all_ranks"), None)
    if al is None:
        raise Stop("Trace._align_all_ranks not found")
    texts = [ast.unparse(st) for st in al.body if not (isinstance(st, ast.Expr) and isinstance(st.value, ast.Constant))]
    want = ["self.min_ts = min((trace_df['ts'].min() for trace_df in self.traces.values()))",
            "for rank, trace_df in self.traces.items():\n    trace_df['ts'] = trace_df['ts'] - self.min_ts\n    if 'end' in trace_df.columns:\n"
            "        trace_df['end'] = trace_df['end'] - self.min_ts\n    self.traces[rank] = trace_df"]
    if texts != want:
        bad = next((a for a, b in zip(texts, want) if a != b), f"{len(texts)} statements instead of {len(want)}")
        raise Stop(f"_align_all_ranks: `{bad[:160]}` is not what the model was written for")
    out = '''(* GENERATED by harness/translate.py from hta/common/trace.py (transform_correlation_to_index, Trace._align_all_ranks) -- do not edit.
   Link: rows whose correlation id is not -1, host side and device side by the two shared filters, inner-joined on the id, each row
   of a pair given the other's row id; every other row keeps min(correlation, 0).  Alignment: one constant, the minimum start over all
   ranks, subtracted from the start (and the end) of every row. *)
From HTA.lib Require Import Base.
Open Scope Z_scope.

Definition link_fallback_gen (corr_ : Z) : Z := Z.min corr_ 0.
Definition has_id_gen (corr_ : Z) : bool := negb (corr_ =? -1).
Definition aligned_gen (min_ts ts_ : Z) : Z := ts_ - min_ts.
'''
    write_if_changed(os.path.join(GEN, "LinkRules_gen.v"), out)
    return "gen/LinkRules_gen.v"


# ---- which edges the overlay draws (hta/analyzers/critical_path_analysis.py) -> coq/gen/OverlayRules_gen.v ----
def gen_overlay_rules() -> str:
    """Reads CriticalPathAnalysis._is_zero_weight_launch_edge (type == KERNEL_LAUNCH_DELAY and weight == 0), and in
    overlay_critical_path_analysis the override `if only_show_critical_events: show_all_edges = False`, the marking loop (an event is
    marked iff its position is in critical_path_events_set) and the edge selection (all edges minus the hidden zero-weight launch edges when
    show_all_edges, else the critical edges)."""
    path = "hta/analyzers/critical_path_analysis.py"
    tree = ast.parse(open(os.path.join(fw.REPO, path)).read())
    classes = {n.name: n for n in tree.body if isinstance(n, ast.ClassDef)}
    if "CPEdgeType" not in classes or "CriticalPathAnalysis" not in classes:
        raise Stop("critical_path_analysis.py: CPEdgeType / CriticalPathAnalysis not found")
    members = [st.targets[0].id for st in classes["CPEdgeType"].body if isinstance(st, ast.Assign) and isinstance(st.targets[0], ast.Name)]
    if "KERNEL_LAUNCH_DELAY" not in members:
        raise Stop("CPEdgeType has no member KERNEL_LAUNCH_DELAY")
    code = members.index("KERNEL_LAUNCH_DELAY")
    fns = {n.name: n for n in classes["CriticalPathAnalysis"].body if isinstance(n, ast.FunctionDef)}
    z = fns.get("_is_zero_weight_launch_edge")
    if z is None or [ast.unparse(st) for st in z.body] != ["return e.type == CPEdgeType.KERNEL_LAUNCH_DELAY and e.weight == 0"]:
        raise Stop("_is_zero_weight_launch_edge is not `return e.type == CPEdgeType.KERNEL_LAUNCH_DELAY and e.weight == 0`")
    ov = fns.get("overlay_critical_path_analysis")
    if ov is None:
        raise Stop("overlay_critical_path_analysis not found")
    texts = [ast.unparse(st) for st in ov.body]
    need = ["if only_show_critical_events:\n    show_all_edges = False",
            "for ev_idx, event in enumerate(raw_events):\n    if ev_idx in critical_path_graph.critical_path_events_set:\n        event['args']['critical'] = 1",
            "if show_all_edges:\n    edges = (critical_path_graph.edges[u, v]['object'] for u, v in critical_path_graph.edges)\n"
            "    if not hta_options.critical_path_show_zero_weight_launch_edges():\n"
            "        edges = (e for e in edges if not CriticalPathAnalysis._is_zero_weight_launch_edge(e))\n"
            "else:\n    edges = (e for e in critical_path_graph.critical_path_edges_set)"]
    pos = []
    for w in need:
        if w not in texts:
            raise Stop(f"overlay_critical_path_analysis: statement not found as the model expects it: `{w[:110]}...`")
        pos.append(texts.index(w))
    if pos != sorted(pos):
        raise Stop("overlay_critical_path_analysis: override, marking loop and edge selection are not in this order")
    loop = ov.body[pos[2] + 1] if pos[2] + 1 < len(ov.body) else None
    if not (isinstance(loop, ast.For) and ast.unparse(loop.target) == "e" and ast.unparse(loop.iter) == "edges"):
        raise Stop("overlay_critical_path_analysis: the edge selection is not followed by `for e in edges`")
    out = f'''(* GENERATED by harness/translate.py from hta/analyzers/critical_path_analysis.py (CriticalPathAnalysis._is_zero_weight_launch_edge,
   overlay_critical_path_analysis) -- do not edit.  Edge types are numbered by the member order of CPEdgeType. *)
From HTA.lib Require Import Base.
Open Scope Z_scope.

Definition launch_delay_code_gen : Z := {code}.
Definition zero_launch_gen (ty w : Z) : bool := (ty =? launch_delay_code_gen) && (w =? 0).
(* which of the two edge lists is drawn, and which of its members *)
Definition draws_all_gen (only_crit show_all : bool) : bool := if only_crit then false else show_all.
Definition drawn_member_gen (zw_show : bool) (ty w : Z) : bool := zw_show || negb (zero_launch_gen ty w).
'''
    write_if_changed(os.path.join(GEN, "OverlayRules_gen.v"), out)
    return "gen/OverlayRules_gen.v"


# ---- CPGraph.critical_path (hta/analyzers/critical_path_analysis.py) -> coq/gen/PathSets_gen.v ----
def gen_path_sets() -> str:
    """Reads CPGraph.critical_path statement by statement (strict shape, timing and logging aside): validation first; the node list is
    nx.dag_longest_path over the graph attribute 'weight'; the event set is rebuilt from the nodes of that list; the edge set is reset
    and refilled with the edge objects of consecutive nodes; the two assertions."""
    path = "hta/analyzers/critical_path_analysis.py"
    tree = ast.parse(open(os.path.join(fw.REPO, path)).read())
    cls = next((n for n in tree.body if isinstance(n, ast.ClassDef) and n.name == "CPGraph"), None)
    fn = next((n for n in (cls.body if cls else []) if isinstance(n, ast.FunctionDef) and n.name == "critical_path"), None)
    if fn is None:
        raise Stop("CPGraph.critical_path not found")

    def noise(st):
        t = ast.unparse(st)
        return (isinstance(st, ast.Expr) and (isinstance(st.value, ast.Constant) or t.startswith("logger."))) or t in ("t0 = time.perf_counter()", "t1 = time.perf_counter()")
    texts = [ast.unparse(st) for st in fn.body if not noise(st)]
    want = ["if not self._validate_graph():\n    raise ValueError('Graph is not valid, see prints above for help on debugging')",
            "try:\n    self.critical_path_nodes = nx.dag_longest_path(self, weight='weight')\nexcept nx.NetworkXUnfeasible as err:\n"
            "    logger.error(f'Critical path algorithm failed due to {err}')\n    return False",
            "assert len(self.critical_path_nodes) >= 2",
            "self.critical_path_events_set = {self.node_list[nid].ev_idx for nid in self.critical_path_nodes}",
            "self.critical_path_edges_set = set()",
            "niter = iter(self.critical_path_nodes)",
            "u = next(niter)",
            "while 1:\n    try:\n        v = next(niter)\n        e = self.edges[u, v]['object']\n        self.critical_path_edges_set.add(e)\n        u = v\n"
            "    except StopIteration:\n        break",
            "assert len(self.critical_path_edges_set) == len(self.critical_path_nodes) - 1",
            "return True"]
    if texts != want:
        bad = next((a for a, b in zip(texts, want) if a != b), f"{len(texts)} statements instead of {len(want)}")
        raise Stop(f"CPGraph.critical_path: `{bad[:150]}` is not what the checker was written for")
    out = '''(* GENERATED by harness/translate.py from hta/analyzers/critical_path_analysis.py (CPGraph.critical_path) -- do not edit.
   The reported node list maximises the graph attribute 'weight'; on every call the event set is REBUILT as the events of the listed
   nodes and the edge set is RESET and refilled with the edges between consecutive nodes of the list. *)
From HTA.lib Require Import Base.
Open Scope Z_scope.

Fixpoint path_pairs_gen (l : list Z) : list (list Z) :=
  match l with
  | a :: (b :: _) as r => [a; b] :: path_pairs_gen r
  | _ => []
  end.
Definition path_events_gen (ev_of : Z -> list Z) (l : list Z) : list Z := flat_map ev_of l.
'''
    write_if_changed(os.path.join(GEN, "PathSets_gen.v"), out)
    return "gen/PathSets_gen.v"


# ---- CommunicationAnalysis.get_comm_comp_overlap (hta/analyzers/communication_analysis.py) -> coq/gen/OverlapRules_gen.v ----
def gen_overlap_rules() -> str:
    """Reads the per-rank helper get_comm_comp_overlap_value statement by statement (strict shape): device rows by `stream != -1`, kinds
    by get_kernel_type of the full name, the two merged interval lists, the boundary rows (+1/-1 communication, +2/-2 computation), the
    sort by time, the running sum, the rows where it equals 3 credited the time to the next row, the ratio over the merged
    communication time; and the two-decimal percentage."""
    path = "hta/analyzers/communication_analysis.py"
    tree = ast.parse(open(os.path.join(fw.REPO, path)).read())
    cls = next((n for n in tree.body if isinstance(n, ast.ClassDef) and n.name == "CommunicationAnalysis"), None)
    fn = next((n for n in (cls.body if cls else []) if isinstance(n, ast.FunctionDef) and n.name == "get_comm_comp_overlap"), None)
    inner = next((n for n in (fn.body if fn else []) if isinstance(n, ast.FunctionDef) and n.name == "get_comm_comp_overlap_value"), None)
    if inner is None:
        raise Stop("CommunicationAnalysis.get_comm_comp_overlap / get_comm_comp_overlap_value not found")
    texts = [ast.unparse(st) for st in inner.body if not (isinstance(st, ast.Expr) and isinstance(st.value, ast.Constant))]
    want = ["gpu_kernels = trace_df[trace_df['stream'].ne(-1)].copy()",
            "gpu_kernels['kernel_type'] = gpu_kernels[['name']].apply(lambda x: get_kernel_type(sym_table[x['name']]), axis=1)",
            "comp_kernels = merge_kernel_intervals(gpu_kernels[gpu_kernels['kernel_type'].eq(KernelType.COMPUTATION.name)].copy())",
            "comm_kernels = merge_kernel_intervals(gpu_kernels[gpu_kernels['kernel_type'].eq(KernelType.COMMUNICATION.name)].copy())",
            "status_df = pd.concat([comm_kernels.melt(var_name='status', value_name='time').replace({'ts': 1, 'end': -1}), "
            "comp_kernels.melt(var_name='status', value_name='time').replace({'ts': 2, 'end': -2})]).sort_values(by='time').reset_index(drop=True)",
            "status_df['running'] = status_df['status'].cumsum()",
            "overlap = status_df[status_df['running'].eq(3)]",
            "shifted_overlap = overlap.merge(status_df.shift(-1).dropna(), left_index=True, right_index=True)",
            "return (shifted_overlap['time_y'] - shifted_overlap['time_x']).sum() / (comm_kernels['end'] - comm_kernels['ts']).sum()"]
    if texts != want:
        bad = next((a for a, b in zip(texts, want) if a != b), f"{len(texts)} statements instead of {len(want)}")
        raise Stop(f"get_comm_comp_overlap_value: `{bad[:150]}` is not what the model was written for")
    outer = [ast.unparse(st) for st in fn.body if not isinstance(st, ast.FunctionDef) and not (isinstance(st, ast.Expr) and isinstance(st.value, ast.Constant))]
    need = ["sym_table = t.symbol_table.get_sym_table()",
            "for rank, trace_df in t.traces.items():\n    result['rank'].append(rank)\n    result['comp_comm_overlap_ratio'].append(get_comm_comp_overlap_value(trace_df))",
            "result_df['comp_comm_overlap_pctg'] = round(100 * result_df['comp_comm_overlap_ratio'], 2)",
            "return result_df[['rank', 'comp_comm_overlap_pctg']]"]
    for w in need:
        if w not in outer:
            raise Stop(f"get_comm_comp_overlap: statement not found as the model expects it: `{w[:110]}`")
    out = '''(* GENERATED by harness/translate.py from hta/analyzers/communication_analysis.py (CommunicationAnalysis.get_comm_comp_overlap) -- do not edit.
   Weights of the boundary rows, the running value that counts as overlap, and the scale of the reported number. *)
From HTA.lib Require Import Base.
Open Scope Z_scope.

Definition comm_weight_gen : Z := 1.
Definition comp_weight_gen : Z := 2.
Definition overlap_level_gen : Z := 3.
Definition percent_scale_gen : Z := 100.
'''
    write_if_changed(os.path.join(GEN, "OverlapRules_gen.v"), out)
    return "gen/OverlapRules_gen.v"


# ---- merge_kernel_intervals (hta/utils/utils.py), _get_idle_time_for_kernels and idle_time_per_rank (breakdown_analysis.py) -> coq/gen/BreakdownRules_gen.v ----
def gen_breakdown_rules() -> str:
    """Reads merge_kernel_intervals (sort by ts, end = ts + dur, a new group when ts is STRICTLY greater than the running maximum of the
    previous ends, per group min ts / max end), _get_idle_time_for_kernels (span of the merged list, idle = span - merged run time) and the
    per-rank helper of get_temporal_breakdown (device rows by stream != -1, computation kernels by get_kernel_type, non-compute = the
    remainder, the three assertions) statement by statement (strict shape)."""
    utils = ast.parse(open(os.path.join(fw.REPO, "hta/utils/utils.py")).read())
    mk = next((n for n in utils.body if isinstance(n, ast.FunctionDef) and n.name == "merge_kernel_intervals"), None)
    if mk is None:
        raise Stop("merge_kernel_intervals not found")
    texts = [ast.unparse(st) for st in mk.body if not (isinstance(st, ast.Expr) and isinstance(st.value, ast.Constant))]
    want = ["kernel_df.sort_values(by='ts', inplace=True)",
            "kernel_df['end'] = kernel_df['ts'] + kernel_df['dur']",
            "kernel_df['group'] = (kernel_df['ts'] > kernel_df['end'].shift().cummax()).cumsum()",
            "kernel_df = kernel_df.groupby('group', as_index=False).agg({'ts': 'min', 'end': 'max'}).drop(['group'], axis=1).sort_values(by='ts')",
            "return kernel_df"]
    if texts != want:
        bad = next((a for a, b in zip(texts, want) if a != b), f"{len(texts)} statements instead of {len(want)}")
        raise Stop(f"merge_kernel_intervals: `{bad[:150]}` is not what the model was written for")
    tree = ast.parse(open(os.path.join(fw.REPO, "hta/analyzers/breakdown_analysis.py")).read())
    cls = next((n for n in tree.body if isinstance(n, ast.ClassDef) and n.name == "BreakdownAnalysis"), None)
    fns = {n.name: n for n in (cls.body if cls else []) if isinstance(n, ast.FunctionDef)}
    it = fns.get("_get_idle_time_for_kernels")
    if it is None:
        raise Stop("_get_idle_time_for_kernels not found")
    texts = [ast.unparse(st) for st in it.body if not (isinstance(st, ast.Expr) and isinstance(st.value, ast.Constant))]
    want = ["merged_kernels = merge_kernel_intervals(kernels_df)",
            "kernel_time = merged_kernels.iloc[-1]['end'] - merged_kernels.iloc[0]['ts']",
            "kernel_run_time = merged_kernels.end.sum() - merged_kernels.ts.sum()",
            "return (kernel_time - kernel_run_time, kernel_time)"]
    if texts != want:
        bad = next((a for a, b in zip(texts, want) if a != b), f"{len(texts)} statements instead of {len(want)}")
        raise Stop(f"_get_idle_time_for_kernels: `{bad[:150]}` is not what the model was written for")
    tb = fns.get("get_temporal_breakdown")
    inner = next((n for n in (tb.body if tb else []) if isinstance(n, ast.FunctionDef) and n.name == "idle_time_per_rank"), None)
    if inner is None:
        raise Stop("get_temporal_breakdown / idle_time_per_rank not found")
    texts = [ast.unparse(st) for st in inner.body if not (isinstance(st, ast.Expr) and isinstance(st.value, ast.Constant))]
    want = ["gpu_kernels = trace_df[trace_df['stream'].ne(-1)].copy()",
            "idle_time, kernel_time = cls._get_idle_time_for_kernels(gpu_kernels)",
            "gpu_kernels['kernel_type'] = gpu_kernels[['name']].apply(lambda x: get_kernel_type(sym_table[x['name']]), axis=1)",
            "comp_kernels = merge_kernel_intervals(gpu_kernels[gpu_kernels['kernel_type'].eq(KernelType.COMPUTATION.name)].copy())",
            "compute_time = comp_kernels.end.sum() - comp_kernels.ts.sum()",
            "non_compute_time = kernel_time - compute_time - idle_time",
            "assert idle_time <= kernel_time",
            "assert compute_time <= kernel_time",
            "assert non_compute_time >= 0",
            "return (idle_time, compute_time, non_compute_time, kernel_time)"]
    if texts != want:
        bad = next((a for a, b in zip(texts, want) if a != b), f"{len(texts)} statements instead of {len(want)}")
        raise Stop(f"idle_time_per_rank: `{bad[:150]}` is not what the model was written for")
    out = '''(* GENERATED by harness/translate.py from hta/utils/utils.py (merge_kernel_intervals) and hta/analyzers/breakdown_analysis.py
   (_get_idle_time_for_kernels, get_temporal_breakdown.idle_time_per_rank) -- do not edit. *)
From HTA.lib Require Import Base.
Open Scope Z_scope.

(* a row (s, e) of the ts-sorted list opens a new group iff s is strictly greater than the running maximum m of all previous ends *)
Definition new_group_gen (m s : Z) : bool := m <? s.
(* (idle, compute, non_compute, kernel_time) from: first start and last end of the merged device intervals, their total length, and the
   total length of the merged computation intervals *)
Definition breakdown_gen (first_ts last_end total_dev total_comp : Z) : Z * Z * Z * Z :=
  let kernel_time := last_end - first_ts in
  let idle := kernel_time - total_dev in
  (idle, total_comp, kernel_time - total_comp - idle, kernel_time).
'''
    write_if_changed(os.path.join(GEN, "BreakdownRules_gen.v"), out)
    return "gen/BreakdownRules_gen.v"


# ---- _get_gpu_kernel_type_time / _aggr_gpu_kernel_time (hta/analyzers/breakdown_analysis.py) -> coq/gen/KernelBreakdownRules_gen.v ----
def gen_kernel_breakdown_rules() -> str:
    """The two helpers are long pandas pipelines.  Their statement sequence (docstrings aside, as printed by ast.unparse) must be exactly the
    one the model was written for (compared by digest); the rules the model depends on are then read from the statements: the bit given to
    the idx-th type (1 << idx, +value at a start, -value at an end), the rows that count (running > 0), and in the aggregator the condition
    for aggregating at all (more names than num_kernels) and the two conditions that move a row to 'others' (cumulative sum above the
    quantile; position >= num_kernels)."""
    import hashlib
    path = "hta/analyzers/breakdown_analysis.py"
    tree = ast.parse(open(os.path.join(fw.REPO, path)).read())
    cls = next((n for n in tree.body if isinstance(n, ast.ClassDef) and n.name == "BreakdownAnalysis"), None)
    fns = {n.name: n for n in (cls.body if cls else []) if isinstance(n, ast.FunctionDef)}
    pinned = {"_get_gpu_kernel_type_time": "4f5fdd510a95c5b41235c8f0a34f57474d089316",
              "_aggr_gpu_kernel_time": "f7cf5e6c9f1e4c6ff58e27dba947fcd71bbe275f"}
    body = {}
    for nm, dg in pinned.items():
        fn = fns.get(nm)
        if fn is None:
            raise Stop(f"BreakdownAnalysis.{nm} not found")
        texts = [ast.unparse(st) for st in fn.body if not (isinstance(st, ast.Expr) and isinstance(st.value, ast.Constant))]
        if hashlib.sha1("\n".join(texts).encode()).hexdigest() != dg:
            raise Stop(f"BreakdownAnalysis.{nm}: the statement sequence is not the one the model was written for")
        body[nm] = "\n".join(texts)
    t = body["_get_gpu_kernel_type_time"]
    for needle in ("value = 1 << idx", "replace({'ts': value, 'end': -value})", "overlap_kernel_type_df['running'] > 0", "if u_running & v_t:"):
        if needle not in t:
            raise Stop(f"_get_gpu_kernel_type_time: `{needle}` not found")
    a = body["_aggr_gpu_kernel_time"]
    for needle in ("if gpu_kernel_time.shape[0] > num_kernels:", "~keep_idx & (gpu_kernel_time['cumsum'] > quantiles)",
                   "~keep_idx & (gpu_kernel_time.index >= num_kernels)", "sort_values(by=['sum'], ascending=False, ignore_index=True)"):
        if needle not in a:
            raise Stop(f"_aggr_gpu_kernel_time: `{needle}` not found")
    out = '''(* GENERATED by harness/translate.py from hta/analyzers/breakdown_analysis.py (_get_gpu_kernel_type_time, _aggr_gpu_kernel_time)
   -- do not edit.  q16 / c are 16 * quantile and the cumulative sum (the model works with sixteenths of the duration ratio). *)
From HTA.lib Require Import Base.
Open Scope Z_scope.

Definition type_bit_gen (idx : Z) : Z := 2 ^ idx.
Definition counts_gen (running : Z) : bool := 0 <? running.
Definition aggregates_gen (n_names numk : Z) : bool := numk <? n_names.
Definition is_other_gen (q16 numk i c : Z) : bool := (q16 <? 16 * c) || (numk <=? i).
'''
    write_if_changed(os.path.join(GEN, "KernelBreakdownRules_gen.v"), out)
    return "gen/KernelBreakdownRules_gen.v"


# ---- TraceCounters._get_queue_length_time_series_for_rank / _get_memory_bw_time_series_for_rank -> coq/gen/CounterRules_gen.v ----
def _strict(fn, nm, want):
    """the statements of fn (docstrings aside) must be exactly `want`; entries of `want` may be compiled regular expressions, whose groups
    are returned in order"""
    import re
    if fn is None:
        raise Stop(f"{nm} not found")
    texts = [ast.unparse(st) for st in fn.body if not (isinstance(st, ast.Expr) and isinstance(st.value, ast.Constant))]
    if len(texts) != len(want):
        raise Stop(f"{nm}: {len(texts)} statements instead of {len(want)}")
    got = []
    for a, b in zip(texts, want):
        if isinstance(b, str):
            if a != b:
                raise Stop(f"{nm}: `{a[:150]}` is not what the model was written for")
        else:
            m = b.fullmatch(a)
            if m is None:
                raise Stop(f"{nm}: `{a[:150]}` is not what the model was written for")
            got.extend(m.groups())
    return got


def gen_counter_rules() -> str:
    """Reads the two per-rank time-series builders of TraceCounters statement by statement (strict shape).  The numbers the model depends on
    are taken from the statements rather than assumed: the increments given to a launch and to a device activity, the stream value that
    marks a host row, the sort keys and their directions, and the floor given to a zero-length memory copy."""
    import re
    tree = ast.parse(open(os.path.join(fw.REPO, "hta/analyzers/trace_counters.py")).read())
    cls = next((n for n in tree.body if isinstance(n, ast.ClassDef) and n.name == "TraceCounters"), None)
    fns = {n.name: n for n in (cls.body if cls else []) if isinstance(n, ast.FunctionDef)}
    R = re.compile
    num = r"(-?\d+)"
    q = _strict(fns.get("_get_queue_length_time_series_for_rank"), "_get_queue_length_time_series_for_rank", [
        "trace_df: pd.DataFrame = t.get_trace(rank)",
        "runtime_calls: pd.DataFrame = trace_df.query(t.symbol_table.get_runtime_launch_events_query()).copy()",
        "runtime_calls.drop(['stream', 'pid', 'tid'], axis=1, inplace=True)",
        R(r"runtime_calls\['queue'\] = " + num),
        R(r"gpu_kernels = trace_df\[trace_df\['stream'\]\.ne\(" + num + r"\)\]\.copy\(\)"),
        R(r"gpu_kernels\['queue'\] = " + num),
        "runtime_calls_filt = runtime_calls.join(gpu_kernels[['stream', 'pid', 'tid', 'correlation']].set_index('correlation'), on='correlation')",
        "gpu_kernels_filt = gpu_kernels[gpu_kernels['correlation'].isin(runtime_calls['correlation'])]",
        "assert len(runtime_calls_filt) == len(gpu_kernels_filt)",
        R(r"merged_df = pd\.concat\(\[runtime_calls_filt, gpu_kernels_filt\]\)\.sort_values\(by=\['ts', 'queue'\], ascending=\[(True|False), (True|False)\]\)\.set_index\('index'\)"),
        "result_df_list = []",
        R(r"for stream, stream_df in merged_df\.groupby\('stream'\):\n(?:    logger\.debug\(.*\)\n)?    stream_df\['queue_length'\] = stream_df\['queue'\]\.cumsum\(\)\n    result_df_list\.append\(stream_df\)"),
        "return pd.concat(result_df_list)[['ts', 'pid', 'tid', 'stream', 'queue_length']] if len(result_df_list) > 0 else None",
    ])
    launch_delta, host_stream, kernel_delta, ts_asc, q_asc = int(q[0]), int(q[1]), int(q[2]), q[3] == "True", q[4] == "True"
    b = _strict(fns.get("_get_memory_bw_time_series_for_rank"), "_get_memory_bw_time_series_for_rank", [
        "trace_df: pd.DataFrame = t.get_trace(rank)",
        "sym_table = t.symbol_table.get_sym_table()",
        R(r"gpu_kernels = trace_df\[trace_df\['stream'\]\.ne\(" + num + r"\)\]\.copy\(\)"),
        "gpu_kernels['kernel_type'] = gpu_kernels[['name']].apply(lambda x: get_kernel_type(sym_table[x['name']]), axis=1)",
        "memcpy_kernels = gpu_kernels[gpu_kernels.kernel_type == KernelType.MEMORY.name].copy()",
        "memcpy_kernels['name'] = memcpy_kernels[['name']].apply(lambda x: get_memory_kernel_type(sym_table[x['name']]), axis=1)",
        R(r"memcpy_kernels\.loc\[memcpy_kernels\.dur == " + num + r", \['dur'\]\] = " + num),
        "membw_time_series_a = memcpy_kernels[['ts', 'name', 'pid', 'memory_bw_gbps']]",
        "membw_time_series_b = memcpy_kernels[['ts', 'name', 'dur', 'pid', 'memory_bw_gbps']].copy()",
        "membw_time_series_b.ts = membw_time_series_b.ts + membw_time_series_b.dur",
        "membw_time_series_b.memory_bw_gbps = -membw_time_series_b.memory_bw_gbps",
        "membw_time_series = pd.concat([membw_time_series_a, membw_time_series_b[['ts', 'pid', 'name', 'memory_bw_gbps']]], ignore_index=True).sort_values(by='ts')",
        "result_df_list = []",
        "for _, membw_df in membw_time_series.groupby('name'):\n    membw_df.memory_bw_gbps = membw_df.memory_bw_gbps.cumsum()\n    result_df_list.append(membw_df)",
        "if len(result_df_list) == 0:\n    return None",
        "result_df = pd.concat(result_df_list)[['ts', 'pid', 'name', 'memory_bw_gbps']]",
        "return result_df",
    ])
    host_stream_b, zero_dur, floor_dur = int(b[0]), int(b[1]), int(b[2])
    lt = lambda asc, x, y: f"({x} <? {y})" if asc else f"({y} <? {x})"
    zlit = lambda v: str(v) if v >= 0 else f"({v})"
    out = f'''(* GENERATED by harness/translate.py from hta/analyzers/trace_counters.py (TraceCounters._get_queue_length_time_series_for_rank,
   _get_memory_bw_time_series_for_rank) -- do not edit. *)
From HTA.lib Require Import Base.
Open Scope Z_scope.

Definition launch_delta_gen : Z := {zlit(launch_delta)}.
Definition kernel_delta_gen : Z := {zlit(kernel_delta)}.
Definition is_dev_queue_gen (stream : Z) : bool := negb (stream =? {zlit(host_stream)}).
Definition is_dev_bw_gen (stream : Z) : bool := negb (stream =? {zlit(host_stream_b)}).
(* sort_values(by=['ts', 'queue'], ascending=[{ts_asc}, {q_asc}]): row (t1, d1) comes strictly before row (t2, d2) *)
Definition queue_before_gen (t1 d1 t2 d2 : Z) : bool := {lt(ts_asc, "t1", "t2")} || ((t1 =? t2) && {lt(q_asc, "d1", "d2")}).
(* memcpy_kernels.loc[memcpy_kernels.dur == {zero_dur}, ['dur']] = {floor_dur} *)
Definition bw_dur_gen (d : Z) : Z := if d =? {zlit(zero_dur)} then {zlit(floor_dur)} else d.
'''
    write_if_changed(os.path.join(GEN, "CounterRules_gen.v"), out)
    return "gen/CounterRules_gen.v"


# ---- the change classes of hta/trace_diff.py -> coq/gen/DiffRules_gen.v ----
def gen_diff_rules() -> str:
    """Reads TraceDiff.compare_traces (diff_counts / diff_duration = test minus control; the sign lambda of counts_change_categories) and the
    dictionary TraceDiff.ops_diff returns: five entries, each  df.loc[<a> & <b>].index.tolist()  with <a>, <b> of the form
    df[col_control | col_test | col_diff].eq|gt|lt(<int>)."""
    path = "hta/trace_diff.py"
    tree = ast.parse(open(os.path.join(fw.REPO, path)).read())
    cls = next((n for n in tree.body if isinstance(n, ast.ClassDef) and n.name == "TraceDiff"), None)
    meth = {n.name: n for n in (cls.body if cls else []) if isinstance(n, ast.FunctionDef)}
    if "compare_traces" not in meth or "ops_diff" not in meth:
        raise Stop("TraceDiff.compare_traces / ops_diff not found")
    src_cmp = ast.unparse(meth["compare_traces"])
    for need in ("comp['diff_counts'] = comp[f'{test_label}_counts'] - comp[f'{control_label}_counts']",
                 "comp['diff_duration'] = comp[f'{test_label}_total_duration'] - comp[f'{control_label}_total_duration']",
                 "comp['counts_change_categories'] = comp['diff_counts'].apply(lambda c: '+' if c > 0 else '-' if c < 0 else '=')"):
        if need not in src_cmp:
            raise Stop(f"compare_traces: statement not found: {need}")
    od = meth["ops_diff"]
    cols = {}
    ret = None
    for st in od.body:
        if isinstance(st, ast.Assign) and isinstance(st.targets[0], ast.Name) and st.targets[0].id in ("col_control", "col_test", "col_diff"):
            cols[st.targets[0].id] = ast.unparse(st.value)
        if isinstance(st, ast.Return):
            ret = st.value
    if cols != {"col_control": "f'{control_trace.label}_counts'", "col_test": "f'{test_trace.label}_counts'", "col_diff": "'diff_counts'"}:
        raise Stop(f"ops_diff: column names {cols}")
    if not isinstance(ret, ast.Dict) or [k.value for k in ret.keys] != ["added", "deleted", "increased", "decreased", "unchanged"]:
        raise Stop("ops_diff: does not return the dictionary added / deleted / increased / decreased / unchanged")
    var = {"col_control": "c", "col_test": "t", "col_diff": "(t - c)"}

    def atom(e) -> str:
        if not (isinstance(e, ast.Call) and isinstance(e.func, ast.Attribute) and e.func.attr in ("eq", "gt", "lt", "ge", "le") and len(e.args) == 1
                and isinstance(e.args[0], ast.Constant) and isinstance(e.args[0].value, int)
                and isinstance(e.func.value, ast.Subscript) and ast.unparse(e.func.value.value) == "df" and isinstance(e.func.value.slice, ast.Name)
                and e.func.value.slice.id in var):
            raise Stop(f"ops_diff: mask term {ast.unparse(e)}")
        x, k = var[e.func.value.slice.id], fw.z(e.args[0].value)
        return {"eq": f"({x} =? {k})", "gt": f"({k} <? {x})", "lt": f"({x} <? {k})", "ge": f"({k} <=? {x})", "le": f"({x} <=? {k})"}[e.func.attr]

    def mask(v) -> str:
        u = ast.unparse(v)
        if not (isinstance(v, ast.Call) and u.endswith(".index.tolist()") and isinstance(v.func, ast.Attribute) and isinstance(v.func.value, ast.Attribute)
                and isinstance(v.func.value.value, ast.Subscript) and ast.unparse(v.func.value.value.value) == "df.loc"):
            raise Stop(f"ops_diff: entry {u[:60]} is not df.loc[<mask>].index.tolist()")
        m = v.func.value.value.slice
        if not (isinstance(m, ast.BinOp) and isinstance(m.op, ast.BitAnd)):
            raise Stop("ops_diff: mask is not a conjunction of two terms")
        return f"{atom(m.left)} && {atom(m.right)}"
    text = f'''(* GENERATED by harness/translate.py from hta/trace_diff.py (TraceDiff.compare_traces, TraceDiff.ops_diff) -- do not edit.
   c, t = the counts of a name in the control and the test selection; diff_counts = t - c (checked in compare_traces);
   the five masks in the order added, deleted, increased, decreased, unchanged. *)
From HTA.lib Require Import Base.
Open Scope Z_scope.

Definition masks_gen (c t : Z) : list bool :=
  [ {"; ".join(mask(v) for v in ret.values)} ].
(* counts_change_categories: '+' if diff > 0 else '-' if diff < 0 else '=' *)
Definition sign_gen (d : Z) : Z := if 0 <? d then 1 else if d <? 0 then -1 else 0.
'''
    write_if_changed(os.path.join(GEN, "DiffRules_gen.v"), text)
    return "gen/DiffRules_gen.v"


# ---- row predicates of hta/common/trace_filter.py -> coq/gen/FilterRules_gen.v ----
class _Mask:
    """pandas boolean-mask expressions over df[...] columns -> a Gallina boolean over an event e"""
    COL = {"ts": "ts e", "dur": "dur e", "stream": "stream e", "correlation": "corr e", "iteration": "iter e"}

    def __init__(self, params: Dict[str, str], id_names: Dict[str, str]):
        self.params, self.id_names = params, id_names

    def num(self, e) -> str:
        if isinstance(e, ast.Constant) and isinstance(e.value, int):
            return fw.z(e.value)
        if isinstance(e, ast.UnaryOp) and isinstance(e.op, ast.USub) and isinstance(e.operand, ast.Constant):
            return fw.z(-e.operand.value)
        if isinstance(e, ast.Attribute) and isinstance(e.value, ast.Name) and e.value.id == "self" and e.attr in self.params:
            return self.params[e.attr]
        if isinstance(e, ast.Subscript) and ast.unparse(e.value) == "df" and isinstance(e.slice, ast.Constant) and e.slice.value in self.COL:
            return f"({self.COL[e.slice.value]})"
        if isinstance(e, ast.BinOp) and isinstance(e.op, ast.Add):
            return f"({self.num(e.left)} + {self.num(e.right)})"
        raise Stop(f"filter mask: numeric term {ast.unparse(e)}")

    def cmp(self, op: str, a: str, b: str) -> str:
        return {"ge": f"({b} <=? {a})", "le": f"({a} <=? {b})", "gt": f"({b} <? {a})", "lt": f"({a} <? {b})", "eq": f"({a} =? {b})"}[op]

    def boolean(self, e) -> str:
        if isinstance(e, ast.BinOp) and isinstance(e.op, (ast.BitAnd, ast.BitOr)):
            return f"({self.boolean(e.left)} {'&&' if isinstance(e.op, ast.BitAnd) else '||'} {self.boolean(e.right)})"
        if isinstance(e, ast.UnaryOp) and isinstance(e.op, ast.Invert):
            return f"(negb {self.boolean(e.operand)})"
        if isinstance(e, ast.Compare) and len(e.ops) == 1:
            op = {ast.GtE: "ge", ast.LtE: "le", ast.Gt: "gt", ast.Lt: "lt", ast.Eq: "eq"}.get(type(e.ops[0]))
            if op:
                return self.cmp(op, self.num(e.left), self.num(e.comparators[0]))
        if isinstance(e, ast.Call) and isinstance(e.func, ast.Attribute) and len(e.args) == 1:
            if e.func.attr in ("ge", "le", "gt", "lt", "eq"):
                return self.cmp(e.func.attr, self.num(e.func.value), self.num(e.args[0]))
            if e.func.attr == "isin" and ast.unparse(e.func.value) == "df['name']" and isinstance(e.args[0], ast.List) \
                    and all(isinstance(x, ast.Name) and x.id in self.id_names for x in e.args[0].elts):
                return "(str_in (name e) " + fw.sl([self.id_names[x.id] for x in e.args[0].elts]) + ")"
        raise Stop(f"filter mask: {ast.unparse(e)[:80]}")


def gen_filter_rules() -> str:
    path = "hta/common/trace_filter.py"
    tree = ast.parse(open(os.path.join(fw.REPO, path)).read())
    classes = {n.name: n for n in tree.body if isinstance(n, ast.ClassDef)}
    funcs = {n.name: n for n in tree.body if isinstance(n, ast.FunctionDef)}

    def call_of(cls):
        if cls not in classes:
            raise Stop(f"trace_filter.py: class {cls} not found")
        m = next((n for n in classes[cls].body if isinstance(n, ast.FunctionDef) and n.name == "__call__"), None)
        if m is None:
            raise Stop(f"{cls}.__call__ not found")
        return m

    def loc_mask(ret):
        if not (isinstance(ret, ast.Return) and isinstance(ret.value, ast.Subscript) and ast.unparse(ret.value.value) == "df.loc"):
            raise Stop(f"expected `return df.loc[<mask>]`, found {ast.unparse(ret)[:70]}")
        return ret.value.slice

    # TimeRangeFilter: last statement returns df.loc[mask]
    tr = call_of("TimeRangeFilter")
    time_mask = _Mask({"time_start": "time_start", "time_end": "time_end"}, {}).boolean(loc_mask(tr.body[-1]))
    # the helper with the sync names
    h = funcs.get("_filter_gpu_kernels_with_cuda_sync")
    if h is None or [a.arg for a in h.args.args] != ["df", "symbol_table"]:
        raise Stop("_filter_gpu_kernels_with_cuda_sync(df, symbol_table) not found")
    ids = {}
    hret = None
    for st in h.body:
        if isinstance(st, ast.Expr) and isinstance(st.value, ast.Constant):
            continue
        if isinstance(st, ast.Assign) and isinstance(st.targets[0], ast.Name):
            mm = re.fullmatch(r"symbol_table\.get_sym_id_map\(\)\.get\('([^']+)', -1\)", ast.unparse(st.value))
            if not mm:
                raise Stop(f"_filter_gpu_kernels_with_cuda_sync: {ast.unparse(st)[:70]}")
            ids[st.targets[0].id] = mm.group(1)
        elif isinstance(st, ast.Return):
            hret = st.value
        else:
            raise Stop(f"_filter_gpu_kernels_with_cuda_sync: statement {type(st).__name__}")
    dev_mask = _Mask({}, ids).boolean(hret)

    def two_way(cls):
        """if symbol_table is None: return df.loc[A]  ... return df.loc[B or ~helper(df, symbol_table)]"""
        m = call_of(cls)
        none_mask = tab_mask = None
        for st in m.body:
            if isinstance(st, ast.If) and ast.unparse(st.test) == "symbol_table is None":
                none_mask = loc_mask(st.body[-1])
        tab_mask = loc_mask(m.body[-1])
        if none_mask is None:
            raise Stop(f"{cls}: no `if symbol_table is None` branch")
        u = ast.unparse(tab_mask)
        if u == "_filter_gpu_kernels_with_cuda_sync(df, symbol_table)":
            neg = False
        elif u == "~_filter_gpu_kernels_with_cuda_sync(df, symbol_table)":
            neg = True
        else:
            raise Stop(f"{cls}: with a table the mask is {u[:70]}")
        return _Mask({}, {}).boolean(none_mask), neg
    gpu_none, gpu_neg = two_way("GPUKernelFilter")
    cpu_none, cpu_neg = two_way("CPUOperatorFilter")
    text = f'''(* GENERATED by harness/translate.py from hta/common/trace_filter.py (TimeRangeFilter, _filter_gpu_kernels_with_cuda_sync, GPUKernelFilter,
   CPUOperatorFilter) -- do not edit.  e = the row; corr = the correlation column. *)
From HTA.lib Require Import Base.
Open Scope Z_scope.

Definition time_pred_gen (time_start time_end : Z) (e : ev) : bool := {time_mask}.
(* _filter_gpu_kernels_with_cuda_sync: device rows when the symbol table is known *)
Definition dev_pred_table_gen (e : ev) : bool := {dev_mask}.
(* without a symbol table *)
Definition gpu_pred_notable_gen (e : ev) : bool := {gpu_none}.
Definition cpu_pred_notable_gen (e : ev) : bool := {cpu_none}.
(* with a table: is the helper's mask negated? *)
Definition gpu_table_negated_gen : bool := {fw.b(gpu_neg)}.
Definition cpu_table_negated_gen : bool := {fw.b(cpu_neg)}.
'''
    write_if_changed(os.path.join(GEN, "FilterRules_gen.v"), text)
    return "gen/FilterRules_gen.v"
