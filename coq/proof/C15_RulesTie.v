(* C15: the launch-name lists and the launch-delay rule of the model are those regenerated from cuda_kernel_launch_stats *)
From HTA.lib Require Import Base.
From HTA.model Require Import C15_Model.
From HTA.gen Require Import LaunchStats_gen.
Open Scope Z_scope.

Theorem launch_stats_rules_are_generated :
  kernel_launch_names = kernel_launch_names_gen /\ memory_launch_names = memory_launch_names_gen /\
  (forall r k, row (r, k) = [corr r; dur r; dur k; launch_delay_gen (ts r) (dur r) (ts k)]).
Proof. repeat split. Qed.
