From Coq Require Import Permutation Sorted.
From HTA.lib Require Import Base Cells Intervals Sweep.
From HTA.model Require Import C14_Model.
Open Scope list_scope.
Open Scope Z_scope.

(* ================= prefix sums over (time, delta) rows ================= *)
Fixpoint psums (acc : Z) (rows : list row) : list Z :=
  match rows with [] => [] | x :: r => (acc + snd x) :: psums (acc + snd x) r end.

Lemma psums_split acc pre x post :
  psums acc (pre ++ x :: post) =
  psums acc pre ++ (acc + sumZ (map snd pre) + snd x) :: psums (acc + sumZ (map snd pre) + snd x) post.
Proof.
  revert acc. induction pre as [|y pre IH]; intro acc; simpl.
  - replace (acc + 0 + snd x) with (acc + snd x) by lia. reflexivity.
  - rewrite IH. unfold sumZ. simpl. replace (acc + snd y + fold_right Z.add 0 (map snd pre) + snd x)
      with (acc + (snd y + fold_right Z.add 0 (map snd pre)) + snd x) by lia. reflexivity.
Qed.

Lemma psums_In acc l v : In v (psums acc l) ->
  exists pre x post, l = pre ++ x :: post /\ v = acc + sumZ (map snd (pre ++ [x])).
Proof.
  revert acc. induction l as [|y l IH]; intros acc H; simpl in H; [destruct H|].
  destruct H as [H|H].
  - exists [], y, l. split; [reflexivity|]. simpl. unfold sumZ. simpl. lia.
  - apply IH in H. destruct H as [pre [x [post [E Hv]]]]. exists (y :: pre), x, post.
    split; [simpl; rewrite E; reflexivity|]. rewrite Hv. unfold sumZ. simpl. lia.
Qed.

Lemma psums_length acc l : List.length (psums acc l) = List.length l.
Proof. revert acc. induction l as [|x l IH]; intro acc; simpl; [reflexivity | rewrite IH; reflexivity]. Qed.

Lemma psums_last acc l : l <> [] -> last (psums acc l) 0 = acc + sumZ (map snd l).
Proof.
  revert acc. induction l as [|x l IH]; intros acc Hne; [congruence|]. simpl psums.
  destruct l as [|y l'].
  - simpl. unfold sumZ. simpl. lia.
  - change (last ((acc + snd x) :: psums (acc + snd x) (y :: l')) 0) with (last (psums (acc + snd x) (y :: l')) 0).
    rewrite IH by discriminate. unfold sumZ. simpl. lia.
Qed.

(* the value after the last row of an instant: all earlier rows have time <= u, all later rows time > u *)
Theorem value_at_instant rows rows' pre x post :
  Permutation rows rows' -> rows' = pre ++ x :: post -> sorted_time rows' ->
  (forall y, In y post -> fst x < fst y) ->
  sumZ (map snd (pre ++ [x])) = level rows (fst x).
Proof.
  intros Hp E Hs Hpost. rewrite (level_perm _ _ (fst x) Hp). subst rows'.
  replace (pre ++ x :: post) with ((pre ++ [x]) ++ post) in * by (rewrite <- app_assoc; reflexivity).
  rewrite level_app. rewrite level_after, level_before; [lia | |].
  - intros r Hr. apply Hpost. exact Hr.
  - intros r Hr. apply in_app_or in Hr. destruct Hr as [Hr|[Hr|[]]]; [|subst; lia].
    (* r is before x in a time-sorted list *)
    clear - Hs Hr. induction pre as [|y pre IH]; [destruct Hr|]. simpl in Hs.
    inversion Hs as [|? ? Hs' Hall]; subst. destruct Hr as [Hr|Hr].
    + subst. rewrite Forall_forall in Hall. apply Hall. apply in_or_app. left. apply in_or_app. right. left. reflexivity.
    + apply IH; assumption.
Qed.

(* ================= launch / start rows built from pairs ================= *)
Definition pair := (Z * Z)%type.     (* (launch time, start time) *)
Definition from_pairs (P : list pair) : list row :=
  map (fun p => (fst p, 1)) P ++ map (fun p => (snd p, -1)) P.

Lemma level_from_pairs P u :
  level (from_pairs P) u = count (fun p => fst p <=? u) P - count (fun p => snd p <=? u) P.
Proof.
  unfold from_pairs. rewrite level_app. unfold level. rewrite !map_map. cbn [fst snd].
  induction P as [|p P IH]; [reflexivity|]. cbn [map]. rewrite !count_cons.
  unfold sumZ in *. cbn [fold_right].
  destruct (fst p <=? u), (snd p <=? u); lia.
Qed.

Lemma level_from_pairs_nonneg P u : (forall p, In p P -> fst p <= snd p) -> 0 <= level (from_pairs P) u.
Proof.
  intro H. unfold from_pairs. rewrite level_app. unfold level. rewrite !map_map. cbn [fst snd].
  induction P as [|p P IH]; [cbn; lia|]. cbn [map]. unfold sumZ in *. cbn [fold_right].
  specialize (IH (fun q Hq => H q (or_intror Hq))). specialize (H p (or_introl eq_refl)).
  destruct (fst p <=? u) eqn:E1, (snd p <=? u) eqn:E2; lia.
Qed.

Lemma from_pairs_sum P : sumZ (map snd (from_pairs P)) = 0.
Proof.
  unfold from_pairs. rewrite map_app, sumZ_app, !map_map. cbn [snd].
  induction P as [|p P IH]; [reflexivity|]. cbn [map]. unfold sumZ in *. cbn [fold_right]. lia.
Qed.

Lemma sumZ_perm l l' : Permutation l l' -> sumZ l = sumZ l'.
Proof. unfold sumZ. induction 1; cbn [fold_right]; lia. Qed.

Theorem series_ends_zero P rows' : Permutation (from_pairs P) rows' -> rows' <> [] -> last (psums 0 rows') 0 = 0.
Proof.
  intros Hp Hne. rewrite psums_last by exact Hne.
  rewrite <- (sumZ_perm _ _ (Permutation_map snd Hp)). rewrite from_pairs_sum. reflexivity.
Qed.

Theorem series_row_count P rows' : Permutation (from_pairs P) rows' ->
  List.length (psums 0 rows') = (2 * List.length P)%nat.
Proof.
  intro Hp. rewrite psums_length. rewrite <- (Permutation_length Hp). unfold from_pairs.
  rewrite app_length, !map_length. simpl. rewrite Nat.add_0_r. reflexivity.
Qed.

(* ================= no row is negative ================= *)
(* refined time: launches of instant t at 2t, starts of instant t at 2t+1 *)
Definition refine (x : row) : row := (2 * fst x + (if snd x =? 1 then 0 else 1), snd x).
Definition at_time (u : Z) (l : list row) : Z := sumZ (map (fun y => if fst y =? u then snd y else 0) l).

Lemma sum_split_at u l : (forall y, In y l -> fst y <= u) -> sumZ (map snd l) = level l (u - 1) + at_time u l.
Proof.
  unfold level, at_time, sumZ. induction l as [|y l IH]; intro H; [reflexivity|]. cbn [map fold_right].
  rewrite IH by (intros z Hz; apply H; right; exact Hz). specialize (H y (or_introl eq_refl)).
  destruct (fst y <=? u - 1) eqn:E1, (fst y =? u) eqn:E2; lia.
Qed.

Lemma level_at u l : (forall y, In y l -> u <= fst y) -> level l u = at_time u l.
Proof.
  unfold level, at_time, sumZ. induction l as [|y l IH]; intro H; [reflexivity|]. cbn [map fold_right].
  rewrite IH by (intros z Hz; apply H; right; exact Hz). specialize (H y (or_introl eq_refl)).
  destruct (fst y <=? u) eqn:E1, (fst y =? u) eqn:E2; lia.
Qed.

Lemma at_time_sign u l s : (forall y, In y l -> fst y = u -> snd y = s) -> at_time u l = s * count (fun y => fst y =? u) l.
Proof.
  unfold at_time, sumZ. induction l as [|y l IH]; intro H; [cbn; lia|]. cbn [map fold_right]. rewrite count_cons.
  rewrite IH by (intros z Hz; apply H; right; exact Hz). specialize (H y (or_introl eq_refl)).
  destruct (fst y =? u) eqn:E; [rewrite H by lia; lia | lia].
Qed.

Lemma sorted_prefix_le (pre : list row) x post :
  sorted_time (pre ++ x :: post) ->
  (forall y, In y (pre ++ [x]) -> fst y <= fst x) /\ (forall y, In y post -> fst x <= fst y).
Proof.
  induction pre as [|z pre IH]; intro Hs; simpl in Hs.
  - inversion Hs as [|? ? _ Hall]; subst. rewrite Forall_forall in Hall. split.
    + intros y [Hy|[]]. subst. lia.
    + intros y Hy. apply Hall. exact Hy.
  - inversion Hs as [|? ? Hs' Hall]; subst. destruct (IH Hs') as [H1 H2]. split; [|exact H2].
    intros y [Hy|Hy]; [|apply H1; exact Hy]. subst. rewrite Forall_forall in Hall. apply Hall.
    apply in_or_app. right. left. reflexivity.
Qed.

Lemma refine_from_pairs P :
  map refine (from_pairs P) = from_pairs (map (fun p : pair => (2 * fst p, 2 * snd p + 1)) P).
Proof.
  unfold from_pairs. rewrite map_app, !map_map. f_equal; apply map_ext; intro p; unfold refine; cbn [fst snd];
    try change (1 =? 1) with true; try change (-1 =? 1) with false; cbv iota; f_equal; lia.
Qed.

(* rows: +-1 rows; rows' any permutation of them whose refined times are sorted (i.e. sorted by time with the
   launches of an instant before its starts); P: the pairs behind the rows, each launch no later than its start *)
Theorem series_nonneg P rows' :
  Permutation (from_pairs P) rows' -> (forall p, In p P -> fst p <= snd p) ->
  sorted_time (map refine rows') ->
  forall v, In v (psums 0 rows') -> 0 <= v.
Proof.
  intros Hp Hc Hs v Hv. apply psums_In in Hv. destruct Hv as [pre [x [post [E Hv]]]]. subst v rows'.
  (* everything happens on the refined rows; deltas are unchanged *)
  assert (Hd : forall l, map snd (map refine l) = map snd l) by (intro l; rewrite map_map; reflexivity).
  rewrite <- Hd. rewrite map_app in *. cbn [map] in *.
  set (pre' := map refine pre) in *. set (post' := map refine post) in *. set (x' := refine x) in *.
  destruct (sorted_prefix_le pre' x' post' Hs) as [Hle Hge].
  set (u := fst x') in *.
  (* all rows are +-1 and their refined time encodes the sign *)
  assert (Hpm : forall y, In y (pre ++ x :: post) -> snd y = 1 \/ snd y = -1).
  { intros y Hy. apply Permutation_sym in Hp. apply (Permutation_in _ Hp) in Hy. unfold from_pairs in Hy.
    apply in_app_or in Hy. destruct Hy as [Hy|Hy]; apply in_map_iff in Hy; destruct Hy as [p [Hy _]]; subst y; simpl; auto. }
  assert (Hsign : forall y, In y (pre ++ x :: post) -> snd (refine y) = if Z.even (fst (refine y)) then 1 else -1).
  { intros y Hy. destruct (Hpm y Hy) as [E|E]; unfold refine; cbn [fst snd]; rewrite E.
    - change (1 =? 1) with true. cbv iota. rewrite Z.add_0_r, Z.even_mul. reflexivity.
    - change (-1 =? 1) with false. cbv iota. rewrite Z.add_comm, Z.even_add_mul_2. reflexivity. }
  (* level of the refined rows is non-negative at every time *)
  assert (Hlev : forall w, 0 <= level (pre' ++ x' :: post') w).
  { intro w. unfold pre', post', x'. change (map refine pre ++ refine x :: map refine post) with (map refine pre ++ map refine (x :: post)).
    rewrite <- map_app. rewrite <- (level_perm _ _ w (Permutation_map refine Hp)).
    rewrite refine_from_pairs. apply level_from_pairs_nonneg. intros q Hq. apply in_map_iff in Hq. destruct Hq as [p [Hq Hp']]. subst q.
    cbn [fst snd]. specialize (Hc p Hp'). lia. }
  destruct (Z.even u) eqn:Ev.
  - (* a launch instant: the rows of this instant seen so far only add *)
    rewrite (sum_split_at u (pre' ++ [x'])) by exact Hle.
    assert (H1 : level (pre' ++ [x']) (u - 1) = level (pre' ++ x' :: post') (u - 1)).
    { replace (pre' ++ x' :: post') with ((pre' ++ [x']) ++ post') by (rewrite <- app_assoc; reflexivity).
      rewrite (level_app (pre' ++ [x']) post'). rewrite (level_before post'); [lia|]. intros r Hr. specialize (Hge r Hr). lia. }
    rewrite H1. specialize (Hlev (u - 1)).
    rewrite (at_time_sign u (pre' ++ [x']) 1).
    + pose proof (count_nonneg (fun y : row => fst y =? u) (pre' ++ [x'])). lia.
    + intros y Hy Eu. unfold pre', x' in Hy.
      change (map refine pre ++ [refine x]) with (map refine pre ++ map refine [x]) in Hy. rewrite <- map_app in Hy.
      apply in_map_iff in Hy. destruct Hy as [y0 [Ey Hy0]]. subst y.
      rewrite Hsign; [rewrite Eu, Ev; reflexivity|].
      apply in_app_or in Hy0. apply in_or_app. destruct Hy0 as [H|[H|[]]]; [left; exact H | right; left; exact H].
  - (* a start instant: the rows of this instant still to come only subtract *)
    assert (H2 : level (pre' ++ x' :: post') u = sumZ (map snd (pre' ++ [x'])) + at_time u post').
    { replace (pre' ++ x' :: post') with ((pre' ++ [x']) ++ post') by (rewrite <- app_assoc; reflexivity).
      rewrite (level_app (pre' ++ [x']) post'). rewrite level_after by exact Hle. rewrite (level_at u post') by exact Hge. reflexivity. }
    specialize (Hlev u). rewrite H2 in Hlev.
    rewrite (at_time_sign u post' (-1)) in Hlev.
    + pose proof (count_nonneg (fun y : row => fst y =? u) post'). lia.
    + intros y Hy Eu. unfold post' in Hy. apply in_map_iff in Hy. destruct Hy as [y0 [Ey Hy0]]. subst y.
      rewrite Hsign; [rewrite Eu, Ev; reflexivity|]. apply in_or_app. right. right. exact Hy0.
Qed.

(* ================= the model's sort puts launches first inside an instant ================= *)
Definition rowz (x : qrow) : row := (q_ts x, q_delta x).

Lemma insert_q_perm x l : Permutation (x :: l) (insert_q x l).
Proof.
  induction l as [|y r IH]; simpl; [apply Permutation_refl|].
  destruct (q_lt x y); [apply Permutation_refl|].
  eapply perm_trans; [apply perm_swap | apply perm_skip; exact IH].
Qed.
Lemma sort_q_perm l : Permutation l (sort_q l).
Proof.
  induction l as [|x l IH]; simpl; [constructor|].
  eapply perm_trans; [apply perm_skip; exact IH | apply insert_q_perm].
Qed.

Definition pm1 (l : list qrow) : Prop := forall x, In x l -> q_delta x = 1 \/ q_delta x = -1.

Lemma refine_le x y : (q_delta x = 1 \/ q_delta x = -1) -> (q_delta y = 1 \/ q_delta y = -1) ->
  (if q_lt x y then fst (refine (rowz x)) <= fst (refine (rowz y)) else fst (refine (rowz y)) <= fst (refine (rowz x))).
Proof.
  intros Hx Hy. unfold q_lt, refine, rowz. cbn [fst snd].
  destruct Hx as [Ex|Ex], Hy as [Ey|Ey]; rewrite Ex, Ey;
    try change (1 =? 1) with true; try change (-1 =? 1) with false; cbv iota;
    destruct ((q_ts x <? q_ts y) || (q_ts x =? q_ts y) && _) eqn:E; lia.
Qed.

Lemma insert_q_sorted x l : pm1 (x :: l) ->
  sorted_time (map (fun y => refine (rowz y)) l) -> sorted_time (map (fun y => refine (rowz y)) (insert_q x l)).
Proof.
  induction l as [|y r IH]; intros Hpm Hs; cbn [insert_q map]; [constructor; constructor|].
  cbn [map] in Hs. inversion Hs as [|? ? Hs' Hall]; subst.
  pose proof (refine_le x y (Hpm x (or_introl eq_refl)) (Hpm y (or_intror (or_introl eq_refl)))) as Hxy.
  destruct (q_lt x y) eqn:E.
  - cbn [map]. constructor; [exact Hs|]. constructor; [exact Hxy|].
    eapply Forall_impl; [|exact Hall]. intros a Ha. cbv beta in Ha. lia.
  - cbn [map]. constructor.
    + apply IH; [|exact Hs']. intros z Hz. apply Hpm. destruct Hz as [Hz|Hz]; [left; exact Hz | right; right; exact Hz].
    + assert (Hp := insert_q_perm x r). rewrite Forall_forall in *. intros a Ha.
      apply in_map_iff in Ha. destruct Ha as [a0 [Ea Ha0]]. subst a.
      apply Permutation_sym in Hp. apply (Permutation_in _ Hp) in Ha0.
      destruct Ha0 as [Ha0|Ha0]; [subst; exact Hxy|].
      apply Hall. apply in_map_iff. exists a0. split; [reflexivity | exact Ha0].
Qed.

Theorem sort_q_sorted l : pm1 l -> sorted_time (map (fun y => refine (rowz y)) (sort_q l)).
Proof.
  induction l as [|x l IH]; intro Hpm; simpl; [constructor|].
  apply insert_q_sorted.
  - intros z Hz. destruct Hz as [Hz|Hz]; [subst; apply Hpm; left; reflexivity|].
    apply Hpm. right. apply Permutation_sym in Hz || idtac.
    pose proof (sort_q_perm l) as Hp. apply Permutation_sym in Hp. eapply Permutation_in; eauto.
  - apply IH. intros z Hz. apply Hpm. right. exact Hz.
Qed.

Lemma cumsum_psums acc l : map snd (cumsum acc l) = psums acc (map rowz l).
Proof. revert acc. induction l as [|x l IH]; intro acc; simpl; [reflexivity | rewrite IH; reflexivity]. Qed.

(* ================= counter events: unshifted timestamps ================= *)
Theorem counter_events_unshift (c ts_file : Z) : (ts_file - c) + c = ts_file.
Proof. lia. Qed.

(* ================= memory bandwidth ================= *)
(* copies as (start, end, bw) with start < end (a zero-length copy counts as one time unit) *)
Definition copy := (Z * Z * Z)%type.
Definition copy_rows (C : list copy) : list row :=
  map (fun c => (fst (fst c), snd c)) C ++ map (fun c => (snd (fst c), - snd c)) C.
Definition active_bw (C : list copy) (t : Z) : Z :=
  sumZ (map (fun c => if (fst (fst c) <=? t) && (t <? snd (fst c)) then snd c else 0) C).

Lemma level_copy_rows C t : (forall c, In c C -> fst (fst c) < snd (fst c)) -> level (copy_rows C) t = active_bw C t.
Proof.
  intro H. unfold copy_rows. rewrite level_app. unfold level, active_bw, sumZ. rewrite !map_map. cbn [fst snd].
  induction C as [|c C IH]; [reflexivity|]. cbn [map fold_right].
  rewrite <- IH by (intros d Hd; apply H; right; exact Hd). specialize (H c (or_introl eq_refl)).
  destruct (fst (fst c) <=? t) eqn:E1, (snd (fst c) <=? t) eqn:E2, (t <? snd (fst c)) eqn:E3; cbn [andb]; lia.
Qed.

Theorem bw_value_at_instant C rows' pre x post :
  (forall c, In c C -> fst (fst c) < snd (fst c)) ->
  Permutation (copy_rows C) rows' -> rows' = pre ++ x :: post -> sorted_time rows' ->
  (forall y, In y post -> fst x < fst y) ->
  sumZ (map snd (pre ++ [x])) = active_bw C (fst x).
Proof.
  intros Hc Hp E Hs Hpost. rewrite (value_at_instant (copy_rows C) rows' pre x post) by assumption.
  apply level_copy_rows. exact Hc.
Qed.

Theorem bw_nonneg_at_instants C t : (forall c, In c C -> 0 <= snd c) -> 0 <= active_bw C t.
Proof.
  intro H. unfold active_bw, sumZ. induction C as [|c C IH]; [cbn; lia|]. cbn [map fold_right].
  specialize (IH (fun d Hd => H d (or_intror Hd))). specialize (H c (or_introl eq_refl)).
  destruct ((fst (fst c) <=? t) && (t <? snd (fst c))); lia.
Qed.
