From Coq Require Import Sorted.
From HTA.lib Require Import Base.
From HTA.gen Require Import Cmp_gen.
From HTA.model Require Import C03_Model C13_Model C16_Model.
Open Scope list_scope.
Open Scope Z_scope.

Lemma list_eqb_eq a : forall b, list_eqb a b = true <-> a = b.
Proof.
  induction a as [|x a IH]; intros [|y b]; simpl; split; intro H; try reflexivity; try discriminate.
  - apply andb_prop in H. destruct H as [H1 H2]. apply String.eqb_eq in H1. apply IH in H2. subst. reflexivity.
  - inversion H; subst. rewrite String.eqb_refl. apply IH. reflexivity.
Qed.

Lemma dedup_p_In l x : In x (dedup_p l) <-> In x l.
Proof.
  induction l as [|y l IH]; simpl; [tauto|]. destruct (existsb (list_eqb y) l) eqn:E.
  - rewrite IH. split; [auto|]. intros [H|H]; [|exact H]. subst. apply existsb_exists in E. destruct E as [z [Hz Ez]].
    apply list_eqb_eq in Ez. subst. exact Hz.
  - simpl. rewrite IH. tauto.
Qed.

Lemma dedup_p_NoDup l : NoDup (dedup_p l).
Proof.
  induction l as [|y l IH]; simpl; [constructor|]. destruct (existsb (list_eqb y) l) eqn:E; [exact IH|].
  constructor; [|exact IH]. rewrite dedup_p_In. intro H.
  assert (existsb (list_eqb y) l = true) by (apply existsb_exists; exists y; split; [exact H | apply list_eqb_eq; reflexivity]). congruence.
Qed.

(* one row per distinct pattern; its count is the number of instances with that pattern, its durations are the sums
   over those instances *)
Theorem counts_and_durations is :
  NoDup (map (fun r => fst (fst (fst r))) (patterns is)) /\
  (forall p, In p (map (fun r => fst (fst (fst r))) (patterns is)) <-> exists i, In i is /\ i_pat i = p) /\
  (forall p c g u, In (p, c, g, u) (patterns is) ->
     c = Z.of_nat (List.length (filter (fun i => list_eqb (i_pat i) p) is)) /\
     g = sumZ (map i_gpu (filter (fun i => list_eqb (i_pat i) p) is)) /\
     u = sumZ (map i_cpu (filter (fun i => list_eqb (i_pat i) p) is)) /\ 0 < c).
Proof.
  unfold patterns. rewrite map_map. cbn [fst]. rewrite map_id. split; [apply dedup_p_NoDup|]. split.
  - intro p. rewrite dedup_p_In, in_map_iff. split; intros [i [H1 H2]]; exists i; tauto.
  - intros p c g u H. apply in_map_iff in H. destruct H as [p' [E Hp]]. inversion E; subst. unfold pat_count, pat_gpu, pat_cpu, count.
    repeat split. apply (proj1 (dedup_p_In _ _)) in Hp. apply in_map_iff in Hp. destruct Hp as [i [Hi Hin]].
    assert (In i (filter (fun i0 => list_eqb (i_pat i0) p) is)) by (apply filter_In; split; [exact Hin | apply list_eqb_eq; exact Hi]).
    destruct (filter (fun i0 => list_eqb (i_pat i0) p) is); [destruct H | simpl; lia].
Qed.

(* the instances considered: exactly the matching rows at the shallowest depth that launch enough kernels; each
   contributes its name followed by the names of the device activities beneath it in start order *)
Lemma insert_k_sorted x l : Sorted.StronglySorted (fun a b => ts a <= ts b) l -> Sorted.StronglySorted (fun a b => ts a <= ts b) (insert_k x l).
Proof.
  induction l as [|y r IH]; intro Hs; simpl; [constructor; constructor|].
  inversion Hs as [|? ? Hs' Hall]; subst. destruct (ts x <? ts y) eqn:E.
  - constructor; [exact Hs|]. constructor; [lia|]. eapply Forall_impl; [|exact Hall]. intros a Ha. simpl in Ha. lia.
  - constructor; [apply IH; exact Hs'|].
    assert (Hp : forall a, In a (insert_k x r) -> a = x \/ In a r).
    { clear. induction r as [|z r IHr]; simpl; intros a Ha; [destruct Ha as [Ha|[]]; auto|].
      destruct (ts x <? ts z); simpl in Ha; [destruct Ha as [Ha|[Ha|Ha]]; auto|]. destruct Ha as [Ha|Ha]; [auto|]. destruct (IHr a Ha); auto. }
    rewrite Forall_forall in *. intros a Ha. destruct (Hp a Ha) as [E'|Hr]; [subst; lia | apply Hall; exact Hr].
Qed.

Theorem pattern_in_start_order l : Sorted.StronglySorted (fun a b => ts a <= ts b) (sort_k l).
Proof. induction l as [|x l IH]; simpl; [constructor | apply insert_k_sorted; exact IH]. Qed.
