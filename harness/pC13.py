"""C13: call-graph attributes (depth, height, kernel totals) agree with the tree."""
import random
import tracegen
import framework as fw
import translate

ID = "C13"
COQ_IMPORTS = ["From HTA.model Require Import C13_Model.", "From HTA.proof Require Import C13_Proofs."]
SOURCES = {"hta/common/trace_call_graph.py": ["_build_call_stacks", "_connect_stacks", "_link_main_and_bwd_stacks", "_normalize_stack_columns"],
           "hta/common/trace_call_stack.py": ["_link_cpu_and_gpu", "update_parent_of_first_layer_nodes", "_update_parent", "_compute_depth", "_compute_height",
                                              "_add_kernel_info_to_cpu_ops", "_save_call_stack_to_df", "_construct_call_stack_graph"],
           "hta/common/trace.py": ["get_cpu_gpu_correlation"]}
TRANSLATE = [translate.gen_cmp]
INPUT_CONTRACT = True        # the loaded frame is re-checked against the file (framework.input_contract)
N_CASES = {"quick": 250, "thorough": 4000}
RULE = ("generated well-formed file sets loaded through the public entry point (epoch offsets, so timestamps are shifted): 1-3 host threads, launch calls at several "
        "depths with and without device partner, orphan kernels, profiler steps, '## backward ##' annotations, an autograd thread in a third of the cases; no "
        "zero-duration host events (C03's known finding is kept out of C13); compared: all eight stack columns of every row of "
        "CallGraph(trace).trace_data.get_trace(rank) with the model, and the local equations of the verified checker (C13_local_equations_sound) on the "
        "implementation's columns; non-trivial = a host event at depth >= 1 with num_kernels >= 2; distinct = hash of the file set")
ASSUMPTIONS = ["host threads are properly nested without zero-duration events (C03 covers those)",
               "a rank with two threads labelled main (profiler steps) or two labelled bwd (autograd) and no third: the code links the two, the property is silent; "
               "only the checker's equations are demanded there, not the model's tree",
               "thread ids are non-zero for host threads that hold more than synchronisation records (a thread with tid 0 shares its root id with event 0)"]
COLS = ["parent", "depth", "height", "num_kernels", "kernel_dur_sum", "first_kernel_start", "last_kernel_end", "kernel_span"]


def gen_cases(seed, tier, n):
    out = []
    profs = ["cgraph", "cgraph_bwd", "cgraph", "cgraph", "cgraph_bwd", "cgraph", "cgraph", "cgraph_big"]
    for i in range(n):
        c = tracegen.gen_case(seed, i, tracegen.PROFILES[profs[i % len(profs)]])
        c["params"] = {}
        if i % 8 == 6:
            fw.set_quarter_us(c)           # quarter-microsecond resolution (framework.resolution)
        if i % 7 == 3:
            import random as _r
            tracegen.add_second_process(c, _r.Random(seed * 15485863 + i))     # two processes, same thread id
        if i % 6 == 5:
            import random as _r
            import pC03
            pC03._mixed_last_group(c, _r.Random(seed * 104729 + i))          # the last (pid, tid) group mixes rows with and without a stream
        if i % 9 == 4:
            tracegen.huge_thread_ids(c)                                      # pthread-style thread ids far beyond 2**31
        out.append(c)
    return out


TIMECOLS = ("kernel_dur_sum", "first_kernel_start", "last_kernel_end", "kernel_span")


def _row(rec, k=1):
    """one table row; k: time scale of a quarter-microsecond case (the sentinel -1 of the two instants is not a time)"""
    row = [fw.as_int(rec["index"])]
    for c in COLS:
        if k != 1 and c in TIMECOLS and rec[c] != -1:
            v = fw.as_int(rec[c] * k)
        else:
            v = fw.as_int(rec[c])
        if c == "parent" and v < 0:
            v = -1
        row.append(v)
    return row


def run_impl(case, d):
    with fw.resolution(case):
        return _run_impl(case, d)


def _run_impl(case, d):
    from hta.common.trace_call_graph import CallGraph
    k = fw.time_scale(case)
    ta, paths = fw.load_case_res(case, d)
    sym = ta.t.symbol_table.get_sym_table()
    ranks = sorted(ta.t.get_ranks())
    out = {}
    frames = {}
    try:
        cg = CallGraph(ta.t, ranks=ranks)
        for r in ranks:
            df = cg.trace_data.get_trace(r)
            frames[r] = fw.dump_frame_res(case, df, sym)
            rows = []
            for rec in df.to_dict("records"):
                rows.append(_row(rec, k))
            out[r] = sorted(rows)
        # a second CallGraph over the same loaded trace (what two analyses in a row do) must report the same columns
        cg2 = CallGraph(ta.t, ranks=ranks)
        second = {}
        for r in ranks:
            df = cg2.trace_data.get_trace(r)
            rows = []
            for rec in df.to_dict("records"):
                rows.append(_row(rec, k))
            second[r] = sorted(rows)
        out["second"] = {r: [(a, b_) for a, b_ in zip(out[r], second[r]) if a != b_][:3] for r in ranks}
        # the other observable: get_stack_of_node(idx) = the node, its descendants and (unless skipped) its ancestors, with the table's columns
        import random as _random
        rng = _random.Random(len(ranks) * 1000 + sum(len(out[r]) for r in ranks))
        stacks = {}
        for r in ranks:
            hosts = [x for x in out[r] if x[2] >= 0 and frames[r][0] is not None]
            ev = {x["idx"]: x for x in frames[r]}
            hosts = [x for x in hosts if ev[x[0]]["stream"] < 0]
            picks = rng.sample(hosts, min(3, len(hosts)))
            res = []
            for x in picks:
                for skip in (False, True):
                    try:
                        sdf = cg2.get_stack_of_node(x[0], rank=r, skip_ancestors=skip)
                        rows_ = []
                        for rec in sdf.to_dict("records"):
                            rows_.append(_row(rec, k))
                        res.append([x[0], skip, sorted(rows_)])
                    except Exception as e:
                        res.append([x[0], skip, "error: " + type(e).__name__ + ": " + str(e)[:160]])
            stacks[r] = res
        out["stacks"] = stacks
    except Exception as e:
        import traceback
        out = {"error": type(e).__name__ + ": " + str(e)[:200] + " @ " + traceback.format_exc()[-300:]}
        for r in ranks:
            frames[r] = fw.dump_frame_res(case, ta.t.get_trace(r), sym)
    return {"frames": frames, "out": out}


def node_table(rows, got):
    """The implementation's columns as the checker's node table (rows that are nodes of the graph)."""
    ev = {r["idx"]: r for r in rows}
    lits = []
    for x in got:
        i, par, dep, hei, nk, ks, kf, kl, sp = x
        if (par, dep, hei) == (-1, -1, -1):
            continue
        e = ev[i]
        lits.append("mkNode " + " ".join(fw.z(v) for v in (i, par)) + " " + fw.b(e["stream"] > 0) + " " +
                    " ".join(fw.z(v) for v in (e["ts"], e["dur"], dep, hei, nk, ks, kf, kl, sp)))
    return "[" + ";\n   ".join(lits) + "]"


def coq_term(case, impl):
    if "error" in impl["out"]:
        return "[" + "; ".join(f"(encode_C13 {fw.evl(rows)}, false)" for r, rows in sorted(impl["frames"].items())) + "]"
    return "[" + ";\n ".join(f"(encode_C13 {fw.evl(rows)}, check_table {node_table(rows, impl['out'][r])})"
                             for r, rows in sorted(impl["frames"].items())) + "]"


def local_equations(rows, table):
    """The verified checker's local equations, evaluated on the implementation's columns (table: idx -> columns)."""
    bad = []
    ev = {r["idx"]: r for r in rows}
    kids = {}
    for i, t in table.items():
        if t[0] >= 0:
            kids.setdefault(t[0], []).append(i)
    for i, t in table.items():
        par, dep, hei, nk, ks, kf, kl, sp = t
        e = ev[i]
        if dep == -1 and hei == -1 and par == -1:
            continue          # not a node of the graph (unlinked device activity, GPU-thread event)
        dev = e["stream"] > 0
        if par >= 0 and table[par][1] + 1 != dep:
            bad.append(f"idx {i}: depth {dep}, parent {par} has depth {table[par][1]}")
        if par < 0 and dep != 0:
            bad.append(f"idx {i}: top-level node with depth {dep}")
        if dev:
            if hei != 0:
                bad.append(f"idx {i}: device activity with height {hei}")
            if par != e["icorr"]:
                bad.append(f"idx {i}: device activity linked to {e['icorr']} but child of {par}")
            if [nk, ks, kf, kl, sp] != [1, e["dur"], e["ts"], e["ts"] + e["dur"], e["dur"]]:
                bad.append(f"idx {i}: device activity reports kernel columns {[nk, ks, kf, kl, sp]} for ts={e['ts']} dur={e['dur']}")
            continue
        ch = kids.get(i, [])
        want_h = 1 + max([0] + [table[c][2] for c in ch])
        if hei != want_h:
            bad.append(f"idx {i}: height {hei}, children heights {[table[c][2] for c in ch]}")
        cnt = sum(1 if ev[c]["stream"] > 0 else table[c][3] for c in ch)
        dsum = sum(ev[c]["dur"] if ev[c]["stream"] > 0 else table[c][4] for c in ch)
        firsts = [ev[c]["ts"] if ev[c]["stream"] > 0 else table[c][5] for c in ch if ev[c]["stream"] > 0 or table[c][3] > 0]
        lasts = [ev[c]["ts"] + ev[c]["dur"] if ev[c]["stream"] > 0 else table[c][6] for c in ch if ev[c]["stream"] > 0 or table[c][3] > 0]
        want = [cnt, dsum, min(firsts), max(lasts), max(lasts) - min(firsts)] if cnt > 0 else [0, 0, -1, -1, 0]
        if [nk, ks, kf, kl, sp] != want:
            bad.append(f"idx {i}: (num_kernels, kernel_dur_sum, first_kernel_start, last_kernel_end, kernel_span) = {[nk, ks, kf, kl, sp]}, its children give {want}")
    return bad


def _has_zero_host(rows):
    return any(r["stream"] < 0 and r["dur"] == 0 and r["cat"] != "cuda_sync" for r in rows)


def _unspecified_attachment(rows):
    """the property fixes the attachment only for exactly one thread holding profiler steps plus exactly one autograd thread (and the
    code attaches nothing unless exactly two threads are labelled main / bwd): two 'main' or two 'bwd' threads are linked by the code
    in a way the property does not speak about -- there only the verified checker's equations are demanded"""
    th = {}
    for r in rows:
        th.setdefault((r["pid"], r["tid"]), []).append(r["name"])
    n_main = sum(1 for v in th.values() if any(n.startswith("ProfilerStep#") for n in v))
    n_bwd = sum(1 for v in th.values() if not any(n.startswith("ProfilerStep#") for n in v) and any("autograd::" in n for n in v))
    return n_main + n_bwd == 2 and (n_main, n_bwd) != (1, 1)


def compare(case, impl, model):
    o = impl["out"]
    if "error" in o:
        return ["CallGraph raised " + o["error"]]
    disc = []
    for r, dd in (o.get("second") or {}).items():
        if dd:
            disc.append(f"rank {r}: a second CallGraph over the same trace reports different stack columns (first, second): {dd[:2]}")
    for r, res in (o.get("stacks") or {}).items():
        table = {x[0]: x for x in o[r]}
        kids = {}
        for x in o[r]:
            if x[1] >= 0:
                kids.setdefault(x[1], []).append(x[0])
        for i, skip, rows_ in res:
            if isinstance(rows_, str):
                disc.append(f"rank {r}: get_stack_of_node({i}, skip_ancestors={skip}) raised {rows_}")
                continue
            want = {i}
            todo = [i]
            while todo:
                c = todo.pop()
                for k in kids.get(c, []):
                    if k not in want:
                        want.add(k)
                        todo.append(k)
            if not skip:
                a = table[i][1]
                seen = set()
                while a >= 0 and a in table and a not in seen:
                    seen.add(a)
                    want.add(a)
                    a = table[a][1]
            got_ids = sorted(x[0] for x in rows_)
            if got_ids != sorted(want):
                disc.append(f"rank {r}: get_stack_of_node({i}, skip_ancestors={skip}) returns events {got_ids[:12]}, the node with its descendants"
                            f"{'' if skip else ' and ancestors'} in the table is {sorted(want)[:12]}")
            elif any(x != table[x[0]] for x in rows_):
                bad = [(x, table[x[0]]) for x in rows_ if x != table[x[0]]][:2]
                disc.append(f"rank {r}: get_stack_of_node({i}) reports columns that differ from the table: {bad}")
    for (r, rows), (m, checker_ok) in zip(sorted(impl["frames"].items()), model):
        got = o[r]
        if not checker_ok:
            disc.append(f"rank {r}: the verified checker (check_table, evaluated in Coq) rejects the implementation's stack columns")
        table = {x[0]: x[1:] for x in got}
        disc += [f"rank {r}: " + b for b in local_equations(rows, table)[:3]]
        if [list(x) for x in m] != got and not _unspecified_attachment(rows):
            mm = {x[0]: list(x[1:]) for x in m}
            # rows of a (pid, tid) group that mixes rows with and without a stream are neither a host thread nor a stream: the property
            # says nothing about them (the code builds a stack of its own for such a group)
            mixed = _mixed_ids(rows)
            diff = [(k, table.get(k), mm.get(k)) for k in sorted(set(table) | set(mm)) if table.get(k) != mm.get(k) and k not in mixed][:3]
            if diff:
                disc.append(f"rank {r}: stack columns differ (idx, impl, model; columns {COLS}): {diff}")
    return disc[:8]


def nontrivial(case, impl):
    o = impl["out"]
    if "error" in o:
        return False
    return any(x[2] >= 1 and x[4] >= 2 for k, rows in o.items() if k not in ("second", "stacks") for x in rows)


def _tid0_rows(rows):
    return {r["idx"] for r in rows if r["tid"] == 0 and r["stream"] < 0}


def _mixed_ids(rows):
    grp = {}
    for x in rows:
        grp.setdefault((x["pid"], x["tid"]), set()).add(x["stream"] < 0)
    return {x["idx"] for x in rows if len(grp[(x["pid"], x["tid"])]) == 2}


def classify(case, impl, model, disc):
    """Known finding: a host-side thread whose tid is 0 (the records of 'Context Sync') gets the root id -abs(tid) = 0, which
    is also the id of the first event; matched only if every differing row lies on such a thread or is event 0 itself."""
    o = impl["out"]
    if not disc or "error" in o:
        return None
    for (r, rows), (m, _ok) in zip(sorted(impl["frames"].items()), model):
        t0 = _tid0_rows(rows)
        if (o.get("second") or {}).get(r):
            return None
        got = {x[0]: x[1:] for x in o[r]}
        mm = {x[0]: list(x[1:]) for x in m}
        diff = ({k for k in set(got) | set(mm) if got.get(k) != mm.get(k)} - _mixed_ids(rows)) if not _unspecified_attachment(rows) else set()
        if diff and not t0:
            return None
        if not diff <= (t0 | {0}):
            return None
        # the local equations may only fail on those rows (or on rows whose parent is event 0)
        table = got
        for b in local_equations(rows, table):
            i = int(b.split(":")[0][4:])
            if i not in (t0 | {0}) and table.get(i, [None])[0] != 0:
                return None
    return "C13-thread-id-zero-root-collision"


LEVEL_TEXT = ("Proof (checker soundness): C13_local_equations_sound: any table whose rows satisfy the local equations (depth = parent's + 1; height = 1 + tallest "
              "child, 0 for device activities; kernel totals = join of the children's) reports for every host node the count, summed duration, earliest start, "
              "latest end and span of ALL device activities among its descendants, by induction on the height. The checker is evaluated on every implementation "
              "output; correspondence of all eight stack columns with a hand model (C03's proved builder + linking + backward attachment) after the public "
              "load_traces()."
              " C13_tree_resolution_independent: times multiplied by k > 0 leave the parent relation (host trees, backward attachment, device children) unchanged."
              " C13_kernel_totals_resolution_independent: count unchanged, summed duration and earliest start multiplied by k, latest end multiplied by k or still the sentinel.")
LEVEL_NOTE = ("Hand model of CallGraph; the theorem is about the checker (translation-validation style), not about the recursive traversals themselves, which are "
              "tied to it per run. Attachment of the autograd thread is covered by the correspondence only.")
TECHNIQUE = "Coq proof of a checker (local equations => descendant aggregates, induction on height) + differential correspondence via vm_compute"
