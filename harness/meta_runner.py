"""Run the public getters on a stored case under the current PYTHONHASHSEED and print canonical JSON.
usage: meta_runner.py <case.json> <workdir> <use_mp 0|1> <key order: asc|desc|rot> <delay 0|1>"""
import json
import logging
import math
import os
import sys
import time
import warnings

warnings.filterwarnings("ignore")
sys.path.insert(0, os.path.dirname(os.path.abspath(__file__)))
sys.path.insert(0, os.environ.get("HTA_REPO", "/repo"))
logging.disable(logging.CRITICAL)


def canon(x):
    if isinstance(x, float):
        if math.isnan(x):
            return "nan"
        return round(x, 6)
    if isinstance(x, dict):
        return {str(k): canon(v) for k, v in sorted(x.items(), key=lambda kv: str(kv[0]))}
    if isinstance(x, (list, tuple)):
        return [canon(v) for v in x]
    try:
        import numpy as np
        if isinstance(x, np.integer):
            return int(x)
        if isinstance(x, np.floating):
            return canon(float(x))
    except Exception:
        pass
    return x


def main():
    case = json.load(open(sys.argv[1]))
    d, use_mp, order, delay = sys.argv[2], sys.argv[3] == "1", sys.argv[4], sys.argv[5] == "1"
    case["ranks"] = {int(k): v for k, v in case["ranks"].items()}
    import tracegen
    import hta.common.trace as tr
    from hta.trace_analysis import TraceAnalysis
    paths = tracegen.write_case(case, d)
    keys = sorted(paths)
    if order == "desc":
        keys = keys[::-1]
    elif order == "rot":
        keys = keys[1:] + keys[:1]
    files = {k: paths[k] for k in keys}
    if delay and use_mp:
        # make the workers finish in reverse rank order: wrap the module-level parser before the fork pool is created
        orig = tr.parse_trace_file
        rank_of = {v: k for k, v in files.items()}
        n = len(files)

        def slow(path, cfg=None):
            res = orig(path, cfg)
            time.sleep(0.04 * (n - sorted(rank_of.values()).index(rank_of.get(path, 0))))
            return res
        tr.parse_trace_file = slow
    t = tr.Trace(trace_files=files, trace_dir=d)
    t.load_traces(use_multiprocessing=use_mp)
    ta = TraceAnalysis.__new__(TraceAnalysis)
    ta.t = t
    ranks = sorted(t.get_ranks())
    sym = t.symbol_table.get_sym_table()
    out = {}

    def tryit(name, f):
        try:
            out[name] = canon(f())
        except Exception as e:
            out[name] = "error:" + type(e).__name__

    tryit("rows", lambda: {r: sorted([int(a), sym[int(b)], sym[int(c)], int(dd), int(e)] for a, b, c, dd, e in
                                      zip(t.get_trace(r)["index"], t.get_trace(r)["name"], t.get_trace(r)["cat"], t.get_trace(r)["ts"],
                                          t.get_trace(r)["iteration"])) for r in ranks})
    tryit("symbols", lambda: sorted(sym))
    tryit("bijection", lambda: [len(set(sym)) == len(sym), all(t.symbol_table.sym_index[s] == i for i, s in enumerate(sym)),
                                 len(t.symbol_table.sym_index) == len(sym)])
    tryit("temporal", lambda: ta.get_temporal_breakdown(visualize=False).sort_values("rank").to_dict("records"))
    tryit("overlap", lambda: ta.get_comm_comp_overlap(visualize=False).sort_values("rank").to_dict("records"))
    tryit("launch", lambda: {r: sorted(map(list, df[["correlation", "cpu_duration", "gpu_duration", "launch_delay"]].values.tolist()))
                             for r, df in ta.get_cuda_kernel_launch_stats(ranks=ranks, visualize=False).items()})
    tryit("queue", lambda: {r: df[["ts", "stream", "queue_length"]].values.tolist() for r, df in ta.get_queue_length_time_series(ranks=ranks).items()})
    tryit("bw", lambda: {r: df[["ts", "name", "memory_bw_gbps"]].values.tolist() for r, df in ta.get_memory_bw_time_series(ranks=ranks).items()})
    tryit("idle", lambda: sorted(map(list, ta.get_idle_time_breakdown(ranks=ranks, visualize=False, consecutive_kernel_delay=2)[0]
                                     [["rank", "stream", "idle_category", "idle_time"]].values.tolist()), key=str))
    tryit("steps", lambda: ta.get_profiler_steps())
    tryit("kernel_breakdown", lambda: [df.sort_values(list(df.columns[:2])).to_dict("records") for df in
                                       ta.get_gpu_kernel_breakdown(visualize=False, num_kernels=3)])
    def annot(gpu):
        df = ta.get_gpu_user_annotation_breakdown(use_gpu_annotation=gpu, visualize=False, num_kernels=3)
        return None if df is None else df.sort_values(list(df.columns[:2])).to_dict("records")
    def kernels_with_annotations():
        res = {}
        for r in ranks:
            df = ta.get_gpu_kernels_with_user_annotations(r, expand_names=True, shortern_names=False)
            res[r] = None if df is None else sorted([int(a), str(b)] for a, b in zip(df["index"], df["s_user_annotation"]))
        return res
    tryit("kernels_with_annotations", kernels_with_annotations)
    tryit("gpu_annotation_breakdown", lambda: annot(True))
    tryit("cpu_annotation_breakdown", lambda: annot(False))
    # history: the trace decoded for display (shortened names), then decoded again with the exact strings asked for: the decoded columns
    # are the table's strings, row by row
    def decode_exact():
        t.decode_symbol_ids()
        t.decode_symbol_ids(use_shorten_name=False)
        bad = {}
        for r in ranks:
            df = t.get_trace(r)
            bad[r] = int(sum(1 for a, b, c, dd in zip(df["name"], df["s_name"], df["cat"], df["s_cat"]) if sym[int(a)] != b or sym[int(c)] != dd))
        return bad
    tryit("decode_exact", decode_exact)
    # ranks added to ONE Trace object step by step: ids assigned in an earlier step must not move, every rank must still decode
    def incremental():
        t2 = tr.Trace(trace_files=files, trace_dir=d)
        rk = sorted(files)
        views_ok = []

        def views():
            # the cached Series views, read after every step: id -> string and string -> id are those of the table
            st = t2.symbol_table
            tab = list(st.get_sym_table())
            ser = st.get_sym_table_series()
            views_ok.append(list(ser.index) == list(range(len(tab))) and list(ser) == tab
                            and st.get_symbol_names(list(range(len(tab)))) == dict(enumerate(tab))
                            and st.get_sym_index_series().to_dict() == {s_: i for i, s_ in enumerate(tab)})
        t2.parse_single_rank(rk[0])
        views()
        snap = list(t2.symbol_table.get_sym_table())
        steps_ok = True
        if len(rk) > 1:
            t2.parse_multiple_ranks(rk[1:2], use_multiprocessing=False)
            views()
            steps_ok = steps_ok and list(t2.symbol_table.get_sym_table())[:len(snap)] == snap
            snap = list(t2.symbol_table.get_sym_table())
        if len(rk) > 2:
            t2.parse_multiple_ranks(rk[2:], use_multiprocessing=use_mp)
            views()
            steps_ok = steps_ok and list(t2.symbol_table.get_sym_table())[:len(snap)] == snap
        sy = t2.symbol_table.get_sym_table()
        rows = {}
        for r in rk:
            df = t2.traces[r]
            rows[r] = sorted([int(a), sy[int(b)] if 0 <= int(b) < len(sy) else "<id out of range>", sy[int(c)] if 0 <= int(c) < len(sy) else "<id out of range>"]
                             for a, b, c in zip(df["index"], df["name"], df["cat"]))
        return {"ids_stable": steps_ok, "rows": rows, "views_ok": all(views_ok)}
    tryit("incremental", incremental)
    # two further rank numbers given the file of an existing rank (a rank-to-file map may name one file twice): each of them loads as that
    # file's own rows, whichever way the files are parsed
    def same_file_twice():
        rk = sorted(files)
        src = rk[-1]
        f3 = {k: files[k] for k in keys}
        f3[max(rk) + 1] = files[src]
        f3[max(rk) + 2] = files[rk[0]]
        t3 = tr.Trace(trace_files=f3, trace_dir=d)
        t3.load_traces(use_multiprocessing=use_mp)
        sy = t3.symbol_table.get_sym_table()
        def rows_of(r):
            df = t3.get_trace(r)
            return sorted([int(a), sy[int(b)] if 0 <= int(b) < len(sy) else "<id out of range>", sy[int(c)] if 0 <= int(c) < len(sy) else "<id out of range>"]
                          for a, b, c in zip(df["index"], df["name"], df["cat"]))
        return {"rows": {r: rows_of(r) for r in rk}, "copies": {src: rows_of(max(rk) + 1), rk[0]: rows_of(max(rk) + 2)}}
    tryit("same_file_twice", same_file_twice)
    print("META_RESULT " + json.dumps(out, sort_keys=True))


if __name__ == "__main__":
    main()
