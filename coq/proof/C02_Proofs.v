From HTA.lib Require Import Base.
From HTA.model Require Import Loader_Model.
Open Scope Z_scope.

(* "a correlation id pairs at most one host call with one device activity": an event has at most one
   opposite-side event with its correlation id *)
Definition wf_corr (l : list ev) : Prop :=
  forall e p q, In e l -> In p l -> In q l -> partner_b e p = true -> partner_b e q = true -> p = q.

Lemma partner_b_spec e p :
  partner_b e p = true <-> corr p = corr e /\ corr e <> -1 /\ is_dev p <> is_dev e.
Proof.
  unfold partner_b. rewrite !andb_true_iff, Z.eqb_eq, negb_true_iff, Z.eqb_neq.
  destruct (is_dev p), (is_dev e); simpl; intuition congruence.
Qed.

Lemma partner_b_sym e p : partner_b e p = true -> partner_b p e = true.
Proof. rewrite !partner_b_spec. intros [H1 [H2 H3]]. repeat split; congruence. Qed.

Theorem link_partner l e p :
  wf_corr l -> In e l -> In p l -> partner_b e p = true -> link_of l e = idx p.
Proof.
  intros Hwf He Hp Hb. unfold link_of. destruct (find (partner_b e) l) as [p'|] eqn:F.
  - apply find_some in F. destruct F as [Hp' Hb']. f_equal. apply (Hwf e p' p); auto.
  - pose proof (find_none _ _ F p Hp) as Hn. congruence.
Qed.

Theorem link_mutual l e p :
  wf_corr l -> In e l -> In p l -> partner_b e p = true ->
  link_of l e = idx p /\ link_of l p = idx e.
Proof.
  intros Hwf He Hp Hb. split; [apply link_partner; auto|].
  apply link_partner; auto. apply partner_b_sym. exact Hb.
Qed.

Theorem link_sentinel l e :
  (forall p, In p l -> partner_b e p = false) ->
  link_of l e = Z.min (corr e) 0 /\
  (corr e = -1 -> link_of l e = -1) /\ (0 <= corr e -> link_of l e = 0).
Proof.
  intro Hn. assert (E : link_of l e = Z.min (corr e) 0).
  { unfold link_of. destruct (find (partner_b e) l) as [p|] eqn:F; [|reflexivity].
    apply find_some in F. destruct F as [Hp Hb]. rewrite (Hn p Hp) in Hb. discriminate. }
  rewrite E. repeat split; lia.
Qed.

(* whatever the link is, if positive it names an opposite-side event with the same correlation id *)
Theorem link_never_wrong l e :
  0 < link_of l e ->
  exists p, In p l /\ idx p = link_of l e /\ corr p = corr e /\ corr e <> -1 /\ is_dev p <> is_dev e.
Proof.
  unfold link_of. destruct (find (partner_b e) l) as [p|] eqn:F; [|lia].
  intros _. apply find_some in F. destruct F as [Hp Hb]. apply partner_b_spec in Hb.
  exists p. tauto.
Qed.

(* the link is either a partner's id or one of the two sentinels *)
Theorem link_trichotomy l e :
  (exists p, In p l /\ partner_b e p = true /\ link_of l e = idx p) \/
  (corr e = -1 /\ link_of l e = -1) \/ (0 <= corr e /\ link_of l e = 0) \/ (corr e < -1 /\ link_of l e = corr e).
Proof.
  unfold link_of. destruct (find (partner_b e) l) as [p|] eqn:F.
  - left. apply find_some in F. exists p. tauto.
  - right. destruct (Z.eq_dec (corr e) (-1)); [left; split; lia|].
    destruct (Z_le_gt_dec 0 (corr e)); [right; left; split; lia | right; right; split; lia].
Qed.

(* the frame after linking: same rows, only index_correlation set *)
Theorem link_rows l e' :
  In e' (link l) <-> exists e, In e l /\ e' = set_icorr e (link_of l e).
Proof.
  unfold link. rewrite in_map_iff. split; intros [e [H1 H2]]; exists e; split; auto.
Qed.
