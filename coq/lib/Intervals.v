(* merge_kernel_intervals (hta/utils/utils.py:130-144) and its measure theory.
   Intervals are pairs (s, e) = (ts, ts + dur). *)
From Coq Require Import ZArith List Bool Lia Permutation Sorted.
From HTA.lib Require Import Base Cells.
Open Scope Z_scope.

Notation itv := (Z * Z)%type.

Definition covered (l : list itv) (t : Z) : bool := existsb (fun i => inb (fst i) (snd i) t) l.
Definition cover_count (l : list itv) (t : Z) : Z := sumZ (map (fun i => b2z (inb (fst i) (snd i) t)) l).
Definition total (l : list itv) : Z := sumZ (map (fun i => snd i - fst i) l).
Definition wf_itvs (l : list itv) : Prop := Forall (fun i => fst i <= snd i) l.
Definition sorted_ts (l : list itv) : Prop := StronglySorted (fun a b => fst a <= fst b) l.

(* ---- executable model of merge_kernel_intervals on a ts-sorted list ----
   group := (ts > end.shift().cummax()).cumsum(): a new group starts iff ts is strictly greater
   than the running maximum m of ALL previous ends; group value = (min ts, max end). *)
Fixpoint merge_aux (cs ce m : Z) (l : list itv) : list itv :=
  match l with
  | [] => [(cs, ce)]
  | (s, e) :: r =>
      if m <? s then (cs, ce) :: merge_aux s e (Z.max m e) r
      else merge_aux (Z.min cs s) (Z.max ce e) (Z.max m e) r
  end.

Definition merge_sorted (l : list itv) : list itv :=
  match l with [] => [] | (s, e) :: r => merge_aux s e e r end.

(* a stable insertion sort by ts; the theorems quantify over every ts-sorted permutation *)
Fixpoint insert_ts (x : itv) (l : list itv) : list itv :=
  match l with
  | [] => [x]
  | y :: r => if fst x <? fst y then x :: l else y :: insert_ts x r
  end.
Definition sort_ts (l : list itv) : list itv := fold_right insert_ts [] l.
Definition merge (l : list itv) : list itv := merge_sorted (sort_ts l).

(* ---- sort_ts is a ts-sorted permutation ---- *)
Lemma insert_ts_perm x l : Permutation (x :: l) (insert_ts x l).
Proof.
  induction l as [|y r IH]; simpl; [apply Permutation_refl|].
  destruct (fst x <? fst y); [apply Permutation_refl|].
  eapply Permutation_trans; [apply perm_swap|]. apply perm_skip. exact IH.
Qed.

Lemma sort_ts_perm l : Permutation l (sort_ts l).
Proof.
  induction l as [|x l IH]; simpl; [constructor|].
  eapply Permutation_trans; [apply perm_skip; exact IH | apply insert_ts_perm].
Qed.

Lemma insert_ts_sorted x l : sorted_ts l -> sorted_ts (insert_ts x l).
Proof.
  unfold sorted_ts. induction 1 as [|y r Hs IH Hall]; simpl.
  - constructor; constructor.
  - destruct (fst x <? fst y) eqn:E.
    + constructor; [constructor; assumption|]. constructor; [lia|].
      eapply Forall_impl; [|exact Hall]. intros a Ha. simpl in Ha. lia.
    + constructor; [exact IH|].
      assert (Hp := insert_ts_perm x r).
      eapply Permutation_Forall; [exact Hp|]. constructor; [lia | exact Hall].
Qed.

Lemma sort_ts_sorted l : sorted_ts (sort_ts l).
Proof. induction l as [|x l IH]; simpl; [constructor | apply insert_ts_sorted; exact IH]. Qed.

(* ---- covered / total / wf under permutation ---- *)
Lemma covered_perm l l' t : Permutation l l' -> covered l t = covered l' t.
Proof.
  intro H. unfold covered. induction H as [|x l l' H IH|x y l|l l' l'' H1 IH1 H2 IH2]; simpl.
  - reflexivity.
  - rewrite IH. reflexivity.
  - rewrite !orb_assoc. f_equal. apply orb_comm.
  - congruence.
Qed.

Lemma wf_perm l l' : Permutation l l' -> wf_itvs l -> wf_itvs l'.
Proof. intros H Hw. unfold wf_itvs in *. eapply Permutation_Forall; eassumption. Qed.

Lemma covered_cons i l t : covered (i :: l) t = inb (fst i) (snd i) t || covered l t.
Proof. reflexivity. Qed.

Lemma covered_app l1 l2 t : covered (l1 ++ l2) t = covered l1 t || covered l2 t.
Proof. unfold covered. apply existsb_app. Qed.

Lemma covered_true_iff l t : covered l t = true <-> exists i, In i l /\ fst i <= t < snd i.
Proof.
  unfold covered. rewrite existsb_exists. split; intros [i [Hi H]]; exists i; split; auto;
    unfold inb in *; lia.
Qed.

(* ---- the faithful merge equals the simple one under the invariant m = ce, cs <= all starts ---- *)
Fixpoint smerge_aux (cs ce : Z) (l : list itv) : list itv :=
  match l with
  | [] => [(cs, ce)]
  | (s, e) :: r => if ce <? s then (cs, ce) :: smerge_aux s e r else smerge_aux cs (Z.max ce e) r
  end.

Lemma merge_aux_simple cs ce l :
  wf_itvs l -> sorted_ts ((cs, ce) :: l) -> merge_aux cs ce ce l = smerge_aux cs ce l.
Proof.
  revert cs ce. induction l as [|[s e] r IH]; intros cs ce Hw Hs; simpl; [reflexivity|].
  inversion Hw as [|? ? Hse Hw']; subst. simpl in Hse.
  inversion Hs as [|? ? Hs' Hall]; subst. inversion Hall as [|? ? Hcs Hall']; subst. simpl in Hcs.
  destruct (ce <? s) eqn:E.
  - f_equal. replace (Z.max ce e) with e by lia. apply IH; assumption.
  - replace (Z.min cs s) with cs by lia. apply IH; [assumption|].
    inversion Hs' as [|? ? Hs'' Hall'']; subst. constructor; assumption.
Qed.

(* ---- central measure lemma ---- *)
Lemma smerge_measure lo hi : forall l cs ce,
  wf_itvs l -> sorted_ts ((cs, ce) :: l) -> cs <= ce -> lo <= cs ->
  ce <= hi -> Forall (fun i => snd i <= hi) l ->
  total (smerge_aux cs ce l) = cells (covered ((cs, ce) :: l)) lo hi.
Proof.
  induction l as [|[s e] r IH]; intros cs ce Hw Hs Hc Hlo Hhi Hends.
  - simpl. unfold total; simpl. rewrite (cells_ext _ (inb cs ce)).
    + rewrite cells_interval; lia.
    + intros t _. unfold covered; simpl. apply orb_false_r.
  - inversion Hw as [|? ? Hse Hw']; subst. simpl in Hse.
    inversion Hs as [|? ? Hs' Hall]; subst. inversion Hall as [|? ? Hcs Hall']; subst. simpl in Hcs.
    inversion Hends as [|? ? Hehi Hends']; subst. simpl in Hehi.
    inversion Hs' as [|? ? Hs'' Hall'']; subst.
    cbn [smerge_aux]. destruct (ce <? s) eqn:E.
    + (* new group *)
      change (total ((cs, ce) :: smerge_aux s e r)) with ((ce - cs) + total (smerge_aux s e r)).
      rewrite (IH s e) by (auto; lia).
      rewrite (cells_split (covered ((cs, ce) :: (s, e) :: r)) lo s hi) by lia.
      rewrite (cells_split (covered ((s, e) :: r)) lo s hi) by lia.
      assert (H1 : cells (covered ((cs, ce) :: (s, e) :: r)) lo s = ce - cs).
      { rewrite (cells_ext _ (inb cs ce)); [apply cells_interval; lia|].
        intros t Ht. rewrite covered_cons. simpl fst; simpl snd.
        destruct (covered ((s, e) :: r) t) eqn:Ec; [|apply orb_false_r].
        apply covered_true_iff in Ec. destruct Ec as [i [Hi Hti]].
        destruct Hi as [Hi|Hi]; [subst i; simpl in Hti; lia|].
        rewrite Forall_forall in Hall''. specialize (Hall'' i Hi). simpl in Hall''. lia. }
      assert (H2 : cells (covered ((s, e) :: r)) lo s = 0).
      { apply cells_false. intros t Ht.
        destruct (covered ((s, e) :: r) t) eqn:Ec; [|reflexivity].
        apply covered_true_iff in Ec. destruct Ec as [i [Hi Hti]].
        destruct Hi as [Hi|Hi]; [subst i; simpl in Hti; lia|].
        rewrite Forall_forall in Hall''. specialize (Hall'' i Hi). simpl in Hall''. lia. }
      assert (H3 : cells (covered ((cs, ce) :: (s, e) :: r)) s hi = cells (covered ((s, e) :: r)) s hi).
      { apply cells_ext. intros t Ht. rewrite (covered_cons (cs, ce)). simpl fst; simpl snd.
        replace (inb cs ce t) with false by (unfold inb; lia). reflexivity. }
      lia.
    + (* same group *)
      rewrite (IH cs (Z.max ce e)); try lia; auto.
      * apply cells_ext. intros t _. rewrite !covered_cons. simpl fst; simpl snd.
        rewrite orb_assoc. f_equal. unfold inb. lia.
      * constructor; [assumption|].
        eapply Forall_impl; [|exact Hall'']. intros a Ha. simpl in *. lia.
Qed.

(* ---- structure of the output: groups are well-formed, sorted and separated by a gap > 0 ---- *)
Inductive separated : list itv -> Prop :=
| sep_nil : separated []
| sep_one i : fst i <= snd i -> separated [i]
| sep_cons i j r : fst i <= snd i -> snd i < fst j -> separated (j :: r) -> separated (i :: j :: r).

Lemma smerge_head cs ce l : exists ce' r, smerge_aux cs ce l = (cs, ce') :: r /\ ce <= ce'.
Proof.
  revert ce. induction l as [|[s e] r IH]; intro ce; simpl.
  - exists ce, []. split; [reflexivity | lia].
  - destruct (ce <? s).
    + exists ce, (smerge_aux s e r). split; [reflexivity | lia].
    + destruct (IH (Z.max ce e)) as [ce' [r' [H Hle]]]. exists ce', r'. split; [exact H | lia].
Qed.

Lemma smerge_separated : forall l cs ce,
  wf_itvs l -> cs <= ce -> separated (smerge_aux cs ce l).
Proof.
  induction l as [|[s e] r IH]; intros cs ce Hw Hc; simpl.
  - constructor. exact Hc.
  - inversion Hw as [|? ? Hse Hw']; subst. simpl in Hse.
    destruct (ce <? s) eqn:E.
    + destruct (smerge_head s e r) as [ce' [r' [H Hle]]].
      specialize (IH s e Hw' Hse). rewrite H in *. constructor; simpl; auto; lia.
    + apply IH; [assumption | lia].
Qed.

Lemma smerge_covered : forall l cs ce t,
  wf_itvs l -> sorted_ts ((cs, ce) :: l) -> cs <= ce ->
  covered (smerge_aux cs ce l) t = covered ((cs, ce) :: l) t.
Proof.
  induction l as [|[s e] r IH]; intros cs ce t Hw Hs Hc; simpl; [reflexivity|].
  inversion Hw as [|? ? Hse Hw']; subst. simpl in Hse.
  inversion Hs as [|? ? Hs' Hall]; subst. inversion Hall as [|? ? Hcs Hall']; subst. simpl in Hcs.
  inversion Hs' as [|? ? Hs'' Hall'']; subst.
  destruct (ce <? s) eqn:E.
  - rewrite (covered_cons (cs, ce)). rewrite IH by auto. reflexivity.
  - rewrite IH; try lia; auto.
    + rewrite !covered_cons. simpl fst; simpl snd. rewrite orb_assoc. f_equal. unfold inb. lia.
    + constructor; [assumption|].
      eapply Forall_impl; [|exact Hall'']. intros a Ha. simpl in *. lia.
Qed.

(* first ts / last end of the merged list (the code's iloc[0].ts and iloc[-1].end) *)
Definition first_ts (l : list itv) : Z := match l with [] => 0 | i :: _ => fst i end.
Definition last_end (l : list itv) : Z := snd (last l (0, 0)).

Lemma smerge_first cs ce l : first_ts (smerge_aux cs ce l) = cs.
Proof. destruct (smerge_head cs ce l) as [ce' [r [H _]]]. rewrite H. reflexivity. Qed.

Fixpoint max_end (d : Z) (l : list itv) : Z :=
  match l with [] => d | i :: r => max_end (Z.max d (snd i)) r end.

Lemma max_end_ge d l : d <= max_end d l.
Proof. revert d. induction l as [|i r IH]; intro d; simpl; [lia|]. specialize (IH (Z.max d (snd i))). lia. Qed.

Lemma max_end_mono d d' l : d <= d' -> max_end d l <= max_end d' l.
Proof. revert d d'. induction l as [|i r IH]; intros d d' H; simpl; [lia|]. apply IH. lia. Qed.

Lemma max_end_all d l : Forall (fun i => snd i <= max_end d l) l.
Proof.
  revert d. induction l as [|i r IH]; intro d; simpl; constructor.
  - pose proof (max_end_ge (Z.max d (snd i)) r). lia.
  - apply IH.
Qed.

Lemma max_end_bound d l hi : d <= hi -> Forall (fun i => snd i <= hi) l -> max_end d l <= hi.
Proof.
  revert d. induction l as [|i r IH]; intros d Hd Hall; simpl; [lia|].
  inversion Hall; subst. apply IH; [lia | assumption].
Qed.

Lemma smerge_last_end : forall l cs ce,
  wf_itvs l -> sorted_ts ((cs, ce) :: l) -> cs <= ce ->
  last_end (smerge_aux cs ce l) = max_end ce l.
Proof.
  induction l as [|[s e] r IH]; intros cs ce Hw Hs Hc; simpl; [reflexivity|].
  inversion Hw as [|? ? Hse Hw']; subst. simpl in Hse.
  inversion Hs as [|? ? Hs' Hall]; subst. inversion Hall as [|? ? Hcs Hall']; subst. simpl in Hcs.
  inversion Hs' as [|? ? Hs'' Hall'']; subst.
  destruct (ce <? s) eqn:E.
  - unfold last_end. destruct (smerge_head s e r) as [ce' [r' [H _]]].
    assert (IH' := IH s e Hw' Hs' Hse). unfold last_end in IH'. rewrite H in *.
    simpl last. simpl last in IH'. rewrite IH'. replace (Z.max ce e) with e by lia. reflexivity.
  - apply IH; try lia; auto.
    constructor; [assumption|].
      eapply Forall_impl; [|exact Hall'']. intros a Ha. simpl in *. lia.
Qed.

(* ---- statements for every ts-sorted permutation of the input ---- *)
Definition min_ts (l : list itv) : Z := match l with [] => 0 | i :: r => minZ (fst i) (map fst (i :: r)) end.

Lemma sorted_head_min (i : itv) (l : list itv) :
  sorted_ts (i :: l) -> forall j, In j (i :: l) -> fst i <= fst j.
Proof.
  intros Hs j Hj. inversion Hs as [|? ? _ Hall]; subst.
  destruct Hj as [Hj|Hj]; [subst; lia|]. rewrite Forall_forall in Hall. apply Hall. exact Hj.
Qed.

Theorem merge_sorted_measure l lo hi :
  wf_itvs l -> sorted_ts l -> l <> [] ->
  (forall i, In i l -> lo <= fst i /\ snd i <= hi) ->
  total (merge_sorted l) = cells (covered l) lo hi.
Proof.
  intros Hw Hs Hne Hb. destruct l as [|[s e] r]; [congruence|]. unfold merge_sorted.
  inversion Hw as [|? ? Hse Hw']; subst. simpl in Hse.
  rewrite merge_aux_simple by assumption.
  apply smerge_measure; auto.
  - apply (Hb (s, e)). left. reflexivity.
  - apply (Hb (s, e)). left. reflexivity.
  - rewrite Forall_forall. intros i Hi. apply Hb. right. exact Hi.
Qed.

Theorem merge_sorted_separated l : wf_itvs l -> sorted_ts l -> separated (merge_sorted l).
Proof.
  intros Hw Hs. destruct l as [|[s e] r]; [constructor|]. unfold merge_sorted.
  inversion Hw as [|? ? Hse Hw']; subst. simpl in Hse.
  rewrite merge_aux_simple by assumption. apply smerge_separated; assumption.
Qed.

Theorem merge_sorted_covered l t :
  wf_itvs l -> sorted_ts l -> covered (merge_sorted l) t = covered l t.
Proof.
  intros Hw Hs. destruct l as [|[s e] r]; [reflexivity|]. unfold merge_sorted.
  inversion Hw as [|? ? Hse Hw']; subst. simpl in Hse.
  rewrite merge_aux_simple by assumption. apply smerge_covered; assumption.
Qed.

Theorem merge_sorted_span s e r :
  wf_itvs ((s, e) :: r) -> sorted_ts ((s, e) :: r) ->
  first_ts (merge_sorted ((s, e) :: r)) = s /\
  last_end (merge_sorted ((s, e) :: r)) = max_end e r.
Proof.
  intros Hw Hs. unfold merge_sorted.
  inversion Hw as [|? ? Hse Hw']; subst. simpl in Hse.
  rewrite merge_aux_simple by assumption. split; [apply smerge_first | apply smerge_last_end; assumption].
Qed.

(* total of separated intervals within [lo,hi] is bounded by the span, and is nonnegative *)
Lemma total_cons i l : total (i :: l) = (snd i - fst i) + total l.
Proof. reflexivity. Qed.

(* merged groups stay inside any window that contains the input *)
Lemma smerge_bounds lo hi : forall l cs ce,
  lo <= cs -> ce <= hi -> cs <= ce -> Forall (fun i => lo <= fst i /\ snd i <= hi /\ fst i <= snd i) l ->
  Forall (fun i => lo <= fst i /\ snd i <= hi) (smerge_aux cs ce l).
Proof.
  induction l as [|[s e] r IH]; intros cs ce H1 H2 H3 Hall; simpl.
  - constructor; [simpl; lia | constructor].
  - inversion Hall as [|? ? [Ha [Hb Hc]] Hall']; subst. simpl in Ha, Hb, Hc.
    destruct (ce <? s).
    + constructor; [simpl; lia|]. apply IH; auto.
    + apply IH; auto; lia.
Qed.

Theorem merge_sorted_bounds l lo hi :
  wf_itvs l -> sorted_ts l -> (forall i, In i l -> lo <= fst i /\ snd i <= hi) ->
  forall i, In i (merge_sorted l) -> lo <= fst i /\ snd i <= hi.
Proof.
  intros Hw Hs Hb. destruct l as [|[s e] r]; [intros i []|]. unfold merge_sorted.
  inversion Hw as [|? ? Hse Hw']; subst. simpl in Hse.
  rewrite merge_aux_simple by assumption.
  pose proof (Hb (s, e) (or_introl eq_refl)) as [Hs1 Hs2]. simpl in Hs1, Hs2.
  assert (F : Forall (fun i => lo <= fst i /\ snd i <= hi) (smerge_aux s e r)).
  { apply smerge_bounds; auto. rewrite Forall_forall. intros i Hi.
    unfold wf_itvs in Hw'. rewrite Forall_forall in Hw'.
    specialize (Hb i (or_intror Hi)). specialize (Hw' i Hi). lia. }
  rewrite Forall_forall in F. exact F.
Qed.
