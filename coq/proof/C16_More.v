(* C16, further theorems: which instances are considered, what a pattern is made of, and conservation over the table *)
From Coq Require Import Sorted Permutation.
From HTA.lib Require Import Base.
From HTA.gen Require Import Cmp_gen.
From HTA.model Require Import C03_Model C13_Model C16_Model.
From HTA.proof Require Import C16_Proofs.
Open Scope list_scope.
Open Scope Z_scope.

(* ---- the pattern of an instance is a rearrangement of the device activities beneath it ---- *)
Lemma insert_k_perm x l : Permutation (insert_k x l) (x :: l).
Proof.
  induction l as [|y l IH]; simpl; [apply Permutation_refl|]. destruct (ts x <? ts y); [apply Permutation_refl|].
  apply perm_trans with (y :: x :: l); [apply perm_skip; exact IH | apply perm_swap].
Qed.
Theorem sort_k_perm l : Permutation (sort_k l) l.
Proof.
  induction l as [|x l IH]; simpl; [constructor|]. apply perm_trans with (x :: sort_k l); [apply insert_k_perm | apply perm_skip; exact IH].
Qed.

(* ---- the instances considered ---- *)
Definition cands (l : list ev) (op : string) : list ev := filter (fun e => contains op (name e)) l.
Definition depth16 (l : list ev) (e : ev) : Z :=
  match lookupZ (idx e) (parent_map l) with Some _ => depth_of (S (List.length l)) (parent_map l) (idx e) | None => -1 end.
Definition nk16 (l : list ev) (e : ev) : Z :=
  match lookupZ (idx e) (parent_map l) with
  | Some _ => fst (fst (fst (kinfo_of (S (List.length l)) l (map fst (dev_edges l)) (parent_map l) (2 * maxZ 0 (map ts l)) (idx e))))
  | None => 0 end.
Definition ks16 (l : list ev) (e : ev) : Z :=
  match lookupZ (idx e) (parent_map l) with
  | Some _ => snd (fst (fst (kinfo_of (S (List.length l)) l (map fst (dev_edges l)) (parent_map l) (2 * maxZ 0 (map ts l)) (idx e))))
  | None => 0 end.
Definition kernels_under (l : list ev) (r : ev) : list ev :=
  flat_map (ev_of l) (desc_dev (S (List.length l)) (map fst (dev_edges l)) (parent_map l) (idx r)).
Definition inst_of (l : list ev) (r : ev) : inst :=
  mkInst (name r :: map name (sort_k (kernels_under l r))) (if nk16 l r <=? 0 then 0 else ks16 l r) (dur r).

Lemma minZ_lower d l : forall x, In x l -> minZ d l <= x.
Proof.
  revert d. induction l as [|y l IH]; intros d x H; [destruct H|]. simpl. destruct H as [H|H]; [subst; lia|].
  specialize (IH y x H). lia.
Qed.
Lemma minZ_attained d l : l <> [] -> In (minZ d l) l.
Proof.
  revert d. induction l as [|y l IH]; intros d H; [congruence|]. simpl. destruct l as [|z l'].
  - simpl. left. lia.
  - assert (Hn : z :: l' <> []) by discriminate. specialize (IH y Hn).
    destruct (Z.min_spec y (minZ y (z :: l'))) as [[_ E]|[_ E]]; rewrite E; [left; reflexivity | right; exact IH].
Qed.

(* exactly the matching operator instances at the shallowest depth at which the name occurs that launch at least minlen device
   activities, in trace order; each contributes the instance built from its own subtree *)
Theorem instances_exact l op minlen :
  exists sel, instances l op minlen = map (inst_of l) sel /\
    (forall e, In e sel <->
       In e (cands l op) /\ (forall c, In c (cands l op) -> depth16 l e <= depth16 l c) /\ minlen <= nk16 l e) /\
    (exists keep, sel = filter keep (cands l op)).
Proof.
  unfold instances. fold (cands l op). destruct (cands l op) as [|c0 cs] eqn:Ec.
  - exists []. split; [reflexivity|]. split; [|exists (fun _ => true); reflexivity]. intro e. simpl. tauto.
  - set (dmin := minZ (depth16 l c0) (map (depth16 l) (c0 :: cs))).
    exists (filter (fun e => (depth16 l e =? dmin) && (minlen <=? nk16 l e)) (c0 :: cs)). split; [reflexivity|].
    split; [|eexists; reflexivity]. intro e. rewrite filter_In, andb_true_iff, Z.eqb_eq, Z.leb_le.
    assert (Hlow : forall c, In c (c0 :: cs) -> dmin <= depth16 l c)
      by (intros c Hc; apply minZ_lower; apply in_map; exact Hc).
    assert (Hatt : exists c, In c (c0 :: cs) /\ depth16 l c = dmin).
    { assert (Hin : In dmin (map (depth16 l) (c0 :: cs))) by (apply minZ_attained; discriminate).
      apply in_map_iff in Hin. destruct Hin as [c [E Hc]]. exists c. split; [exact Hc | exact E]. }
    split.
    + intros [Hin [Hd Hn]]. split; [exact Hin|]. split; [|exact Hn]. intros c Hc. rewrite Hd. apply Hlow. exact Hc.
    + intros [Hin [Hd Hn]]. split; [exact Hin|]. split; [|exact Hn]. destruct Hatt as [c [Hc E]].
      specialize (Hd c Hc). specialize (Hlow e Hin). lia.
Qed.

(* ---- conservation over the table: every instance is counted in exactly one row ---- *)
Lemma sumZ_map_add {A} (f g : A -> Z) l : sumZ (map (fun x => f x + g x) l) = sumZ (map f l) + sumZ (map g l).
Proof. induction l as [|x l IH]; [reflexivity|]. cbn [map sumZ fold_right]. fold (sumZ (map f l)) (sumZ (map g l)) (sumZ (map (fun x => f x + g x) l)). lia. Qed.

Lemma indicator_sum (v : Z) (q : list string) ps : NoDup ps -> In q ps ->
  sumZ (map (fun p => if list_eqb q p then v else 0) ps) = v.
Proof.
  induction ps as [|p ps IH]; intros Hnd Hin; [destruct Hin|]. inversion Hnd as [|? ? Hnp Hnd']; subst.
  cbn [map sumZ fold_right]. fold (sumZ (map (fun p => if list_eqb q p then v else 0) ps)).
  destruct (list_eqb q p) eqn:E.
  - apply list_eqb_eq in E. subst p.
    assert (Hz : sumZ (map (fun p => if list_eqb q p then v else 0) ps) = 0).
    { clear IH Hin Hnd Hnd'. induction ps as [|p ps IHp]; [reflexivity|]. cbn [map sumZ fold_right].
      fold (sumZ (map (fun p => if list_eqb q p then v else 0) ps)).
      destruct (list_eqb q p) eqn:E; [apply list_eqb_eq in E; subst p; exfalso; apply Hnp; left; reflexivity|].
      rewrite IHp; [reflexivity|]. intro H. apply Hnp. right. exact H. }
    lia.
  - destruct Hin as [Hin|Hin]; [subst p; assert (list_eqb q q = true) by (apply list_eqb_eq; reflexivity); congruence|].
    rewrite (IH Hnd' Hin). lia.
Qed.

Lemma sum_over_patterns (w : inst -> Z) (ps : list (list string)) : NoDup ps -> forall is,
  (forall i, In i is -> In (i_pat i) ps) ->
  sumZ (map (fun p => sumZ (map w (filter (fun i => list_eqb (i_pat i) p) is))) ps) = sumZ (map w is).
Proof.
  intros Hnd is. induction is as [|x is IH]; intros Hall.
  - clear Hall. simpl. induction ps as [|p ps IHp]; [reflexivity|]. simpl. inversion Hnd; subst. rewrite IHp by assumption. reflexivity.
  - assert (Hx : In (i_pat x) ps) by (apply Hall; left; reflexivity).
    assert (IH' := IH (fun i Hi => Hall i (or_intror Hi))). clear IH.
    cbn [map sumZ fold_right]. fold (sumZ (map w is)). rewrite <- IH'.
    rewrite <- (indicator_sum (w x) (i_pat x) ps Hnd Hx) at 1. rewrite <- sumZ_map_add. f_equal. apply map_ext. intro p.
    cbn [filter]. destruct (list_eqb (i_pat x) p); [|lia]. cbn [map sumZ fold_right]. reflexivity.
Qed.

Lemma len_as_sum {A} (l : list A) : Z.of_nat (List.length l) = sumZ (map (fun _ => 1) l).
Proof. induction l as [|y r IHr]; [reflexivity|]. cbn [List.length map sumZ fold_right]. fold (sumZ (map (fun _ : A => 1) r)). lia. Qed.

Theorem table_conserves is :
  sumZ (map (fun r => snd (fst (fst r))) (patterns is)) = Z.of_nat (List.length is) /\
  sumZ (map (fun r => snd (fst r)) (patterns is)) = sumZ (map i_gpu is) /\
  sumZ (map (fun r => snd r) (patterns is)) = sumZ (map i_cpu is).
Proof.
  assert (Hall : forall i, In i is -> In (i_pat i) (dedup_p (map i_pat is)))
    by (intros i Hi; apply dedup_p_In; apply in_map; exact Hi).
  unfold patterns. rewrite !map_map. cbn [fst snd]. unfold pat_count, pat_gpu, pat_cpu, count. repeat split.
  - rewrite len_as_sum. rewrite <- (sum_over_patterns (fun _ => 1) _ (dedup_p_NoDup _) is Hall).
    f_equal. apply map_ext. intro p. apply len_as_sum.
  - exact (sum_over_patterns i_gpu _ (dedup_p_NoDup _) is Hall).
  - exact (sum_over_patterns i_cpu _ (dedup_p_NoDup _) is Hall).
Qed.
