(* Resolution independence: multiplying every time stamp and duration of a frame by a positive constant k multiplies the
   time-valued results of the models by k and leaves everything else alone.  A trace with fractional microseconds (ns rounding
   disabled) whose times share the denominator k is therefore decided by the integer model on the scaled trace; the harness
   uses k = 4 (quarter-microsecond cases, framework.resolution). *)
From HTA.lib Require Import Base.
From HTA.model Require Import C15_Model.
Open Scope Z_scope.

Definition scale_ev (k : Z) (e : ev) : ev :=
  mkEv (idx e) (k * ts e) (k * dur e) (pid e) (tid e) (stream e) (corr e) (icorr e) (iter e) (name e) (cat e).
Definition scale_evs (k : Z) (l : list ev) : list ev := map (scale_ev k) l.

Lemma filter_map_comm {A B} (f : A -> B) (p : B -> bool) (q : A -> bool) (l : list A) :
  (forall x, p (f x) = q x) -> filter p (map f l) = map f (filter q l).
Proof.
  intro H. induction l as [|x l IH]; cbn [map filter]; [reflexivity|].
  rewrite H. destruct (q x); cbn [map]; rewrite IH; reflexivity.
Qed.

Lemma flat_map_map {A B C} (f : A -> B) (g : B -> list C) (l : list A) :
  flat_map g (map f l) = flat_map (fun x => g (f x)) l.
Proof. induction l as [|x l IH]; cbn [map flat_map]; [reflexivity|]. rewrite IH. reflexivity. Qed.

Lemma flat_map_ext_eq {A B} (f g : A -> list B) (l : list A) :
  (forall x, f x = g x) -> flat_map f l = flat_map g l.
Proof. intro H. induction l as [|x l IH]; cbn [flat_map]; [reflexivity|]. rewrite H, IH. reflexivity. Qed.

(* ---------- C15 ---------- *)
Definition scale_row15 (k : Z) (r : list Z) : list Z :=
  match r with
  | [c; a; b; d] => [c; k * a; k * b; k * d]
  | _ => r
  end.

Lemma launch_corrs_scale k mem l : launch_corrs mem (scale_evs k l) = launch_corrs mem l.
Proof.
  unfold launch_corrs, scale_evs.
  rewrite (filter_map_comm (scale_ev k) _ (fun e => is_launch_name mem (name e))) by reflexivity.
  rewrite map_map. reflexivity.
Qed.

Lemma cpu_sel_scale k mem l : cpu_sel mem (scale_evs k l) = scale_evs k (cpu_sel mem l).
Proof.
  unfold cpu_sel. rewrite launch_corrs_scale. unfold scale_evs.
  apply filter_map_comm. reflexivity.
Qed.

Lemma gpu_sel_scale k mem l : gpu_sel mem (scale_evs k l) = scale_evs k (gpu_sel mem l).
Proof.
  unfold gpu_sel. rewrite launch_corrs_scale. unfold scale_evs.
  apply filter_map_comm. reflexivity.
Qed.

Lemma pairs_scale k mem l :
  pairs mem (scale_evs k l) = map (fun p => (scale_ev k (fst p), scale_ev k (snd p))) (pairs mem l).
Proof.
  unfold pairs. rewrite cpu_sel_scale, gpu_sel_scale. unfold scale_evs.
  generalize (gpu_sel mem l) as G. intro G.
  induction (cpu_sel mem l) as [|r rs IH]; cbn [flat_map map]; [reflexivity|].
  rewrite map_app, IH. f_equal.
  rewrite (filter_map_comm (scale_ev k) _ (fun k0 => corr k0 =? corr r)) by reflexivity.
  rewrite !map_map. reflexivity.
Qed.

Lemma max0_scale k x : 0 <= k -> Z.max 0 (k * x) = k * Z.max 0 x.
Proof.
  intro Hk. destruct (Z.max_spec 0 x) as [[H1 H2]|[H1 H2]]; rewrite H2.
  - apply Z.max_r. apply Z.mul_nonneg_nonneg; lia.
  - rewrite Z.mul_0_r. apply Z.max_l. apply Z.mul_nonneg_nonpos; lia.
Qed.

Lemma row_scale k r g : 0 <= k -> row (scale_ev k r, scale_ev k g) = scale_row15 k (row (r, g)).
Proof.
  intro Hk. unfold row, scale_row15, scale_ev. cbn [corr dur ts].
  replace (k * ts g - k * ts r - k * dur r) with (k * (ts g - ts r - dur r)) by ring.
  rewrite max0_scale by exact Hk. reflexivity.
Qed.

Theorem C15_scale k mem l : 0 <= k -> model_C15 mem (scale_evs k l) = map (scale_row15 k) (model_C15 mem l).
Proof.
  intro Hk. unfold model_C15. rewrite pairs_scale, !map_map. apply map_ext.
  intros [r g]. cbn [fst snd]. apply row_scale. exact Hk.
Qed.

(* ---------- C06 ---------- *)
From HTA.model Require Import C06_Model.

Lemma eend_scale k e : eend (scale_ev k e) = k * eend e.
Proof. unfold eend, scale_ev. cbn [ts dur]. ring. Qed.

Lemma ltb_scale k a b : 0 < k -> (k * a <? k * b) = (a <? b).
Proof. intro Hk. destruct (Z.ltb_spec a b); destruct (Z.ltb_spec (k * a) (k * b)); try reflexivity; nia. Qed.

Lemma eqb_scale k a b : 0 < k -> (k * a =? k * b) = (a =? b).
Proof. intro Hk. destruct (Z.eqb_spec a b); destruct (Z.eqb_spec (k * a) (k * b)); try reflexivity; nia. Qed.

Lemma ev_lt_scale k x y : 0 < k -> ev_lt (scale_ev k x) (scale_ev k y) = ev_lt x y.
Proof.
  intro Hk. unfold ev_lt. rewrite !eend_scale. unfold scale_ev at 1 2 3 4. cbn [ts].
  rewrite !ltb_scale, eqb_scale by exact Hk. reflexivity.
Qed.

Lemma insert_ev_scale k x l : 0 < k ->
  insert_ev (scale_ev k x) (scale_evs k l) = scale_evs k (insert_ev x l).
Proof.
  intro Hk. induction l as [|y r IH]; cbn [scale_evs map insert_ev]; [reflexivity|].
  rewrite ev_lt_scale by exact Hk. destruct (ev_lt x y); cbn [map]; [reflexivity|].
  f_equal. exact IH.
Qed.

Lemma sort_ev_scale k l : 0 < k -> sort_ev (scale_evs k l) = scale_evs k (sort_ev l).
Proof.
  intro Hk. unfold sort_ev. induction l as [|x r IH]; cbn [scale_evs map fold_right]; [reflexivity|].
  fold (scale_evs k r). rewrite IH. apply insert_ev_scale. exact Hk.
Qed.

Lemma stream_kernels_scale k l s : stream_kernels (scale_evs k l) s = scale_evs k (stream_kernels l s).
Proof. unfold stream_kernels, scale_evs. apply filter_map_comm. reflexivity. Qed.

Lemma find_scale k (p : ev -> bool) l :
  (forall e, p (scale_ev k e) = p e) -> find p (scale_evs k l) = option_map (scale_ev k) (find p l).
Proof.
  intro H. induction l as [|x r IH]; cbn [scale_evs map find]; [reflexivity|].
  rewrite H. destruct (p x); [reflexivity|]. exact IH.
Qed.

Lemma ts_runtime_scale k l e : ts_runtime (scale_evs k l) (scale_ev k e) = option_map (Z.mul k) (ts_runtime l e).
Proof.
  unfold ts_runtime. unfold scale_ev at 1 2. cbn [icorr]. destruct (0 <? icorr e); [|reflexivity].
  rewrite find_scale by reflexivity. destruct (find _ l); reflexivity.
Qed.

Lemma classify_scale k d rt pe gap : 0 < k ->
  classify (k * d) (option_map (Z.mul k) rt) (k * pe) (k * gap) = classify d rt pe gap.
Proof.
  intro Hk. unfold classify. destruct rt as [r|]; cbn [option_map]; rewrite ?ltb_scale by exact Hk; reflexivity.
Qed.

Definition scale_gap (k : Z) (g : Z * Z) : Z * Z := (fst g, k * snd g).

Lemma walk_scale k l d pe ks : 0 < k ->
  walk (scale_evs k l) (k * d) (k * pe) (scale_evs k ks) = map (scale_gap k) (walk l d pe ks).
Proof.
  intro Hk. revert pe. induction ks as [|e r IH]; intro pe; cbn [scale_evs map walk]; [reflexivity|].
  fold (scale_evs k r). rewrite ts_runtime_scale, eend_scale, IH.
  unfold scale_gap at 2. cbn [fst snd]. unfold scale_ev at 1 2. cbn [ts].
  replace (k * ts e - k * pe) with (k * (ts e - pe)) by ring.
  rewrite classify_scale by exact Hk. reflexivity.
Qed.

Lemma gaps_sorted_scale k l d ks : 0 < k ->
  gaps_sorted (scale_evs k l) (k * d) (scale_evs k ks) = map (scale_gap k) (gaps_sorted l d ks).
Proof.
  intro Hk. destruct ks as [|e r]; cbn [scale_evs map gaps_sorted]; [reflexivity|].
  fold (scale_evs k r). rewrite eend_scale. apply walk_scale. exact Hk.
Qed.

Lemma sumZ_scale k l : sumZ (map (Z.mul k) l) = k * sumZ l.
Proof. induction l as [|x r IH]; cbn [map sumZ fold_right]; [ring|]. unfold sumZ in *. cbn [fold_right]. rewrite IH. ring. Qed.

Lemma cat_sum_scale k c gs : cat_sum c (map (scale_gap k) gs) = k * cat_sum c gs.
Proof.
  unfold cat_sum. rewrite <- sumZ_scale. f_equal.
  induction gs as [|g r IH]; [reflexivity|].
  cbn [map filter]. unfold scale_gap at 1. cbn [fst snd].
  destruct (fst g =? c); cbn [map snd]; rewrite IH; reflexivity.
Qed.

Theorem C06_scale k l d s : 0 < k ->
  model_C06 (scale_evs k l) (k * d) s = map (Z.mul k) (model_C06 l d s).
Proof.
  intro Hk. unfold model_C06. rewrite stream_kernels_scale, sort_ev_scale, gaps_sorted_scale by exact Hk.
  rewrite !cat_sum_scale. reflexivity.
Qed.

(* ---------- intervals, boundary rows and the sweep ---------- *)
From HTA.lib Require Import Cells Intervals Sweep.
From HTA.model Require Import C04_Model C07_Model.

Definition sitv (k : Z) (i : itv) : itv := (k * fst i, k * snd i).
Definition sitvs (k : Z) (l : list itv) : list itv := map (sitv k) l.
Definition srow (k : Z) (r : row) : row := (k * fst r, snd r).

Lemma max_scale k a b : 0 <= k -> Z.max (k * a) (k * b) = k * Z.max a b.
Proof. intro Hk. destruct (Z.max_spec a b) as [[H1 H2]|[H1 H2]]; rewrite H2; [apply Z.max_r|apply Z.max_l]; nia. Qed.

Lemma min_scale k a b : 0 <= k -> Z.min (k * a) (k * b) = k * Z.min a b.
Proof. intro Hk. destruct (Z.min_spec a b) as [[H1 H2]|[H1 H2]]; rewrite H2; [apply Z.min_l|apply Z.min_r]; nia. Qed.

Lemma insert_ts_scale k x l : 0 < k -> insert_ts (sitv k x) (sitvs k l) = sitvs k (insert_ts x l).
Proof.
  intro Hk. induction l as [|y r IH]; cbn [sitvs map insert_ts]; [reflexivity|].
  unfold sitv at 1 2. cbn [fst]. rewrite ltb_scale by exact Hk.
  destruct (fst x <? fst y); cbn [map]; [reflexivity|]. f_equal. exact IH.
Qed.

Lemma sort_ts_scale k l : 0 < k -> sort_ts (sitvs k l) = sitvs k (sort_ts l).
Proof.
  intro Hk. unfold sort_ts. induction l as [|x r IH]; cbn [sitvs map fold_right]; [reflexivity|].
  fold (sitvs k r). rewrite IH. apply insert_ts_scale. exact Hk.
Qed.

Lemma merge_aux_scale k cs ce m l : 0 < k ->
  merge_aux (k * cs) (k * ce) (k * m) (sitvs k l) = sitvs k (merge_aux cs ce m l).
Proof.
  intro Hk. revert cs ce m. induction l as [|[s e] r IH]; intros cs ce m; cbn [sitvs map merge_aux]; [reflexivity|].
  unfold sitv at 1. cbn [fst snd]. fold (sitvs k r). rewrite ltb_scale by exact Hk.
  rewrite !max_scale, min_scale by lia. destruct (m <? s).
  - cbn [map]. f_equal. apply IH.
  - apply IH.
Qed.

Lemma merge_sorted_scale k l : 0 < k -> merge_sorted (sitvs k l) = sitvs k (merge_sorted l).
Proof.
  intro Hk. destruct l as [|[s e] r]; cbn [sitvs map merge_sorted]; [reflexivity|].
  unfold sitv at 1. cbn [fst snd]. apply merge_aux_scale. exact Hk.
Qed.

Lemma total_scale k l : total (sitvs k l) = k * total l.
Proof.
  unfold total, sitvs. rewrite map_map, <- sumZ_scale, map_map. f_equal. apply map_ext.
  intro i. unfold sitv. cbn [fst snd]. ring.
Qed.

Lemma first_ts_scale k l : first_ts (sitvs k l) = k * first_ts l.
Proof. destruct l as [|i r]; cbn [sitvs map first_ts]; [ring|reflexivity]. Qed.

Lemma last_map_f {A B} (f : A -> B) (l : list A) (d : A) : last (map f l) (f d) = f (last l d).
Proof. induction l as [|x r IH]; [reflexivity|]. destruct r as [|y r']; [reflexivity|]. exact IH. Qed.

Lemma last_end_scale k l : last_end (sitvs k l) = k * last_end l.
Proof.
  unfold last_end, sitvs. replace (0, 0) with (sitv k (0, 0)) at 1 by (unfold sitv; cbn [fst snd]; rewrite Z.mul_0_r; reflexivity).
  rewrite last_map_f. reflexivity.
Qed.

Lemma rows_of_scale k v l : rows_of v (sitvs k l) = map (srow k) (rows_of v l).
Proof. unfold rows_of, sitvs. rewrite map_app, !map_map. reflexivity. Qed.

Lemma insert_time_scale k x l : 0 < k -> insert_time (srow k x) (map (srow k) l) = map (srow k) (insert_time x l).
Proof.
  intro Hk. induction l as [|y r IH]; cbn [map insert_time]; [reflexivity|].
  unfold srow at 1 2. cbn [fst]. rewrite ltb_scale by exact Hk.
  destruct (fst x <? fst y); cbn [map]; [reflexivity|]. f_equal. exact IH.
Qed.

Lemma sort_time_scale k l : 0 < k -> sort_time (map (srow k) l) = map (srow k) (sort_time l).
Proof.
  intro Hk. unfold sort_time. induction l as [|x r IH]; cbn [map fold_right]; [reflexivity|].
  rewrite IH. apply insert_time_scale. exact Hk.
Qed.

Lemma sweep_cons2 sel acc r r' rest :
  sweep sel acc (r :: r' :: rest) = (if sel (acc + snd r) then fst r' - fst r else 0) + sweep sel (acc + snd r) (r' :: rest).
Proof. reflexivity. Qed.

Lemma sweep_scale k sel acc rows : sweep sel acc (map (srow k) rows) = k * sweep sel acc rows.
Proof.
  revert acc. induction rows as [|r rest IH]; intro acc; [cbn [map sweep]; ring|].
  destruct rest as [|r' rest']; [cbn [map sweep]; ring|].
  rewrite sweep_cons2. rewrite !map_cons, sweep_cons2. rewrite <- map_cons, IH.
  unfold srow. cbn [fst snd]. destruct (sel (acc + snd r)); ring.
Qed.

Lemma itv_of_scale k e : itv_of (scale_ev k e) = sitv k (itv_of e).
Proof. unfold itv_of, sitv, scale_ev. cbn [ts dur fst snd]. f_equal. ring. Qed.

Lemma itvs_scale k (p : ev -> bool) l : (forall e, p (scale_ev k e) = p e) ->
  map itv_of (filter p (scale_evs k l)) = sitvs k (map itv_of (filter p l)).
Proof.
  intro H. unfold scale_evs. rewrite (filter_map_comm (scale_ev k) p p) by exact H.
  unfold sitvs. rewrite !map_map. apply map_ext. intro e. apply itv_of_scale.
Qed.

(* ---------- C04 ---------- *)
Definition scale4 (k : Z) (x : Z * Z * Z * Z) : Z * Z * Z * Z :=
  let '(a, b, c, d) := x in (k * a, k * b, k * c, k * d).

Theorem C04_scale k l : 0 < k -> model_C04 (scale_evs k l) = scale4 k (model_C04 l).
Proof.
  intro Hk. unfold model_C04, dev_itvs, comp_itvs.
  rewrite !itvs_scale by reflexivity. rewrite !sort_ts_scale by exact Hk.
  unfold breakdown. rewrite !merge_sorted_scale by exact Hk.
  rewrite !total_scale, first_ts_scale, last_end_scale. unfold scale4. f_equal; [f_equal; [f_equal|]|]; ring.
Qed.

(* ---------- C07 ---------- *)
Theorem C07_scale k l : 0 < k -> model_C07 (scale_evs k l) = (k * fst (model_C07 l), k * snd (model_C07 l)).
Proof.
  intro Hk. unfold model_C07, comm_itvs, comp_itvs.
  rewrite !itvs_scale by reflexivity. rewrite !sort_ts_scale by exact Hk.
  unfold overlap. rewrite !merge_sorted_scale by exact Hk. cbn [fst snd].
  unfold status_rows. rewrite !rows_of_scale, <- map_app, sort_time_scale by exact Hk.
  rewrite sweep_scale, total_scale. reflexivity.
Qed.
