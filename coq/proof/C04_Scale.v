(* C04: resolution independence of the temporal-breakdown model *)
From HTA.lib Require Import Base Cells Intervals.
From HTA.model Require Import C04_Model.
From HTA.proof Require Import Scale.
Open Scope Z_scope.

Lemma itv_of_scale k e : itv_of (scale_ev k e) = sitv k (itv_of e).
Proof. unfold itv_of, sitv, scale_ev. cbn [ts dur fst snd]. f_equal. ring. Qed.

Lemma itvs_scale k (p : ev -> bool) l : (forall e, p (scale_ev k e) = p e) ->
  map itv_of (filter p (scale_evs k l)) = sitvs k (map itv_of (filter p l)).
Proof.
  intro H. unfold scale_evs. rewrite (filter_map_comm (scale_ev k) p p) by exact H.
  unfold sitvs. rewrite !map_map. apply map_ext. intro e. apply itv_of_scale.
Qed.

Definition scale4 (k : Z) (x : Z * Z * Z * Z) : Z * Z * Z * Z :=
  let '(a, b, c, d) := x in (k * a, k * b, k * c, k * d).

Theorem C04_scale k l : 0 < k -> model_C04 (scale_evs k l) = scale4 k (model_C04 l).
Proof.
  intro Hk. unfold model_C04, dev_itvs, comp_itvs.
  rewrite !itvs_scale by reflexivity. rewrite !sort_ts_scale by exact Hk.
  unfold breakdown. rewrite !merge_sorted_scale by exact Hk.
  rewrite !total_scale, first_ts_scale, last_end_scale. unfold scale4. f_equal; [f_equal; [f_equal|]|]; ring.
Qed.
