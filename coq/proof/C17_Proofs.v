From HTA.lib Require Import Base.
From HTA.model Require Import C17_Model.
Open Scope Z_scope.

Lemma str_in_In s l : str_in s l = true <-> In s l.
Proof.
  unfold str_in. rewrite existsb_exists. split.
  - intros [x [Hx E]]. apply String.eqb_eq in E. subst. exact Hx.
  - intro H. exists s. split; [exact H | apply String.eqb_refl].
Qed.

Lemma dedup_In l x : In x (dedup l) <-> In x l.
Proof.
  induction l as [|y l IH]; simpl; [tauto|].
  destruct (str_in y l) eqn:E.
  - rewrite IH. split; [auto|]. intros [H|H]; [subst; apply str_in_In; exact E | exact H].
  - simpl. rewrite IH. tauto.
Qed.

Lemma dedup_NoDup l : NoDup (dedup l).
Proof.
  induction l as [|y l IH]; simpl; [constructor|].
  destruct (str_in y l) eqn:E; [exact IH|].
  constructor; [|exact IH]. rewrite dedup_In. intro H. apply str_in_In in H. congruence.
Qed.

(* one row per name occurring in either selection, none twice *)
Theorem rows_exact short c t :
  NoDup (map d_key (diff_rows short c t)) /\
  (forall k, In k (map d_key (diff_rows short c t)) <-> exists e, In e (c ++ t) /\ key short e = k) /\
  (forall r, In r (diff_rows short c t) ->
     d_cc r = cnt short (d_key r) c /\ d_tc r = cnt short (d_key r) t /\
     d_cd r = tot short (d_key r) c /\ d_td r = tot short (d_key r) t).
Proof.
  unfold diff_rows. rewrite map_map. simpl. rewrite map_id. split; [apply dedup_NoDup|]. split.
  - intro k. unfold keys. rewrite dedup_In, in_map_iff. split; intros [e [H1 H2]]; exists e; tauto.
  - intros r Hr. apply in_map_iff in Hr. destruct Hr as [k [Hk _]]. subst r. simpl. tauto.
Qed.

Lemma cnt_pos short k l : 0 < cnt short k l <-> exists e, In e l /\ key short e = k.
Proof.
  unfold cnt, count. split.
  - intro H. destruct (filter (fun e => String.eqb (key short e) k) l) as [|e r] eqn:F; [simpl in H; lia|].
    assert (Hin : In e (filter (fun e => String.eqb (key short e) k) l)) by (rewrite F; left; reflexivity).
    apply filter_In in Hin. destruct Hin as [Hin E]. apply String.eqb_eq in E. exists e. tauto.
  - intros [e [Hin E]].
    assert (Hf : In e (filter (fun e => String.eqb (key short e) k) l)).
    { apply filter_In. split; [exact Hin | apply String.eqb_eq; exact E]. }
    destruct (filter (fun e => String.eqb (key short e) k) l); [destruct Hf | simpl List.length; lia].
Qed.

(* every listed name occurs: c + t > 0 *)
Theorem row_counts_positive short c t r : In r (diff_rows short c t) -> 0 <= d_cc r /\ 0 <= d_tc r /\ 0 < d_cc r + d_tc r.
Proof.
  intro Hr. pose proof (proj2 (proj2 (rows_exact short c t)) r Hr) as [Hc [Ht _]].
  assert (Hk : In (d_key r) (map d_key (diff_rows short c t))) by (apply in_map; exact Hr).
  apply (proj1 (proj2 (rows_exact short c t))) in Hk. destruct Hk as [e [Hin He]].
  rewrite Hc, Ht. pose proof (count_nonneg (fun e => String.eqb (key short e) (d_key r)) c).
  pose proof (count_nonneg (fun e => String.eqb (key short e) (d_key r)) t).
  unfold cnt in *. split; [lia|]. split; [lia|].
  apply in_app_or in Hin. destruct Hin as [Hin|Hin].
  - assert (0 < cnt short (d_key r) c) by (apply cnt_pos; exists e; tauto). unfold cnt in *. lia.
  - assert (0 < cnt short (d_key r) t) by (apply cnt_pos; exists e; tauto). unfold cnt in *. lia.
Qed.

(* the five classes are pairwise disjoint and exhaustive whenever the name occurs at all *)
Theorem classes_partition c t : 0 <= c -> 0 <= t -> 0 < c + t ->
  sumZ (map b2z (masks c t)) = 1.
Proof.
  intros Hc Ht Hs. unfold masks. cbn [map sumZ fold_right b2z].
  destruct (c =? 0) eqn:E1, (0 <? t) eqn:E2, (0 <? c) eqn:E3, (t =? 0) eqn:E4,
           (0 <? t - c) eqn:E5, (t - c <? 0) eqn:E6, (t - c =? 0) eqn:E7; cbn [andb b2z]; lia.
Qed.

Theorem classes_meaning c t : 0 <= c -> 0 <= t ->
  masks c t = [ (c =? 0) && (0 <? t); (0 <? c) && (t =? 0); (0 <? c) && (c <? t); (0 <? t) && (t <? c); (0 <? t) && (t =? c) ].
Proof.
  intros Hc Ht. unfold masks.
  replace (0 <? t - c) with (c <? t) by lia. replace (t - c <? 0) with (t <? c) by lia.
  replace (t - c =? 0) with (t =? c) by lia. reflexivity.
Qed.

(* comparing a selection with itself: only 'unchanged', zero differences *)
Theorem self_compare short c r : In r (diff_rows short c c) ->
  d_tc r - d_cc r = 0 /\ d_td r - d_cd r = 0 /\ masks (d_cc r) (d_tc r) = [false; false; false; false; true].
Proof.
  intro Hr. pose proof (proj2 (proj2 (rows_exact short c c)) r Hr) as [Hc [Ht [Hd Hd']]].
  pose proof (row_counts_positive short c c r Hr) as [H1 [H2 H3]].
  rewrite Hc, Ht, Hd, Hd' in *. split; [lia|]. split; [lia|].
  unfold masks. set (n := cnt short (d_key r) c) in *.
  replace (n - n) with 0 by lia. replace (n =? 0) with false by lia. replace (0 <? n) with true by lia. reflexivity.
Qed.

(* selection: exactly the rows of the selected frames in the selected iterations on the selected side *)
Theorem sel_exact frames its dev e :
  In e (sel frames its dev) <-> (exists f, In f frames /\ In e f) /\ In (iter e) its /\ devsel dev e = true.
Proof.
  unfold sel. rewrite filter_In, in_concat, andb_true_iff.
  assert (M : memZ (iter e) its = true <-> In (iter e) its).
  { unfold memZ. rewrite existsb_exists. split.
    - intros [y [Hy E]]. apply Z.eqb_eq in E. subst. exact Hy.
    - intro H. exists (iter e). split; [exact H | apply Z.eqb_refl]. }
  rewrite M. tauto.
Qed.
