(* C09: the sets the checker compares the reported sets with are built the way CPGraph.critical_path builds them (gen/PathSets_gen.v) *)
From HTA.lib Require Import Base.
From HTA.model Require Import C08_Model.
From HTA.gen Require Import PathSets_gen.
Open Scope Z_scope.

Theorem path_sets_are_generated : forall (N : list cpnode) (p : list Z),
  pairs_of p = path_pairs_gen p /\
  flat_map (fun i => match find_node N i with Some n => [c_ev n] | None => [-7] end) p =
    path_events_gen (fun i => match find_node N i with Some n => [c_ev n] | None => [-7] end) p.
Proof.
  intros N p. split; [|reflexivity].
  assert (H : forall q a, pairs_of (a :: q) = path_pairs_gen (a :: q)).
  { induction q as [|b r IH]; intro a; [reflexivity|]. change (pairs_of (a :: b :: r)) with ([a; b] :: pairs_of (b :: r)).
    change (path_pairs_gen (a :: b :: r)) with ([a; b] :: path_pairs_gen (b :: r)). rewrite (IH b). reflexivity. }
  destruct p as [|a q]; [reflexivity | apply H].
Qed.
