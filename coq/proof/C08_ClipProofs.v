From Coq Require Import ZArith List Bool Lia String.
From HTA.lib Require Import Base.
From HTA.model Require Import C08_Clip.
Import ListNotations.
Open Scope list_scope.
Open Scope Z_scope.

(* kept rows are rows of the trace, in row order, each at most once per occurrence *)
Lemma clip_sub lo hi l e : In e (clip lo hi l) -> In e l.
Proof. unfold clip. intro H. apply filter_In in H. tauto. Qed.

(* a kept host row starts within the window and lasts *)
Lemma clip_host lo hi l e : In e (clip lo hi l) -> stream e = -1 -> lo <= ts e <= hi /\ 0 < dur e.
Proof.
  unfold clip, dev_kept, in_window. intros H Hs. apply filter_In in H. destruct H as [_ H].
  replace (stream e =? -1) with true in H by lia. cbn [negb andb orb] in H. rewrite orb_false_r in H. lia.
Qed.

(* and every such host row is kept *)
Lemma clip_host_complete lo hi l e : In e l -> stream e = -1 -> lo <= ts e <= hi -> 0 < dur e -> In e (clip lo hi l).
Proof.
  unfold clip, in_window. intros Hin Hs Ht Hd. apply filter_In. split; [exact Hin|]. apply orb_true_iff. left.
  replace (stream e =? -1) with true by lia. cbn [andb]. lia.
Qed.

(* closure: a kept device row (other than a Stream Wait Event record) has its launching / synchronising host row among the kept
   rows -- so the builder's look-up of the launch call's nodes cannot fail for it *)
Theorem clip_closed lo hi l d : In d (clip lo hi l) -> stream d <> -1 -> name d <> "Stream Wait Event"%string ->
  exists h, In h (clip lo hi l) /\ stream h = -1 /\ icorr h = idx d.
Proof.
  unfold clip at 1. intros H Hs Hn. apply filter_In in H. destruct H as [_ H].
  replace (stream d =? -1) with false in H by lia. cbn [andb orb] in H. unfold dev_kept in H.
  replace (stream d =? -1) with false in H by lia. cbn [negb andb] in H.
  assert (Hne : String.eqb (name d) "Stream Wait Event" = false) by (apply String.eqb_neq; exact Hn). rewrite Hne, orb_false_r in H.
  destruct (partner l d) as [h|] eqn:Ep; [|discriminate]. unfold partner in Ep. apply find_some in Ep. destruct Ep as [Hin Hp].
  apply andb_prop in Hp. destruct Hp as [H1 H2]. exists h. split; [|lia].
  unfold in_window in H. apply clip_host_complete; [exact Hin | lia | lia | lia].
Qed.

(* a device row is kept exactly when its partner is (or it is a Stream Wait Event record) *)
Theorem clip_device_iff lo hi l d : In d l -> stream d <> -1 ->
  (In d (clip lo hi l) <-> (name d = "Stream Wait Event"%string \/ exists h, partner l d = Some h /\ lo <= ts h <= hi /\ 0 < dur h)).
Proof.
  intros Hin Hs. unfold clip. rewrite filter_In. unfold dev_kept, in_window.
  replace (stream d =? -1) with false by lia. cbn [andb orb negb]. split.
  - intros [_ H]. apply orb_true_iff in H. destruct H as [H|H].
    + right. destruct (partner l d) as [h|]; [|discriminate]. exists h. split; [reflexivity | lia].
    + left. apply String.eqb_eq. exact H.
  - intros [H|[h [Hp H]]]; (split; [exact Hin|]); apply orb_true_iff.
    + right. apply String.eqb_eq. exact H.
    + left. rewrite Hp. lia.
Qed.
