(* C08 / C09 / C10: verified checkers for the critical-path graph (hta/analyzers/critical_path_analysis.py).
   The graph the implementation built is judged against the property's clauses; the optimality of the reported path is
   certified by a potential function computed here (Dag.dp) and checked here (Dag.potential_okb). *)
From HTA.lib Require Import Base Dag.
Open Scope Z_scope.

Definition memZ (x : Z) (l : list Z) : bool := existsb (Z.eqb x) l.

(* a node of the graph: position = id *)
Record cpnode := mkN { c_id : Z; c_ev : Z; c_ts : Z; c_start : bool; c_block : bool }.
(* an edge object: end points, weight, type: 0 operator/kernel span, 1 dependency, 2 launch delay, 3 kernel-kernel delay, 4 sync *)
Record cpedge := mkE { g_u : Z; g_v : Z; g_w : Z; g_ty : Z }.

Definition find_node (N : list cpnode) (i : Z) : option cpnode := find (fun n => c_id n =? i) N.
Definition find_ev (l : list ev) (i : Z) : option ev := find (fun e => idx e =? i) l.

Fixpoint rows_eqb (a b : list (list Z)) : bool :=
  match a, b with
  | [], [] => true
  | x :: a', y :: b' => lexleb x y && lexleb y x && (List.length x =? List.length y)%nat && rows_eqb a' b'
  | _, _ => false
  end.

(* ---------- C08 (2): analysed events and the node bijection ---------- *)
Definition analysed (e : ev) : bool :=
  str_in (cat e) ["cpu_op"; "cuda_runtime"; "cuda_driver"] || (negb (stream e =? -1) && (0 <=? icorr e)).

Definition node_key (n : cpnode) : list Z := [c_ev n; b2z (c_start n); c_ts n].
Definition expected_nodes (clipped : list ev) : list (list Z) :=
  sort_rows (flat_map (fun e => if analysed e then [[idx e; 1; ts e]; [idx e; 0; ts e + dur e]] else []) clipped).
Fixpoint ids_from (i : Z) (N : list cpnode) : bool :=
  match N with [] => true | n :: r => (c_id n =? i) && ids_from (i + 1) r end.
Definition nodes_ok (clipped : list ev) (N : list cpnode) : bool :=
  rows_eqb (sort_rows (map node_key N)) (expected_nodes clipped) && ids_from 0 N.

(* ---------- C08 (3)/(4): per-edge rules ---------- *)
Definition is_dev_ev (e : ev) : bool := negb (stream e =? -1).

(* zw: zero-weight launch edges are enabled (CRITICAL_PATH_ADD_ZERO_WEIGHT_LAUNCH_EDGE) *)
Definition edge_ok (zw : bool) (clipped : list ev) (N : list cpnode) (E : list cpedge) (e : cpedge) : bool :=
  match find_node N (g_u e), find_node N (g_v e) with
  | Some nu, Some nv =>
      let dt := c_ts nv - c_ts nu in
      (c_ts nu <=? c_ts nv) && (0 <=? g_w e) &&
      match find_ev clipped (c_ev nu), find_ev clipped (c_ev nv) with
      | Some eu, Some ev_ =>
          if g_ty e =? 0 then
            (* operator / kernel span: the time difference, or zero when it closes a blocking call *)
            (g_w e =? dt) || ((g_w e =? 0) && negb (c_start nv) && c_block nv)
          else if g_ty e =? 1 then (g_w e =? 0)
          else if g_ty e =? 2 then
            (* launch delay: start of the launch call -> start of the activity it launched (a positive link: 0 is the 'no partner' sentinel) *)
            c_start nu && c_start nv && negb (is_dev_ev eu) && is_dev_ev ev_ && ((icorr ev_ =? idx eu) && (0 <? icorr ev_)) &&
            ((g_w e =? dt) || (zw && (g_w e =? 0)))
          else if g_ty e =? 3 then
            (* kernel-to-kernel delay: end of a kernel -> start of the next kernel of the same stream *)
            negb (c_start nu) && c_start nv && is_dev_ev eu && is_dev_ev ev_ && (stream eu =? stream ev_) && negb (idx eu =? idx ev_) &&
            (g_w e =? dt) &&
            negb (existsb (fun k => analysed k && is_dev_ev k && (stream k =? stream eu) && negb (String.eqb (cat k) "cuda_sync") &&
                                    (ts eu <? ts k) && (ts k <? ts ev_)) clipped)
          else if g_ty e =? 4 then
            (* synchronisation: end of a device activity -> end of the host call that waited, or start of a kernel on another stream *)
            (g_w e =? 0) && negb (c_start nu) && is_dev_ev eu &&
            ((negb (c_start nv) && negb (is_dev_ev ev_)) || (c_start nv && is_dev_ev ev_ && negb (stream eu =? stream ev_)))
          else false
      | _, _ => false
      end
  | _, _ => false
  end.

Definition to_edge (e : cpedge) : edge := mkEdge (g_u e) (g_v e) (g_w e).

(* acyclicity: a rank assigned along the supplied node order must increase along every edge *)
Fixpoint rank_of (i : Z) (order : list Z) : list (Z * Z) :=
  match order with [] => [] | v :: r => (v, i) :: rank_of (i + 1) r end.

Definition check_C08 (zw : bool) (clipped : list ev) (N : list cpnode) (E : list cpedge) (order : list Z) : list bool :=
  [ nodes_ok clipped N;
    forallb (edge_ok zw clipped N E) E;
    rank_okb (map to_edge E) (rank_of 1 order);
    forallb (fun e => memZ (g_u e) order && memZ (g_v e) order) E ].

(* ---------- C09: the reported path is a maximum-weight path ---------- *)
(* W: edges with the CURRENT networkx weights; cp: reported node list; cp_pairs: reported edge set as (begin, end);
   cp_events: reported event set *)
Fixpoint insertZ (x : Z) (l : list Z) : list Z :=
  match l with [] => [x] | y :: r => if x <? y then x :: l else if x =? y then l else y :: insertZ x r end.
Definition sortu (l : list Z) : list Z := fold_right insertZ [] l.
Fixpoint listZ_eqb (a b : list Z) : bool :=
  match a, b with [], [] => true | x :: a', y :: b' => (x =? y) && listZ_eqb a' b' | _, _ => false end.
Fixpoint pairs_of (l : list Z) : list (list Z) :=
  match l with u :: ((v :: _) as r) => [u; v] :: pairs_of r | _ => [] end.

(* the hypothesis of the makespan bound: no edge weighs more than the time difference of its end points *)
Definition span_okb (N : list cpnode) (W : list edge) : bool :=
  forallb (fun e => match find_node N (e_src e), find_node N (e_dst e) with
                    | Some a, Some b => e_w e <=? c_ts b - c_ts a
                    | _, _ => false
                    end) W.

Definition check_C09 (N : list cpnode) (W : list edge) (order cp : list Z) (cp_pairs : list (list Z)) (cp_events : list Z) : list bool :=
  let d := dp W order in
  match path_edges W cp with
  | Some p =>
      [ potential_okb W d;
        negb (match p with [] => true | _ => false end);
        path_weight p =? max_value d;
        rows_eqb (sort_rows (pairs_of cp)) (sort_rows cp_pairs);
        listZ_eqb (sortu (flat_map (fun i => match find_node N i with Some n => [c_ev n] | None => [-7] end) cp)) (sortu cp_events);
        path_weight p <=? maxZ 0 (map c_ts N) - minZ 0 (map c_ts N);
        span_okb N W ]
  | None => [false]
  end.

(* ---------- C10: breakdown rows ---------- *)
(* row: the edge (u, v), its weight and type, the attributed event (or -1), the reported bound-by class code:
   0 cpu_bound, 1 gpu_compute_bound, 2 gpu_communication_bound, 3 kernel-kernel overhead, 4 launch overhead, 5 empty *)
Record brow := mkBR { r_u : Z; r_v : Z; r_w : Z; r_ty : Z; r_ev : Z; r_bound : Z }.

Definition bound_code (clipped : list ev) (ty evid : Z) : Z :=
  if ty =? 3 then 3 else if ty =? 2 then 4 else if (ty =? 1) || (ty =? 4) then 5
  else match find_ev clipped evid with
       | Some a => if stream a <? 0 then 0 else if is_comm_kernel (name a) then 2 else 1
       | None => -1
       end.

Definition brow_ok (clipped : list ev) (N : list cpnode) (r : brow) : bool :=
  match find_node N (r_u r), find_node N (r_v r) with
  | Some nu, Some nv =>
      (r_bound r =? bound_code clipped (r_ty r) (r_ev r)) &&
      (if r_ty r =? 0 then
         (* a span edge is attributed to an existing event of the same thread / stream whose span covers the edge *)
         match find_ev clipped (r_ev r), find_ev clipped (c_ev nu), find_ev clipped (c_ev nv) with
         | Some a, Some eu, Some ev_ =>
             (ts a <=? c_ts nu) && (c_ts nv <=? ts a + dur a) &&
             (pid a =? pid eu) && (tid a =? tid eu) && (pid a =? pid ev_) && (tid a =? tid ev_)
         | _, _, _ => false
         end
       else if r_ty r =? 3 then r_ev r =? c_ev nu      (* the kernel that precedes the gap *)
       else (r_ev r =? -1))
  | _, _ => false
  end.

Definition check_C10 (clipped : list ev) (N : list cpnode) (cp_edges : list cpedge) (rows : list brow) (path_w : Z) : list bool :=
  [ rows_eqb (sort_rows (map (fun r => [r_u r; r_v r; r_w r; r_ty r]) rows)) (sort_rows (map (fun e => [g_u e; g_v e; g_w e; g_ty e]) cp_edges));
    sumZ (map r_w rows) =? path_w;
    forallb (brow_ok clipped N) rows ].
