"""Source -> Gallina translator (fail-closed) and source sentinels.

run(prop) regenerates the files under coq/gen that the property's theorems depend on and
returns {"ok": bool, "generated": [...], "hashes": {...}, "drift": bool, "error": str}.
A construct outside the supported subset stops the translator: that is a broken proof obligation.
"""
from __future__ import annotations

import ast
import json
import os
import re
from typing import Any, Dict, List

import framework as fw

GEN = os.path.join(fw.COQ, "gen")
HASHFILE = os.path.join(fw.VERIF, "harness", "source_hashes.json")

# which hand-modelled functions each property depends on (source-drift sentinel, DESIGN 4.6)
SOURCES: Dict[str, Dict[str, List[str]]] = {}


def write_if_changed(path: str, text: str) -> bool:
    if os.path.exists(path) and open(path).read() == text:
        return False
    os.makedirs(os.path.dirname(path), exist_ok=True)
    open(path, "w").write(text)
    return True


class Stop(Exception):
    pass


# ---- regex constants of hta/utils/utils.py: must be exactly the patterns Base.v models ----
EXPECTED_RE = {
    "NCCL_KERNEL_RE": r"^nccl.*Kernel",
    "MEMORY_KERNEL_RE": r"(^Memcpy)|(^Memset)|(^dma)",
    "NCCL_COMPUTE_KERNEL_RE": r"(^nccl.*Kernel)|(.*(Memcpy)|(Memset))|(.*Sync)",
}


def check_regex_constants() -> None:
    tree = ast.parse(open(os.path.join(fw.REPO, "hta/utils/utils.py")).read())
    found = {}
    for node in tree.body:
        if isinstance(node, ast.Assign) and len(node.targets) == 1 and isinstance(node.targets[0], ast.Name):
            nm = node.targets[0].id
            if nm in EXPECTED_RE:
                v = node.value
                if not (isinstance(v, ast.Call) and isinstance(v.func, ast.Attribute) and v.func.attr == "compile"
                        and len(v.args) == 1 and isinstance(v.args[0], ast.Constant) and not v.keywords):
                    raise Stop(f"{nm}: not a plain re.compile(<literal>)")
                found[nm] = v.args[0].value
    for nm, pat in EXPECTED_RE.items():
        if found.get(nm) != pat:
            raise Stop(f"regex constant {nm} is {found.get(nm)!r}, the model in lib/Base.v is for {pat!r}")


def run(prop: str) -> Dict[str, Any]:
    res: Dict[str, Any] = {"ok": True, "generated": [], "hashes": {}, "drift": False}
    try:
        check_regex_constants()
        import importlib
        try:
            mod = importlib.import_module(f"p{prop}")
        except Exception:
            mod = None
        for fn in getattr(mod, "TRANSLATE", []):
            res["generated"].append(fn())
        hashes: Dict[str, str] = {}
        for rel, funcs in getattr(mod, "SOURCES", {}).items():
            hashes.update(fw.src_hash(rel, funcs))
        res["hashes"] = hashes
        pinned = json.load(open(HASHFILE)) if os.path.exists(HASHFILE) else {}
        changed = [k for k, v in hashes.items() if pinned.get(k) not in (None, v)]
        res["drift"] = bool(changed)
        res["changed_since_model_was_written"] = changed
    except Stop as e:
        res["ok"] = False
        res["error"] = str(e)
    return res


def pin_hashes() -> None:
    """(development) record the current AST hashes as the ones the hand models were written against."""
    import glob
    import importlib
    pinned: Dict[str, str] = {}
    for f in sorted(glob.glob(os.path.join(fw.VERIF, "harness", "pC*.py"))):
        mod = importlib.import_module(os.path.basename(f)[:-3])
        for rel, funcs in getattr(mod, "SOURCES", {}).items():
            pinned.update(fw.src_hash(rel, funcs))
    json.dump(pinned, open(HASHFILE, "w"), indent=1, sort_keys=True)


# ---- TraceSymbolTable.add_symbols (hta/common/trace_symbol_table.py) -> coq/gen/Symtab_gen.v ----
def gen_symtab() -> str:
    """Reads the insertion loop of add_symbols and emits it as a Gallina step function.  Supported shape only:
         for s in symbols:
             if s not in self.sym_index:
                 idx = len(self.sym_table)
                 self.sym_table.append(s)
                 self.sym_index[s] = idx
       (the three statements in any order as long as idx is computed before the append).  Anything else stops."""
    src = open(os.path.join(fw.REPO, "hta/common/trace_symbol_table.py")).read()
    tree = ast.parse(src)
    fn = None
    for node in ast.walk(tree):
        if isinstance(node, ast.ClassDef) and node.name == "TraceSymbolTable":
            for it in node.body:
                if isinstance(it, ast.FunctionDef) and it.name == "add_symbols":
                    fn = it
    if fn is None:
        raise Stop("TraceSymbolTable.add_symbols not found")
    body = [st for st in fn.body if not (isinstance(st, ast.Expr) and isinstance(st.value, ast.Constant))]
    if len(body) != 1 or not isinstance(body[0], ast.For):
        raise Stop("add_symbols: body is not a single for loop")
    loop = body[0]
    if not (isinstance(loop.target, ast.Name) and isinstance(loop.iter, ast.Name) and loop.iter.id == fn.args.args[1].arg and not loop.orelse):
        raise Stop("add_symbols: loop is not `for s in <argument>`")
    s = loop.target.id
    if len(loop.body) != 1 or not isinstance(loop.body[0], ast.If) or loop.body[0].orelse:
        raise Stop("add_symbols: loop body is not a single if without else")
    cond = loop.body[0]
    t = cond.test
    if not (isinstance(t, ast.Compare) and len(t.ops) == 1 and isinstance(t.ops[0], ast.NotIn) and isinstance(t.left, ast.Name) and t.left.id == s
            and ast.unparse(t.comparators[0]) == "self.sym_index"):
        raise Stop(f"add_symbols: membership test is `{ast.unparse(t)}`, expected `{s} not in self.sym_index`")
    stmts = [ast.unparse(x) for x in cond.body]
    want = {f"idx = len(self.sym_table)", f"self.sym_table.append({s})", f"self.sym_index[{s}] = idx"}
    if set(stmts) != want or len(stmts) != 3:
        raise Stop(f"add_symbols: insertion statements are {stmts}")
    if stmts.index("idx = len(self.sym_table)") > stmts.index(f"self.sym_table.append({s})"):
        raise Stop("add_symbols: idx is computed after the append")
    text = '''(* GENERATED by harness/translate.py from hta/common/trace_symbol_table.py TraceSymbolTable.add_symbols -- do not edit.
   State: sym_table (list of symbols, id = position) and sym_index (association list symbol -> id). *)
From HTA.lib Require Import Base.
Open Scope Z_scope.

Record symtab := mkSym { sym_table : list string; sym_index : list (string * Z) }.
Definition empty_symtab : symtab := mkSym [] [].

Fixpoint lookup (s : string) (m : list (string * Z)) : option Z :=
  match m with
  | [] => None
  | (k, v) :: r => if String.eqb s k then Some v else lookup s r
  end.

(* if s not in self.sym_index: idx = len(self.sym_table); self.sym_table.append(s); self.sym_index[s] = idx *)
Definition add_one (st : symtab) (s : string) : symtab :=
  match lookup s (sym_index st) with
  | None => let idx := Z.of_nat (List.length (sym_table st)) in
            mkSym (sym_table st ++ [s])%list ((s, idx) :: sym_index st)
  | Some _ => st
  end.

(* for s in symbols: ... *)
Definition add_symbols (st : symtab) (symbols : list string) : symtab := fold_left add_one symbols st.
'''
    path = os.path.join(GEN, "Symtab_gen.v")
    write_if_changed(path, text)
    return "gen/Symtab_gen.v"
