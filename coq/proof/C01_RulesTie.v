(* C01: the hand-written rounding model is the rule regenerated from round_down_time_stamps (gen/Rounding_gen.v) *)
From Coq Require Import QArith Qround.
From HTA.lib Require Import Base.
From HTA.model Require Import Loader_Model.
From HTA.gen Require Import Rounding_gen.

Theorem rounding_is_generated : forall t e : Q,
  round_event t e = round_event_gen t e /\ round_ts t = round_ts_gen t /\ round_end e = round_end_gen e.
Proof. intros t e. repeat split. Qed.
