"""Generic per-property driver (DESIGN.md 2.3 / 2.4)."""
from __future__ import annotations

import glob
import importlib
import json
import os
import shutil
import sys
import tempfile
import time
from typing import Any, Dict, List, Optional

import framework as fw

TRUSTED_BASE = [
    "Coq 8.16.1 kernel (coqc; coqchk -o in the thorough tier); vm_compute used for Examples and for evaluating the model on cases; native_compute not used",
    "no Axiom/Parameter/Admitted anywhere (grep on every run); Print Assumptions under every property theorem parsed on every run",
    "harness/translate.py (Python ast -> Gallina, fail-closed) for the generated definitions in coq/gen",
    "correspondence harness: trace generator, canonicaliser, comparator (harness/*.py); model evaluated inside Coq by vm_compute on generated cases.v (no extraction)",
    "hand-written Gallina models of pandas pipelines are tied to the code only by the correspondence run",
    "CPython 3.12 / pandas 3.0.6 / numpy 2.5 / networkx 3.6 that the implementation runs on",
]


def _abridge(case: dict, n: int = 40) -> dict:
    c = {k: v for k, v in case.items() if k != "ranks"}
    c["ranks"] = {str(r): {"fmt": rk.get("fmt"), "n_entries": len(rk["events"]), "events_head": rk["events"][:n]}
                  for r, rk in case["ranks"].items()}
    return c


def main(prop: str, tier: str, seed: int, replay: Optional[str], ncases: Optional[int], no_prove: bool) -> int:
    t0 = time.time()
    mod = importlib.import_module(f"p{prop}")
    modname = mod.__name__
    workdir = tempfile.mkdtemp(prefix="hta_verif_")
    try:
        return _main(prop, mod, modname, tier, seed, replay, ncases, no_prove, workdir, t0)
    finally:
        shutil.rmtree(workdir, ignore_errors=True)
        shutil.rmtree("/tmp" + workdir, ignore_errors=True)     # restore_cpgraph extracts under /tmp/<absolute path>
        # critical-path restore extracts under /tmp (hard-coded in the code under test)
        for p in glob.glob("/tmp/hta_verif_*"):
            if p != workdir and time.time() - os.path.getmtime(p) > 6 * 3600:
                shutil.rmtree(p, ignore_errors=True)


def _main(prop, mod, modname, tier, seed, replay, ncases, no_prove, workdir, t0) -> int:
    import translate
    known = {f["key"]: f for f in fw.load_known_findings() if f["property"] == prop and f.get("status") == "open"}
    violations: List[str] = []
    known_seen: Dict[str, int] = {}
    lines: List[str] = []

    if not replay:
        for old in glob.glob(os.path.join(fw.VERIF, "replays", f"{prop}_{tier}_{seed}_*.json")):
            os.remove(old)
    # 1. translate + 2. prove
    tr = translate.run(prop)
    if no_prove:
        prove = {"ok": True, "theorems": [], "assumptions": {}, "obligations": 0, "discharged": 0, "cmd": "skipped", "log": ""}
    else:
        prove = fw.coq_prove(prop, clean=False, extra_targets=fw.import_targets(mod.COQ_IMPORTS)) if tr["ok"] else {
            "ok": False, "theorems": [], "assumptions": {}, "obligations": 0, "discharged": 0, "cmd": "translate",
            "log": tr.get("error", ""), "error": "translator stopped: " + tr.get("error", "")}
    chk_ok, chk_out = (True, "")
    if tier == "thorough" and prove["ok"] and not no_prove and not replay:
        chk_ok, chk_out = fw.coqchk(prop)

    # 3. cases
    if replay:
        rp = json.load(open(replay))
        cases = [rp["case"]] if "case" in rp else []
        for i, c in enumerate(cases):
            c["case_no"] = i
    else:
        cases = []
        cdir = os.path.join(fw.VERIF, "corpus", prop)
        for fn in sorted(glob.glob(os.path.join(cdir, "*.json"))):
            c = json.load(open(fn))
            c = c.get("case", c)
            c["origin"] = "corpus:" + os.path.basename(fn)
            cases.append(c)
        n = ncases if ncases is not None else mod.N_CASES[tier]
        if tr.get("drift") and tier == "quick" and ncases is None:
            n = max(n, min(mod.N_CASES["thorough"], 3 * n))
        cases += mod.gen_cases(seed, tier, n)
        for i, c in enumerate(cases):
            c["case_no"] = i
        cases += [dict(c, case_no=len(cases) + j) for j, c in enumerate(getattr(mod, "extra_cases", lambda s, t: [])(seed, tier))]
    for c in cases:
        c["ranks"] = {int(k): v for k, v in c["ranks"].items()}

    # 4. run implementation, evaluate model
    t_impl0 = time.time()
    impl = fw.run_impl_cases(modname, cases, workdir) if cases else {}
    t_impl = time.time() - t_impl0
    terms = []
    for c in cases:
        res, err = impl[c["case_no"]]
        if err is None and res is not None and not res.get("skip"):
            t = mod.coq_term(c, res)
            if t is not None:
                terms.append((c["case_no"], t))
    t_model0 = time.time()
    model, eval_errors = fw.eval_coq_terms(mod.COQ_IMPORTS, terms, workdir) if terms else ({}, [])
    t_model = time.time() - t_model0

    # 5. compare
    failures = []
    model_broken: List[int] = []
    evaluated = 0
    nontrivial = set()
    skipped = 0
    hist: Dict[str, int] = {}
    samples = []
    import tracegen
    for c in cases:
        res, err = impl[c["case_no"]]
        if err is not None:
            failures.append((c, None, None, ["harness/implementation exception outside the observed API: " + err]))
            continue
        if res.get("skip"):
            skipped += 1
            continue
        if c["case_no"] not in model:
            # the model could not be evaluated (its Coq files no longer compile): not a failing input, a broken tie
            model_broken.append(c["case_no"])
            continue
        evaluated += 1
        m = model[c["case_no"]]
        disc = mod.compare(c, res, m)
        if getattr(mod, "INPUT_CONTRACT", False):
            disc = fw.input_contract(c, res) + list(disc)
        if isinstance(res, dict) and res.get("frames_altered"):
            disc = list(disc) + [f"the analysis altered the loaded trace it was given (rank, what): {res['frames_altered'][:2]}"]
        for k, v in tracegen.features(c).items():
            hist[k] = hist.get(k, 0) + v
        if mod.nontrivial(c, res):
            nontrivial.add(fw.case_hash(c))
        if len(samples) < 3 and mod.nontrivial(c, res):
            samples.append({"case": _abridge(c, 12), "impl_out": res.get("out"), "model_out": m, "agree": not disc})
        if disc:
            failures.append((c, res, m, disc))

    # 6. decide
    os.makedirs(os.path.join(fw.VERIF, "replays"), exist_ok=True)
    reported = 0
    for (c, res, m, disc) in failures:
        key = mod.classify(c, res, m, disc) if res is not None else None
        if key is not None and key in known:
            known_seen[key] = known_seen.get(key, 0) + 1
            continue
        if reported < 5:
            path = os.path.join(fw.VERIF, "replays", f"{prop}_{tier}_{seed}_{c['case_no']}.json")
            fw.write_json(path, {"property": prop, "tier": tier, "seed": seed, "case": c, "impl": res, "model": m,
                                 "discrepancies": disc, "classified_as": key,
                                 "replay_cmd": f"./check {prop} --replay {path}"})
            violations.append(path)
            lines.append(f"VIOLATION property={prop} replay={path}")
        reported += 1
    proof_broken = (not prove["ok"]) or (not chk_ok) or bool(model_broken)
    if proof_broken:
        if not violations:
            path = os.path.join(fw.VERIF, "replays", f"{prop}_{tier}_{seed}_proof.json")
            fw.write_json(path, {"property": prop, "tier": tier, "seed": seed,
                                 "no_longer_checks": prove.get("failed_at") or prove.get("error") or "Print Assumptions / forbidden-construct scan / coqchk",
                                 "theorems": prove.get("theorems"), "assumptions": prove.get("assumptions"),
                                 "forbidden": prove.get("forbidden"), "translator": tr, "coq_log_tail": prove.get("log", "")[-3000:],
                                 "coqchk": chk_out,
                                 "model_not_evaluable_for_cases": model_broken[:20], "model_eval_errors": [e[-1500:] for e in eval_errors[:3]],
                                 "searched": {"cases": evaluated, "failing_input": None}})
            violations.append(path)
            lines.append(f"VIOLATION property={prop} replay={path} no-failing-input-found")
    for key, n in known_seen.items():
        print(f"KNOWN-FINDING: property={prop} {known[key]['what']} [{key}; {n} case(s) this run]")
    for ln in lines:
        print(ln)

    # 7. evidence
    wall = time.time() - t0
    if not replay:
        ev = {
            "property_id": prop, "tier": tier, "seed": seed, "level": "proof",
            "coverage": {
                "obligations": prove.get("obligations", 0), "discharged": prove.get("discharged", 0),
                "checker_cmd": prove.get("cmd", "") + (" ; coqchk -silent -o HTA.props." + prop if tier == "thorough" else ""),
                "trusted_base": TRUSTED_BASE + getattr(mod, "TRUSTED_EXTRA", []),
                "theorems": prove.get("theorems", []), "print_assumptions": prove.get("assumptions", {}),
                "coqchk": (chk_out[-1500:] if tier == "thorough" else "not run in quick tier"),
                "translator": tr,
                "evaluations": evaluated, "distinct_nontrivial": len(nontrivial), "rule": mod.RULE,
                "samples": samples, "traces_validated_against_impl": evaluated,
                "disagreements_checked": len(failures), "skipped_out_of_quantifier": skipped,
                "input_histogram_totals": hist, "exhaustive": False,
                "known_findings_seen": known_seen, "phase_seconds": {"implementation": round(t_impl, 1), "model_in_coq": round(t_model, 1)},
                "explanation": getattr(mod, "EXPLANATION", ""),
            },
            "assumptions": getattr(mod, "ASSUMPTIONS", []),
            "wall_s": round(wall, 1), "violations": len(violations),
        }
        ev["coverage"].update(getattr(mod, "extra_coverage", lambda: {})())
        fw.write_json(os.path.join(fw.VERIF, "evidence", f"{prop}.json"), ev)
    print(f"[{prop}] tier={tier} seed={seed} obligations={prove.get('obligations')} discharged={prove.get('discharged')} "
          f"cases={evaluated} nontrivial={len(nontrivial)} skipped={skipped} disagreements={len(failures)} known={sum(known_seen.values())} "
          f"violations={len(violations)} wall={wall:.0f}s (impl {t_impl:.0f}s, model {t_model:.0f}s)")
    return 1 if violations else 0
