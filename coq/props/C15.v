(* C15 property theorems. Nothing but statements closed by `exact`, assumptions, non-vacuity. *)
From HTA.lib Require Import Base.
From HTA.model Require Import C15_Model.
From HTA.proof Require Import C15_Proofs.
From HTA.gen Require Import LaunchStats_gen.
From HTA.proof Require Import Scale C15_Scale C15_RulesTie.

(* one row per linked (launch call, device activity) pair, no other row, none twice *)
Theorem C15_rows_bijection : forall mem l, NoDup l -> wf_launch l ->
  NoDup (pairs mem l) /\ (forall r k, In (r, k) (pairs mem l) <-> linked_pair mem l r k).
Proof. exact rows_exact. Qed.
Print Assumptions C15_rows_bijection.

Theorem C15_values : forall r k,
  row (r, k) = [corr r; dur r; dur k; Z.max 0 (ts k - (ts r + dur r))].
Proof. exact row_values. Qed.
Print Assumptions C15_values.

Theorem C15_memory_flag : forall l r k, wf_launch l ->
  (In (r, k) (pairs false l) <-> In (r, k) (pairs true l) /\ is_mem_launch (name r) = false).
Proof. exact memory_flag. Qed.
Print Assumptions C15_memory_flag.

(* non-vacuity: a trace with a kernel launch, a memcpy launch, a launch without kernel, an orphan kernel *)
Definition ex15 : list ev :=
  [ mkEv 0 0 2 1 1 (-1) (-1) (-1) (-1) "aten::zeros" "cpu_op";
    mkEv 1 1 3 1 1 (-1) 10 2 (-1) "cudaLaunchKernel" "cuda_runtime";
    mkEv 2 9 4 0 7 7 10 1 (-1) "gemm" "kernel";
    mkEv 3 5 1 1 1 (-1) 11 4 (-1) "cudaMemcpyAsync" "cuda_runtime";
    mkEv 4 5 0 0 7 7 11 3 (-1) "Memcpy DtoH" "gpu_memcpy";
    mkEv 5 6 1 1 1 (-1) 12 0 (-1) "cudaLaunchKernel" "cuda_runtime";
    mkEv 6 20 1 0 7 7 13 0 (-1) "orphan" "kernel" ].
Example C15_nonvacuous :
  model_C15 true ex15 = [[10; 3; 4; 5]; [11; 1; 0; 0]] /\ model_C15 false ex15 = [[10; 3; 4; 5]].
Proof. vm_compute. split; reflexivity. Qed.

(* resolution independence: times multiplied by k >= 0 multiply the two durations and the delay of every row by k; same rows *)
Theorem C15_resolution_independent : forall k mem l, 0 <= k ->
  model_C15 mem (scale_evs k l) = map (scale_row15 k) (model_C15 mem l).
Proof. exact C15_scale. Qed.
Print Assumptions C15_resolution_independent.

(* the launch names, the memory-launch names and the delay rule are regenerated from cuda_kernel_launch_stats on every run (strict
   statement-by-statement reading of the per-rank loop: nothing may be hoisted out of it) and are the model's *)
Theorem C15_rules_follow_source :
  kernel_launch_names = kernel_launch_names_gen /\ memory_launch_names = memory_launch_names_gen /\
  (forall r k, row (r, k) = [corr r; dur r; dur k; launch_delay_gen (ts r) (dur r) (ts k)]).
Proof. exact launch_stats_rules_are_generated. Qed.
Print Assumptions C15_rules_follow_source.
