(* The stack machine over the key-sorted endpoints of a properly nested family of positive-duration events gives
   every event its innermost enclosing event as parent. *)
From Coq Require Import ZifyBool Permutation Sorted.
From HTA.lib Require Import Base ListExtra.
From HTA.gen Require Import Cmp_gen.
From HTA.model Require Import C03_Model.
From HTA.proof Require Import C03_Order.
Open Scope list_scope.
Open Scope Z_scope.

Definition kl (x y : ep) : Prop := key_lt x y = true.

(* two events of one thread: disjoint or touching, or one within the other *)
Definition nested (a b : ev) : Prop :=
  eend a <= ts b \/ eend b <= ts a \/ (ts a <= ts b /\ eend b <= eend a) \/ (ts b <= ts a /\ eend a <= eend b).

(* a encloses b, in key order: a opens before b and closes after it *)
Definition encl (a b : ev) : Prop := kl (open_new a) (open_new b) /\ kl (close_new b) (close_new a).

(* the same thing on the spans: a's span contains b's; identical spans nest in id order *)
Theorem enclosure_is_key_order a b : 0 < dur a -> 0 < dur b -> idx a <> idx b ->
  (encl a b <-> ts a <= ts b /\ eend b <= eend a /\ (ts a = ts b -> eend a = eend b -> idx a < idx b)).
Proof. unfold encl, kl, key_lt, open_new, close_new, eend, OPEN_END, CLOSE_END. cbn [e_idx e_dur e_kind e_time]. lia. Qed.

Lemma open_lt_close e : 0 < dur e -> kl (open_new e) (close_new e).
Proof. unfold kl, key_lt, open_new, close_new, OPEN_END, CLOSE_END. cbn [e_idx e_dur e_kind e_time]. lia. Qed.

(* endpoints of a nested pair never cross *)
Theorem no_crossing e t : 0 < dur e -> 0 < dur t -> idx e <> idx t -> nested e t ->
  kl (open_new e) (open_new t) -> kl (open_new t) (close_new e) -> kl (close_new e) (close_new t) -> False.
Proof. unfold nested, kl, key_lt, open_new, close_new, eend, OPEN_END, CLOSE_END. cbn [e_idx e_dur e_kind e_time]. lia. Qed.

Lemma straddle_encl a b : 0 < dur a -> 0 < dur b -> idx a <> idx b -> nested a b ->
  kl (open_new a) (open_new b) -> kl (open_new b) (close_new a) -> encl a b.
Proof. unfold encl, nested, kl, key_lt, open_new, close_new, eend, OPEN_END, CLOSE_END. cbn [e_idx e_dur e_kind e_time]. lia. Qed.

Lemma encl_straddle a b : 0 < dur a -> 0 < dur b -> encl a b -> kl (open_new b) (close_new a).
Proof. unfold encl, kl, key_lt, open_new, close_new, eend, OPEN_END, CLOSE_END. cbn [e_idx e_dur e_kind e_time]. lia. Qed.

(* two enclosers of one event are themselves nested: the one that opens first encloses the other *)
Lemma enclosers_chain a p b : 0 < dur a -> 0 < dur p -> 0 < dur b -> idx a <> idx p -> nested a p ->
  encl a b -> encl p b -> kl (open_new a) (open_new p) -> encl a p.
Proof. unfold encl, nested, kl, key_lt, open_new, close_new, eend, OPEN_END, CLOSE_END. cbn [e_idx e_dur e_kind e_time]. lia. Qed.

Lemma kl_trans x y z : kl x y -> kl y z -> kl x z.
Proof. unfold kl. apply key_lt_trans. Qed.
Lemma kl_irrefl x : ~ kl x x.
Proof. unfold kl. rewrite key_lt_irrefl. discriminate. Qed.
Lemma open_close_distinct a b : open_new a <> close_new b.
Proof. unfold open_new, close_new, OPEN_END, CLOSE_END. intro H. inversion H. Qed.

(* ---------------- families ---------------- *)
Record wf_family (F : list ev) : Prop := {
  wf_pos : forall e, In e F -> 0 < dur e;
  wf_ids : NoDup (map idx F);
  wf_nested : forall a b, In a F -> In b F -> idx a <> idx b -> nested a b }.

Lemma same_idx_same_ev F a b : NoDup (map idx F) -> In a F -> In b F -> idx a = idx b -> a = b.
Proof.
  induction F as [|x F IH]; intros Hnd Ha Hb E; [destruct Ha|]. simpl in Hnd. inversion Hnd as [|? ? Hx Hnd']; subst.
  destruct Ha as [Ha|Ha], Hb as [Hb|Hb]; subst; auto.
  - exfalso. apply Hx. rewrite E. apply in_map. exact Hb.
  - exfalso. apply Hx. rewrite <- E. apply in_map. exact Ha.
Qed.

Lemma open_inj F a b : NoDup (map idx F) -> In a F -> In b F -> open_new a = open_new b -> a = b.
Proof. intros Hnd Ha Hb E. apply (same_idx_same_ev F); auto. unfold open_new in E. inversion E. reflexivity. Qed.
Lemma close_inj F a b : NoDup (map idx F) -> In a F -> In b F -> close_new a = close_new b -> a = b.
Proof. intros Hnd Ha Hb E. apply (same_idx_same_ev F); auto. unfold close_new in E. inversion E. reflexivity. Qed.

(* ---------------- sorted lists ---------------- *)
Definition sortedK (l : list ep) : Prop := StronglySorted kl l.

Lemma sorted_split (pre : list ep) x post : sortedK (pre ++ x :: post) ->
  (forall y, In y pre -> kl y x) /\ (forall z, In z post -> kl x z) /\ sortedK (pre ++ [x]) /\ sortedK post.
Proof.
  induction pre as [|y pre IH]; intro Hs; simpl in Hs.
  - inversion Hs as [|? ? Hs' Hall]; subst. rewrite Forall_forall in Hall. repeat split; auto.
    + intros y [].
    + simpl. constructor; constructor.
  - inversion Hs as [|? ? Hs' Hall]; subst. destruct (IH Hs') as [H1 [H2 [H3 H4]]]. rewrite Forall_forall in Hall.
    repeat split; auto.
    + intros z [Hz|Hz]; [subst; apply Hall; apply in_or_app; right; left; reflexivity | apply H1; exact Hz].
    + simpl. constructor; [exact H3|]. rewrite Forall_forall. intros z Hz. apply Hall.
      apply in_app_or in Hz. apply in_or_app. destruct Hz as [Hz|[Hz|[]]]; [left; exact Hz | right; left; exact Hz].
Qed.

Lemma sorted_nodup l : sortedK l -> NoDup l.
Proof.
  induction 1 as [|x l _ IH Hall]; constructor; [|exact IH].
  intro Hin. rewrite Forall_forall in Hall. apply (kl_irrefl x). apply Hall. exact Hin.
Qed.

Lemma sorted_snoc_lt (pre : list ep) x : sortedK (pre ++ [x]) -> forall y, In y pre -> kl y x.
Proof. intros Hs. apply (sorted_split pre x [] Hs). Qed.

(* ---------------- the machine and its invariant ---------------- *)
Definition edges (st : list ev) (r : list ep) : list (Z * Z) := machine OPEN_END (-1) (map idx st) r.

Lemma kind_open e : (e_kind (open_new e) =? OPEN_END) = true.
Proof. reflexivity. Qed.
Lemma kind_close e : (e_kind (close_new e) =? OPEN_END) = false.
Proof. reflexivity. Qed.

(* the parent the property asks for: the encloser that every other encloser encloses, or the root if there is none *)
Definition innermost_of (F : list ev) (b : ev) (p : Z) : Prop :=
  (p = -1 /\ forall a, In a F -> ~ encl a b) \/
  (exists a, In a F /\ idx a = p /\ encl a b /\ forall a', In a' F -> encl a' b -> idx a' <> idx a -> encl a' a).

Ltac oc H := exfalso; first [exact (open_close_distinct _ _ H) | exact (open_close_distinct _ _ (eq_sym H))].

Section Machine.
  Variable F : list ev.
  Variable W : list ep.
  Hypothesis Hwf : wf_family F.
  Hypothesis Hperm : Permutation (endpoints_new F) W.
  Hypothesis Hsorted : sortedK W.

  Lemma in_W x : In x W <-> exists e, In e F /\ (x = open_new e \/ x = close_new e).
  Proof.
    split.
    - intro H. apply Permutation_sym in Hperm. apply (Permutation_in _ Hperm) in H. unfold endpoints_new in H.
      apply in_app_or in H. destruct H as [H|H]; apply in_map_iff in H; destruct H as [e [E He]]; exists e; auto.
    - intros [e [He [E|E]]]; subst; apply (Permutation_in _ Hperm); unfold endpoints_new; apply in_or_app;
        [left | right]; apply in_map; exact He.
  Qed.

  (* st: the events opened in pre and not yet closed, latest opened first *)
  Definition Inv (st : list ev) (pre r : list ep) : Prop :=
    (forall e, In e st <-> (In e F /\ In (open_new e) pre /\ In (close_new e) r)) /\
    StronglySorted (fun x y => kl (open_new y) (open_new x)) st.

  Lemma inv_nodup st pre r : Inv st pre r -> NoDup st.
  Proof.
    intros [_ Hs]. induction Hs as [|x l _ IH Hall]; constructor; [|exact IH].
    intro Hin. rewrite Forall_forall in Hall. apply (kl_irrefl (open_new x)). apply Hall. exact Hin.
  Qed.

  Lemma main : forall r pre st, W = pre ++ r -> Inv st pre r ->
    (forall c p, In (c, p) (edges st r) -> exists b, In b F /\ idx b = c /\ In (open_new b) r /\ innermost_of F b p) /\
    (forall b, In b F -> In (open_new b) r -> exists p, In (idx b, p) (edges st r)) /\
    NoDup (map fst (edges st r)).
  Proof.
    induction r as [|x r IH]; intros pre st HW Hinv.
    - unfold edges. simpl. split; [intros c p [] | split; [intros b0 _ [] | constructor]].
    - assert (HxW : In x W) by (rewrite HW; apply in_or_app; right; left; reflexivity).
      rewrite HW in Hsorted. destruct (sorted_split pre x r Hsorted) as [Hpre [Hpost [Hs1 Hs2]]].
      pose proof (sorted_nodup _ Hsorted) as HndW.
      assert (Hx_notin_r : ~ In x r).
      { intro H. apply (kl_irrefl x). apply Hpost. exact H. }
      assert (Hx_notin_pre : ~ In x pre).
      { intro H. apply (kl_irrefl x). apply Hpre. exact H. }
      assert (HW' : W = (pre ++ [x]) ++ r) by (rewrite <- app_assoc; exact HW).
      destruct Hinv as [Hmem Hstk].
      apply in_W in HxW. destruct HxW as [b [Hb [E|E]]]; subst x.
      + (* ---- an opening end ---- *)
        assert (Hposb := wf_pos F Hwf b Hb).
        assert (Hclose_b : In (close_new b) r).
        { assert (In (close_new b) W) by (apply in_W; exists b; auto).
          rewrite HW in H. apply in_app_or in H. destruct H as [H|[H|H]]; [|oc H | exact H].
          exfalso. apply (kl_irrefl (open_new b)). eapply kl_trans; [apply open_lt_close; exact Hposb | apply Hpre; exact H]. }
        (* every stack element encloses b; every encloser of b is on the stack *)
        assert (Hst_encl : forall a, In a st -> encl a b /\ idx a <> idx b).
        { intros a Ha. apply Hmem in Ha. destruct Ha as [HaF [Hao Hac]].
          assert (Hne : idx a <> idx b).
          { intro E. assert (a = b) by (apply (same_idx_same_ev F); auto; apply (wf_ids F Hwf)). subst a. apply Hx_notin_pre. exact Hao. }
          split; [|exact Hne].
          apply straddle_encl;
            [apply (wf_pos F Hwf); assumption | exact Hposb | exact Hne | apply (wf_nested F Hwf); assumption
            | apply Hpre; exact Hao | destruct Hac as [Hac|Hac]; [oc Hac | apply Hpost; exact Hac]]. }
        assert (Hencl_st : forall a, In a F -> encl a b -> In a st).
        { intros a HaF [Ho Hc]. apply Hmem. split; [exact HaF|]. split.
          - assert (HaW : In (open_new a) W) by (apply in_W; exists a; auto). rewrite HW in HaW.
            apply in_app_or in HaW. destruct HaW as [H|[H|H]]; [exact H | |].
            + exfalso. rewrite H in Ho. exact (kl_irrefl _ Ho).
            + exfalso. apply (kl_irrefl (open_new a)). eapply kl_trans; [exact Ho | apply Hpost; exact H].
          - assert (HaW : In (close_new a) W) by (apply in_W; exists a; auto). rewrite HW in HaW.
            assert (Hba : kl (open_new b) (close_new a)).
            { eapply kl_trans; [apply open_lt_close; exact Hposb | exact Hc]. }
            apply in_app_or in HaW. destruct HaW as [H|[H|H]]; [| oc H | right; exact H].
            exfalso. apply (kl_irrefl (open_new b)). eapply kl_trans; [exact Hba | apply Hpre; exact H]. }
        (* the new invariant *)
        assert (Hinv' : Inv (b :: st) (pre ++ [open_new b]) r).
        { split.
          - intro e. split.
            + intros [He|He].
              * subst e. split; [exact Hb|]. split; [apply in_or_app; right; left; reflexivity | exact Hclose_b].
              * apply Hmem in He. destruct He as [HeF [Heo Hec]]. split; [exact HeF|]. split; [apply in_or_app; left; exact Heo|].
                destruct Hec as [Hec|Hec]; [oc Hec | exact Hec].
            + intros [HeF [Heo Hec]]. apply in_app_or in Heo. destruct Heo as [Heo|[Heo|[]]].
              * right. apply Hmem. split; [exact HeF|]. split; [exact Heo | right; exact Hec].
              * left. symmetry. apply (open_inj F); auto. apply (wf_ids F Hwf).
          - constructor; [exact Hstk|]. rewrite Forall_forall. intros a Ha. apply Hmem in Ha. apply Hpre. tauto. }
        specialize (IH (pre ++ [open_new b]) (b :: st) HW' Hinv'). destruct IH as [IH1 [IH2 IH3]].
        unfold edges in *. cbn [machine map]. rewrite kind_open. cbn [e_idx open_new].
        change (machine OPEN_END (-1) (idx b :: map idx st) r) with (machine OPEN_END (-1) (map idx (b :: st)) r).
        split; [|split].
        * intros c p [H|H].
          -- inversion H; subst c p. exists b. split; [exact Hb|]. split; [reflexivity|]. split; [left; reflexivity|].
             destruct st as [|t st'].
             ++ left. split; [reflexivity|]. intros a HaF Henc. exact (Hencl_st a HaF Henc).
             ++ right. exists t. cbn [map hd]. assert (Ht : In t (t :: st')) by (left; reflexivity).
                destruct (Hst_encl t Ht) as [Henc Hne]. pose proof (proj1 (Hmem t) Ht) as [HtF _].
                split; [exact HtF|]. split; [reflexivity|]. split; [exact Henc|].
                intros a' Ha'F Ha'enc Hne'. pose proof (Hencl_st a' Ha'F Ha'enc) as Ha'st.
                destruct Ha'st as [E|Ha'st]; [subst; congruence|].
                inversion Hstk as [|? ? _ Hall]; subst. rewrite Forall_forall in Hall. specialize (Hall a' Ha'st).
                apply (enclosers_chain a' t b);
                  [apply (wf_pos F Hwf); assumption | apply (wf_pos F Hwf); assumption | exact Hposb | exact Hne'
                  | apply (wf_nested F Hwf); assumption | exact Ha'enc | exact Henc | exact Hall].
          -- destruct (IH1 c p H) as [b' [Hb' [Hc [Ho Hin]]]]. exists b'. split; [exact Hb'|]. split; [exact Hc|]. split; [right; exact Ho | exact Hin].
        * intros b' Hb' [Ho|Ho].
          -- assert (b' = b) by (symmetry; apply (open_inj F); auto; apply (wf_ids F Hwf)). subst b'.
             eexists. left. reflexivity.
          -- destruct (IH2 b' Hb' Ho) as [p Hp]. exists p. right. exact Hp.
        * cbn [map fst]. constructor; [|exact IH3]. intro Hin. apply in_map_iff in Hin. destruct Hin as [[c p] [Hc Hin]]. cbn [fst] in Hc. subst c.
          destruct (IH1 _ p Hin) as [b' [Hb' [Hc [Ho _]]]].
          assert (b' = b) by (apply (same_idx_same_ev F); auto; apply (wf_ids F Hwf)). subst b'. exact (Hx_notin_r Ho).
      + (* ---- a closing end: the top of the stack is the event being closed ---- *)
        assert (Hposb := wf_pos F Hwf b Hb).
        assert (Hopen_b : In (open_new b) pre).
        { assert (In (open_new b) W) by (apply in_W; exists b; auto). rewrite HW in H.
          apply in_app_or in H. destruct H as [H|[H|H]]; [exact H | oc H|].
          exfalso. apply (kl_irrefl (open_new b)). eapply kl_trans; [apply open_lt_close; exact Hposb | apply Hpost; exact H]. }
        assert (Hb_st : In b st) by (apply Hmem; split; [exact Hb|]; split; [exact Hopen_b | left; reflexivity]).
        destruct st as [|t st']; [destruct Hb_st|].
        assert (Htop : t = b).
        { destruct Hb_st as [E|Hb_st']; [exact E|]. exfalso.
          inversion Hstk as [|? ? _ Hall]; subst. rewrite Forall_forall in Hall. specialize (Hall b Hb_st').
          pose proof (proj1 (Hmem t) (or_introl eq_refl)) as [HtF [Hto Htc]].
          assert (Hne : idx b <> idx t).
          { intro E. assert (b = t) by (apply (same_idx_same_ev F); auto; apply (wf_ids F Hwf)). subst t.
            exact (kl_irrefl _ Hall). }
          destruct Htc as [Htc|Htc]; [apply Hne; symmetry; unfold close_new in Htc; inversion Htc; reflexivity|].
          apply (no_crossing b t);
            [exact Hposb | apply (wf_pos F Hwf); assumption | exact Hne | apply (wf_nested F Hwf); assumption
            | exact Hall | apply Hpre; exact Hto | apply Hpost; exact Htc]. }
        subst t.
        assert (Hinv' : Inv st' (pre ++ [close_new b]) r).
        { pose proof (inv_nodup _ _ _ (conj Hmem Hstk)) as Hnd. inversion Hnd as [|? ? Hb_notin Hnd']; subst. split.
          - intro e. split.
            + intro He. pose proof (proj1 (Hmem e) (or_intror He)) as [HeF [Heo Hec]].
              split; [exact HeF|]. split; [apply in_or_app; left; exact Heo|].
              destruct Hec as [Hec|Hec]; [|exact Hec]. exfalso.
              assert (e = b) by (symmetry; apply (close_inj F); auto; apply (wf_ids F Hwf)). subst e. contradiction.
            + intros [HeF [Heo Hec]]. apply in_app_or in Heo. destruct Heo as [Heo|[Heo|[]]]; [|oc Heo].
              assert (He : In e (b :: st')) by (apply Hmem; split; [exact HeF|]; split; [exact Heo | right; exact Hec]).
              destruct He as [E|He]; [|exact He]. subst e. exfalso. exact (Hx_notin_r Hec).
          - inversion Hstk; assumption. }
        specialize (IH (pre ++ [close_new b]) st' HW' Hinv'). destruct IH as [IH1 [IH2 IH3]].
        unfold edges in *. cbn [machine map]. rewrite kind_close. cbn [tl].
        split; [|split].
        * intros c p H. destruct (IH1 c p H) as [b' [Hb' [Hc [Ho Hin]]]]. exists b'. split; [exact Hb'|]. split; [exact Hc|]. split; [right; exact Ho | exact Hin].
        * intros b' Hb' [Ho|Ho]; [oc Ho|]. exact (IH2 b' Hb' Ho).
        * exact IH3.
  Qed.

  Theorem parent_innermost :
    (forall b, In b F -> exists p, In (idx b, p) (machine OPEN_END (-1) [] W) /\ innermost_of F b p) /\
    (forall c p, In (c, p) (machine OPEN_END (-1) [] W) -> exists b, In b F /\ idx b = c /\ innermost_of F b p) /\
    NoDup (map fst (machine OPEN_END (-1) [] W)).
  Proof.
    assert (Hinv : Inv [] [] W).
    { split; [|constructor]. intro e. split; [intros [] | intros [_ [[] _]]]. }
    destruct (main W [] [] eq_refl Hinv) as [H1 [H2 H3]]. unfold edges in *. cbn [map] in *.
    split; [|split; [|exact H3]].
    - intros b Hb. assert (Ho : In (open_new b) W) by (apply in_W; exists b; auto).
      destruct (H2 b Hb Ho) as [p Hp]. exists p. split; [exact Hp|].
      destruct (H1 _ _ Hp) as [b' [Hb' [Hc [_ Hin]]]].
      assert (b' = b) by (apply (same_idx_same_ev F); auto; apply (wf_ids F Hwf)). subst b'. exact Hin.
    - intros c p H. destruct (H1 c p H) as [b [Hb [Hc [_ Hin]]]]. exists b. auto.
  Qed.
End Machine.

(* ---------------- zero-duration events: the generated comparator is cyclic ---------------- *)
(* A = [0,2), B = [2,4), Z = [2,2]: B.open < Z.open < Z.close < A.close < B.open *)
Definition epA_close := mkEp 1 2 CLOSE_END 2.
Definition epB_open := mkEp 2 2 OPEN_END 2.
Definition epZ_open := mkEp 3 0 OPEN_END 2.
Definition epZ_close := mkEp 3 0 CLOSE_END 2.
Theorem zero_duration_cycle :
  less_than_gen epB_open epZ_open = Some true /\ less_than_gen epZ_open epZ_close = Some true /\
  less_than_gen epZ_close epA_close = Some true /\ less_than_gen epA_close epB_open = Some true.
Proof. vm_compute. repeat split; reflexivity. Qed.

(* ---------------- the model's sort driver returns the key-sorted permutation ---------------- *)
Lemma insert_by_perm lt x l : Permutation (x :: l) (insert_by lt x l).
Proof.
  induction l as [|y r IH]; simpl; [apply Permutation_refl|]. destruct (lt x y); [apply Permutation_refl|].
  eapply perm_trans; [apply perm_swap | apply perm_skip; exact IH].
Qed.
Lemma sort_by_perm lt l : Permutation l (sort_by lt l).
Proof. induction l as [|x l IH]; simpl; [constructor|]. eapply perm_trans; [apply perm_skip; exact IH | apply insert_by_perm]. Qed.

(* on a set S of endpoints on which lt is the key order and distinct endpoints are comparable *)
Lemma insert_by_sorted lt (S : ep -> Prop) x l :
  (forall a b, S a -> S b -> a <> b -> lt a b = key_lt a b) ->
  (forall a b, S a -> S b -> a <> b -> kl a b \/ kl b a) ->
  S x -> (forall y, In y l -> S y /\ y <> x) -> sortedK l -> sortedK (insert_by lt x l).
Proof.
  intros Hlt Htot Hx. induction l as [|y r IH]; intros HS Hs; simpl; [constructor; constructor|].
  inversion Hs as [|? ? Hs' Hall]; subst. destruct (HS y (or_introl eq_refl)) as [HSy Hyx].
  destruct (lt x y) eqn:E.
  - rewrite (Hlt x y Hx HSy (fun H => Hyx (eq_sym H))) in E. constructor; [exact Hs|]. constructor; [exact E|].
    rewrite Forall_forall in *. intros z Hz. eapply kl_trans; [exact E | apply Hall; exact Hz].
  - rewrite (Hlt x y Hx HSy (fun H => Hyx (eq_sym H))) in E. constructor.
    + apply IH; [intros z Hz; apply HS; right; exact Hz | exact Hs'].
    + assert (Hyx' : kl y x).
      { destruct (Htot y x HSy Hx Hyx) as [H|H]; [exact H | unfold kl in H; congruence]. }
      assert (Hp := insert_by_perm lt x r). rewrite Forall_forall in *. intros z Hz.
      apply Permutation_sym in Hp. apply (Permutation_in _ Hp) in Hz. destruct Hz as [Hz|Hz]; [subst; exact Hyx' | apply Hall; exact Hz].
Qed.

Lemma sort_by_sorted lt (S : ep -> Prop) l :
  (forall a b, S a -> S b -> a <> b -> lt a b = key_lt a b) ->
  (forall a b, S a -> S b -> a <> b -> kl a b \/ kl b a) ->
  (forall y, In y l -> S y) -> NoDup l -> sortedK (sort_by lt l).
Proof.
  intros Hlt Htot. induction l as [|x l IH]; intros HS Hnd; simpl; [constructor|]. inversion Hnd as [|? ? Hx Hnd']; subst.
  apply (insert_by_sorted lt S); auto.
  - apply HS. left. reflexivity.
  - intros y Hy. pose proof (sort_by_perm lt l) as Hp. apply Permutation_sym in Hp. apply (Permutation_in _ Hp) in Hy.
    split; [apply HS; right; exact Hy | intro E; subst; contradiction].
  - apply IH; [intros y Hy; apply HS; right; exact Hy | exact Hnd'].
Qed.

Lemma endpoints_nodup F : wf_family F -> NoDup (endpoints_new F).
Proof.
  intro Hwf. unfold endpoints_new. pose proof (wf_ids F Hwf) as Hnd.
  assert (H1 : NoDup (map open_new F)).
  { clear Hwf. induction F as [|e F IH]; simpl; [constructor|]. simpl in Hnd. inversion Hnd as [|? ? Hx Hnd']; subst.
    constructor; [|apply IH; exact Hnd']. intro Hin. apply in_map_iff in Hin. destruct Hin as [e' [E He']].
    apply Hx. assert (Hi : idx e = idx e') by (unfold open_new in E; inversion E; congruence). rewrite Hi. apply in_map. exact He'. }
  assert (H2 : NoDup (map close_new F)).
  { clear Hwf H1. induction F as [|e F IH]; simpl; [constructor|]. simpl in Hnd. inversion Hnd as [|? ? Hx Hnd']; subst.
    constructor; [|apply IH; exact Hnd']. intro Hin. apply in_map_iff in Hin. destruct Hin as [e' [E He']].
    apply Hx. assert (Hi : idx e = idx e') by (unfold close_new in E; inversion E; congruence). rewrite Hi. apply in_map. exact He'. }
  apply NoDup_app_intro; [exact H1 | exact H2|].
  intros x Hx1 Hx2. apply in_map_iff in Hx1. destruct Hx1 as [a [Ea _]]. apply in_map_iff in Hx2. destruct Hx2 as [b [Eb _]].
  subst x. symmetry in Eb. exact (open_close_distinct _ _ Eb).
Qed.

(* the model's new builder on a well-formed family: every event gets its innermost encloser, each event once *)
Theorem model_parents_new F : wf_family F ->
  (forall b, In b F -> exists p, In (idx b, p) (parents_new F) /\ innermost_of F b p) /\
  (forall c p, In (c, p) (parents_new F) -> exists b, In b F /\ idx b = c /\ innermost_of F b p) /\
  NoDup (map fst (parents_new F)).
Proof.
  intro Hwf. unfold parents_new. apply (parent_innermost F); [exact Hwf | apply sort_by_perm|].
  apply (sort_by_sorted lt_new (fun x => exists e, In e F /\ (x = open_new e \/ x = close_new e))).
  - intros a b [ea [Hea Ea]] [eb [Heb Eb]] Hab. unfold lt_new. rewrite less_than_is_key_order; [reflexivity | | |].
    + pose proof (wf_pos F Hwf ea Hea). destruct Ea as [E|E]; subst a; unfold okk, open_new, close_new, OPEN_END, CLOSE_END; cbn; lia.
    + pose proof (wf_pos F Hwf eb Heb). destruct Eb as [E|E]; subst b; unfold okk, open_new, close_new, OPEN_END, CLOSE_END; cbn; lia.
    + intro Ei. assert (ea = eb).
      { apply (same_idx_same_ev F); auto; [apply (wf_ids F Hwf)|]. destruct Ea as [E|E], Eb as [E'|E']; subst a b; exact Ei. }
      subst eb. pose proof (wf_pos F Hwf ea Hea). destruct Ea as [E|E], Eb as [E'|E']; subst a b; unfold open_new, close_new; cbn; try lia; congruence.
  - intros a b [ea [Hea Ea]] [eb [Heb Eb]] Hab.
    destruct (key_lt a b) eqn:E1; [left; exact E1|]. destruct (key_lt b a) eqn:E2; [right; exact E2|]. exfalso. apply Hab.
    assert (Hka : e_kind a = -1 \/ e_kind a = 1) by (destruct Ea as [E|E]; subst a; cbn; auto).
    assert (Hkb : e_kind b = -1 \/ e_kind b = 1) by (destruct Eb as [E|E]; subst b; cbn; auto).
    destruct (key_lt_total a b Hka Hkb E1 E2) as [H1 [H2 [H3 H4]]]. destruct a, b. cbn in *. congruence.
  - intros y Hy. unfold endpoints_new in Hy. apply in_app_or in Hy. destruct Hy as [Hy|Hy]; apply in_map_iff in Hy;
      destruct Hy as [e [E He]]; exists e; auto.
  - apply endpoints_nodup. exact Hwf.
Qed.
