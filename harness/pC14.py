"""C14: queue-length and memory-bandwidth counters are exact step functions."""
import gzip
import json
import math
import os
import random
import tracegen
import framework as fw
import translate

ID = "C14"
COQ_IMPORTS = ["From HTA.model Require Import C14_Model."]
SOURCES = {"hta/analyzers/trace_counters.py": ["_get_queue_length_time_series_for_rank", "get_queue_length_time_series",
                                               "_get_memory_bw_time_series_for_rank", "get_memory_bw_time_series"],
           "hta/common/trace_symbol_table.py": ["get_runtime_launch_events_query"],
           "hta/common/trace.py": ["convert_time_series_to_events"], "hta/trace_analysis.py": ["generate_trace_with_counters"],
           "hta/utils/utils.py": ["get_memory_kernel_type"]}
TRANSLATE = [translate.gen_kernel_rules, translate.gen_launch_names, translate.gen_counter_rules]
INPUT_CONTRACT = True        # the loaded frame is re-checked against the file (framework.input_contract)
N_CASES = {"quick": 300, "thorough": 5000}
RULE = ("generated well-formed file sets, four in five causal, one in five with activities stamped before their launch call (1-2 ranks, 1-3 streams, FIFO kernels, tiny time domains: kernels starting at the very timestamp of their launch "
        "call, several launches in one instant, zero-length copies, memcpy/memset of several types with dyadic bandwidths, missing kernels and orphans); compared: "
        "per stream the sequence of (ts, queue_length), the row set (id, ts, pid, tid, stream), per copy type the bandwidth after the last row of each instant, "
        "and the counter events appended to the *_with_counters file against the series at unshifted timestamps; non-trivial = some stream has two rows in one "
        "instant or a queue length >= 2; distinct = hash of the file set")
ASSUMPTIONS = ["bandwidths are multiples of 1/4 so that double sums are exact; the comparison is exact on those",
               "the *_with_counters file is read back as gzip or plain JSON whatever its name (its format is C20's subject)"]


def gen_cases(seed, tier, n):
    out = []
    # queue_skew: device activities stamped up to 3 units before their launch call (clock skew): the exact count is then negative for a while
    profs = ["queue", "queue", "fifo_tiny", "queue_wide", "queue_skew"]
    for i in range(n):
        c = tracegen.gen_case(seed, i, tracegen.PROFILES[profs[i % len(profs)]])
        c["params"] = {"files": i % 3 == 0}
        if i % 5 == 3:
            import random as _r
            tracegen.lookalike_launch_names(c, _r.Random(seed * 31337 + i))     # linked runtime calls whose names only contain a launch name
        if i % 3 == 1:
            tracegen.relabel_ranks(c)      # a subset of a job: rank ids are not 0..n-1, and not listed in order
        if i % 7 == 4:
            # the device rows of all streams of a rank are written under ONE thread id (a trace viewer row per device instead of per stream, as
            # some exporters do): a queue is a stream's, whatever row the activity is drawn on
            for rk in c["ranks"].values():
                dev = [e for e in rk["events"] if e.get("ph") == "X" and isinstance(e.get("args"), dict) and isinstance(e["args"].get("stream"), int)
                       and e["args"]["stream"] > 0]
                if dev:
                    t0 = min(e["tid"] for e in dev)
                    for e in dev:
                        e["tid"] = t0
        if i % 10 == 7:
            fw.set_quarter_us(c)           # quarter-microsecond resolution (framework.resolution); files in every second such case
            c["params"]["files"] = i % 20 == 7
        out.append(c)
    return out


def _read_any(path):
    raw = open(path, "rb").read()
    try:
        return json.loads(gzip.decompress(raw))
    except Exception:
        return json.loads(raw)


def run_impl(case, d):
    with fw.resolution(case):
        return _run_impl(case, d)


def _run_impl(case, d):
    k = fw.time_scale(case)
    ta, paths = fw.load_case_res(case, d)
    sym = ta.t.symbol_table.get_sym_table()
    ranks = sorted(ta.t.get_ranks())
    frames = {}
    for r in ranks:
        rows = fw.dump_frame_res(case, ta.t.get_trace(r), sym)
        frames[r] = rows
    out = {}
    try:
        q = ta.get_queue_length_time_series(ranks=ranks)
        out["queue"] = {}
        for r, df in q.items():
            out["queue"][int(r)] = [[fw.as_int(i), fw.as_int(rec["ts"] * k), fw.as_int(rec["pid"]), fw.as_int(rec["tid"]), fw.as_int(rec["stream"]),
                                     fw.as_int(rec["queue_length"])] for i, rec in zip(df.index, df.to_dict("records"))]
    except Exception as e:
        out["queue_error"] = type(e).__name__ + ": " + str(e)[:200]
    try:
        b = ta.get_memory_bw_time_series(ranks=ranks)
        out["bw"] = {int(r): [[fw.as_int(rec["ts"] * k), fw.as_int(rec["pid"]), str(rec["name"]), float(rec["memory_bw_gbps"])] for rec in df.to_dict("records")]
                     for r, df in b.items()}
    except Exception as e:
        out["bw_error"] = type(e).__name__ + ": " + str(e)[:200]
    if case["params"]["files"] and "queue" in out and "bw" in out:
        try:
            if case.get("case_no", 0) % 2 == 0:
                # history: the annotated files had been written once before by the same object; writing them again gives the same files
                ta.generate_trace_with_counters(ranks=ranks)
            ta.generate_trace_with_counters(ranks=ranks)
            files = {}
            for r in ranks:
                src = paths[r]
                cand = [src.replace(".json", "_with_counters.json")]
                got = None
                for c in cand:
                    if os.path.exists(c):
                        got = c
                if got is None:
                    files[r] = {"missing": True}
                    continue
                doc = _read_any(got)
                src_events = (fw.quartered(case) if k != 1 else case)["ranks"][r]["events"]
                n_src = len(src_events)
                tail = doc["traceEvents"][n_src:]
                if k != 1:
                    # counter events of a quarter-microsecond case are compared at the case's integer scale
                    tail = [dict(e, ts=fw.as_int(e["ts"] * k)) if isinstance(e, dict) and "ts" in e else e for e in tail]
                files[r] = {"tail": tail, "head_ok": doc["traceEvents"][:n_src] == src_events}
            out["files"] = files
            out["min_ts"] = int(ta.t.min_ts) if k == 1 else fw.as_int(ta.t.min_ts * k)
        except Exception as e:
            out["files_error"] = type(e).__name__ + ": " + str(e)[:200]
    return {"frames": frames, "out": out, "frames_altered": fw.frames_altered(case, ta, frames, sym)}


def _bw4(row):
    v = row.get("bw", 0.0)
    if v is None or (isinstance(v, float) and math.isnan(v)):
        return 0
    x = v * 4
    return int(x) if x == int(x) else None


def _types(rows):
    import re
    ts = set()
    for r in rows:
        n = r["name"]
        if r["stream"] != -1 and not re.match(r"^nccl.*Kernel", n) and re.match(r"(^Memcpy)|(^Memset)|(^dma)", n):
            ts.add("Memset" if n[:6] == "Memset" else "Memcpy Unknown" if n[:6] != "Memcpy" else n[:11])
    return sorted(ts)


def coq_term(case, impl):
    parts = []
    for r, rows in sorted(impl["frames"].items()):
        # the 1 us floor given to zero-length copies is an absolute constant: k units in a quarter-microsecond case (the model's floor is 1 unit)
        k = fw.time_scale(case)
        brows = rows if k == 1 else [dict(x, dur=k) if (x["dur"] == 0 and x["stream"] != -1) else x for x in rows]
        pairs = "[" + ";\n   ".join(f"({fw.ev_lit(x)}, {fw.z(_bw4(x) or 0)})" for x in brows) + "]"
        parts.append(f"(encode_queue {fw.evl(rows)}, encode_bw {fw.sl(_types(rows))} {pairs})")
    return "[" + ";\n ".join(parts) + "]"


def _last_per_instant(seq):
    out = []
    for t, v in seq:
        if out and out[-1][0] == t:
            out[-1] = [t, v]
        else:
            out.append([t, v])
    return out


def compare(case, impl, model):
    o = impl["out"]
    disc = []
    if "queue_error" in o:
        disc.append("get_queue_length_time_series raised " + o["queue_error"])
    if "bw_error" in o:
        disc.append("get_memory_bw_time_series raised " + o["bw_error"])
    if "files_error" in o:
        disc.append("generate_trace_with_counters raised " + o["files_error"])
    if disc:
        return disc
    for (r, rows), (mq, mb) in zip(sorted(impl["frames"].items()), model):
        if any(_bw4(x) is None for x in rows):
            disc.append("harness: bandwidth not a multiple of 1/4")
            continue
        got = o["queue"].get(r)
        if got is None:
            if mq:
                disc.append(f"rank {r}: no queue series returned but the model has streams {[s for s, _, _ in mq]}")
        else:
            by = {}
            for i, ts, pid, tid, s, ql in got:
                by.setdefault(s, []).append((i, ts, pid, tid, s, ql))
            if sorted(by) != [s for s, _, _ in mq]:
                disc.append(f"rank {r}: streams with a series impl={sorted(by)} model={[s for s, _, _ in mq]}")
            for s, seq, rowset in mq:
                g = by.get(s, [])
                gseq = [[ts, ql] for (_, ts, _, _, _, ql) in g]
                if gseq != [list(x) for x in seq]:
                    disc.append(f"rank {r} stream {s}: (ts, queue_length) sequence impl={gseq[:14]} model={[list(x) for x in seq][:14]}")
                grows = sorted([i, ts, pid, tid, st] for (i, ts, pid, tid, st, _) in g)
                if grows != [list(x) for x in rowset]:
                    disc.append(f"rank {r} stream {s}: series rows (id, ts, pid, tid, stream) differ: impl={grows[:6]} model={[list(x) for x in rowset][:6]}")
                if g and g[-1][5] != 0:
                    disc.append(f"rank {r} stream {s}: series ends at {g[-1][5]}, not 0")
        gb = o["bw"].get(r)
        types = _types(rows)
        want = {types[ti]: [[t, v / 4.0] for t, v in seq] for ti, seq in mb}
        if gb is None:
            if any(want.values()):
                disc.append(f"rank {r}: no bandwidth series returned but copies exist: {list(want)}")
        else:
            byn = {}
            for ts, pid, nm, v in gb:
                byn.setdefault(nm, []).append((ts, v))
            for nm in sorted(set(byn) | {k for k, v in want.items() if v}):
                g = _last_per_instant(byn.get(nm, []))
                if g != want.get(nm, []):
                    disc.append(f"rank {r} copy type {nm!r}: bandwidth after each instant impl={g[:10]} model={want.get(nm, [])[:10]}")
                if any(v < -1e-9 for _, v in byn.get(nm, [])):
                    disc.append(f"rank {r} copy type {nm!r}: negative bandwidth value in the series")
        if "files" in o:
            f = o["files"].get(r, {})
            exp = []
            for i, ts, pid, tid, s, ql in (got or []):
                exp.append({"ph": "C", "pid": pid, "ts": ts + o["min_ts"], "name": "Queue Length", "args": {"Queue Length": ql}, "id": s})
            for ts, pid, nm, v in (gb or []):
                exp.append({"ph": "C", "pid": pid, "ts": ts + o["min_ts"], "name": nm, "args": {"Memcpy BW": v}})
            if f.get("missing"):
                if exp:
                    disc.append(f"rank {r}: no *_with_counters file was written")
            else:
                if not f.get("head_ok"):
                    disc.append(f"rank {r}: source events are not an unchanged prefix of the *_with_counters file")
                tail = [{k: v for k, v in e.items()} for e in f.get("tail", [])]
                def _canon(x):
                    if isinstance(x, dict):
                        return {k: _canon(v) for k, v in x.items()}
                    if isinstance(x, float) and x == int(x):
                        return int(x)
                    return x
                key = lambda e: json.dumps(_canon(e), sort_keys=True)
                if sorted(map(key, tail)) != sorted(map(key, exp)):
                    disc.append(f"rank {r}: counter events differ from the series at unshifted timestamps: file has {len(tail)}, expected {len(exp)}; "
                                f"first file {tail[:1]} first expected {exp[:1]}")
                else:
                    # a viewer shows, per track and instant, the LAST counter event in file order: it must carry the series' value after that instant
                    def last_per_instant(evs):
                        out = {}
                        for e in evs:
                            e = _canon(e)
                            out[(e.get("pid"), e.get("name"), e.get("id"), e.get("ts"))] = json.dumps(e.get("args"), sort_keys=True)
                        return out
                    lf, le = last_per_instant(tail), last_per_instant(exp)
                    bad = [(k, lf[k], le[k]) for k in le if lf.get(k) != le[k]][:2]
                    if bad:
                        disc.append(f"rank {r}: within a counter track the last event of an instant (file order) does not carry the series' value after that "
                                    f"instant: (pid, name, id, ts), file, series: {bad}")
    return disc[:8]


def nontrivial(case, impl):
    o = impl["out"]
    for r, rows in (o.get("queue") or {}).items():
        seen = set()
        for i, ts, pid, tid, s, ql in rows:
            if ql >= 2 or (s, ts) in seen:
                return True
            seen.add((s, ts))
    return False


def classify(case, impl, model, disc):
    return None


LEVEL_TEXT = ("Proof: C14_queue_value_at_instant (after the last row of an instant the series equals launches issued minus activities started, for every "
              "time-sorted permutation), C14_queue_nonneg (every row >= 0 when no activity starts before its launch call, launches ordered first inside an "
              "instant), C14_queue_ends_zero, C14_queue_row_count, C14_bw_value_at_instant, C14_bw_nonneg_at_instants, C14_counter_events_unshift. "
              "Correspondence on get_queue_length_time_series, get_memory_bw_time_series and the appended counter events of the *_with_counters file."
              " C14_queue_resolution_independent: times multiplied by k > 0 give the same queue-length rows and counts at k times the instants (the bandwidth series is not homogeneous: 1 us floor)."
              " C14_rules_follow_source: the +1 / -1 increments, the device-row test, the order inside one instant and the floor of a zero-length copy are read from the two per-rank builders of TraceCounters (strict shape) and are the model's.")
LEVEL_NOTE = ("Hand model of TraceCounters (launch query, join on correlation, semi-join, sort, per-stream cumsum; bandwidth rows with the dur 0 -> 1 rule). IEEE "
              "summation in pandas is not modelled: bandwidths are generated as multiples of 1/4 so that sums are exact.")
TECHNIQUE = "Coq proof (prefix sums over time-sorted +-1 rows, level function, pairing argument) + differential correspondence via vm_compute"
