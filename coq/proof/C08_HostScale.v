(* C08 / C10, host side: the graph builder's edges scale with the times *)
From HTA.lib Require Import Base.
From HTA.model Require Import C08_Host.
From HTA.proof Require Import Scale.
Open Scope list_scope.
Open Scope Z_scope.

Definition shev (k : Z) (e : hev) : hev := mkH (h_id e) (k * h_ts e) (k * h_end e) (h_an e) (h_block e) (h_parent e).

Definition shnode (k : Z) (n : hnode) : hnode := mkHN (n_ev n) (n_start n) (k * n_ts n).

Definition shedge (k : Z) (e : hedge) : hedge := mkHE (shnode k (he_src e)) (shnode k (he_dst e)) (k * he_w e) (he_ty e) (he_attr e).

Definition shst (k : Z) (s : hst) : hst := mkSt (option_map (shnode k) (s_last s)) (s_lastp s) (s_depth s) (option_map (shnode k) (s_high s)).

Lemma hlookup_scale k tab i : hlookup (map (shev k) tab) i = option_map (shev k) (hlookup tab i).
Proof.
  unfold hlookup. induction tab as [|e r IH]; cbn [map find]; [reflexivity|].
  unfold shev at 1. cbn [h_id]. destruct (h_id e =? i); [reflexivity|]. exact IH.
Qed.

Lemma attr_rule_scale k a b p : attr_rule (shnode k a) (shnode k b) p = attr_rule a b p.
Proof. reflexivity. Qed.

Ltac host_norm :=
  unfold shst, shedge, shnode, shev, attr_rule;
  cbn [s_last s_lastp s_depth s_high option_map fst snd map app h_id h_ts h_end h_an h_block h_parent
       he_src he_dst he_w he_ty he_attr n_ev n_start n_ts];
  rewrite ?Z.mul_0_r, <- ?Z.mul_sub_distr_l.

Lemma hstep_scale k tab s a :
  hstep (map (shev k) tab) (shst k s) a = (shst k (fst (hstep tab s a)), map (shedge k) (snd (hstep tab s a))).
Proof.
  destruct s as [last lastp depth high]. destruct a as [i|i]; unfold hstep; rewrite hlookup_scale;
    destruct (hlookup tab i) as [e|]; cbn [option_map]; try reflexivity;
    replace (h_an (shev k e)) with (h_an e) by reflexivity; destruct (h_an e); try reflexivity.
  - (* Enter, with nodes *)
    destruct high as [h|]; destruct last as [n|]; host_norm; destruct (depth =? 0); host_norm; reflexivity.
  - (* Exit, with nodes *)
    destruct last as [n|]; host_norm; destruct (depth - 1 =? 0); destruct (h_block e); host_norm; reflexivity.
  - (* Exit, without nodes *)
    host_norm. destruct (lastp =? i); reflexivity.
Qed.

Lemma hrun_scale k tab s acts : hrun (map (shev k) tab) (shst k s) acts = map (shedge k) (hrun tab s acts).
Proof.
  revert s. induction acts as [|a r IH]; intro s; cbn [hrun map]; [reflexivity|].
  rewrite hstep_scale. destruct (hstep tab s a) as [s' es]. cbn [fst snd]. rewrite map_app, IH. reflexivity.
Qed.

Theorem C08_host_scale k tab acts :
  host_edges_of (map (shev k) tab) acts = map (shedge k) (host_edges_of tab acts).
Proof. unfold host_edges_of. change hinit with (shst k hinit). apply hrun_scale. Qed.
