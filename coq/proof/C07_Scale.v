(* C07: resolution independence of the overlap model (numerator and denominator scale alike) *)
From HTA.lib Require Import Base Cells Intervals Sweep.
From HTA.model Require Import C04_Model C07_Model.
From HTA.proof Require Import Scale C04_Scale.
Open Scope Z_scope.

Lemma insert_time_scale k x l : 0 < k -> insert_time (srow k x) (map (srow k) l) = map (srow k) (insert_time x l).
Proof.
  intro Hk. induction l as [|y r IH]; cbn [map insert_time]; [reflexivity|].
  unfold srow at 1 2. cbn [fst]. rewrite ltb_scale by exact Hk.
  destruct (fst x <? fst y); cbn [map]; [reflexivity|]. f_equal. exact IH.
Qed.

Lemma sort_time_scale k l : 0 < k -> sort_time (map (srow k) l) = map (srow k) (sort_time l).
Proof.
  intro Hk. unfold sort_time. induction l as [|x r IH]; cbn [map fold_right]; [reflexivity|].
  rewrite IH. apply insert_time_scale. exact Hk.
Qed.

Theorem C07_scale k l : 0 < k -> model_C07 (scale_evs k l) = (k * fst (model_C07 l), k * snd (model_C07 l)).
Proof.
  intro Hk. unfold model_C07, comm_itvs, comp_itvs.
  rewrite !itvs_scale by reflexivity. rewrite !sort_ts_scale by exact Hk.
  unfold overlap. rewrite !merge_sorted_scale by exact Hk. cbn [fst snd].
  unfold status_rows. rewrite !rows_of_scale, <- map_app, sort_time_scale by exact Hk.
  rewrite sweep_scale, total_scale. reflexivity.
Qed.
