(* C01 property theorems: loaded events are a faithful, uniformly time-shifted image of the file. *)
From Coq Require Import QArith Qround Sorted.
From HTA.lib Require Import Base.
From HTA.model Require Import Loader_Model.
From HTA.gen Require Import Rounding_gen.
From HTA.proof Require Import Loader_Proofs C12_Proofs C01_RulesTie.
Open Scope Z_scope.

(* rows <-> complete entries, identified by their position in traceEvents, in increasing order, none twice *)
Theorem C01_rows_bijection : forall f,
  (forall e, In e (parse_file f) <->
     exists k r, nth_error f k = Some r /\ complete r = true /\ e = to_ev (Z.of_nat k) r) /\
  StronglySorted Z.lt (map idx (parse_file f)) /\ NoDup (map idx (parse_file f)).
Proof. exact parse_rows_bijection. Qed.
Print Assumptions C01_rows_bijection.

(* entries without a duration or category, and the profiler's own 'Trace' span, never appear *)
Theorem C01_no_incomplete_row : forall f e, In e (parse_file f) ->
  exists k r d c, nth_error f k = Some r /\ idx e = Z.of_nat k /\ r_dur r = Some d /\ r_cat r = Some c /\ c <> "Trace"%string.
Proof. exact no_incomplete_row. Qed.
Print Assumptions C01_no_incomplete_row.

Theorem C01_fields : forall i r,
  let e := to_ev i r in
  idx e = i /\ ts e = r_ts r /\ pid e = r_pid r /\ tid e = r_tid r /\ name e = r_name r /\
  (forall d, r_dur r = Some d -> dur e = d) /\ (forall c, r_cat r = Some c -> cat e = c) /\
  stream e = match r_stream r with Some s => s | None => -1 end /\
  corr e = match r_corr r with Some c => c | None => -1 end.
Proof. exact fields. Qed.
Print Assumptions C01_fields.

(* linking and iteration assignment leave every primary column alone *)
Theorem C01_primary_columns_kept : forall f, map primary (parse_rank f) = map primary (parse_file f).
Proof. exact parse_rank_primary. Qed.
Print Assumptions C01_primary_columns_kept.

(* one constant for all ranks, equal to the global minimum; no negative start; the earliest row at 0 *)
Theorem C01_shift_uniform : forall ranks : list (list ev),
  let c := global_min ranks in
  align ranks = map (map (shift c)) ranks /\
  (forall l e, In l ranks -> In e l -> c <= ts e /\ ts (shift c e) = ts e - c /\ 0 <= ts (shift c e)) /\
  (List.concat ranks <> [] -> exists l e, In l ranks /\ In e l /\ ts (shift c e) = 0).
Proof. exact shift_uniform. Qed.
Print Assumptions C01_shift_uniform.

Theorem C01_end_is_ts_plus_dur : forall c e,
  eend (shift c e) = ts (shift c e) + dur (shift c e) /\ eend (shift c e) = eend e - c /\ dur (shift c e) = dur e.
Proof. exact end_is_ts_plus_dur. Qed.
Print Assumptions C01_end_is_ts_plus_dur.

(* after a full load every row of rank j is a parsed row of file j shifted by the one constant *)
Theorem C01_load_rows : forall incl files j e,
  In e (nth j (load incl files) []) ->
  exists e0, In e0 (nth j (map parse_rank files) []) /\ e = shift (global_min (map parse_rank files)) e0.
Proof. exact load_rows. Qed.
Print Assumptions C01_load_rows.

(* exactly ONE row per complete event also after a full load, for any file set and any event mix: every row id (= position in the
   file) occurs at most once in every rank -- with C01_load_rows, the loaded rows are an injective image of the parsed rows.  (Before
   1af5ed4 a device row was repeated once per extra kept host row carrying its correlation id.) *)
Theorem C01_load_ids_unique : forall incl files j, NoDup (map idx (nth j (load incl files) [])).
Proof. exact load_ids_unique. Qed.
Print Assumptions C01_load_ids_unique.

(* fractional timestamps: start rounded up, end rounded down, for all rationals *)
(* the rounding the theorems below speak of is the one regenerated from round_down_time_stamps on every run: ceil for the start,
   floor for the end, duration = their difference, behind exactly two guards (float64 ts column, option not disabling it) *)
Theorem C01_rounding_follows_source : forall t e : Q,
  round_event t e = round_event_gen t e /\ round_ts t = round_ts_gen t /\ round_end e = round_end_gen e.
Proof. exact rounding_is_generated. Qed.
Print Assumptions C01_rounding_follows_source.

Theorem C01_round_inward : forall t e : Q,
  (t <= inject_Z (round_ts t))%Q /\ (inject_Z (round_end e) <= e)%Q.
Proof. exact round_inward. Qed.
Print Assumptions C01_round_inward.

Theorem C01_round_preserves_containment : forall tA eA tB eB : Q,
  (tA <= tB)%Q -> (eB <= eA)%Q -> round_ts tA <= round_ts tB /\ round_end eB <= round_end eA.
Proof. exact round_preserves_containment. Qed.
Print Assumptions C01_round_preserves_containment.

Theorem C01_round_preserves_disjointness : forall eA tB : Q, (eA <= tB)%Q -> round_end eA <= round_ts tB.
Proof. exact round_preserves_disjointness. Qed.
Print Assumptions C01_round_preserves_disjointness.

(* non-vacuity: metadata, flow and 'Trace' entries dropped; defaults; two ranks; the constant is 1000 *)
Definition f0 : list raw :=
  [ mkRaw (Some 2) (Some "cpu_op") 1005 1 1 None None "aten::zeros";
    mkRaw None None 0 1 0 None None "process_name";
    mkRaw (Some 3) (Some "cuda_runtime") 1006 1 1 None (Some 7) "cudaLaunchKernel";
    mkRaw (Some 50) (Some "Trace") 1000 0 0 None None "PyTorch Profiler (0)";
    mkRaw None (Some "ac2g") 1006 1 1 None None "ac2g";
    mkRaw (Some 4) (Some "kernel") 1010 0 7 (Some 7) (Some 7) "gemm" ].
Definition f1 : list raw :=
  [ mkRaw (Some 1) (Some "cpu_op") 1000 1 1 None None "aten::zeros" ].
Example C01_nonvacuous :
  encode_load ["aten::zeros"; "cpu_op"; "cuda_runtime"; "cudaLaunchKernel"; "gemm"; "kernel"] false [f0; f1] =
  (1000, [ [[0; 5; 2; 1; 1; -1; -1; -1; -1; 0; 1]; [2; 6; 3; 1; 1; -1; 7; 5; -1; 3; 2]; [5; 10; 4; 0; 7; 7; 7; 2; -1; 4; 5]];
           [[0; 0; 1; 1; 1; -1; -1; -1; -1; 0; 1]] ]).
Proof. vm_compute. reflexivity. Qed.
Example C01_round_nonvacuous : encode_round [(Qmake 3 2, Qmake 7 2); (Qmake 5 1, Qmake 11 2)] = [[2; 1]; [5; 0]].
Proof. vm_compute. reflexivity. Qed.
