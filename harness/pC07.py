"""C07: communication/computation overlap is the exact time ratio."""
import math
import tracegen
import framework as fw
import translate

ID = "C07"
COQ_IMPORTS = ["From HTA.model Require Import C07_Model."]
SOURCES = {"hta/analyzers/communication_analysis.py": ["get_comm_comp_overlap"],
           "hta/utils/utils.py": ["merge_kernel_intervals", "get_kernel_type", "is_comm_kernel", "is_memory_kernel", "is_compute_kernel"]}
TRANSLATE = [translate.gen_kernel_rules, translate.gen_launch_names, translate.gen_overlap_rules]
INPUT_CONTRACT = True        # the loaded frame is re-checked against the file (framework.input_contract)
N_CASES = {"quick": 400, "thorough": 6000}
RULE = ("generated file sets, mostly profile comm_overlap (device intervals anywhere on a tiny time domain, half of them communication kernels: "
        "identical, nested, touching, zero-length, equal starts, several streams, names on regex boundaries), 1-3 ranks; non-trivial = some rank has a "
        "communication and a computation interval that overlap, touch or share an endpoint; distinct = hash of the file set")
ASSUMPTIONS = ["durs_nonneg: durations are non-negative",
               "a rank with no communication kernel of positive length has ratio 0/0: the implementation must return NaN there (counted separately)",
               "percentage compared with tolerance 0.005+1e-9 against the exact rational 100*num/den (IEEE division and round(.,2) in pandas not modelled)"]


def gen_cases(seed, tier, n):
    out = []
    profs = ["comm_overlap", "comm_overlap", "comm_overlap", "free_overlap", "fifo_tiny", "free_overlap_s0"]
    for i in range(n):
        # every twelfth case: ranks with vocabularies of their own, more than 127 symbols in the job (ids beyond the int8 range)
        c = tracegen.gen_case(seed, i, tracegen.PROFILES["comm_overlap_bigvocab" if i % 12 == 5 else profs[i % len(profs)]])
        c["params"] = {}
        if i % 3 == 1:
            tracegen.relabel_ranks(c)      # a subset of a job: rank ids are not 0..n-1, and not listed in order
        if i % 6 == 3:
            # history: the trace is decoded for display (decode_symbol_ids(), shortened names) before the analysis runs; some kernels have
            # names whose kind is decided by the part the shortening strips
            import random as _r
            tracegen.tricky_kernel_names(c, _r.Random(seed * 271 + i))
            c["params"]["decoded"] = True
        if i % 8 == 6:
            # sub-microsecond resolution: the file holds the case's times divided by 4 (exact binary fractions) and is loaded with
            # HTA_DISABLE_NS_ROUNDING=1, so the analysis sees fractional times; the ratio is scale invariant, the model runs on the
            # integer case
            fw.set_quarter_us(c)
        if i % 16 == 3 and not c["params"].get("quarter_us"):
            tracegen.scale_case_int32_edge(c)    # latest start just below 2**31, latest ends above
        if i % 16 == 11 and not c["params"].get("quarter_us"):
            tracegen.scale_case(c, 10 ** 8)     # a long trace: sums beyond 2**24 and 2**31 (the models are homogeneous in time)
        out.append(c)
    return out


def run_impl(case, d):
    with fw.resolution(case):
        ta, paths = fw.load_case_res(case, d)
        sym = ta.t.symbol_table.get_sym_table()
        ranks = sorted(ta.t.get_ranks())
        frames = {r: fw.dump_frame_res(case, ta.t.get_trace(r), sym) for r in ranks}
        if case["params"].get("decoded"):
            ta.t.decode_symbol_ids()
        if case.get("case_no", 0) % 4 == 2:
            import cp_common
            cp_common.cp_analysis_first(ta, frames, ranks)        # history: another analysis of the same object first
        try:
            df = ta.get_comm_comp_overlap(visualize=False)
            out = {int(rec["rank"]): float(rec["comp_comm_overlap_pctg"]) for rec in df.to_dict("records")}
        except Exception as e:
            out = {"error": type(e).__name__ + ": " + str(e)[:200]}
    return {"frames": frames, "out": out, "frames_altered": fw.frames_altered(case, ta, frames, sym)}


def coq_term(case, impl):
    return "[" + ";\n ".join(f"encode_C07 {fw.evl(rows)}" for r, rows in sorted(impl["frames"].items())) + "]"


def compare(case, impl, model):
    if "error" in impl["out"]:
        return ["implementation raised " + impl["out"]["error"]]
    disc = []
    ranks = sorted(impl["frames"].keys())
    if sorted(impl["out"].keys()) != ranks:
        return [f"rank set differs: {sorted(impl['out'].keys())} vs {ranks}"]
    for r, m in zip(ranks, model):
        p = impl["out"][r]
        num, den = m
        if den == 0:
            if not math.isnan(p):
                disc.append(f"rank {r}: no communication time (0/0) but percentage {p}")
        else:
            exact = 100.0 * num / den
            if math.isnan(p) or abs(p - exact) > 0.005 + 1e-9:
                disc.append(f"rank {r}: percentage impl={p} exact={exact} (overlap {num} / comm {den})")
            if not math.isnan(p) and not (0 <= p <= 100):
                disc.append(f"rank {r}: percentage {p} outside [0,100]")
    return disc


def nontrivial(case, impl):
    import re
    for rows in impl["frames"].values():
        comm = [(r["ts"], r["ts"] + r["dur"]) for r in rows if r["stream"] != -1 and re.match(r"^nccl.*Kernel", r["name"])]
        comp = [(r["ts"], r["ts"] + r["dur"]) for r in rows if r["stream"] != -1 and not re.match(r"(^nccl.*Kernel)|(.*(Memcpy)|(Memset))|(.*Sync)", r["name"])]
        for a in comm:
            for b_ in comp:
                if a[0] <= b_[1] and b_[0] <= a[1]:
                    return True
    return False


def classify(case, impl, model, disc):
    return None


LEVEL_TEXT = ("Proof: C07_overlap_exact (for every ts-sorted permutation of the communication/computation intervals and every time-sorted permutation of "
              "the status rows: numerator = number of time cells covered by both a communication and a computation kernel, denominator = cells covered by a "
              "communication kernel, 0 <= num <= den), C07_sweep_exact (the boundary-row sweep for any tie order), C07_bounds; unbounded in the number of "
              "kernels. Correspondence on get_comm_comp_overlap for every rank."
              " C07_resolution_independent: times multiplied by k > 0 multiply numerator and denominator by k."
              " C07_rules_follow_source: boundary-row weights and overlap level are read from get_comm_comp_overlap_value on every run (strict reading).")
LEVEL_NOTE = ("Hand model of get_comm_comp_overlap_value on top of merge_kernel_intervals (C04's model); kernel classification modelled from the regex "
              "constants (checked literally by the translator). Float division and round(.,2) not modelled (tolerance 0.005).")
TECHNIQUE = "Coq proof (sweep-line lemma over sorted boundary rows, cell-counting measure) + differential correspondence via vm_compute"
