(* C05 property theorems: kernel breakdown partitions busy time by type and conserves per-kernel time. *)
From Coq Require Import Permutation Sorted.
From HTA.lib Require Import Base Cells Intervals Sweep.
From HTA.model Require Import C04_Model C07_Model C05_Model.
From HTA.gen Require Import KernelRules_gen KernelBreakdownRules_gen.
From HTA.proof Require Import KernelRulesTie C04_Proofs C05_Proofs.
From HTA.proof Require Import Scale C05_Scale C05_RulesTie.
Open Scope list_scope.
Open Scope Z_scope.

(* for EVERY time-sorted permutation (tie order) of the boundary rows of the merged per-type interval sets: the time
   credited to the bit pattern m is the number of time cells during which exactly that combination of types runs *)
Theorem C05_type_rows_exact : forall sets rows' m lo hi,
  m <> 0 ->
  Forall (fun s => separated s /\ forall i, In i s -> lo <= fst i /\ snd i <= hi) sets ->
  Permutation (rows_of_sets 1 sets) rows' -> sorted_time rows' ->
  pattern_time rows' m = cells (fun t => pattern 1 sets t =? m) lo hi.
Proof. exact type_rows_exact. Qed.
Print Assumptions C05_type_rows_exact.

(* the model's table (COMPUTATION bit 1, COMMUNICATION bit 2, MEMORY bit 4) is such an instance, stated on the raw kernels *)
Theorem C05_model_types_exact : forall tys l lo hi m,
  durs_nonneg l -> m <> 0 ->
  (forall e, In e l -> on_device e = true -> lo <= ts e /\ ts e + dur e <= hi) ->
  pattern_time (sort_time (type_rows 1 tys l)) m =
  cells (fun t => pattern 1 (map (fun ty => type_itvs ty l) tys) t =? m) lo hi.
Proof. exact model_types_exact. Qed.
Print Assumptions C05_model_types_exact.

(* the rows add up to the measure of the union of all analysed kernels *)
Theorem C05_type_rows_partition2 : forall a b lo hi,
  sumZ (map (fun m => cells (fun t => pattern 1 [a; b] t =? m) lo hi) [1; 2; 3]) = cells (fun t => covered a t || covered b t) lo hi.
Proof.
  intros. rewrite type_rows_partition by (repeat constructor; simpl; intuition lia).
  apply cells_ext. intros t _. apply pattern2.
Qed.
Print Assumptions C05_type_rows_partition2.

Theorem C05_type_rows_partition3 : forall a b c lo hi,
  sumZ (map (fun m => cells (fun t => pattern 1 [a; b; c] t =? m) lo hi) [1; 2; 3; 4; 5; 6; 7]) =
  cells (fun t => covered a t || covered b t || covered c t) lo hi.
Proof.
  intros. rewrite type_rows_partition by (repeat constructor; simpl; intuition lia).
  apply cells_ext. intros t _. apply pattern3.
Qed.
Print Assumptions C05_type_rows_partition3.

(* per-kernel table, for every num_kernels >= 1, every duration ratio k/16 and every list of kernels *)
Theorem C05_sum_conserved : forall numk k16 ks, result_total (aggr numk k16 ks) = sumZ (map snd ks).
Proof. exact sum_conserved. Qed.
Print Assumptions C05_sum_conserved.

Theorem C05_named_at_most_k : forall numk k16 ks, 1 <= numk -> Z.of_nat (List.length (fst (aggr numk k16 ks))) <= numk.
Proof. exact named_at_most_k. Qed.
Print Assumptions C05_named_at_most_k.

Theorem C05_named_row_stats : forall numk k16 ks g, In g (fst (aggr numk k16 ks)) ->
  exists n, In n (map fst ks) /\ g = mk_group ks n /\
            g_sum g = sumZ (kdurs n ks) /\ g_max g = maxZ 0 (kdurs n ks) /\ g_min g = minZ 0 (kdurs n ks) /\
            g_cnt g = Z.of_nat (List.length (kdurs n ks)) /\ kdurs n ks <> [].
Proof. exact named_row_stats. Qed.
Print Assumptions C05_named_row_stats.

(* non-vacuity: computation [0,4) and [2,6), communication [3,8), memcpy [7,9); names a (3 kernels), b, c with num_kernels 2 *)
Definition ex05 : list ev :=
  [ mkEv 0 0 1 1 1 (-1) (-1) (-1) (-1) "aten::zeros" "cpu_op";
    mkEv 1 0 4 0 7 7 1 0 (-1) "a" "kernel";
    mkEv 2 2 4 0 8 8 2 0 (-1) "b" "kernel";
    mkEv 3 3 5 0 9 9 3 0 (-1) "ncclKernel_AllReduce" "kernel";
    mkEv 4 7 2 0 7 7 4 0 (-1) "Memcpy DtoH" "gpu_memcpy";
    mkEv 5 10 1 0 7 7 5 0 (-1) "a" "kernel";
    mkEv 6 12 3 0 7 7 6 0 (-1) "a" "kernel";
    mkEv 7 16 1 0 7 7 7 0 (-1) "c" "kernel" ].
Example C05_nonvacuous :
  model_types true ex05 = [8; 1; 3; 1; 0; 1; 0] /\
  encode_aggr ["a"; "b"; "c"] (aggr 2 16 (kernels_of_type COMPUTATION ex05)) = ([[0; 8; 4; 1; 3]; [1; 4; 4; 4; 1]], 1).
Proof. vm_compute. split; reflexivity. Qed.

(* the tie by regeneration: the kernel classification of the model is the chain GENERATED from the current source (get_kernel_type, the codes of
   KernelType, the three regex wrappers; the regular expressions themselves are compared literally on every run) *)
Theorem C05_kernel_types_follow_source : forall n,
  ktype_code (get_kernel_type n) = kernel_type_gen (is_comm_kernel n) (is_memory_kernel n) (is_compute_kernel n).
Proof. exact kernel_type_is_generated. Qed.
Print Assumptions C05_kernel_types_follow_source.

(* resolution independence of the kernel-type table: times multiplied by k > 0 multiply every combination's time by k (the
   percentages are unchanged); this is the statement the whole-microsecond truncation fixed in 41c2c9e violated *)
Theorem C05_types_resolution_independent : forall k mem l, 0 < k ->
  model_types mem (scale_evs k l) = map (Z.mul k) (model_types mem l).
Proof. exact C05_types_scale. Qed.
Print Assumptions C05_types_resolution_independent.

(* the tie by regeneration, second part: the bit of each kernel type in the sweep, the condition under which kernels are aggregated at all
   and the rule that moves a row to 'others' are those READ from _get_gpu_kernel_type_time / _aggr_gpu_kernel_time, whose statement
   sequence the translator accepts in exactly one shape *)
Theorem C05_rules_follow_source : forall q16 numk i c t0 t1 t2 l,
  is_other q16 numk i c = is_other_gen q16 numk i c /\
  type_rows 1 [t0; t1; t2] l =
    rows_of (type_bit_gen 0) (merge_sorted (sort_ts (type_itvs t0 l))) ++
    rows_of (type_bit_gen 1) (merge_sorted (sort_ts (type_itvs t1 l))) ++
    rows_of (type_bit_gen 2) (merge_sorted (sort_ts (type_itvs t2 l))) /\
  (forall numk' k16 ks, aggregates_gen (Z.of_nat (List.length (sort_g (group_by_name ks)))) numk' = false ->
     aggr numk' k16 ks = (sort_g (group_by_name ks), None)).
Proof. exact kernel_breakdown_rules_are_generated. Qed.
Print Assumptions C05_rules_follow_source.
