"""C16: frequent kernel sequences count exactly the kernels launched under each operator."""
import random
import tracegen
import framework as fw
import translate

ID = "C16"
COQ_IMPORTS = ["From HTA.model Require Import C16_Model."]
SOURCES = {"hta/analyzers/cuda_kernel_analysis.py": ["get_frequent_cuda_kernel_sequences", "_generate_frequent_pattern_results"],
           "hta/common/trace_call_graph.py": ["get_stack_of_node", "get_node_attributes"],
           "hta/common/trace_call_stack.py": ["get_descendants", "get_paths_to_leaves"]}
TRANSLATE = [translate.gen_cmp]
INPUT_CONTRACT = True        # the loaded frame is re-checked against the file (framework.input_contract)
N_CASES = {"quick": 200, "thorough": 3000}
RULE = ("generated well-formed single-rank and two-rank file sets (operators nested at several depths, the same operator name at different depths, launch calls "
        "with and without device partner, few kernel names so that patterns repeat); for every case the analysis is run for three operator names occurring in the "
        "trace (and one that does not occur), min_pattern_len in 1..4, top_k in 1..5; compared: every row (pattern, count, GPU and CPU duration) and the row order "
        "(count descending, then pattern); instances whose kernels share a start time are compared up to that freedom (case skipped for the exact comparison); "
        "non-trivial = some pattern with count >= 2 or an operator name occurring at two depths; distinct = hash of file set and parameters")
ASSUMPTIONS = ["host threads properly nested, no zero-duration host events, no host thread with tid 0 (C03's and C13's known findings are kept out)",
               "the overlaid trace file the analysis also writes is not part of this property (C20 covers written files)"]


def gen_cases(seed, tier, n):
    out = []
    for i in range(n):
        # every fourth case has an autograd thread beside the main thread (operators occur on both; the main thread may itself hold
        # an autograd:: operator): the backward attachment decides under which operator a kernel is counted
        if i % 10 == 9:
            c = tracegen.gen_chain_case(seed, i)        # every duration below 128 (int8 column), a pattern's summed durations far above
        else:
            c = tracegen.gen_case(seed, i, tracegen.PROFILES["kseq_bwd" if i % 4 == 1 else "kseq"])
        rng = random.Random(seed * 7919 + i)
        c["params"] = {"pseed": rng.randint(0, 10 ** 9)}
        if i % 8 == 1:
            # ... and here the main thread certainly holds one: a leaf operator of the thread with the profiler steps is renamed
            for rk in c["ranks"].values():
                steps = [e for e in rk["events"] if str(e.get("name", "")).startswith("ProfilerStep#")]
                if not steps:
                    continue
                pt = (steps[0]["pid"], steps[0]["tid"])
                ops = [e for e in rk["events"] if e.get("cat") == "cpu_op" and (e.get("pid"), e.get("tid")) == pt and "dur" in e]
                if ops:
                    rng.choice(ops)["name"] = "autograd::engine::evaluate_function: AddBackward0"
                # ... and one operator name certainly occurs on both threads at comparable depth: a top-level operator of the other thread that
                # lies within a step, and an operator directly beneath a step on this thread that launches something, get the same name
                # (under which operator of the main thread the other thread is attached then decides which instances are the shallowest)
                X = lambda e: e.get("ph") == "X" and "dur" in e
                if len(steps) == 1:
                    # the only step is widened to span the rank's whole host activity, so that both threads' operators lie within it
                    hostx = [e for e in rk["events"] if X(e) and "stream" not in (e.get("args") or {}) and e.get("pid") == pt[0]]
                    lo, hi = min(e["ts"] for e in hostx), max(e["ts"] + e["dur"] for e in hostx)
                    steps[0]["ts"], steps[0]["dur"] = max(lo - 1, 0), hi + 1 - max(lo - 1, 0)
                inside = lambda a, b: a is not b and b["ts"] <= a["ts"] and a["ts"] + a["dur"] <= b["ts"] + b["dur"]
                mine = [e for e in rk["events"] if X(e) and (e.get("pid"), e.get("tid")) == pt]
                other = [e for e in rk["events"] if X(e) and e.get("pid") == pt[0] and e.get("tid") != pt[1] and "stream" not in (e.get("args") or {})]
                top_other = [e for e in other if e.get("cat") == "cpu_op" and "autograd::" not in str(e.get("name")) and not any(inside(e, o) for o in other)
                             and any(inside(e, s_) or (s_["ts"] <= e["ts"] and e["ts"] + e["dur"] <= s_["ts"] + s_["dur"]) for s_ in steps)]
                linked = {(k.get("args") or {}).get("correlation") for k in rk["events"] if X(k) and "stream" in (k.get("args") or {})}
                under_step = [e for e in mine if e.get("cat") == "cpu_op" and "autograd::" not in str(e.get("name"))
                              and sum(1 for o in mine if inside(e, o)) == 1 and any(inside(e, s_) for s_ in steps)
                              and any(inside(l_, e) and (l_.get("args") or {}).get("correlation") in linked for l_ in mine if l_.get("cat") in ("cuda_runtime", "cuda_driver"))]
                if top_other and under_step:
                    rng.choice(under_step)["name"] = rng.choice(top_other)["name"]
        if i % 3 == 0:
            # twin kernels: the same kernel name with the same start and duration on another stream, launched by a call
            # whose span is identical to the original launch call's (identical spans nest in file order)
            import copy as _copy
            for rk in c["ranks"].values():
                evs = rk["events"]
                launches = [e for e in evs if isinstance(e.get("args"), dict) and "correlation" in e["args"] and e.get("cat") in ("cuda_runtime", "cuda_driver")
                            and any(isinstance(k.get("args"), dict) and k["args"].get("correlation") == e["args"]["correlation"] and "stream" in k["args"] and k is not e
                                    for k in evs)]
                for l in rng.sample(launches, min(2, len(launches))):
                    k = next(k for k in evs if k is not l and isinstance(k.get("args"), dict) and k["args"].get("correlation") == l["args"]["correlation"] and "stream" in k["args"])
                    l2, k2 = _copy.deepcopy(l), _copy.deepcopy(k)
                    nc = l["args"]["correlation"] + 500000
                    l2["args"]["correlation"] = nc
                    k2["args"]["correlation"] = nc
                    k2["args"]["stream"] = k["args"]["stream"] + 100
                    k2["tid"] = k2["args"]["stream"]
                    evs += [l2, k2]
        if i % 2 == 0:
            # repeat the whole rank once or twice later in time (fresh correlation ids): patterns then occur several times
            import copy
            for rk in c["ranks"].values():
                evs = rk["events"]
                span = max((e.get("ts", 0) + e.get("dur", 0) for e in evs if "ts" in e), default=0) - min((e["ts"] for e in evs if "ts" in e), default=0) + 5
                extra = []
                for rep in range(1, rng.randint(2, 3)):
                    for e in evs[1:]:
                        if e.get("ph") != "X" or "dur" not in e or str(e.get("name", "")).startswith("ProfilerStep"):
                            continue
                        e2 = copy.deepcopy(e)
                        e2["ts"] = e["ts"] + rep * span
                        if isinstance(e2.get("args"), dict) and "correlation" in e2["args"]:
                            e2["args"]["correlation"] = e2["args"]["correlation"] + rep * 100000
                        extra.append(e2)
                rk["events"] = evs + extra
        if i % 9 in (2, 5):
            # a host thread sharing (pid, tid) with a device stream: such a group is neither a thread nor a stream, but the operators of
            # the ordinary threads are counted as ever
            tracegen.host_rows_on_a_stream(c, random.Random(seed * 611953 + i))
        if i % 8 == 6:
            fw.set_quarter_us(c)           # quarter-microsecond resolution (framework.resolution)
        if i % 7 == 3:
            tracegen.add_second_process(c, random.Random(seed * 15485863 + i))     # two processes, same thread id
        out.append(c)
    return out


def run_impl(case, d):
    with fw.resolution(case):
        return _run_impl(case, d)


def _run_impl(case, d):
    import os
    scale = fw.time_scale(case)
    ta, paths = fw.load_case_res(case, d)
    sym = ta.t.symbol_table.get_sym_table()
    ranks = sorted(ta.t.get_ranks())
    rng = random.Random(case["params"]["pseed"])
    rank = rng.choice(ranks)
    rows = fw.dump_frame_res(case, ta.t.get_trace(rank), sym)
    names = sorted({r["name"] for r in rows if r["stream"] == -1 and r["cat"] == "cpu_op"})
    ops = rng.sample(names, min(3, len(names))) + ["no::such_op"]
    # names with characters that mean something in a regular expression (the operator name is matched as a plain substring), whole and in part
    meta = sorted({r["name"] for r in rows if r["stream"] == -1 and any(ch in r["name"] for ch in "()[]+|.*<>#")})
    if meta:
        m = rng.choice(meta)
        ops.append(m)
        cut = [k for k, ch in enumerate(m) if ch in "()[]+|*"]
        if cut:
            k = rng.choice(cut)
            ops.append(m[max(0, k - 4):k + 3])
    if rng.random() < 0.5 and names:
        ops.append("aten::")          # a substring shared by many operators
    # operators that occur on more than one host thread (main and autograd thread, say): at which depth each thread's instances sit decides
    # which of them count
    where = {}
    for r in rows:
        if r["stream"] == -1 and r["cat"] == "cpu_op":
            where.setdefault(r["name"], set()).add((r["pid"], r["tid"]))
    shared = sorted(n for n, th in where.items() if len(th) >= 2 and n not in ops)
    forced = {}
    for n in rng.sample(shared, min(2, len(shared))):
        ops.append(n)
        forced[n] = 1
    queries = []
    outdir = os.path.join(d, "out")
    os.makedirs(outdir, exist_ok=True)
    for op in ops:
        minlen = forced.get(op) or rng.randint(1, 4)
        topk = rng.randint(1, 5)
        try:
            df = ta.get_frequent_cuda_kernel_sequences(operator_name=op, output_dir=outdir, min_pattern_len=minlen, rank=rank, top_k=topk, visualize=False)
            res = [[str(rec["pattern"]), fw.as_int(rec["count"]), fw.as_int(rec["GPU kernel duration (us)"] * scale), fw.as_int(rec["CPU op duration (us)"] * scale)]
                   for rec in df.to_dict("records")] if len(df) else []
        except Exception as e:
            import traceback
            res = "error: " + type(e).__name__ + ": " + str(e)[:160] + " @ " + traceback.format_exc()[-200:]
        queries.append({"op": op, "minlen": minlen, "topk": topk, "res": res})
    return {"rank": rank, "rows": rows, "queries": queries}


def _tab(impl):
    return sorted({r["name"] for r in impl["rows"]})


def coq_term(case, impl):
    tab = fw.sl(_tab(impl))
    rows = fw.evl(impl["rows"])
    return (f"let l := {rows} in let tab := {tab} in\n [" +
            ";\n  ".join(f"encode_C16 tab l {fw.s(q['op'])} {fw.z(q['minlen'])}" for q in impl["queries"]) + "]")


def _tie(impl):
    """some host row has two device descendants with the same start and different names (order then free)"""
    rows = impl["rows"]
    dev = [r for r in rows if r["stream"] > 0 and r["icorr"] > 0]
    seen = {}
    for k in dev:
        seen.setdefault(k["ts"], set()).add(k["name"])
    return any(len(v) > 1 for v in seen.values())


def compare(case, impl, model):
    disc = []
    tab = _tab(impl)
    if any(r["stream"] < 0 and r["tid"] == 0 for r in impl["rows"]):
        return []
    tie = _tie(impl)
    for q, m in zip(impl["queries"], model):
        if isinstance(q["res"], str):
            disc.append(f"operator {q['op']!r} min_pattern_len={q['minlen']}: raised {q['res']}")
            continue
        want = sorted(["|".join(tab[i] for i in r[3:]), r[0], r[1], r[2]] for r in m)
        got = sorted(q["res"])
        order_ok = all((a[1], ) > (b[1], ) or (a[1] == b[1] and a[0] <= b[0]) for a, b in zip(q["res"], q["res"][1:]))
        if not order_ok:
            disc.append(f"operator {q['op']!r}: rows are not ordered by descending count, then pattern: {[(r[1], r[0][:30]) for r in q['res']][:5]}")
        if tie:
            # compare up to the order of names inside a pattern
            canon = lambda rows_: sorted([sorted(r[0].split("|")[1:]), r[0].split("|")[0], r[1], r[2], r[3]] for r in rows_)
            if sum(r[1] for r in got) != sum(r[1] for r in want) or sum(r[2] for r in got) != sum(r[2] for r in want):
                disc.append(f"operator {q['op']!r} min_pattern_len={q['minlen']}: totals differ impl={got[:3]} model={want[:3]}")
            continue
        if got != want:
            disc.append(f"operator {q['op']!r} min_pattern_len={q['minlen']} rank {impl['rank']}: rows (pattern, count, GPU dur, CPU dur) impl={got[:4]} model={want[:4]}")
    return disc[:6]


def nontrivial(case, impl):
    return any(isinstance(q["res"], list) and any(r[1] >= 2 and r[0].count("|") >= 1 for r in q["res"]) for q in impl["queries"])


def classify(case, impl, model, disc):
    return None


LEVEL_TEXT = ("Proof: C16_counts_and_durations (one row per distinct pattern; its count is the number of instances with that pattern, its GPU/CPU durations the sums over "
              "them, for every list of instances), C16_pattern_in_start_order, C16_pattern_equality_decided; the instance selection (matching rows at the shallowest "
              "depth with num_kernels >= min_pattern_len) and the pattern (name followed by the device activities beneath, in start order) are the model's definitions "
              "on top of C13's call-graph model (whose columns are validated by C13's verified checker). Correspondence on every row and the row order of "
              "get_frequent_cuda_kernel_sequences for operator names occurring in the trace, min_pattern_len 1..4, top_k 1..5."
              " C16_resolution_independent: times multiplied by k > 0 give the same patterns and counts and k times both durations."
              " C16_instances_exact: the instances are exactly the matching rows at the shallowest depth at which the name occurs that launch at least min_pattern_len activities, in trace order; C16_pattern_is_rearrangement: a pattern lists every device activity beneath its instance exactly once; C16_table_conserves: the counts add up to the number of instances and the duration columns to the instances' totals (every instance is counted in exactly one row).")
LEVEL_NOTE = ("Hand model composed of C03's proved builder, C13's call-graph model, get_descendants and the dictionary accumulation. The overlaid trace file is not "
              "examined here.")
TECHNIQUE = "Coq proof (group-by counting over patterns) over a composed Gallina model + differential correspondence via vm_compute"
