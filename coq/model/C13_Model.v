(* C13: the enhanced call graph: hta/common/trace_call_graph.py CallGraph._build_call_stacks / _connect_stacks /
   _link_main_and_bwd_stacks and hta/common/trace_call_stack.py _link_cpu_and_gpu / update_parent_of_first_layer_nodes /
   _compute_depth / _compute_height / _add_kernel_info_to_cpu_ops.  Hand model on top of C03's new builder. *)
From HTA.lib Require Import Base.
From HTA.gen Require Import Cmp_gen.
From HTA.model Require Import C03_Model.
Open Scope Z_scope.

(* ---------- threads ---------- *)
Definition same_thread (a b : ev) : bool := (pid a =? pid b) && (tid a =? tid b).
Definition thread_of (l : list ev) (e : ev) : list ev := filter (same_thread e) l.
(* a (pid, tid) group gets a call stack unless all its rows are device rows (types.infer_device_type: GPU); a group that mixes rows with
   and without a stream (UNKNOWN) gets one too, built from its rows without a stream (_construct_call_stack_graph: df.stream.eq(-1)) *)
Definition is_cpu_thread (l : list ev) (e : ev) : bool := negb (forallb (fun x => 0 <? stream x) (thread_of l e)).
Definition host_part (l : list ev) (e : ev) : list ev := filter (fun x => stream x =? -1) (thread_of l e).
(* representative (first row) of every thread *)
Fixpoint thread_heads (seen l : list ev) : list ev :=
  match l with
  | [] => []
  | e :: r => if existsb (same_thread e) seen then thread_heads seen r else e :: thread_heads (e :: seen) r
  end.
Definition cpu_thread_heads (l : list ev) : list ev := filter (is_cpu_thread l) (thread_heads [] l).

(* ---------- parent map: host trees (C03's new builder) + device children ---------- *)
Definition host_edges (l : list ev) : list (Z * Z) := flat_map (fun h => parents_new (host_part l h)) (cpu_thread_heads l).
Definition in_cpu_thread (l : list ev) (i : Z) : bool :=
  existsb (fun e => (idx e =? i) && is_cpu_thread l e && (stream e =? -1)) l.
(* get_cpu_gpu_correlation + _link_cpu_and_gpu: a device row on a positive stream with a positive link becomes a child of the linked host row *)
Definition dev_edges (l : list ev) : list (Z * Z) :=
  map (fun k => (idx k, icorr k)) (filter (fun k => (0 <? stream k) && (0 <? icorr k) && in_cpu_thread l (icorr k)) l).

(* ---------- attaching the autograd thread beneath the main thread's annotations ---------- *)
Definition has_name_prefix (p : string) (th : list ev) : bool := existsb (fun e => starts_with p (name e)) th.
Definition has_name_infix (p : string) (th : list ev) : bool := existsb (fun e => contains p (name e)) th.
Definition is_main (l : list ev) (h : ev) : bool := has_name_prefix "ProfilerStep#" (thread_of l h).
Definition is_bwd (l : list ev) (h : ev) : bool := negb (is_main l h) && has_name_infix "autograd::" (thread_of l h).

Definition bwd_parents (main : list ev) : list ev :=
  match filter (fun e => starts_with "## backward ##" (name e)) main with
  | [] => filter (fun e => starts_with "ProfilerStep#" (name e)) main
  | ps => ps
  end.

(* update_parent_of_first_layer_nodes: the top-level nodes of the autograd thread that lie within p's span move under p *)
Definition reparent (l : list ev) (bwd_ids : list Z) (es : list (Z * Z)) (p : ev) : list (Z * Z) :=
  map (fun cp : Z * Z =>
         if (snd cp <? 0) && existsb (Z.eqb (fst cp)) bwd_ids then
           match find (fun e => idx e =? fst cp) l with
           | Some e => if (ts p <=? ts e) && (eend e <=? eend p) then (fst cp, idx p) else cp
           | None => cp
           end
         else cp) es.

Definition attach_bwd (l : list ev) (edges : list (Z * Z)) : list (Z * Z) :=
  let heads := cpu_thread_heads l in
  match filter (is_main l) heads, filter (is_bwd l) heads with
  | [m], [b] => fold_left (reparent l (map idx (thread_of l b))) (bwd_parents (thread_of l m)) edges
  | _, _ => edges
  end.

Definition parent_map (l : list ev) : list (Z * Z) := attach_bwd l (host_edges l) ++ dev_edges l.

(* ---------- attributes ---------- *)
Definition children (m : list (Z * Z)) (i : Z) : list Z := map fst (filter (fun cp => snd cp =? i) m).
(* devs: the ids of the device nodes (first components of dev_edges), computed once *)
Definition is_dev_node (devs : list Z) (i : Z) : bool := existsb (Z.eqb i) devs.

Fixpoint height_of (fuel : nat) (devs : list Z) (m : list (Z * Z)) (i : Z) : Z :=
  match fuel with
  | O => -1000000
  | S f => if is_dev_node devs i then 0 else 1 + maxZ 0 (0 :: map (height_of f devs m) (children m i))
  end.

(* (count, sum of durations, first start, last end) of the device activities among the descendants *)
Definition kinfo := (Z * Z * Z * Z)%type.
Definition k_none (tmax : Z) : kinfo := (0, 0, tmax, -1).
Definition k_join (a b : kinfo) : kinfo :=
  let '(c1, s1, f1, e1) := a in let '(c2, s2, f2, e2) := b in (c1 + c2, s1 + s2, Z.min f1 f2, Z.max e1 e2).
Fixpoint kinfo_of (fuel : nat) (l : list ev) (devs : list Z) (m : list (Z * Z)) (tmax : Z) (i : Z) : kinfo :=
  match fuel with
  | O => k_none tmax
  | S f =>
      if is_dev_node devs i then
        match find (fun e => idx e =? i) l with
        | Some e => (1, dur e, ts e, eend e)
        | None => k_none tmax
        end
      else fold_left (fun acc c => k_join acc (kinfo_of f l devs m tmax c)) (children m i) (k_none tmax)
  end.

(* one output row per frame row: [idx; parent; depth; height; num_kernels; kernel_dur_sum; first_kernel_start; last_kernel_end; kernel_span] *)
Definition out_row (l : list ev) (devs : list Z) (m : list (Z * Z)) (tmax : Z) (e : ev) : list Z :=
  let fuel := S (List.length l) in
  match lookupZ (idx e) m with
  | None => [idx e; -1; -1; -1; 0; 0; -1; -1; 0]
  | Some p =>
      let '(c, s, f, en) := kinfo_of fuel l devs m tmax (idx e) in
      [idx e; (if p <? 0 then -1 else p); depth_of fuel m (idx e); height_of fuel devs m (idx e)] ++
      (if c <=? 0 then [0; 0; -1; -1; 0] else [c; s; f; en; en - f])
  end.

Definition encode_C13 (l : list ev) : list (list Z) :=
  let m := parent_map l in
  let tmax := 2 * maxZ 0 (map ts l) in
  sort_rows (map (out_row l (map fst (dev_edges l)) m tmax) l).
