(* Weighted directed graphs as edge lists: paths, potentials (longest-path certificates), rank functions (acyclicity). *)
From Coq Require Import ZArith List Bool Lia.
From HTA.lib Require Import Base.
Import ListNotations.
Open Scope list_scope.
Open Scope Z_scope.

Record edge := mkEdge { e_src : Z; e_dst : Z; e_w : Z }.

(* a path: a non-empty list of edges of the graph, each starting where the previous one ends *)
Fixpoint chain_from (u : Z) (p : list edge) : Prop :=
  match p with
  | [] => True
  | e :: r => e_src e = u /\ chain_from (e_dst e) r
  end.
Definition is_path (G : list edge) (p : list edge) : Prop :=
  match p with
  | [] => False
  | e :: _ => (forall x, In x p -> In x G) /\ chain_from (e_src e) p
  end.
Definition path_weight (p : list edge) : Z := sumZ (map e_w p).
Fixpoint path_end (u : Z) (p : list edge) : Z := match p with [] => u | e :: r => path_end (e_dst e) r end.
Definition path_start (p : list edge) : Z := match p with [] => 0 | e :: _ => e_src e end.

(* ---- potentials: dist u + w <= dist v on every edge, dist >= 0: then no path weighs more than dist at its end ---- *)
Definition potential_ok (G : list edge) (dist : Z -> Z) : Prop :=
  forall e, In e G -> dist (e_src e) + e_w e <= dist (e_dst e) /\ 0 <= dist (e_src e).

Lemma chain_bound G dist : potential_ok G dist -> forall p u,
  (forall x, In x p -> In x G) -> chain_from u p -> dist u + path_weight p <= dist (path_end u p).
Proof.
  intro Hpot. induction p as [|e r IH]; intros u Hin Hch.
  - unfold path_weight. simpl. lia.
  - destruct Hch as [Hs Hch]. subst u. unfold path_weight in *. cbn [map path_end].
    change (sumZ (e_w e :: map e_w r)) with (e_w e + sumZ (map e_w r)).
    destruct (Hpot e (Hin e (or_introl eq_refl))) as [H1 _].
    specialize (IH (e_dst e) (fun x Hx => Hin x (or_intror Hx)) Hch). lia.
Qed.

Theorem path_bound G dist p : potential_ok G dist -> is_path G p ->
  path_weight p <= dist (path_end (path_start p) p).
Proof.
  intros Hpot Hp. destruct p as [|e r]; [destruct Hp|]. destruct Hp as [Hin Hch]. cbn [path_start].
  pose proof (chain_bound G dist Hpot (e :: r) (e_src e) Hin Hch) as H.
  destruct (Hpot e (Hin e (or_introl eq_refl))) as [_ H0]. lia.
Qed.

(* consequently: if every potential value is at most M, every path weighs at most M *)
Theorem optimum_bound G dist M p : potential_ok G dist -> (forall v, dist v <= M) -> is_path G p -> path_weight p <= M.
Proof. intros Hpot HM Hp. pose proof (path_bound G dist p Hpot Hp). specialize (HM (path_end (path_start p) p)). lia. Qed.

(* ---- time stamps: if every edge weighs at most the time difference of its end points, a path weighs at most the
        time difference between its last and its first node ---- *)
Theorem path_le_span G (ts : Z -> Z) p :
  (forall e, In e G -> e_w e <= ts (e_dst e) - ts (e_src e)) -> is_path G p ->
  path_weight p <= ts (path_end (path_start p) p) - ts (path_start p).
Proof.
  intros Hw Hp. destruct p as [|e0 r0]; [destruct Hp|]. destruct Hp as [Hin Hch]. cbn [path_start].
  assert (H : forall p u, (forall x, In x p -> In x G) -> chain_from u p -> path_weight p <= ts (path_end u p) - ts u).
  { clear - Hw. induction p as [|e r IH]; intros u Hin Hch; [unfold path_weight; simpl; lia|].
    destruct Hch as [Hs Hch]. subst u. unfold path_weight in *. cbn [map path_end].
    change (sumZ (e_w e :: map e_w r)) with (e_w e + sumZ (map e_w r)).
    specialize (Hw e (Hin e (or_introl eq_refl))). specialize (IH (e_dst e) (fun x Hx => Hin x (or_intror Hx)) Hch). lia. }
  apply H; assumption.
Qed.

(* ---- rank functions: if every edge goes strictly up in rank the graph has no cycle ---- *)
Definition rank_ok (G : list edge) (rank : Z -> Z) : Prop := forall e, In e G -> rank (e_src e) < rank (e_dst e).

Theorem acyclic G rank p : rank_ok G rank -> is_path G p -> path_end (path_start p) p <> path_start p.
Proof.
  intros Hr Hp. destruct p as [|e0 r0]; [destruct Hp|]. destruct Hp as [Hin Hch]. cbn [path_start].
  assert (H : forall p u, p <> [] -> (forall x, In x p -> In x G) -> chain_from u p -> rank u < rank (path_end u p)).
  { clear - Hr. induction p as [|e r IH]; intros u Hne Hin Hch; [congruence|].
    destruct Hch as [Hs Hch]. subst u. cbn [path_end]. specialize (Hr e (Hin e (or_introl eq_refl))).
    destruct r as [|e' r']; [simpl; exact Hr|].
    specialize (IH (e_dst e) ltac:(discriminate) (fun x Hx => Hin x (or_intror Hx)) Hch). lia. }
  specialize (H (e0 :: r0) (e_src e0) ltac:(discriminate) Hin Hch). intro E. rewrite E in H. lia.
Qed.

(* ---- executable side: association-list potentials, the dynamic programme over a node order, boolean checks ---- *)
Fixpoint alookup (d : list (Z * Z)) (k : Z) : Z :=
  match d with [] => 0 | (a, b) :: r => if a =? k then b else alookup r k end.

(* best value at v given the values d of the nodes before it *)
Definition best (G : list edge) (d : list (Z * Z)) (v : Z) : Z :=
  fold_left (fun acc e => if e_dst e =? v then Z.max acc (alookup d (e_src e) + e_w e) else acc) G 0.
Definition dp (G : list edge) (order : list Z) : list (Z * Z) := fold_left (fun d v => (v, best G d v) :: d) order [].

Definition potential_okb (G : list edge) (d : list (Z * Z)) : bool :=
  forallb (fun e => (alookup d (e_src e) + e_w e <=? alookup d (e_dst e)) && (0 <=? alookup d (e_src e))) G.

Theorem potential_okb_sound G d : potential_okb G d = true -> potential_ok G (alookup d).
Proof.
  unfold potential_okb, potential_ok. rewrite forallb_forall. intros H e He. specialize (H e He).
  apply andb_prop in H. lia.
Qed.

Definition rank_okb (G : list edge) (d : list (Z * Z)) : bool := forallb (fun e => alookup d (e_src e) <? alookup d (e_dst e)) G.
Theorem rank_okb_sound G d : rank_okb G d = true -> rank_ok G (alookup d).
Proof. unfold rank_okb, rank_ok. rewrite forallb_forall. intros H e He. specialize (H e He). lia. Qed.

Definition max_value (d : list (Z * Z)) : Z := maxZ 0 (0 :: map snd d).

Lemma maxZ_ge_in d l x : In x l -> x <= maxZ d l.
Proof.
  revert d. induction l as [|y l IH]; intros d Hx; [destruct Hx|]. simpl. destruct Hx as [Hx|Hx]; [subst; lia|].
  specialize (IH y Hx). lia.
Qed.

Lemma alookup_in d v : alookup d v = 0 \/ In (alookup d v) (map snd d).
Proof.
  induction d as [|[a b] d IH]; [left; reflexivity|]. cbn [alookup map snd]. destruct (a =? v); [right; left; reflexivity|].
  destruct IH as [IH|IH]; [left; exact IH | right; right; exact IH].
Qed.

Lemma alookup_le_max d v : alookup d v <= max_value d.
Proof.
  unfold max_value. apply maxZ_ge_in. destruct (alookup_in d v) as [H|H]; [left; symmetry; exact H | right; exact H].
Qed.

(* a reported path given as node list: consecutive nodes joined by edges of G; its weight *)
Fixpoint edge_of (G : list edge) (u v : Z) : option edge :=
  match G with [] => None | e :: r => if (e_src e =? u) && (e_dst e =? v) then Some e else edge_of r u v end.
Fixpoint path_edges (G : list edge) (nodes : list Z) : option (list edge) :=
  match nodes with
  | u :: ((v :: _) as r) => match edge_of G u v, path_edges G r with Some e, Some p => Some (e :: p) | _, _ => None end
  | _ => Some []
  end.

Lemma edge_of_spec G u v e : edge_of G u v = Some e -> In e G /\ e_src e = u /\ e_dst e = v.
Proof.
  induction G as [|x G IH]; [discriminate|]. simpl. destruct ((e_src x =? u) && (e_dst x =? v)) eqn:E.
  - intro H. inversion H; subst. apply andb_prop in E. split; [left; reflexivity | lia].
  - intro H. destruct (IH H) as [H1 H2]. split; [right; exact H1 | exact H2].
Qed.

Lemma path_edges_spec G : forall nodes p, path_edges G nodes = Some p -> p <> [] ->
  is_path G p /\ path_start p = hd 0 nodes.
Proof.
  induction nodes as [|u r IH]; intros p H Hne; [simpl in H; inversion H; subst; congruence|].
  destruct r as [|v r']; [simpl in H; inversion H; subst; congruence|].
  change (path_edges G (u :: v :: r')) with
    (match edge_of G u v, path_edges G (v :: r') with Some e, Some p => Some (e :: p) | _, _ => None end) in H.
  destruct (edge_of G u v) as [e|] eqn:Ee; [|discriminate].
  destruct (path_edges G (v :: r')) as [q|] eqn:Eq; [|discriminate]. inversion H; subst p. clear H.
  destruct (edge_of_spec G u v e Ee) as [HeG [Hs Hd]].
  destruct q as [|e' q'].
  - split; [|exact Hs]. split; [intros x [Hx|[]]; subst; exact HeG | simpl; auto].
  - destruct (IH (e' :: q') eq_refl ltac:(discriminate)) as [[Hin Hch] Hst]. cbn [path_start hd] in Hst.
    split; [|exact Hs]. split.
    + intros x [Hx|Hx]; [subst; exact HeG | apply Hin; exact Hx].
    + cbn [chain_from]. split; [reflexivity|]. cbn [chain_from] in Hch. destruct Hch as [_ Hch]. split; [congruence | exact Hch].
Qed.
