"""Shared by C01, C02, C12: run the real loader (parse-only and full load) on a generated file set and
build the Coq term that evaluates model/Loader_Model.v on the same files."""
from __future__ import annotations

import math
from fractions import Fraction
from typing import Any, Dict, List

import framework as fw

COQ_IMPORTS = ["From Coq Require Import QArith.", "From HTA.model Require Import Loader_Model.", "Open Scope Z_scope."]
SOURCES = {
    "hta/common/trace_parser.py": ["_compress_df", "_parse_trace_dataframe_json", "round_down_time_stamps", "parse_trace_dict"],
    "hta/common/trace.py": ["transform_correlation_to_index", "add_iteration", "parse_trace_file", "_align_all_ranks",
                            "_filter_irrelevant_gpu_kernels", "parse_multiple_ranks", "load_traces", "align_and_filter_trace"],
    "hta/common/trace_filter.py": ["_filter_gpu_kernels_with_cuda_sync", "GPUKernelFilter", "CPUOperatorFilter"],
    "hta/utils/utils.py": ["normalize_gpu_stream_numbers"],
}


def opt_z(v: Any) -> str:
    return "None" if v is None else f"(Some {fw.z(v)})"


def raw_lit(e: dict) -> str:
    args = e.get("args") if isinstance(e.get("args"), dict) else {}
    dur = e.get("dur")
    cat = e.get("cat")
    st = args.get("stream")
    if not (isinstance(st, int) and not isinstance(st, bool)):
        st = None
    co = args.get("correlation")
    ts = e.get("ts", 0)
    pid = e.get("pid", 0)
    tid = e.get("tid", 0)
    pid = pid if isinstance(pid, int) else 0
    tid = tid if isinstance(tid, int) else 0
    ts_i = int(ts) if float(ts) == int(ts) else 0
    dur_i = None if dur is None else (int(dur) if float(dur) == int(dur) else 0)
    cat_s = "None" if cat is None else f"(Some {fw.s(cat)})"
    return (f"(mkRaw {opt_z(dur_i)} {cat_s} {fw.z(ts_i)} {fw.z(pid)} {fw.z(tid)} {opt_z(st)} {opt_z(co)} "
            f"{fw.s(str(e.get('name', '')))})")


def files_lit(case: dict) -> str:
    return "[" + ";\n  ".join("[" + ";\n   ".join(raw_lit(e) for e in rk["events"]) + "]"
                              for r, rk in sorted(case["ranks"].items())) + "]"


def symtab(case: dict) -> List[str]:
    syms = set()
    for rk in case["ranks"].values():
        for e in rk["events"]:
            if "name" in e:
                syms.add(str(e["name"]))
            if "cat" in e:
                syms.add(str(e["cat"]))
    return sorted(syms)


def encode_rows(rows: List[dict], tab: List[str]) -> List[List[int]]:
    ix = {s: i for i, s in enumerate(tab)}
    return sorted([r["idx"], r["ts"], r["dur"], r["pid"], r["tid"], r["stream"], r["corr"], r["icorr"], r["iter"],
                   ix.get(r["name"], -1), ix.get(r["cat"], -1)] for r in rows)


def is_fractional(case: dict) -> bool:
    return any(isinstance(e.get("ts"), float) or isinstance(e.get("dur"), float)
               for rk in case["ranks"].values() for e in rk["events"])


def run_loader(case: dict, d: str, do_parse: bool = True, do_load: bool = True, mp_flag: bool = False) -> Dict[str, Any]:
    with fw.resolution(case):
        return _run_loader(case, d, do_parse, do_load, mp_flag)


def _run_loader(case: dict, d: str, do_parse: bool = True, do_load: bool = True, mp_flag: bool = False) -> Dict[str, Any]:
    """Runs parse-only and full load; returns decoded frames per rank (a quarter-microsecond case, framework.resolution, is written
    with its times divided by 4, loaded with ns rounding disabled and reported scaled by 4 again)."""
    import tracegen
    from hta.common.trace import Trace
    ksc = fw.time_scale(case)
    paths = tracegen.write_case(fw.quartered(case) if ksc != 1 else case, d)
    # rank -> file dictionaries are handed over in a case-determined shuffled key order, and a third of the
    # multi-rank cases go through the process pool (the public default)
    import random as _r
    rr = _r.Random(case.get("seed", 0) * 31 + case.get("case_no", 0))
    keys = list(paths.keys())
    rr.shuffle(keys)
    paths = {k: paths[k] for k in keys}
    if len(keys) > 1 and rr.random() < 0.35:
        mp_flag = True
    out: Dict[str, Any] = {"mp": mp_flag, "key_order": keys}
    incl = bool(case["params"].get("include_last", False))
    if do_parse:
        try:
            t = Trace(trace_files=dict(paths), trace_dir=d)
            t.parse_traces(use_multiprocessing=mp_flag)
            sym = t.symbol_table.get_sym_table()
            out["parse"] = {r: fw.dump_frame_res(case, t.traces[r], sym) for r in sorted(t.traces)}
            out["parse_min_ts"] = fw.as_int(t.min_ts * ksc)
        except Exception as e:
            out["parse_error"] = type(e).__name__ + ": " + str(e)[:300]
    if do_load:
        try:
            if rr.random() < 0.5:
                t = Trace(trace_files=dict(paths), trace_dir=d)
                t.load_traces(include_last_profiler_step=incl, use_multiprocessing=mp_flag)
                out["route"] = "Trace.load_traces"
            else:
                # the public constructor (it loads with its own defaults for the pool; the option is forwarded)
                from hta.trace_analysis import TraceAnalysis
                t = TraceAnalysis(trace_files=dict(paths), trace_dir=d, include_last_profiler_step=incl).t
                out["route"] = "TraceAnalysis(...)"
            sym = t.symbol_table.get_sym_table()
            out["load"] = {r: fw.dump_frame_res(case, t.get_trace(r), sym) for r in sorted(t.traces)}
            out["load_index_ok"] = all(list(t.get_trace(r).index) == list(t.get_trace(r)["index"]) for r in t.traces)
            out["min_ts"] = fw.as_int(t.min_ts * ksc)
            out["iterations"] = {r: [int(x) for x in t.get_iterations(r)] for r in sorted(t.traces)}
        except Exception as e:
            import traceback
            out["load_error"] = type(e).__name__ + ": " + str(e)[:300] + " @ " + traceback.format_exc()[-400:]
    return out


def coq_term(case: dict) -> str:
    tab = symtab(case)
    incl = bool(case["params"].get("include_last", False))
    fl = files_lit(case)
    return (f"let files := {fl} in let tab := {fw.sl(tab)} in\n"
            f" (encode_parse tab files, encode_align tab files, encode_load tab {fw.b(incl)} files)")


def frac_term(case: dict) -> str:
    """Q literals (ts, double(ts)+double(dur)) of every complete entry, rank by rank."""
    parts = []
    for r, rk in sorted(case["ranks"].items()):
        for e in rk["events"]:
            if e.get("dur") is not None and e.get("cat") not in (None, "Trace"):
                t = Fraction(float(e["ts"]))
                en = Fraction(float(e["ts"]) + float(e["dur"]))
                parts.append(f"({q(t)}, {q(en)})")
    return "encode_round [" + "; ".join(parts) + "]"


def q(f: Fraction) -> str:
    return f"(Qmake {fw.z(f.numerator)} {f.denominator})"
