(* C08 property theorems (verified checker): the critical-path graph is a forward-in-time DAG with typed, non-negative edges. *)
From HTA.lib Require Import Base Dag.
From HTA.gen Require Import CpRules_gen.
From HTA.model Require Import C08_Model C08_Host C08_Dev C08_Clip.
From HTA.proof Require Import C08_Proofs C08_HostProofs C08_DevProofs C08_RulesTie C08_ClipProofs.
From HTA.proof Require Import Scale C08_HostScale C08_DevScale C08_ClipScale.
Open Scope Z_scope.

Theorem C08_edges_forward_nonneg : forall zw clipped N E e, edge_ok zw clipped N E e = true ->
  exists nu nv, find_node N (g_u e) = Some nu /\ find_node N (g_v e) = Some nv /\ c_ts nu <= c_ts nv /\ 0 <= g_w e.
Proof. exact edge_ok_forward. Qed.
Print Assumptions C08_edges_forward_nonneg.

Theorem C08_weight_rule : forall zw clipped N E e, edge_ok zw clipped N E e = true ->
  exists nu nv, find_node N (g_u e) = Some nu /\ find_node N (g_v e) = Some nv /\
    ((g_ty e = 1 \/ g_ty e = 4) -> g_w e = 0) /\
    (g_ty e = 3 -> g_w e = c_ts nv - c_ts nu) /\
    (g_ty e = 0 -> g_w e = c_ts nv - c_ts nu \/ (g_w e = 0 /\ c_start nv = false /\ c_block nv = true)) /\
    (g_ty e = 2 -> g_w e = c_ts nv - c_ts nu \/ (zw = true /\ g_w e = 0)) /\
    (g_ty e = 0 \/ g_ty e = 1 \/ g_ty e = 2 \/ g_ty e = 3 \/ g_ty e = 4).
Proof. exact edge_ok_weight. Qed.
Print Assumptions C08_weight_rule.

Theorem C08_type_discipline : forall zw clipped N E e, edge_ok zw clipped N E e = true ->
  exists nu nv eu ev_, find_node N (g_u e) = Some nu /\ find_node N (g_v e) = Some nv /\
    find_ev clipped (c_ev nu) = Some eu /\ find_ev clipped (c_ev nv) = Some ev_ /\
    (g_ty e = 2 -> c_start nu = true /\ c_start nv = true /\ is_dev_ev eu = false /\ is_dev_ev ev_ = true /\ icorr ev_ = idx eu /\ 0 < icorr ev_) /\
    (g_ty e = 3 -> c_start nu = false /\ c_start nv = true /\ is_dev_ev eu = true /\ is_dev_ev ev_ = true /\ stream eu = stream ev_ /\
                   forall k, In k clipped -> analysed k = true -> is_dev_ev k = true -> stream k = stream eu -> cat k <> "cuda_sync"%string ->
                             ~ (ts eu < ts k < ts ev_)) /\
    (g_ty e = 4 -> c_start nu = false /\ is_dev_ev eu = true /\
                   ((c_start nv = false /\ is_dev_ev ev_ = false) \/ (c_start nv = true /\ is_dev_ev ev_ = true /\ stream eu <> stream ev_))).
Proof. exact edge_ok_types. Qed.
Print Assumptions C08_type_discipline.

Theorem C08_acyclic : forall E order p,
  rank_okb (map to_edge E) (rank_of 1 order) = true -> is_path (map to_edge E) p -> path_end (path_start p) p <> path_start p.
Proof. exact check_acyclic. Qed.
Print Assumptions C08_acyclic.

(* host side, by proof about the builder's state machine (not a checker): for EVERY depth-first traversal of properly nested
   events in time order, of any depth, with any mix of events that have graph nodes and events that have none, every edge the
   enter / exit callbacks emit points forward in time and weighs the time difference, or zero for a dependency or the closing
   edge of a blocking call *)
Theorem C08_host_edges_forward_nonneg : forall tab acts t0,
  wf_actions tab [] [] t0 acts = true -> Forall (forward_nonneg tab) (host_edges_of tab acts).
Proof. exact host_forward_nonneg. Qed.
Print Assumptions C08_host_edges_forward_nonneg.

(* non-vacuity of the host theorem: outer[0,100]{ annotation[10,30]{ b[12,20] } c[50,60] }, the annotation has no nodes *)
Example C08_host_nonvacuous :
  encode_host [mkH 0 0 100 true false (-1); mkH 1 10 30 false false 0; mkH 2 12 20 true false 1; mkH 3 50 60 true false 0]
              [Enter 0; Enter 1; Enter 2; Exit 2; Exit 1; Enter 3; Exit 3; Exit 0] 0 =
  (true, [[0; 1; 2; 1; 12; 0; 0]; [2; 0; 3; 1; 30; 0; 0]; [2; 1; 2; 0; 8; 0; 2]; [3; 0; 0; 0; 40; 0; 0]; [3; 1; 3; 0; 10; 0; 3]]).
Proof. vm_compute. reflexivity. Qed.

(* device side, by proof about the loop of _construct_graph_from_kernels: for EVERY causally consistent processing sequence (any number
   of streams, activities and synchronisation records; with and without zero-weight launch edges) every emitted edge points forward in
   time, is non-negative, weighs the time difference or zero as its type prescribes, and joins start / end nodes as its type demands *)
Theorem C08_dev_edges_forward_typed : forall zw rows, dwf [] rows = true -> Forall DGood (fst (drun zw [] rows)).
Proof. exact dev_edges_good. Qed.
Print Assumptions C08_dev_edges_forward_typed.

(* non-vacuity: launch [0,2) -> kernel [5,9) on stream 7 (queue 1 -> 0), a second kernel [9,12) launched at 3 while the first was queued
   (queue 2), a device synchronisation returning at 14 *)
Example C08_dev_nonvacuous :
  encode_dev false [DK 2 7 5 9 1 0 true 1 0; DK 4 7 9 12 3 3 true 2 0; DC 5 14 true] =
  (true, true, [[1; 1; 2; 1; 5; 2; -2]; [2; 0; 4; 1; 0; 3; 2]; [2; 1; 2; 0; 4; 0; 2]; [4; 0; 5; 0; 0; 4; -2]; [4; 1; 4; 0; 3; 0; 4]]).
Proof. vm_compute. reflexivity. Qed.

(* the tie by regeneration: the weights the two builder models give their edges are those of the weight rule GENERATED from the
   current source (CPGraph._add_edge_helper; type codes from the member order of CPEdgeType) *)
Theorem C08_weights_follow_generated_rule :
  (forall tab s a e, In e (snd (hstep tab s a)) -> rule_weight e (closing_blocking tab a)) /\ (forall zw st r e, In e (snd (fst (dstep zw st r))) -> exists zero, rule_weight e zero /\ (zero = true -> he_ty e = 2 /\ zw = true)).
Proof.
  split; [intros tab s a e H; apply (host_rules_are_generated tab s a e H)|].
  intros zw st r e H. destruct (dev_rules_are_generated zw st r e H) as [z [H1 [H2 _]]]. exists z. split; assumption.
Qed.
Print Assumptions C08_weights_follow_generated_rule.

(* the analysed window: a host row is kept exactly when it starts in the window and lasts; a kept device row (other than a Stream
   Wait Event record) has its launching / synchronising host row among the kept rows, for every frame and every window *)
Theorem C08_window_closed : forall lo hi l,
  (forall e, In e l -> stream e = -1 -> (In e (clip lo hi l) <-> lo <= ts e <= hi /\ 0 < dur e)) /\
  (forall d, In d (clip lo hi l) -> stream d <> -1 -> name d <> "Stream Wait Event"%string ->
     exists h, In h (clip lo hi l) /\ stream h = -1 /\ icorr h = idx d).
Proof.
  intros lo hi l. split.
  - intros e Hin Hs. split; [intro H; apply (clip_host lo hi l e H Hs) | intros [H1 H2]; apply clip_host_complete; assumption].
  - intros d H Hs Hn. apply (clip_closed lo hi l d H Hs Hn).
Qed.
Print Assumptions C08_window_closed.

(* non-vacuity: launch call [0,2) launches kernel [5,9); a second kernel [9,12) on the stream; sync call [10,14) waits *)
Definition cl08 : list ev :=
  [ mkEv 1 0 2 1 1 (-1) 7 2 (-1) "cudaLaunchKernel" "cuda_runtime"; mkEv 2 5 4 0 7 7 7 1 (-1) "gemm" "kernel";
    mkEv 3 3 1 1 1 (-1) 8 4 (-1) "cudaLaunchKernel" "cuda_runtime"; mkEv 4 9 3 0 7 7 8 3 (-1) "relu" "kernel";
    mkEv 5 10 4 1 1 (-1) 9 6 (-1) "cudaDeviceSynchronize" "cuda_runtime"; mkEv 6 10 2 0 0 (-1) 9 5 (-1) "Context Sync" "cuda_sync" ].
Definition n08 : list cpnode :=
  [ mkN 0 1 0 true false; mkN 1 1 2 false false; mkN 2 3 3 true false; mkN 3 3 4 false false; mkN 4 2 5 true false; mkN 5 2 9 false false;
    mkN 6 4 9 true false; mkN 7 5 10 true true; mkN 8 4 12 false false; mkN 9 5 14 false true ].
Definition e08 : list cpedge :=
  [ mkE 0 1 2 0; mkE 1 2 0 1; mkE 2 3 1 0; mkE 3 7 0 1; mkE 7 9 0 0; mkE 4 5 4 0; mkE 0 4 5 2; mkE 6 8 3 0; mkE 5 6 0 3; mkE 8 9 0 4 ].
Example C08_nonvacuous : check_C08 false cl08 n08 e08 [0; 1; 2; 3; 4; 5; 6; 7; 8; 9] = [true; true; true; true].
Proof. vm_compute. reflexivity. Qed.

(* resolution independence of the host-side builder: event times multiplied by k give the same edges between the same nodes, with
   node times and weights multiplied by k (types and attributions unchanged); with C08_host_edges_forward_nonneg this carries the
   forward / non-negative / attribution results over to fractional microseconds *)
Theorem C08_host_resolution_independent : forall k tab acts,
  host_edges_of (map (shev k) tab) acts = map (shedge k) (host_edges_of tab acts).
Proof. exact C08_host_scale. Qed.
Print Assumptions C08_host_resolution_independent.

(* ... and of the device-side loop: the same edges with node times and weights multiplied by k, the same verdict of the code's
   own launch assertion (queue lengths, stream and event ids are not times) *)
Theorem C08_dev_resolution_independent : forall k zw rows, 0 < k ->
  drun zw [] (map (sdrow k) rows) = (map (shedge k) (fst (drun zw [] rows)), snd (drun zw [] rows)).
Proof. exact C08_dev_scale. Qed.
Print Assumptions C08_dev_resolution_independent.

(* ... and of the window and the kept rows: the window's bounds are multiplied by k and exactly the same rows are kept *)
Theorem C08_window_resolution_independent : forall k ann i j lo hi l, 0 < k ->
  window ann i j (scale_evs k l) = (k * fst (window ann i j l), k * snd (window ann i j l)) /\
  clip (k * lo) (k * hi) (scale_evs k l) = scale_evs k (clip lo hi l).
Proof. intros k ann i j lo hi l Hk. split; [apply C08_window_scale | apply C08_clip_scale]; exact Hk. Qed.
Print Assumptions C08_window_resolution_independent.
