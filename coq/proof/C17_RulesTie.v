(* The change classes and the sign column of the model are the ones GENERATED from the current source (gen/DiffRules_gen.v). *)
From Coq Require Import ZArith List Bool.
From HTA.lib Require Import Base.
From HTA.gen Require Import DiffRules_gen.
From HTA.model Require Import C17_Model.
Open Scope Z_scope.

Theorem masks_are_generated c t : masks c t = masks_gen c t.
Proof. reflexivity. Qed.

Theorem sign_is_generated d : sign d = sign_gen d.
Proof. reflexivity. Qed.
