(* C12 property theorems: iteration numbers follow profiler steps; loading trims only the trailing step. *)
From HTA.lib Require Import Base.
From HTA.model Require Import Loader_Model.
From HTA.proof Require Import C12_Proofs.
From HTA.gen Require Import TrimRules_gen.
From HTA.proof Require Import Scale C12_Scale C12_RulesTie.
Open Scope Z_scope.

Theorem C12_host_iteration : forall l e s,
  stream e < 0 -> steps_unambiguous (step_rows l) -> In s (step_rows l) -> ts s <= ts e < ts s + dur s ->
  iter_of l e = step_no (name s).
Proof. exact host_iteration. Qed.
Print Assumptions C12_host_iteration.

Theorem C12_host_no_step : forall l e,
  stream e < 0 -> (forall s, In s (step_rows l) -> ~ (ts s <= ts e < ts s + dur s)) -> iter_of l e = -1.
Proof. exact host_no_step. Qed.
Print Assumptions C12_host_no_step.

Theorem C12_device_iteration : forall l e r,
  0 < stream e -> NoDup (map idx l) -> In r l -> icorr e = idx r -> 0 < idx r -> stream r < 0 ->
  iter_of l e = iter_of l r.
Proof. exact device_iteration. Qed.
Print Assumptions C12_device_iteration.

Theorem C12_device_unlinked : forall l e, 0 < stream e -> icorr e <= 0 -> iter_of l e = -1.
Proof. exact device_unlinked. Qed.
Print Assumptions C12_device_unlinked.

(* with at least two steps: exactly the host rows before the cut and the device rows whose id a kept host row carries *)
Theorem C12_trim_exact : forall incl l e,
  2 <= Z.of_nat (List.length (host_steps l)) ->
  (In e (trim incl l) <->
   In e l /\ ((is_host e = true /\ cut incl l e) \/
              (is_dev e = true /\ exists c, In c l /\ is_host c = true /\ cut incl l c /\ corr c = corr e))).
Proof. exact trim_exact. Qed.
Print Assumptions C12_trim_exact.

Theorem C12_trim_noop_lt2 : forall incl l, Z.of_nat (List.length (host_steps l)) < 2 -> trim incl l = l.
Proof. exact trim_noop_lt2. Qed.
Print Assumptions C12_trim_noop_lt2.

(* the two cut-offs are the start, resp. the end, of the step with the largest start *)
Theorem C12_last_step_start : forall l, host_steps l <> [] ->
  exists L, In L (host_steps l) /\ ts L = last_start l /\ forall s, In s (host_steps l) -> ts s <= ts L.
Proof. exact last_step_start. Qed.
Print Assumptions C12_last_step_start.

Theorem C12_last_step_end : forall l L,
  (forall a b, In a (host_steps l) -> In b (host_steps l) -> a = b \/ eend a <= ts b \/ eend b <= ts a) ->
  (forall a, In a (host_steps l) -> 0 < dur a) ->
  In L (host_steps l) -> (forall s, In s (host_steps l) -> ts s <= ts L) ->
  last_end l = eend L.
Proof. exact last_step_end. Qed.
Print Assumptions C12_last_step_end.

(* no row is duplicated, for ANY event mix (however many kept host rows carry a device row's correlation id): the statement the
   many-to-many merge repaired in 1af5ed4 violated; C01's "exactly one row per complete event" after a full load rests on it *)
Theorem C12_trim_no_dup : forall incl l, NoDup l -> NoDup (trim incl l).
Proof. exact trim_no_dup. Qed.
Print Assumptions C12_trim_no_dup.

(* non-vacuity: two steps #3 [10,20) and #4 [25,40); an op before the first step, one in the gap, one at the very
   start of the last step; a kernel launched from step 3 that runs during step 4; an orphan kernel *)
Definition f12 : list raw :=
  [ mkRaw (Some 1) (Some "cpu_op") 2 1 1 None None "aten::zeros";
    mkRaw (Some 10) (Some "user_annotation") 10 1 1 None None "ProfilerStep#3";
    mkRaw (Some 15) (Some "user_annotation") 25 1 1 None None "ProfilerStep#4";
    mkRaw (Some 2) (Some "cuda_runtime") 12 1 1 None (Some 5) "cudaLaunchKernel";
    mkRaw (Some 4) (Some "kernel") 30 0 7 (Some 7) (Some 5) "gemm";
    mkRaw (Some 1) (Some "cpu_op") 22 1 1 None None "aten::add";
    mkRaw (Some 1) (Some "cpu_op") 25 1 1 None None "aten::mul";
    mkRaw (Some 2) (Some "cuda_runtime") 26 1 1 None (Some 6) "cudaLaunchKernel";
    mkRaw (Some 4) (Some "kernel") 35 0 7 (Some 7) (Some 6) "gemm";
    mkRaw (Some 4) (Some "kernel") 50 0 7 (Some 7) (Some 9) "orphan" ].
Example C12_nonvacuous :
  map (fun l => map (fun e => (idx e, iter e)) l) (load false [f12]) = [[(4, 3); (0, -1); (1, 3); (3, 3); (5, -1)]] /\
  map (fun l => map idx l) (load true [f12]) = [[4; 8; 0; 1; 2; 3; 5; 6; 7]].
Proof. vm_compute. split; reflexivity. Qed.

(* resolution independence: times multiplied by k > 0 change no iteration number, and the trimming keeps exactly the same rows *)
Theorem C12_resolution_independent : forall k incl l, 0 < k ->
  add_iter (scale_evs k l) = scale_evs k (add_iter l) /\ trim incl (scale_evs k l) = scale_evs k (trim incl l).
Proof. intros k incl l Hk. split; [apply C12_iter_scale | apply C12_trim_scale]; exact Hk. Qed.
Print Assumptions C12_resolution_independent.

(* the trimming rule is regenerated from Trace._filter_irrelevant_gpu_kernels on every run (strict statement-by-statement reading of
   the per-rank helper) and is the model's: below two steps nothing is dropped, host rows are cut at the latest step start (or end) *)
Theorem C12_trim_rules_follow_source : forall incl l e,
  keep_host incl l e = is_host e && host_cut_gen incl (ts e) (maxZ 0 (map ts (host_steps l))) (maxZ 0 (map eend (host_steps l))) /\
  is_step_row e = is_host e && contains step_marker_gen (name e) /\
  trim incl l = if Z.of_nat (List.length (host_steps l)) <? min_steps_gen then l else (kept_dev incl l ++ kept_host incl l)%list.
Proof. exact trim_rules_are_generated. Qed.
Print Assumptions C12_trim_rules_follow_source.
