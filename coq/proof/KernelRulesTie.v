(* The kernel classification used by the models (lib/Base.v get_kernel_type, C14's mem_type) is the one GENERATED from the current
   source (gen/KernelRules_gen.v: get_kernel_type's chain, KernelType's codes, get_memory_kernel_type's prefix rules). *)
From Coq Require Import ZArith List Bool String.
From HTA.lib Require Import Base.
From HTA.gen Require Import KernelRules_gen LaunchNames_gen.
From HTA.model Require Import C14_Model.
Open Scope Z_scope.

Definition ktype_code (k : ktype) : Z := match k with COMMUNICATION => 0 | MEMORY => 1 | COMPUTATION => 2 | OTHER => 3 end.

Theorem kernel_type_is_generated n :
  ktype_code (get_kernel_type n) = kernel_type_gen (is_comm_kernel n) (is_memory_kernel n) (is_compute_kernel n).
Proof. unfold get_kernel_type, kernel_type_gen. destruct (is_comm_kernel n), (is_memory_kernel n), (is_compute_kernel n); reflexivity. Qed.

Theorem mem_type_is_generated n : mem_type n = mem_type_gen n.
Proof. reflexivity. Qed.

(* the launch-call names of the queue-length model are the ones read out of get_runtime_launch_events_query *)
Theorem launch_names_are_generated : launch_names = launch_names_gen.
Proof. reflexivity. Qed.
