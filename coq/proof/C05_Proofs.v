From Coq Require Import Permutation Sorted.
From HTA.lib Require Import Base Cells Intervals Sweep.
From HTA.model Require Import C04_Model C07_Model C05_Model.
From HTA.proof Require Import C04_Proofs C07_Proofs.
Open Scope list_scope.
Open Scope Z_scope.

(* ================= kernel-type table ================= *)
(* the bit pattern running at cell t: bit i set iff some interval of the i-th analysed type covers t *)
Fixpoint pattern (v : Z) (sets : list (list itv)) (t : Z) : Z :=
  match sets with
  | [] => 0
  | s :: r => v * b2z (covered s t) + pattern (2 * v) r t
  end.

(* boundary rows of already merged (separated) interval sets *)
Fixpoint rows_of_sets (v : Z) (sets : list (list itv)) : list row :=
  match sets with
  | [] => []
  | s :: r => rows_of v s ++ rows_of_sets (2 * v) r
  end.

Lemma level_rows_of_sets sets : forall v t, Forall separated sets ->
  level (rows_of_sets v sets) t = pattern v sets t.
Proof.
  induction sets as [|s r IH]; intros v t Hs; [reflexivity|].
  inversion Hs as [|? ? H1 H2]; subst. cbn [rows_of_sets pattern]. rewrite level_app, IH by assumption.
  rewrite level_rows_of by (apply separated_wf; assumption). rewrite separated_cover_count by assumption. reflexivity.
Qed.

Lemma rows_of_sets_sum sets : forall v, sumZ (map snd (rows_of_sets v sets)) = 0.
Proof.
  induction sets as [|s r IH]; intro v; [reflexivity|]. cbn [rows_of_sets].
  rewrite map_app, sumZ_app, rows_of_sum, IH. reflexivity.
Qed.

Lemma rows_of_sets_bounds sets lo hi : forall v,
  Forall (fun s => separated s /\ forall i, In i s -> lo <= fst i /\ snd i <= hi) sets ->
  forall r, In r (rows_of_sets v sets) -> lo <= fst r <= hi.
Proof.
  induction sets as [|s rest IH]; intros v Hs r Hr; [destruct Hr|].
  inversion Hs as [|? ? [H1 H1'] H2]; subst. cbn [rows_of_sets] in Hr. apply in_app_or in Hr.
  destruct Hr as [Hr|Hr].
  - eapply rows_of_bounds; [exact H1' | apply separated_wf; exact H1 | exact Hr].
  - eapply IH; eauto.
Qed.

(* for EVERY time-sorted permutation rows' of the boundary rows: the time credited to pattern m (m <> 0) is the
   number of cells during which exactly that combination of types is running *)
Theorem type_rows_exact sets rows' m lo hi :
  m <> 0 ->
  Forall (fun s => separated s /\ forall i, In i s -> lo <= fst i /\ snd i <= hi) sets ->
  Permutation (rows_of_sets 1 sets) rows' -> sorted_time rows' ->
  pattern_time rows' m = cells (fun t => pattern 1 sets t =? m) lo hi.
Proof.
  intros Hm Hs Hp Hst. unfold pattern_time.
  assert (Hsep : Forall separated sets) by (eapply Forall_impl; [|exact Hs]; intros a [H _]; exact H).
  rewrite (sweep_exact (Z.eqb m) (rows_of_sets 1 sets) rows' lo hi).
  - apply cells_ext. intros t _. rewrite level_rows_of_sets by exact Hsep. apply Z.eqb_sym.
  - apply Z.eqb_neq. exact Hm.
  - apply rows_of_sets_sum.
  - exact Hp.
  - exact Hst.
  - apply rows_of_sets_bounds. exact Hs.
Qed.

(* the patterns' times add up to the measure of the union *)
Lemma cells_n_sum_select (f : Z -> Z) (L : list Z) lo n : NoDup L ->
  sumZ (map (fun m => cells_n (fun t => f t =? m) lo n) L) = cells_n (fun t => existsb (Z.eqb (f t)) L) lo n.
Proof.
  intro Hnd. revert lo. induction n as [|n IH]; intro lo; cbn [cells_n].
  - induction L; [reflexivity|]. cbn [map]. unfold sumZ in *. cbn [fold_right]. rewrite IHL; [lia | inversion Hnd; assumption].
  - rewrite <- IH.
    assert (E : forall L', NoDup L' -> sumZ (map (fun m => b2z (f lo =? m) + cells_n (fun t => f t =? m) (lo + 1) n) L') =
                b2z (existsb (Z.eqb (f lo)) L') + sumZ (map (fun m => cells_n (fun t => f t =? m) (lo + 1) n) L')).
    { clear. induction L' as [|a L' IHL]; intro Hnd; [reflexivity|]. inversion Hnd as [|? ? Ha Hnd']; subst.
      cbn [map existsb]. unfold sumZ in *. cbn [fold_right]. rewrite (IHL Hnd').
      destruct (f lo =? a) eqn:E.
      - apply Z.eqb_eq in E. assert (existsb (Z.eqb (f lo)) L' = false).
        { destruct (existsb (Z.eqb (f lo)) L') eqn:X; [|reflexivity]. apply existsb_exists in X. destruct X as [y [Hy Ey]].
          apply Z.eqb_eq in Ey. rewrite E in Ey. subst y. contradiction. }
        rewrite H. cbn [orb b2z]. lia.
      - cbn [orb b2z]. lia. }
    apply E. exact Hnd.
Qed.

Theorem type_rows_partition (f : Z -> Z) (L : list Z) lo hi : NoDup L ->
  sumZ (map (fun m => cells (fun t => f t =? m) lo hi) L) = cells (fun t => existsb (Z.eqb (f t)) L) lo hi.
Proof. intro H. unfold cells. apply cells_n_sum_select. exact H. Qed.

(* with two (three) analysed types the non-zero patterns are 1..3 (1..7) and "pattern in that list" = "some type runs" *)
Lemma pattern2 a b t : existsb (Z.eqb (pattern 1 [a; b] t)) [1; 2; 3] = covered a t || covered b t.
Proof. cbn [pattern]. destruct (covered a t), (covered b t); reflexivity. Qed.
Lemma pattern3 a b c t : existsb (Z.eqb (pattern 1 [a; b; c] t)) [1; 2; 3; 4; 5; 6; 7] = covered a t || covered b t || covered c t.
Proof. cbn [pattern]. destruct (covered a t), (covered b t), (covered c t); reflexivity. Qed.

(* ================= per-kernel table ================= *)
Lemma str_in_In s l : str_in s l = true <-> In s l.
Proof.
  unfold str_in. rewrite existsb_exists. split.
  - intros [x [Hx E]]. apply String.eqb_eq in E. subst. exact Hx.
  - intro H. exists s. split; [exact H | apply String.eqb_refl].
Qed.

Lemma dedup_s_In l x : In x (dedup_s l) <-> In x l.
Proof.
  induction l as [|y l IH]; simpl; [tauto|]. destruct (str_in y l) eqn:E.
  - rewrite IH. split; [auto|]. intros [H|H]; [subst; apply str_in_In; exact E | exact H].
  - simpl. rewrite IH. tauto.
Qed.

Lemma dedup_s_NoDup l : NoDup (dedup_s l).
Proof.
  induction l as [|y l IH]; simpl; [constructor|]. destruct (str_in y l) eqn:E; [exact IH|].
  constructor; [|exact IH]. rewrite dedup_s_In. intro H. apply str_in_In in H. congruence.
Qed.

(* the per-name sums partition the total duration *)
Lemma select_one (L : list string) x v : NoDup L -> In x L ->
  sumZ (map (fun n => if String.eqb x n then v else 0) L) = v.
Proof.
  induction L as [|y L IH]; intros Hnd Hin; [destruct Hin|]. inversion Hnd as [|? ? Hy Hnd']; subst.
  cbn [map]. unfold sumZ in *. cbn [fold_right]. destruct Hin as [Hin|Hin].
  - subst. rewrite String.eqb_refl.
    assert (E : fold_right Z.add 0 (map (fun n => if String.eqb x n then v else 0) L) = 0).
    { clear - Hy. induction L as [|z L IH]; [reflexivity|]. cbn [map fold_right].
      destruct (String.eqb x z) eqn:E; [apply String.eqb_eq in E; subst; exfalso; apply Hy; left; reflexivity|].
      rewrite IH; [lia|]. intro H. apply Hy. right. exact H. }
    rewrite E. lia.
  - destruct (String.eqb x y) eqn:E; [apply String.eqb_eq in E; subst; contradiction|]. rewrite (IH Hnd' Hin). lia.
Qed.

Lemma sums_partition (L : list string) ks : NoDup L -> (forall k, In k ks -> In (fst k) L) ->
  sumZ (map (fun n => sumZ (kdurs n ks)) L) = sumZ (map snd ks).
Proof.
  intros Hnd. induction ks as [|k ks IH]; intro Hall.
  - clear. induction L as [|n L IHL]; [reflexivity|]. cbn [map]. rewrite sumZ_cons. rewrite IHL. reflexivity.
  - cbn [map]. rewrite (sumZ_cons (snd k)). rewrite <- IH by (intros k' Hk'; apply Hall; right; exact Hk').
    rewrite <- (select_one L (fst k) (snd k) Hnd (Hall k (or_introl eq_refl))).
    clear. induction L as [|n L IHL]; [reflexivity|]. cbn [map]. rewrite !sumZ_cons. rewrite IHL.
    unfold kdurs. cbn [filter]. destruct (String.eqb (fst k) n) eqn:E; cbn [map]; rewrite ?sumZ_cons; lia.
Qed.

Lemma insert_g_perm x l : Permutation (x :: l) (insert_g x l).
Proof.
  induction l as [|y r IH]; simpl; [apply Permutation_refl|]. destruct (g_sum y <? g_sum x); [apply Permutation_refl|].
  eapply perm_trans; [apply perm_swap | apply perm_skip; exact IH].
Qed.
Lemma sort_g_perm l : Permutation l (sort_g l).
Proof. induction l as [|x l IH]; simpl; [constructor|]. eapply perm_trans; [apply perm_skip; exact IH | apply insert_g_perm]. Qed.

(* bucket only partitions its input *)
Lemma bucket_perm q numk : forall gs cs i, List.length cs = List.length gs ->
  Permutation gs (fst (bucket q numk i gs cs) ++ snd (bucket q numk i gs cs)).
Proof.
  induction gs as [|g gr IH]; intros cs i Hlen; [destruct cs; constructor|].
  destruct cs as [|c cr]; [discriminate|]. cbn [bucket]. specialize (IH cr (i + 1) ltac:(simpl in Hlen; lia)).
  destruct (bucket q numk (i + 1) gr cr) as [named others]. cbn [fst snd] in *.
  destruct (is_other q numk i c); cbn [fst snd].
  - apply Permutation_cons_app. exact IH.
  - cbn. apply perm_skip. exact IH.
Qed.

Lemma bucket_named_len q numk : forall gs cs i, 0 <= i ->
  Z.of_nat (List.length (fst (bucket q numk i gs cs))) <= Z.max 0 (numk - i).
Proof.
  induction gs as [|g gr IH]; intros cs i Hi; [cbn; lia|]. destruct cs as [|c cr]; [cbn; lia|]. cbn [bucket].
  specialize (IH cr (i + 1) ltac:(lia)). destruct (bucket q numk (i + 1) gr cr) as [named others]. cbn [fst] in *.
  unfold is_other. destruct (q <? 16 * c) eqn:E1; cbn [orb fst]; [lia|]. destruct (numk <=? i) eqn:E2; cbn [fst]; [lia|].
  cbn [List.length]. lia.
Qed.

Lemma cumsums_length acc l : List.length (cumsums acc l) = List.length l.
Proof. revert acc. induction l as [|x l IH]; intro acc; simpl; [reflexivity | rewrite IH; reflexivity]. Qed.

Lemma sumZ_perm' {A} (f : A -> Z) l l' : Permutation l l' -> sumZ (map f l) = sumZ (map f l').
Proof. unfold sumZ. induction 1; cbn [map fold_right]; lia. Qed.

Definition result_total (r : list grp * option Z) : Z :=
  sumZ (map g_sum (fst r)) + match snd r with Some s => s | None => 0 end.

(* the reported sums, including the aggregated 'others' row, add up to the total duration of the kernels *)
Theorem sum_conserved numk k16 ks : result_total (aggr numk k16 ks) = sumZ (map snd ks).
Proof.
  assert (Htot : sumZ (map g_sum (sort_g (group_by_name ks))) = sumZ (map snd ks)).
  { rewrite <- (sumZ_perm' g_sum _ _ (sort_g_perm (group_by_name ks))). unfold group_by_name. rewrite map_map. cbn [g_sum mk_group].
    apply sums_partition; [apply dedup_s_NoDup|]. intros k Hk. apply dedup_s_In. apply in_map. exact Hk. }
  unfold aggr, result_total. destruct (numk <? Z.of_nat (List.length (sort_g (group_by_name ks)))); [|cbn [fst snd]; lia].
  pose proof (bucket_perm (quantile16 (cumsums 0 (sort_g (group_by_name ks))) k16) numk (sort_g (group_by_name ks))
                (cumsums 0 (sort_g (group_by_name ks))) 0 (cumsums_length _ _)) as Hp.
  destruct (bucket _ numk 0 (sort_g (group_by_name ks)) _) as [named others]. cbn [fst snd] in *.
  rewrite <- Htot. rewrite (sumZ_perm' g_sum _ _ Hp). rewrite map_app, sumZ_app.
  destruct others; cbn [map]; unfold sumZ; cbn [fold_right]; lia.
Qed.

(* at most num_kernels named rows *)
Theorem named_at_most_k numk k16 ks : 1 <= numk -> Z.of_nat (List.length (fst (aggr numk k16 ks))) <= numk.
Proof.
  intro Hk. unfold aggr. destruct (numk <? Z.of_nat (List.length (sort_g (group_by_name ks)))) eqn:E; [|cbn [fst]; lia].
  pose proof (bucket_named_len (quantile16 (cumsums 0 (sort_g (group_by_name ks))) k16) numk (sort_g (group_by_name ks))
                (cumsums 0 (sort_g (group_by_name ks))) 0 ltac:(lia)) as H.
  destruct (bucket _ numk 0 (sort_g (group_by_name ks)) _) as [named others]. cbn [fst] in *. lia.
Qed.

(* a named row carries the statistics of the kernels bearing that name *)
Theorem named_row_stats numk k16 ks g : In g (fst (aggr numk k16 ks)) ->
  exists n, In n (map fst ks) /\ g = mk_group ks n /\
            g_sum g = sumZ (kdurs n ks) /\ g_max g = maxZ 0 (kdurs n ks) /\ g_min g = minZ 0 (kdurs n ks) /\
            g_cnt g = Z.of_nat (List.length (kdurs n ks)) /\ kdurs n ks <> [].
Proof.
  intro Hg.
  assert (Hin : In g (group_by_name ks)).
  { unfold aggr in Hg. destruct (numk <? Z.of_nat (List.length (sort_g (group_by_name ks)))).
    - pose proof (bucket_perm (quantile16 (cumsums 0 (sort_g (group_by_name ks))) k16) numk (sort_g (group_by_name ks))
                    (cumsums 0 (sort_g (group_by_name ks))) 0 (cumsums_length _ _)) as Hp.
      destruct (bucket _ numk 0 (sort_g (group_by_name ks)) _) as [named others]. cbn [fst snd] in *.
      apply Permutation_sym in Hp. apply (Permutation_in g Hp (in_or_app _ _ _ (or_introl Hg))) || idtac.
      assert (H1 : In g (sort_g (group_by_name ks))) by (eapply Permutation_in; [exact Hp | apply in_or_app; left; exact Hg]).
      pose proof (sort_g_perm (group_by_name ks)) as Hs. apply Permutation_sym in Hs. eapply Permutation_in; eauto.
    - cbn [fst] in Hg. pose proof (sort_g_perm (group_by_name ks)) as Hs. apply Permutation_sym in Hs. eapply Permutation_in; eauto. }
  unfold group_by_name in Hin. apply in_map_iff in Hin. destruct Hin as [n [Hg' Hn]]. apply (proj1 (dedup_s_In _ _)) in Hn.
  exists n. split; [exact Hn|]. split; [symmetry; exact Hg'|]. subst g. cbn [mk_group g_sum g_max g_min g_cnt]. repeat split.
  apply in_map_iff in Hn. destruct Hn as [k [Hk Hin]]. unfold kdurs. intro E.
  assert (In (snd k) (map snd (filter (fun k0 => String.eqb (fst k0) n) ks))).
  { apply in_map. apply filter_In. split; [exact Hin | apply String.eqb_eq; exact Hk]. }
  rewrite E in H. destruct H.
Qed.

(* ================= the model's kernel-type table is an instance ================= *)
Definition merged (l : list ev) (ty : ktype) : list itv := merge_sorted (sort_ts (type_itvs ty l)).

Lemma type_rows_sets tys l : forall v, type_rows v tys l = rows_of_sets v (map (merged l) tys).
Proof. induction tys as [|ty r IH]; intro v; [reflexivity|]. cbn [type_rows map rows_of_sets]. rewrite IH. reflexivity. Qed.

Lemma type_itvs_wf ty l : durs_nonneg l -> wf_itvs (type_itvs ty l).
Proof.
  intro H. unfold type_itvs, wf_itvs. rewrite Forall_forall. intros i Hi. apply in_map_iff in Hi.
  destruct Hi as [e [He Hin]]. subst i. apply filter_In in Hin. destruct Hin as [Hin _]. unfold itv_of. simpl. specialize (H e Hin). lia.
Qed.

Lemma pattern_merged tys l t : durs_nonneg l -> forall v,
  pattern v (map (merged l) tys) t = pattern v (map (fun ty => type_itvs ty l) tys) t.
Proof.
  intro Hd. induction tys as [|ty r IH]; intro v; [reflexivity|]. cbn [map pattern]. rewrite IH. f_equal. f_equal. f_equal.
  unfold merged. rewrite merge_sorted_covered.
  - symmetry. apply covered_perm. apply sort_ts_perm.
  - eapply wf_perm; [apply sort_ts_perm | apply type_itvs_wf; exact Hd].
  - apply sort_ts_sorted.
Qed.

Theorem model_types_exact tys l lo hi m :
  durs_nonneg l -> m <> 0 ->
  (forall e, In e l -> on_device e = true -> lo <= ts e /\ ts e + dur e <= hi) ->
  pattern_time (sort_time (type_rows 1 tys l)) m =
  cells (fun t => pattern 1 (map (fun ty => type_itvs ty l) tys) t =? m) lo hi.
Proof.
  intros Hd Hm Hb. rewrite type_rows_sets.
  rewrite (type_rows_exact (map (merged l) tys) (sort_time (rows_of_sets 1 (map (merged l) tys))) m lo hi Hm).
  - apply cells_ext. intros t _. rewrite pattern_merged by exact Hd. reflexivity.
  - rewrite Forall_forall. intros s Hs. apply in_map_iff in Hs. destruct Hs as [ty [Hs _]]. subst s. unfold merged.
    assert (Hw : wf_itvs (sort_ts (type_itvs ty l))) by (eapply wf_perm; [apply sort_ts_perm | apply type_itvs_wf; exact Hd]).
    split; [apply merge_sorted_separated; [exact Hw | apply sort_ts_sorted]|].
    apply merge_sorted_bounds; [exact Hw | apply sort_ts_sorted|].
    intros i Hi. pose proof (sort_ts_perm (type_itvs ty l)) as Hp. apply Permutation_sym in Hp.
    apply (Permutation_in _ Hp) in Hi. unfold type_itvs in Hi. apply in_map_iff in Hi. destruct Hi as [e [He Hin]]. subst i.
    apply filter_In in Hin. destruct Hin as [Hin Hf]. apply andb_prop in Hf. destruct Hf as [Hf _]. unfold itv_of. simpl. apply Hb; assumption.
  - apply sort_time_perm.
  - apply sort_time_sorted.
Qed.
