(* C16 property theorems: frequent kernel sequences count exactly the kernels launched under each operator. *)
From Coq Require Import Permutation Sorted.
From HTA.lib Require Import Base.
From HTA.model Require Import C16_Model.
From HTA.proof Require Import C16_Proofs C16_More.
From HTA.proof Require Import Scale C16_Scale.
Open Scope Z_scope.

Theorem C16_counts_and_durations : forall is,
  NoDup (map (fun r => fst (fst (fst r))) (patterns is)) /\
  (forall p, In p (map (fun r => fst (fst (fst r))) (patterns is)) <-> exists i, In i is /\ i_pat i = p) /\
  (forall p c g u, In (p, c, g, u) (patterns is) ->
     c = Z.of_nat (List.length (filter (fun i => list_eqb (i_pat i) p) is)) /\
     g = sumZ (map i_gpu (filter (fun i => list_eqb (i_pat i) p) is)) /\
     u = sumZ (map i_cpu (filter (fun i => list_eqb (i_pat i) p) is)) /\ 0 < c).
Proof. exact counts_and_durations. Qed.
Print Assumptions C16_counts_and_durations.

Theorem C16_pattern_in_start_order : forall l, Sorted.StronglySorted (fun a b => ts a <= ts b) (sort_k l).
Proof. exact pattern_in_start_order. Qed.
Print Assumptions C16_pattern_in_start_order.

Theorem C16_pattern_equality_decided : forall a b, list_eqb a b = true <-> a = b.
Proof. exact list_eqb_eq. Qed.
Print Assumptions C16_pattern_equality_decided.

(* non-vacuity: aten::linear at depth 0 (two kernels a, b under it through aten::mm) twice, and once nested (not counted) *)
Definition f16 : list ev :=
  [ mkEv 0 0 20 1 5 (-1) (-1) (-1) (-1) "aten::linear" "cpu_op";
    mkEv 1 1 10 1 5 (-1) (-1) (-1) (-1) "aten::mm" "cpu_op";
    mkEv 2 2 1 1 5 (-1) 7 6 (-1) "cudaLaunchKernel" "cuda_runtime";
    mkEv 3 4 1 1 5 (-1) 8 7 (-1) "cudaLaunchKernel" "cuda_runtime";
    mkEv 4 12 5 1 5 (-1) (-1) (-1) (-1) "aten::linear" "cpu_op";
    mkEv 5 30 9 1 5 (-1) (-1) (-1) (-1) "aten::linear" "cpu_op";
    mkEv 6 6 2 0 7 7 7 2 (-1) "a" "kernel";
    mkEv 7 9 3 0 7 7 8 3 (-1) "b" "kernel";
    mkEv 8 31 1 1 5 (-1) 9 9 (-1) "cudaLaunchKernel" "cuda_runtime";
    mkEv 9 33 2 0 7 7 9 8 (-1) "a" "kernel" ].
Example C16_nonvacuous : encode_C16 ["a"; "aten::linear"; "b"] f16 "aten::linear" 1 = [[1; 2; 9; 1; 0]; [1; 5; 20; 1; 0; 2]].
Proof. vm_compute. reflexivity. Qed.

(* resolution independence: times multiplied by k > 0 give the same patterns with the same counts, and k times the GPU and CPU
   durations *)
Theorem C16_resolution_independent : forall k l op minlen, 0 < k ->
  patterns (instances (scale_evs k l) op minlen) = map (spat k) (patterns (instances l op minlen)).
Proof. exact C16_scale. Qed.
Print Assumptions C16_resolution_independent.

(* which instances are considered: exactly the rows whose name matches, at the shallowest depth at which the name occurs, that launch
   at least minlen device activities -- in trace order, each turned into the instance of its own subtree (inst_of) *)
Theorem C16_instances_exact : forall l op minlen,
  exists sel, instances l op minlen = map (inst_of l) sel /\
    (forall e, In e sel <->
       In e (cands l op) /\ (forall c, In c (cands l op) -> depth16 l e <= depth16 l c) /\ minlen <= nk16 l e) /\
    (exists keep, sel = filter keep (cands l op)).
Proof. exact instances_exact. Qed.
Print Assumptions C16_instances_exact.

(* the pattern of an instance lists every device activity beneath it exactly once (a rearrangement, by start time) *)
Theorem C16_pattern_is_rearrangement : forall l, Permutation.Permutation (sort_k l) l.
Proof. exact sort_k_perm. Qed.
Print Assumptions C16_pattern_is_rearrangement.

(* conservation over the whole table: every instance is counted in exactly one row, so the counts add up to the number of instances
   and the two duration columns to the instances' totals *)
Theorem C16_table_conserves : forall is,
  sumZ (map (fun r => snd (fst (fst r))) (patterns is)) = Z.of_nat (List.length is) /\
  sumZ (map (fun r => snd (fst r)) (patterns is)) = sumZ (map i_gpu is) /\
  sumZ (map (fun r => snd r) (patterns is)) = sumZ (map i_cpu is).
Proof. exact table_conserves. Qed.
Print Assumptions C16_table_conserves.
