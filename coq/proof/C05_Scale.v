(* C05: resolution independence of the kernel-type table (every combination's time is multiplied by k) *)
From HTA.lib Require Import Base Cells Intervals Sweep.
From HTA.model Require Import C04_Model C07_Model C05_Model.
From HTA.proof Require Import Scale C04_Scale C07_Scale.
Open Scope Z_scope.

Lemma type_itvs_scale k ty l : type_itvs ty (scale_evs k l) = sitvs k (type_itvs ty l).
Proof. unfold type_itvs. apply itvs_scale. reflexivity. Qed.

Lemma type_rows_scale k v tys l : 0 < k -> type_rows v tys (scale_evs k l) = map (srow k) (type_rows v tys l).
Proof.
  intro Hk. revert v. induction tys as [|ty r IH]; intro v; cbn [type_rows map]; [reflexivity|].
  rewrite type_itvs_scale, sort_ts_scale, merge_sorted_scale, rows_of_scale by exact Hk.
  rewrite map_app, IH. reflexivity.
Qed.

Theorem C05_types_scale k mem l : 0 < k -> model_types mem (scale_evs k l) = map (Z.mul k) (model_types mem l).
Proof.
  intro Hk. unfold model_types. rewrite type_rows_scale, sort_time_scale by exact Hk.
  rewrite map_map. apply map_ext. intro m. unfold pattern_time. apply sweep_scale.
Qed.
