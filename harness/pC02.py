"""C02: correlation links pair each launch call with its device activity, mutually."""
import random
import tracegen
import framework as fw
import loader_common as lc
import translate

ID = "C02"
COQ_IMPORTS = lc.COQ_IMPORTS
SOURCES = lc.SOURCES
TRANSLATE = [translate.gen_link_rules]
N_CASES = {"quick": 300, "thorough": 5000}
RULE = ("generated well-formed file sets (1-3 ranks): launches without kernel, kernels without launch (with and without a correlation id), runtime calls that "
        "carry an id but launch nothing, synchronisation calls with a 'Context Sync' (stream -1) or 'Stream Sync' event sharing their id, shuffled file order; "
        "index_correlation of every row compared after parse_traces() and after load_traces(); the verified specification (mutual / sentinel / never wrong) is "
        "also evaluated directly on the implementation's column; non-trivial = at least one linked pair and one sentinel 0; distinct = hash of the file set")
ASSUMPTIONS = ["wf_corr: an event has at most one opposite-side event with its correlation id (the quantifier's uniqueness clause); ids duplicated on one side "
               "are outside the quantifier and not generated"]


def gen_cases(seed, tier, n):
    out = []
    profs = ["loader_mix", "steps_mix", "fifo_steps", "steps_mix", "fifo_tiny", "loader_mix", "steps_mix", "fifo_steps", "steps_mix", "fifo_tiny", "loader_pad"]
    for i in range(n):
        if i % 9 == 8:
            # clock skew: device activities stamped up to 3 units BEFORE their launch call (the pairing is by id alone)
            from dataclasses import replace as _replace
            c = tracegen.gen_case(seed, i, _replace(tracegen.PROFILES["fifo_steps"], name="fifo_steps+skew", kernel_causal=False, p_same_ts_as_launch=0.6))
        else:
            c = tracegen.gen_case(seed, i, tracegen.PROFILES[profs[i % len(profs)]])
        rng = random.Random(seed * 7919 + i)
        c["params"] = {"include_last": rng.random() < 0.5}
        if i % 7 == 3:
            tracegen.make_superset_rank(c, rng, fresh_ids=True)     # a later rank whose vocabulary is the union of all ranks' 
        if i % 6 == 4:
            tracegen.add_idless_sync_record(c, rng)
        if i % 7 == 5:
            tracegen.big_correlation_ids(c, rng)        # ids around 2**31 / 2**32, and two ids that differ by exactly 2**32
        if i % 11 == 7:
            _sub_microsecond(c, rng)
        out.append(c)
    return out


def _sub_microsecond(case, rng):
    """fractional time stamps (ns resolution, rounded inward by the loader: C01_round_inward); some device activities begin and end
    inside one microsecond, so their rounded length is -1; linking and trimming must treat them like any other row"""
    if case.get("epoch", 0) > 10 ** 12:
        for rk in case["ranks"].values():
            for e in rk["events"]:
                if "ts" in e:
                    e["ts"] -= case["epoch"]
        case["epoch"] = 0
    fr = [0.0, 0.25, 0.5, 0.125, 0.75]
    for rk in case["ranks"].values():
        for e in rk["events"]:
            if isinstance(e.get("ts"), int):
                e["ts"] = e["ts"] + rng.choice(fr)
            if isinstance(e.get("dur"), int):
                if isinstance((e.get("args") or {}).get("stream"), int) and rng.random() < 0.3:
                    e["ts"] = float(int(e["ts"])) + 0.25
                    e["dur"] = rng.choice([0.125, 0.25, 0.375])          # [t.25, t.625] at most: ceil(start) = t + 1 > floor(end) = t
                else:
                    e["dur"] = e["dur"] + rng.choice(fr)
    case["fractional"] = True


def _rounded(case):
    """the case as the loader's rounding leaves it (start up, end down; the end is the double sum ts + dur, as in the code)"""
    import copy
    import math
    c = copy.deepcopy(case)
    for rk in c["ranks"].values():
        for e in rk["events"]:
            if "ts" in e and "dur" in e:
                t, en = math.ceil(e["ts"]), math.floor(float(e["ts"]) + float(e["dur"]))
                e["ts"], e["dur"] = t, en - t
            elif "ts" in e:
                e["ts"] = math.ceil(e["ts"])
    return c


def run_impl(case, d):
    return {"out": lc.run_loader(case, d)}


def coq_term(case, impl):
    return lc.coq_term(_rounded(case) if case.get("fractional") else case)


def _is_dev(r):
    return (r["stream"] >= 0 and r["corr"] >= 0) or r["name"] in ("Event Sync", "Context Sync")


def spec_check(rows, loaded=False):
    """The property itself, evaluated on the implementation's frame (C02_link_mutual / sentinel / never wrong)."""
    bad = []
    by_idx = {r["idx"]: r for r in rows}
    for e in rows:
        partners = [p for p in rows if p["corr"] == e["corr"] and e["corr"] != -1 and _is_dev(p) != _is_dev(e)]
        ic = e["icorr"]
        if len(partners) == 1:
            if ic != partners[0]["idx"]:
                bad.append(f"idx {e['idx']}: link {ic} but the unique opposite-side event with correlation {e['corr']} is {partners[0]['idx']}")
        elif not partners and not loaded:
            want = -1 if e["corr"] == -1 else 0
            if e["corr"] >= -1 and ic != want:
                bad.append(f"idx {e['idx']}: no counterpart, correlation {e['corr']}: link {ic}, expected sentinel {want}")
        if ic > 0:
            p = by_idx.get(ic)
            if p is None:
                bad.append(f"idx {e['idx']}: linked to {ic}, which is not a row of the frame")
            elif p["corr"] != e["corr"] or _is_dev(p) == _is_dev(e):
                bad.append(f"idx {e['idx']}: linked to {ic} which has another id or is on the same side")
            elif p["icorr"] != e["idx"]:
                bad.append(f"idx {e['idx']}: linked to {ic} but {ic} is linked to {p['icorr']} (not mutual)")
    return bad


def compare(case, impl, model):
    o = impl["out"]
    if "parse_error" in o:
        return ["parse_traces raised " + o["parse_error"]]
    if "load_error" in o:
        return ["load_traces raised " + o["load_error"]]
    m_parse, m_align, (c, m_load) = model
    disc = []
    ranks = sorted(case["ranks"].keys())
    for j, r in enumerate(ranks):
        for stage, rows, mrows in (("parse", o["parse"][r], m_parse[j]), ("load", o["load"][r], m_align[j])):
            mi = {x[0]: x[7] for x in mrows}
            for row in rows:
                if mi.get(row["idx"]) != row["icorr"]:
                    disc.append(f"rank {r} {stage}: idx {row['idx']} index_correlation impl={row['icorr']} model={mi.get(row['idx'])}")
                    break
        disc += [f"rank {r} parse: " + b for b in spec_check(o["parse"][r])[:2]]
        # the loaded (trimmed) frame must still satisfy the property: no link may dangle or lose its mutual partner
        disc += [f"rank {r} load(include_last={case['params']['include_last']}): " + b for b in spec_check(o["load"][r], loaded=True)[:2]]
    return disc[:8]


def nontrivial(case, impl):
    o = impl["out"]
    if "parse" not in o:
        return False
    vals = [row["icorr"] for rows in o["parse"].values() for row in rows]
    return any(v > 0 for v in vals) and any(v == 0 for v in vals)


def classify(case, impl, model, disc):
    return None


LEVEL_TEXT = ("Proof: C02_link_mutual (unique opposite-side event with the same id => mutual link), C02_link_sentinel (-1 without id, 0 without counterpart), "
              "C02_never_other_id_or_same_side (no hypothesis: a positive link always names an opposite-side event with the same id), C02_trichotomy; "
              "for every frame. Correspondence on index_correlation of every row after parse_traces() and load_traces(); the specification is also "
              "evaluated directly on the implementation's column."
              " C02_rules_follow_source / C02_alignment_follows_source: fallback value, id test and alignment shift are regenerated from transform_correlation_to_index and Trace._align_all_ranks on every run.")
LEVEL_NOTE = ("Hand model of transform_correlation_to_index and of the host/device side rule of trace_filter (incl. 'Event Sync'/'Context Sync' by name). "
              "Ill-formed traces (an id twice on one side: pandas last-write-wins) are outside the quantifier.")
TECHNIQUE = "Coq proof over a Gallina model of the correlation linking (find-based, uniqueness hypothesis) + differential correspondence via vm_compute"
