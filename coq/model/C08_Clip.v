(* C08: hta/analyzers/critical_path_analysis.py CriticalPathAnalysis.critical_path_analysis: the analysed window and the events
   kept for the graph ("clipped" frame).  Host rows: those that start within the window and last; device rows: those whose
   launching / synchronising host row is kept (joined through index_correlation), plus 'Stream Wait Event' records. *)
From HTA.lib Require Import Base.
Open Scope list_scope.
Open Scope Z_scope.

(* the window: whole trace, or the hull of the selected instances of the annotation (rows whose name contains it, in row order) *)
Definition slice {A} (i j : nat) (l : list A) : list A := firstn (S j - i) (skipn i l).
Definition window (ann : string) (i j : nat) (l : list ev) : Z * Z :=
  if String.eqb ann "" then (minZ 0 (map ts l), maxZ 0 (map eend l))
  else let sel := slice i j (filter (fun e => contains ann (name e)) l) in (minZ 0 (map ts sel), maxZ 0 (map eend sel)).

Definition in_window (lo hi : Z) (e : ev) : bool := (lo <=? ts e) && (ts e <=? hi) && (0 <? dur e).
Definition host_part (lo hi : Z) (l : list ev) : list ev := filter (fun e => (stream e =? -1) && in_window lo hi e) l.
(* the host row a device row is joined with: the one whose index_correlation is the device row's id *)
Definition partner (l : list ev) (d : ev) : option ev := find (fun h => (stream h =? -1) && (icorr h =? idx d)) l.
Definition dev_kept (lo hi : Z) (l : list ev) (d : ev) : bool :=
  negb (stream d =? -1) &&
  (match partner l d with Some h => in_window lo hi h | None => false end || String.eqb (name d) "Stream Wait Event").
Definition dev_part (lo hi : Z) (l : list ev) : list ev := filter (dev_kept lo hi l) l.

Definition clip (lo hi : Z) (l : list ev) : list ev := filter (fun e => ((stream e =? -1) && in_window lo hi e) || dev_kept lo hi l e) l.
Definition encode_clip (ann : string) (i j : nat) (l : list ev) : Z * Z * list Z :=
  let '(lo, hi) := window ann i j l in (lo, hi, map idx (clip lo hi l)).
