(* C20: files the tool writes keep every source event.
   hta/trace_analysis.py generate_trace_with_counters, hta/analyzers/critical_path_analysis.py overlay_critical_path_analysis,
   hta/common/trace.py get_raw_trace_for_one_rank / write_raw_trace / flow_event,
   hta/common/trace_file.py read_trace / write_trace / update_trace_rank / create_rank_to_trace_dict.
   A raw event is a token (everything the tool never looks at, interned by the harness) plus the few fields the overlay reads. *)
From HTA.lib Require Import Base.
From HTA.model Require Import C08_Model.
Open Scope Z_scope.

Record rawev := mkW { w_tok : Z; w_pid : Z; w_tid : Z; w_ts : Z; w_dur : Z;
                      w_dev : bool;     (* args.device >= 0 *)
                      w_phx : bool;     (* ph = "X" *)
                      w_annot : bool;   (* cat is user_annotation or python_function *)
                      w_crit : bool     (* args.critical = 1 *) }.

Definition set_crit (e : rawev) : rawev :=
  mkW (w_tok e) (w_pid e) (w_tid e) (w_ts e) (w_dur e) (w_dev e) (w_phx e) (w_annot e) true.
Definition clear_crit (e : rawev) : rawev :=
  mkW (w_tok e) (w_pid e) (w_tid e) (w_ts e) (w_dur e) (w_dev e) (w_phx e) (w_annot e) false.

(* ---------- (1) the trace with counters ---------- *)
Definition with_counters {A : Type} (src ctr : list A) : list A := src ++ ctr.

(* ---------- (2) the overlay ---------- *)
Record flow := mkF { f_start : bool; f_id : Z; f_pid : Z; f_tid : Z; f_ts : Z; f_cat : Z; f_w : Z; f_crit : bool }.
Inductive item := ISrc (e : rawev) | IFlow (f : flow).

Definition mark (crit : list Z) (i : Z) (e : rawev) : rawev := if memZ i crit then set_crit e else e.
Fixpoint mark_all (crit : list Z) (i : Z) (l : list rawev) : list rawev :=
  match l with [] => [] | e :: r => mark crit i e :: mark_all crit (i + 1) r end.

Definition nthZ (l : list rawev) (i : Z) : option rawev := if i <? 0 then None else nth_error l (Z.to_nat i).

(* the time stamp of a flow event: the start of the event, or its end (pulled in by one unit on the device, "helps with showing the arrows") *)
Definition flow_ts (n : cpnode) (e : rawev) : Z :=
  if c_start n then w_ts e else w_ts e + w_dur e - (if w_dev e then Z.min 1 (w_dur e) else 0).

Definition edge_eqb (a b : cpedge) : bool := (g_u a =? g_u b) && (g_v a =? g_v b) && (g_w a =? g_w b) && (g_ty a =? g_ty b).
Definition on_cp (cp : list cpedge) (e : cpedge) : bool := existsb (edge_eqb e) cp.

(* the two raw events an edge joins (get_events_for_edge + raw_events[...]) *)
Definition edge_events (src : list rawev) (N : list cpnode) (e : cpedge) : option (cpnode * rawev * cpnode * rawev) :=
  match find_node N (g_u e), find_node N (g_v e) with
  | Some nu, Some nv =>
      match nthZ src (c_ev nu), nthZ src (c_ev nv) with
      | Some eu, Some ev_ => Some (nu, eu, nv, ev_)
      | _, _ => None
      end
  | _, _ => None
  end.
Definition edge_wf (src : list rawev) (N : list cpnode) (e : cpedge) : bool :=
  match edge_events src N e with Some _ => true | None => false end.

Definition flow_pair (src : list rawev) (N : list cpnode) (cp : list cpedge) (id : Z) (e : cpedge) : list flow :=
  match edge_events src N e with
  | Some (nu, eu, nv, ev_) =>
      [ mkF true id (w_pid eu) (w_tid eu) (flow_ts nu eu) (g_ty e) (g_w e) (on_cp cp e);
        mkF false id (w_pid ev_) (w_tid ev_) (flow_ts nv ev_) (g_ty e) (g_w e) (on_cp cp e) ]
  | None => []
  end.
Fixpoint flows_from (src : list rawev) (N : list cpnode) (cp : list cpedge) (id : Z) (drawn : list cpedge) : list flow :=
  match drawn with [] => [] | e :: r => flow_pair src N cp id e ++ flows_from src N cp (id + 1) r end.

(* which edges are drawn.  only_crit forces show_all off; zero-weight launch edges are hidden unless the environment asks for them *)
Definition zero_launch (e : cpedge) : bool := (g_ty e =? 2) && (g_w e =? 0).
Definition drawn_edges (only_crit show_all zw_show : bool) (cp all : list cpedge) : list cpedge :=
  if show_all && negb only_crit then filter (fun e => zw_show || negb (zero_launch e)) all else cp.

Definition keep_when_only_critical (e : rawev) : bool := negb (w_phx e) || w_annot e || w_crit e.

Definition overlay (only_crit show_all zw_show : bool) (src : list rawev) (crit : list Z) (N : list cpnode) (cp all : list cpedge) : list item :=
  let marked := mark_all crit 0 src in
  let kept := if only_crit then filter keep_when_only_critical marked else marked in
  map ISrc kept ++ map IFlow (flows_from src N cp 0 (drawn_edges only_crit show_all zw_show cp all)).

(* ---------- (3) writer / reader / rank update ---------- *)
(* a document: top-level keys in file order with value tokens; the distributedInfo value is kept as its own key list;
   traceEvents is the event token list *)
Inductive jval := JTok (t : Z) | JInfo (fields : list (string * Z)).
Record doc := mkDoc { d_keys : list (string * jval); d_events : list Z }.

Fixpoint set_field (k : string) (v : Z) (l : list (string * Z)) : list (string * Z) :=
  match l with
  | [] => [(k, v)]
  | (a, b) :: r => if String.eqb a k then (a, v) :: r else (a, b) :: set_field k v r
  end.
Fixpoint has_key (k : string) (l : list (string * jval)) : bool :=
  match l with [] => false | (a, _) :: r => String.eqb a k || has_key k r end.
Fixpoint upd_info (rank : Z) (l : list (string * jval)) : list (string * jval) :=
  match l with
  | [] => []
  | (a, v) :: r =>
      if String.eqb a "distributedInfo" then
        (a, match v with JInfo f => JInfo (set_field "rank" rank f) | JTok _ => v end) :: r
      else (a, v) :: upd_info rank r
  end.
Definition update_rank (d : doc) (rank : Z) : doc :=
  if has_key "distributedInfo" (d_keys d) then mkDoc (upd_info rank (d_keys d)) (d_events d)
  else mkDoc (d_keys d ++ [("distributedInfo", JInfo [("rank", rank)])]) (d_events d).

Fixpoint get_info (l : list (string * jval)) : option (list (string * Z)) :=
  match l with
  | [] => None
  | (a, v) :: r => if String.eqb a "distributedInfo" then match v with JInfo f => Some f | JTok _ => None end else get_info r
  end.
Fixpoint get_field (k : string) (l : list (string * Z)) : option Z :=
  match l with [] => None | (a, b) :: r => if String.eqb a k then Some b else get_field k r end.
Definition doc_rank (d : doc) : option Z := match get_info (d_keys d) with Some f => get_field "rank" f | None => None end.

(* ---------- (4) rank discovery ---------- *)
(* a file is seen as its path token and the values of the  "rank": <digits>  occurrences in text order;
   the first occurrence decides, a file without any counts as rank 0; a later file with the same rank replaces an earlier one *)
Definition file_rank (mentions : list Z) : Z := match mentions with [] => 0 | r :: _ => r end.
Fixpoint put (k v : Z) (m : list (Z * Z)) : list (Z * Z) :=
  match m with [] => [(k, v)] | (a, b) :: r => if a =? k then (a, v) :: r else (a, b) :: put k v r end.
Definition discover (files : list (Z * list Z)) : list (Z * Z) :=
  fold_left (fun m f => put (file_rank (snd f)) (fst f) m) files [].

(* ---------- what the harness evaluates ---------- *)
Definition enc_item (x : item) : list Z :=
  match x with
  | ISrc e => [0; w_tok e; b2z (w_crit e)]
  | IFlow f => [1; b2z (f_start f); f_id f; f_pid f; f_tid f; f_ts f; f_cat f; f_w f; b2z (f_crit f)]
  end.
Definition encode_overlay (only_crit show_all zw_show : bool) (src : list rawev) (crit : list Z) (N : list cpnode) (cp all : list cpedge)
  : bool * list (list Z) :=
  (forallb (edge_wf src N) (drawn_edges only_crit show_all zw_show cp all), map enc_item (overlay only_crit show_all zw_show src crit N cp all)).

Definition enc_jval (v : jval) : list (string * Z) := match v with JTok t => [("", t)] | JInfo f => f end.
Definition encode_doc (d : doc) : list (string * list (string * Z)) * list Z := (map (fun kv => (fst kv, enc_jval (snd kv))) (d_keys d), d_events d).
