From Coq Require Import Permutation Sorted.
From HTA.lib Require Import Base Cells Intervals.
From HTA.model Require Import C04_Model.

Definition is_min_start (lo : Z) (D : list itv) : Prop :=
  (exists i, In i D /\ fst i = lo) /\ forall i, In i D -> lo <= fst i.
Definition is_max_end (hi : Z) (D : list itv) : Prop :=
  (exists i, In i D /\ snd i = hi) /\ forall i, In i D -> snd i <= hi.

Lemma max_end_attained d l : max_end d l = d \/ exists i, In i l /\ snd i = max_end d l.
Proof.
  revert d. induction l as [|i r IH]; intro d; simpl; [left; reflexivity|].
  destruct (IH (Z.max d (snd i))) as [H|[j [Hj H]]].
  - destruct (Z.max_spec d (snd i)) as [[_ Hm]|[_ Hm]].
    + right. exists i. split; [left; reflexivity | lia].
    + left. lia.
  - right. exists j. split; [right; exact Hj | exact H].
Qed.

Lemma sorted_bounds s e r :
  sorted_ts ((s, e) :: r) ->
  is_min_start s ((s, e) :: r) /\ is_max_end (max_end e r) ((s, e) :: r).
Proof.
  intro Hs. split; split.
  - exists (s, e). split; [left; reflexivity | reflexivity].
  - intros i Hi. apply (sorted_head_min (s, e) r Hs i Hi).
  - destruct (max_end_attained e r) as [H|[j [Hj H]]].
    + exists (s, e). split; [left; reflexivity | simpl; symmetry; exact H].
    + exists j. split; [right; exact Hj | exact H].
  - intros i [Hi|Hi].
    + subst i. simpl. apply max_end_ge.
    + pose proof (max_end_all e r) as Ha. rewrite Forall_forall in Ha. apply Ha. exact Hi.
Qed.

Lemma is_min_start_perm lo D D' : Permutation D D' -> is_min_start lo D' -> is_min_start lo D.
Proof.
  intros Hp [[i [Hi He]] Hl]. apply Permutation_sym in Hp. split.
  - exists i. split; [eapply Permutation_in; eassumption | exact He].
  - intros j Hj. apply Hl. apply Permutation_sym in Hp. eapply Permutation_in; eassumption.
Qed.

Lemma is_max_end_perm hi D D' : Permutation D D' -> is_max_end hi D' -> is_max_end hi D.
Proof.
  intros Hp [[i [Hi He]] Hl]. apply Permutation_sym in Hp. split.
  - exists i. split; [eapply Permutation_in; eassumption | exact He].
  - intros j Hj. apply Hl. apply Permutation_sym in Hp. eapply Permutation_in; eassumption.
Qed.

Lemma covered_incl C D t : incl C D -> covered C t = true -> covered D t = true.
Proof.
  intros Hi Hc. apply covered_true_iff in Hc. destruct Hc as [i [Hin Ht]].
  apply covered_true_iff. exists i. split; [apply Hi; exact Hin | exact Ht].
Qed.

Lemma total_merge_any C C' lo hi :
  wf_itvs C -> Permutation C C' -> sorted_ts C' ->
  (forall i, In i C -> lo <= fst i /\ snd i <= hi) ->
  total (merge_sorted C') = cells (covered C) lo hi.
Proof.
  intros Hw Hp Hs Hb. destruct C' as [|c r].
  - apply Permutation_sym, Permutation_nil in Hp. subst C. simpl.
    symmetry. apply cells_false. intros t _. reflexivity.
  - rewrite (merge_sorted_measure (c :: r) lo hi).
    + apply cells_ext. intros t _. symmetry. apply covered_perm. exact Hp.
    + eapply wf_perm; eassumption.
    + exact Hs.
    + discriminate.
    + intros i Hi. apply Hb. apply Permutation_sym in Hp. eapply Permutation_in; eassumption.
Qed.

Theorem parts_exact (D C D' C' : list itv) :
  wf_itvs D -> D <> [] -> incl C D ->
  Permutation D D' -> sorted_ts D' -> Permutation C C' -> sorted_ts C' ->
  let '(idle, comp, noncomp, kt) := breakdown D' C' in
  exists lo hi, is_min_start lo D /\ is_max_end hi D /\ lo <= hi /\
    kt = hi - lo /\
    idle = cells (fun t => negb (covered D t)) lo hi /\
    comp = cells (covered C) lo hi /\
    noncomp = cells (fun t => covered D t && negb (covered C t)) lo hi /\
    0 <= idle /\ 0 <= comp /\ 0 <= noncomp /\ idle + comp + noncomp = kt.
Proof.
  intros Hw Hne Hinc HpD HsD HpC HsC. unfold breakdown.
  destruct D' as [|[s e] r].
  { apply Permutation_sym, Permutation_nil in HpD. congruence. }
  assert (HwD' : wf_itvs ((s, e) :: r)) by (eapply wf_perm; eassumption).
  destruct (merge_sorted_span s e r HwD' HsD) as [Hf Hl]. rewrite Hf, Hl.
  destruct (sorted_bounds s e r HsD) as [Hmin Hmax].
  remember (max_end e r) as hi eqn:Ehi.
  assert (HminD : is_min_start s D) by (eapply is_min_start_perm; eassumption).
  assert (HmaxD : is_max_end hi D) by (eapply is_max_end_perm; eassumption).
  assert (Hbounds : forall i, In i D -> s <= fst i /\ snd i <= hi).
  { intros i Hi. split; [apply HminD | apply HmaxD]; exact Hi. }
  assert (Hlohi : s <= hi).
  { inversion HwD' as [|? ? Hse _]; subst. simpl in Hse. pose proof (max_end_ge e r). lia. }
  assert (HtD : total (merge_sorted ((s, e) :: r)) = cells (covered D) s hi).
  { apply total_merge_any; auto. }
  assert (HwC : wf_itvs C).
  { unfold wf_itvs in *. rewrite Forall_forall in *. intros i Hi. apply Hw. apply Hinc. exact Hi. }
  assert (HtC : total (merge_sorted C') = cells (covered C) s hi).
  { apply total_merge_any; auto. }
  rewrite HtD, HtC.
  assert (Hsplit : cells (covered D) s hi =
                   cells (covered C) s hi + cells (fun t => covered D t && negb (covered C t)) s hi).
  { apply cells_add. intros t _. destruct (covered C t) eqn:EC.
    - rewrite (covered_incl C D t Hinc EC). reflexivity.
    - destruct (covered D t); reflexivity. }
  assert (Hcompl := cells_compl (covered D) s hi Hlohi).
  pose proof (cells_bounds (covered C) s hi).
  pose proof (cells_bounds (fun t => covered D t && negb (covered C t)) s hi).
  pose proof (cells_bounds (fun t => negb (covered D t)) s hi).
  exists s, hi. repeat split; try assumption; try lia.
  - apply HminD.
  - apply HminD.
  - apply HmaxD.
  - apply HmaxD.
Qed.

(* ---- the frame-level statement ---- *)
Definition durs_nonneg (l : list ev) : Prop := forall e, In e l -> 0 <= dur e.

Lemma dev_itvs_wf l : durs_nonneg l -> wf_itvs (dev_itvs l).
Proof.
  intro H. unfold wf_itvs, dev_itvs. rewrite Forall_forall. intros i Hi.
  apply in_map_iff in Hi. destruct Hi as [e [He Hin]]. apply filter_In in Hin. destruct Hin as [Hin _].
  subst i. unfold itv_of; simpl. specialize (H e Hin). lia.
Qed.

Lemma comp_incl_dev l : incl (comp_itvs l) (dev_itvs l).
Proof.
  intros i Hi. unfold comp_itvs, dev_itvs in *. apply in_map_iff in Hi. destruct Hi as [e [He Hin]].
  apply filter_In in Hin. destruct Hin as [Hin Hb]. apply andb_true_iff in Hb. destruct Hb as [Hd _].
  apply in_map_iff. exists e. split; [exact He|]. apply filter_In. split; assumption.
Qed.

Theorem model_parts_exact (l : list ev) :
  durs_nonneg l -> dev_itvs l <> [] ->
  forall D' C', Permutation (dev_itvs l) D' -> sorted_ts D' -> Permutation (comp_itvs l) C' -> sorted_ts C' ->
  let '(idle, comp, noncomp, kt) := breakdown D' C' in
  exists lo hi, is_min_start lo (dev_itvs l) /\ is_max_end hi (dev_itvs l) /\ lo <= hi /\
    kt = hi - lo /\
    idle = cells (fun t => negb (covered (dev_itvs l) t)) lo hi /\
    comp = cells (covered (comp_itvs l)) lo hi /\
    noncomp = cells (fun t => covered (dev_itvs l) t && negb (covered (comp_itvs l) t)) lo hi /\
    0 <= idle /\ 0 <= comp /\ 0 <= noncomp /\ idle + comp + noncomp = kt.
Proof.
  intros Hd Hne D' C' HpD HsD HpC HsC.
  apply parts_exact; auto using dev_itvs_wf, comp_incl_dev.
Qed.

(* the executable model is one of those permutations *)
Theorem model_is_instance l : model_C04 l = breakdown (sort_ts (dev_itvs l)) (sort_ts (comp_itvs l)) /\
  Permutation (dev_itvs l) (sort_ts (dev_itvs l)) /\ sorted_ts (sort_ts (dev_itvs l)) /\
  Permutation (comp_itvs l) (sort_ts (comp_itvs l)) /\ sorted_ts (sort_ts (comp_itvs l)).
Proof. repeat split; auto using sort_ts_perm, sort_ts_sorted. Qed.

(* the three asserts of idle_time_per_rank can never fire *)
Theorem asserts_hold (l : list ev) :
  durs_nonneg l -> dev_itvs l <> [] ->
  forall D' C', Permutation (dev_itvs l) D' -> sorted_ts D' -> Permutation (comp_itvs l) C' -> sorted_ts C' ->
  let '(idle, comp, noncomp, kt) := breakdown D' C' in idle <= kt /\ comp <= kt /\ 0 <= noncomp.
Proof.
  intros Hd Hne D' C' HpD HsD HpC HsC.
  pose proof (model_parts_exact l Hd Hne D' C' HpD HsD HpC HsC) as H.
  destruct (breakdown D' C') as [[[idle comp] noncomp] kt].
  destruct H as [lo [hi H]]. lia.
Qed.
