(* C15: cuda_kernel_launch_stats (hta/analyzers/cuda_kernel_analysis.py:365-465), hand model. *)
From HTA.lib Require Import Base.

Definition kernel_launch_names : list string :=
  ["cudaLaunchKernel"; "cudaLaunchKernelExC"; "runFunction - job_prep_and_submit_for_execution"].
Definition memory_launch_names : list string := ["cudaMemsetAsync"; "cudaMemcpyAsync"].

Definition is_launch_name (mem : bool) (n : string) : bool :=
  str_in n kernel_launch_names || (mem && str_in n memory_launch_names).

Definition memZ (x : Z) (l : list Z) : bool := existsb (Z.eqb x) l.

(* merged_series: correlations of the launch-named rows (any stream) *)
Definition launch_corrs (mem : bool) (l : list ev) : list Z :=
  map corr (filter (fun e => is_launch_name mem (name e)) l).

Definition cpu_sel (mem : bool) (l : list ev) : list ev :=
  filter (fun e => (stream e =? -1) && memZ (corr e) (launch_corrs mem l)) l.
Definition gpu_sel (mem : bool) (l : list ev) : list ev :=
  filter (fun e => negb (stream e =? -1) && memZ (corr e) (launch_corrs mem l)) l.

(* pd.merge(cpu, gpu, how="inner", on="correlation") *)
Definition pairs (mem : bool) (l : list ev) : list (ev * ev) :=
  flat_map (fun r => map (fun k => (r, k)) (filter (fun k => corr k =? corr r) (gpu_sel mem l)))
           (cpu_sel mem l).

Definition row (p : ev * ev) : list Z :=
  let (r, k) := p in [corr r; dur r; dur k; Z.max 0 (ts k - ts r - dur r)].

Definition model_C15 (mem : bool) (l : list ev) : list (list Z) := map row (pairs mem l).

Definition encode_C15 (mem : bool) (l : list ev) : list (list Z) := sort_rows (model_C15 mem l).
