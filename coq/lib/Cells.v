(* Discrete time measure: number of unit cells [t, t+1), lo <= t < hi, on which P holds.
   Timestamps are integers, so "the time during which P holds" is exactly this count. *)
From Coq Require Import ZArith List Bool Lia.
From HTA.lib Require Import Base.
Open Scope Z_scope.

Fixpoint cells_n (P : Z -> bool) (lo : Z) (n : nat) : Z :=
  match n with
  | O => 0
  | S n' => b2z (P lo) + cells_n P (lo + 1) n'
  end.

Definition cells (P : Z -> bool) (lo hi : Z) : Z := cells_n P lo (Z.to_nat (hi - lo)).

Lemma cells_n_ext P Q lo n :
  (forall t, lo <= t < lo + Z.of_nat n -> P t = Q t) -> cells_n P lo n = cells_n Q lo n.
Proof.
  revert lo. induction n as [|n IH]; intros lo H; simpl; [reflexivity|].
  rewrite (H lo) by lia. f_equal. apply IH. intros t Ht. apply H. lia.
Qed.

Lemma cells_n_app P lo n m :
  cells_n P lo (n + m) = cells_n P lo n + cells_n P (lo + Z.of_nat n) m.
Proof.
  revert lo. induction n as [|n IH]; intro lo; simpl plus; cbn [cells_n].
  - replace (lo + Z.of_nat 0) with lo by lia. lia.
  - rewrite IH. replace (lo + 1 + Z.of_nat n) with (lo + Z.of_nat (S n)) by lia. lia.
Qed.

Lemma cells_n_bounds P lo n : 0 <= cells_n P lo n <= Z.of_nat n.
Proof.
  revert lo. induction n as [|n IH]; intro lo; cbn [cells_n]; [lia|].
  specialize (IH (lo + 1)). unfold b2z. destruct (P lo); lia.
Qed.

Lemma cells_n_true P lo n :
  (forall t, lo <= t < lo + Z.of_nat n -> P t = true) -> cells_n P lo n = Z.of_nat n.
Proof.
  revert lo. induction n as [|n IH]; intros lo H; cbn [cells_n]; [reflexivity|].
  rewrite (H lo) by lia. rewrite IH; [unfold b2z; lia|]. intros t Ht. apply H. lia.
Qed.

Lemma cells_n_false P lo n :
  (forall t, lo <= t < lo + Z.of_nat n -> P t = false) -> cells_n P lo n = 0.
Proof.
  revert lo. induction n as [|n IH]; intros lo H; cbn [cells_n]; [reflexivity|].
  rewrite (H lo) by lia. rewrite IH; [unfold b2z; lia|]. intros t Ht. apply H. lia.
Qed.

Lemma cells_ext P Q lo hi :
  (forall t, lo <= t < hi -> P t = Q t) -> cells P lo hi = cells Q lo hi.
Proof. intro H. unfold cells. apply cells_n_ext. intros t Ht. apply H. lia. Qed.

Lemma cells_split P lo mid hi :
  lo <= mid <= hi -> cells P lo hi = cells P lo mid + cells P mid hi.
Proof.
  intro H. unfold cells.
  replace (Z.to_nat (hi - lo)) with (Z.to_nat (mid - lo) + Z.to_nat (hi - mid))%nat by lia.
  rewrite cells_n_app. f_equal. f_equal. lia.
Qed.

Lemma cells_empty P lo hi : hi <= lo -> cells P lo hi = 0.
Proof. intro H. unfold cells. replace (Z.to_nat (hi - lo)) with O by lia. reflexivity. Qed.

Lemma cells_true P lo hi :
  lo <= hi -> (forall t, lo <= t < hi -> P t = true) -> cells P lo hi = hi - lo.
Proof.
  intros Hle H. unfold cells. rewrite cells_n_true; [lia|]. intros t Ht. apply H. lia.
Qed.

Lemma cells_false P lo hi : (forall t, lo <= t < hi -> P t = false) -> cells P lo hi = 0.
Proof.
  intro H. unfold cells. apply cells_n_false. intros t Ht. apply H. lia.
Qed.

Lemma cells_bounds P lo hi : 0 <= cells P lo hi <= Z.max 0 (hi - lo).
Proof. unfold cells. pose proof (cells_n_bounds P lo (Z.to_nat (hi - lo))). lia. Qed.

Lemma cells_const (c : bool) P lo hi :
  lo <= hi -> (forall t, lo <= t < hi -> P t = c) -> cells P lo hi = if c then hi - lo else 0.
Proof. intros Hle H. destruct c; [apply cells_true | apply cells_false]; assumption. Qed.

Lemma cells_n_mono P Q lo n :
  (forall t, lo <= t < lo + Z.of_nat n -> P t = true -> Q t = true) -> cells_n P lo n <= cells_n Q lo n.
Proof.
  revert lo. induction n as [|n IH]; intros lo H; cbn [cells_n]; [lia|].
  assert (b2z (P lo) <= b2z (Q lo)).
  { unfold b2z. destruct (P lo) eqn:E; [rewrite (H lo) by (auto; lia); lia | destruct (Q lo); lia]. }
  specialize (IH (lo + 1)). assert (cells_n P (lo + 1) n <= cells_n Q (lo + 1) n).
  { apply IH. intros t Ht. apply H. lia. }
  lia.
Qed.

Lemma cells_mono P Q lo hi :
  (forall t, lo <= t < hi -> P t = true -> Q t = true) -> cells P lo hi <= cells Q lo hi.
Proof. intro H. unfold cells. apply cells_n_mono. intros t Ht. apply H. lia. Qed.

(* cells of a disjoint union add up; cells of a complement *)
Lemma cells_n_add P Q R lo n :
  (forall t, lo <= t < lo + Z.of_nat n -> b2z (R t) = b2z (P t) + b2z (Q t)) ->
  cells_n R lo n = cells_n P lo n + cells_n Q lo n.
Proof.
  revert lo. induction n as [|n IH]; intros lo H; cbn [cells_n]; [reflexivity|].
  rewrite (H lo) by lia. rewrite IH; [lia|]. intros t Ht. apply H. lia.
Qed.

Lemma cells_add P Q R lo hi :
  (forall t, lo <= t < hi -> b2z (R t) = b2z (P t) + b2z (Q t)) ->
  cells R lo hi = cells P lo hi + cells Q lo hi.
Proof. intro H. unfold cells. apply cells_n_add. intros t Ht. apply H. lia. Qed.

Lemma cells_compl P lo hi :
  lo <= hi -> cells (fun t => negb (P t)) lo hi = (hi - lo) - cells P lo hi.
Proof.
  intro Hle.
  assert (cells (fun _ => true) lo hi = cells P lo hi + cells (fun t => negb (P t)) lo hi).
  { apply cells_add. intros t _. destruct (P t); reflexivity. }
  rewrite cells_true in H by auto. lia.
Qed.

(* the half-open interval [s, e) *)
Definition inb (s e t : Z) : bool := (s <=? t) && (t <? e).

Lemma cells_interval s e lo hi :
  lo <= s -> s <= e -> e <= hi -> cells (inb s e) lo hi = e - s.
Proof.
  intros H1 H2 H3.
  rewrite (cells_split _ lo s hi) by lia. rewrite (cells_split _ s e hi) by lia.
  rewrite (cells_false _ lo s), (cells_true _ s e), (cells_false _ e hi); try lia;
    intros t Ht; unfold inb; lia.
Qed.
