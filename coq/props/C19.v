(* C19 property theorems: a saved critical-path graph restores to an identical graph (partial: codecs assumed). *)
From HTA.lib Require Import Base.
From HTA.gen Require Import SaveFields_gen.
From HTA.model Require Import C19_Model.
From HTA.proof Require Import C19_Proofs.

(* on the field lists read out of the CURRENT source: every attribute the observers (critical_path, the breakdown, the
   summary, the attribution look-ups, graph validation) read is restored from a saved field, set by __init__ on the
   restore path, or read back from the trace csv; dataclass, save call and restore function agree *)
Theorem C19_fields_covered : fields_covered = true /\ lists_agree = true /\ forallb field_covered (init_fields ++ restored_other) = true.
Proof. split; [exact fields_covered_now | split; [exact lists_agree_now | exact init_and_other_covered]]. Qed.
Print Assumptions C19_fields_covered.

(* one cycle, for any values, any graph, any frame, under the codec round-trip hypotheses *)
Theorem C19_roundtrip : forall (V G T PG PT PD : Type) (encG : G -> PG) (decG : PG -> G) (encT : T -> PT) (decT : PT -> T)
    (encD : list (string * V) -> PD) (decD : PD -> list (string * V)),
  (forall g, decG (encG g) = g) -> (forall t, decT (encT t) = t) -> (forall d, decD (encD d) = d) ->
  forall (base : string -> V) (s : gstate V G T),
  fields_covered = true ->
  (forall k, In k init_fields \/ In k restored_other -> base k = s_attr V G T s k) ->
  observe V G T (restore V G T PG PT PD decG decT decD base (save V G T PG PT PD encG encT encD s)) = observe V G T s.
Proof. exact roundtrip. Qed.
Print Assumptions C19_roundtrip.

(* any number of cycles *)
Theorem C19_iterated : forall (V G T PG PT PD : Type) (encG : G -> PG) (decG : PG -> G) (encT : T -> PT) (decT : PT -> T)
    (encD : list (string * V) -> PD) (decD : PD -> list (string * V)),
  (forall g, decG (encG g) = g) -> (forall t, decT (encT t) = t) -> (forall d, decD (encD d) = d) ->
  forall (base : string -> V) n (s : gstate V G T),
  fields_covered = true ->
  (forall k, In k init_fields \/ In k restored_other -> base k = s_attr V G T s k) ->
  (forall k, In k init_fields \/ In k restored_other -> field_covered k = true) ->
  observe V G T (cycles V G T PG PT PD encG decG encT decT encD decD n base s) = observe V G T s.
Proof. exact iterated. Qed.
Print Assumptions C19_iterated.

(* non-vacuity: identity codecs, three cycles on a concrete state *)
Example C19_nonvacuous :
  let s := mkState nat nat nat 7%nat 9%nat (fun f => List.length (list_ascii_of_string f)) in
  observe nat nat nat (cycles nat nat nat nat nat (list (string * nat)) (fun x => x) (fun x => x) (fun x => x) (fun x => x) (fun x => x) (fun x => x) 3%nat
                         (fun f => List.length (list_ascii_of_string f)) s) = observe nat nat nat s.
Proof. vm_compute. reflexivity. Qed.
