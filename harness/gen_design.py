#!/venv/bin/python
"""Assemble /verif/DESIGN.md from the hand-written parts in /verif/design_src/ and from the same module texts, finding lists and
seed table that feed MANIFEST.json and the evidence files (development helper; not used by any check)."""
import importlib, json, os, re, sys
HERE = os.path.dirname(os.path.abspath(__file__))
VERIF = os.path.dirname(HERE)
sys.path.insert(0, HERE)
sys.path.insert(0, "/repo")
src = os.path.join(VERIF, "design_src")
head, mid, tail = (open(os.path.join(src, n)).read() for n in ("head.md", "mid.md", "tail.md"))
props = {json.loads(l)["id"]: json.loads(l) for l in open(os.path.join(VERIF, "properties.jsonl"))}
out = ["\n## 5. The properties\n",
       "Generated from `harness/pCxx.py` (the texts that also go into MANIFEST.json and the evidence files) and `coq/props/Cxx.v`.\n"]
nthm = 0
for i in range(1, 21):
    pid = f"C{i:02d}"
    m = importlib.import_module("p" + pid)
    s = open(os.path.join(VERIF, "coq", "props", pid + ".v")).read()
    thms = re.findall(r"^\s*Theorem\s+(\w+)", s, re.M)
    nthm += len(thms)
    out.append(f"### {pid} — {props[pid]['title']}\n")
    out.append(f"* **Technique**: {m.TECHNIQUE}")
    out.append(f"* **Theorems** (`coq/props/{pid}.v`, {len(thms)}): " + ", ".join(f"`{t}`" for t in thms))
    out.append(f"* **Level claimed**: {m.LEVEL_TEXT}")
    out.append(f"* **Note / not covered**: {m.LEVEL_NOTE}")
    out.append(f"* **Correspondence inputs and observables**: {m.RULE}")
    if getattr(m, "ASSUMPTIONS", None):
        out.append("* **Assumptions**: " + "; ".join(m.ASSUMPTIONS))
    if getattr(m, "TRANSLATE", None):
        out.append("* **Translator**: " + ", ".join(f.__name__ for f in m.TRANSLATE) + " (regenerated on every run, fail-closed)")
    out.append("* **Sources watched** (AST hash in evidence): " + "; ".join(f"`{k}`: {', '.join(v)}" for k, v in m.SOURCES.items()))
    out.append("")
kf = json.load(open(os.path.join(VERIF, "known_findings.json")))
fixed = []
for x in kf["fixed"]:
    mm = re.match(r"fixed: property=(C\d\d) (\w+) (.*)", x)
    fixed.append(f"| {mm.group(1)} | `{mm.group(2)}` | {mm.group(3).replace('|', '/')} |")
opened = [f"| `{f['key']}` | {f['property']} | {f['what'].replace('|', '/')} — *not fixed because:* {f['why_not_fixed'].replace('|', '/')} |" for f in kf["findings"]]
res = open(os.path.join(VERIF, "seeded", "RESULTS.md")).read()
rows = [l for l in res.splitlines() if l.startswith("| C")]
rows.sort()
seed_table = "| seed | change | needs | caught by | remark |\n|---|---|---|---|---|\n" + "\n".join(rows)
tail = tail.replace("FIXED_TABLE", "\n".join(fixed)).replace("OPEN_TABLE", "\n".join(opened)).replace("SEED_TABLE", seed_table)
coqchk = os.path.join(src, "coqchk.md")
if os.path.exists(coqchk):
    tail = tail.replace("(§6.1).", "(§6.1).\n\n### 6.1 `coqchk -o` results\n\n" + open(coqchk).read())
doc = head + mid + "\n".join(out) + tail
doc = doc.replace("NTHM", str(nthm)).replace("NFIX", str(len(fixed))).replace("NOPEN", str(len(opened))).replace("NSEED", str(len(rows))) \
         .replace("NMISSED", str(sum("missed at first" in r for r in rows)))
open(os.path.join(VERIF, "DESIGN.md"), "w").write(doc)
print("DESIGN.md", len(doc), "bytes;", nthm, "theorems;", len(fixed), "fixed;", len(opened), "open;", len(rows), "seeds")
