(* C20 property theorems: files written by the tool preserve every source event. *)
From HTA.lib Require Import Base.
From HTA.model Require Import C08_Model C20_Model.
From HTA.gen Require Import OverlayRules_gen.
From HTA.proof Require Import C20_Proofs C20_RulesTie.
Open Scope Z_scope.

(* (1) the trace with counters: the source events come first, unchanged and in order; everything after them is the counter events *)
Theorem C20_counters_preserve : forall (A : Type) (src ctr : list A),
  firstn (List.length src) (with_counters src ctr) = src /\ skipn (List.length src) (with_counters src ctr) = ctr.
Proof. exact @counters_preserve. Qed.
Print Assumptions C20_counters_preserve.

(* (2) the overlay with all events kept, for every option combination and every graph: the file is the source events, each at
   its own position and identical up to the critical marker, followed by flow events only *)
Theorem C20_overlay_preserves_events : forall sa zw src crit N cp all,
  exists flows,
    overlay false sa zw src crit N cp all = map ISrc (mark_all crit 0 src) ++ map IFlow flows /\
    List.length (mark_all crit 0 src) = List.length src /\
    map clear_crit (mark_all crit 0 src) = map clear_crit src /\
    (forall k e, nth_error src k = Some e ->
       exists e', nth_error (overlay false sa zw src crit N cp all) k = Some (ISrc e') /\
                  clear_crit e' = clear_crit e /\ w_crit e' = memZ (Z.of_nat k) crit || w_crit e).
Proof. exact overlay_preserves. Qed.
Print Assumptions C20_overlay_preserves_events.

Theorem C20_overlay_tail_is_flow : forall sa zw src crit N cp all k x,
  (List.length src <= k)%nat -> nth_error (overlay false sa zw src crit N cp all) k = Some x -> exists f, x = IFlow f.
Proof. exact overlay_tail. Qed.
Print Assumptions C20_overlay_tail_is_flow.

(* the marked events are exactly the critical path's events (for a source without markers) *)
Theorem C20_overlay_marks_exact : forall sa zw src crit N cp all,
  forallb (fun e => negb (w_crit e)) src = true ->
  forall k e, nth_error src k = Some e ->
    exists e', nth_error (overlay false sa zw src crit N cp all) k = Some (ISrc e') /\
               (w_crit e' = true <-> memZ (Z.of_nat k) crit = true).
Proof. exact overlay_marks_exact. Qed.
Print Assumptions C20_overlay_marks_exact.

(* which edges are drawn *)
Theorem C20_drawn_edges : forall oc sa zw cp all e,
  In e (drawn_edges oc sa zw cp all) <->
  (if sa && negb oc then In e all /\ (zw = true \/ zero_launch e = false) else In e cp).
Proof. exact drawn_spec. Qed.
Print Assumptions C20_drawn_edges.

(* ... and that rule is the one regenerated from the source on every run: _is_zero_weight_launch_edge, the override of show_all_edges
   by only_show_critical_events, the edge selection *)
Theorem C20_drawn_edges_follow_source : forall oc sa zw cp all e,
  zero_launch e = zero_launch_gen (g_ty e) (g_w e) /\
  drawn_edges oc sa zw cp all =
    (if draws_all_gen oc sa then filter (fun e => drawn_member_gen zw (g_ty e) (g_w e)) all else cp).
Proof. exact overlay_rules_are_generated. Qed.
Print Assumptions C20_drawn_edges_follow_source.

(* one pair of flow events per drawn edge: the k-th edge yields the events 2k (start) and 2k+1 (end), both with id k, on the
   process and thread of the source events at the edge's two end points; there are no other flow events *)
Theorem C20_flow_pairs : forall src N cp drawn,
  forallb (edge_wf src N) drawn = true ->
  List.length (flows_from src N cp 0 drawn) = (2 * List.length drawn)%nat /\
  (forall k e, nth_error drawn k = Some e ->
     exists nu eu nv ev_, edge_events src N e = Some (nu, eu, nv, ev_) /\
       nth_error (flows_from src N cp 0 drawn) (2 * k) =
         Some (mkF true (0 + Z.of_nat k) (w_pid eu) (w_tid eu) (flow_ts nu eu) (g_ty e) (g_w e) (on_cp cp e)) /\
       nth_error (flows_from src N cp 0 drawn) (2 * k + 1) =
         Some (mkF false (0 + Z.of_nat k) (w_pid ev_) (w_tid ev_) (flow_ts nv ev_) (g_ty e) (g_w e) (on_cp cp e))) /\
  (forall j f, nth_error (flows_from src N cp 0 drawn) j = Some f -> f_id f = 0 + Z.of_nat (j / 2) /\ f_start f = Nat.even j).
Proof.
  intros src N cp drawn H. split; [apply flows_length; exact H|]. split.
  - intros k e Hk. apply flows_nth; assumption.
  - intros j f Hj. apply (flows_ids src N cp drawn 0 j f H Hj).
Qed.
Print Assumptions C20_flow_pairs.

(* (3) rank update: the events are untouched, every other top-level key keeps its value and place, every other field of
   distributedInfo keeps its value, the rank is the one given; the last update wins *)
Theorem C20_update_rank : forall d r,
  d_events (update_rank d r) = d_events d /\
  (forall k, k <> "distributedInfo"%string -> lookup_key k (d_keys (update_rank d r)) = lookup_key k (d_keys d)) /\
  map fst (d_keys (update_rank d r)) = map fst (d_keys d) ++ (if has_key "distributedInfo" (d_keys d) then [] else ["distributedInfo"%string]) /\
  (info_wf d -> doc_rank (update_rank d r) = Some r) /\
  (forall f k, get_info (d_keys d) = Some f -> k <> "rank"%string ->
     exists f', get_info (d_keys (update_rank d r)) = Some f' /\ get_field k f' = get_field k f) /\
  (forall r', update_rank (update_rank d r) r' = update_rank d r').
Proof.
  intros d r. split; [apply update_events|]. split; [intros k Hk; apply update_rank_other_keys; exact Hk|].
  split; [apply update_rank_key_order|]. split; [apply update_rank_sets|].
  split; [intros f k Hf Hk; apply update_rank_other_info; assumption | intro r'; apply update_rank_twice].
Qed.
Print Assumptions C20_update_rank.

(* writer / reader, both formats, under the codec round-trip hypothesis (json + gzip are runtime behaviour) *)
Theorem C20_write_read : forall (bytes : Type) (enc : bool -> doc -> bytes) (dec : bool -> bytes -> option doc),
  (forall gz d, dec gz (enc gz d) = Some d) ->
  forall gz d r,
    read_file bytes dec gz (write_file bytes enc gz d) = Some d /\
    exists b, update_file bytes enc dec gz (write_file bytes enc gz d) r = Some b /\ read_file bytes dec gz b = Some (update_rank d r).
Proof. intros bytes enc dec Hrt gz d r. split; [apply read_write; exact Hrt | apply update_file_spec; exact Hrt]. Qed.
Print Assumptions C20_write_read.

(* (4) rank discovery: in general the last file showing a rank is stored for it and nothing else is stored; when the first
   "rank" occurrence of every file is its metadata rank and the ranks are distinct, discovery is exactly the metadata map *)
Theorem C20_discovery : forall (files : list (Z * Z * list Z)),
  (forall f, In f files -> hd_error (snd f) = Some (snd (fst f))) ->
  NoDup (map (fun f => snd (fst f)) files) ->
  (forall f, In f files -> getm (discover (map (fun f => (fst (fst f), snd f)) files)) (snd (fst f)) = Some (fst (fst f))) /\
  (forall r p, getm (discover (map (fun f => (fst (fst f), snd f)) files)) r = Some p ->
     exists f, In f files /\ fst (fst f) = p /\ snd (fst f) = r).
Proof.
  intros files Hfirst Hnd. split; [apply discover_metadata; assumption|].
  intros r p H. destruct (discover_only_files _ r p H) as [g [Hg [Hp Hr]]].
  apply in_map_iff in Hg. destruct Hg as [f [Hfg Hf]]. subst g. cbn [fst snd] in *. exists f. split; [exact Hf|]. split; [exact Hp|].
  specialize (Hfirst f Hf). unfold file_rank in Hr. destruct (snd f); [discriminate|]. inversion Hfirst. congruence.
Qed.
Print Assumptions C20_discovery.

Theorem C20_discovery_last_wins : forall files r, getm (discover files) r = last_with r files None.
Proof. exact discover_last. Qed.
Print Assumptions C20_discovery_last_wins.

(* non-vacuity: a three-event source, event 1 critical, one drawn edge from event 0 (start) to event 1 (end, on the device) *)
Example C20_nonvacuous :
  let src := [mkW 10 1 1 0 5 false true false false; mkW 11 0 7 2 4 true true false false; mkW 12 1 1 9 1 false false false false] in
  let N := [mkN 0 0 0 true false; mkN 1 1 6 false false] in
  let e := mkE 0 1 6 2 in
  encode_overlay false false false src [1] N [e] [e] =
  (true, [[0; 10; 0]; [0; 11; 1]; [0; 12; 0]; [1; 1; 0; 1; 1; 0; 2; 6; 1]; [1; 0; 0; 0; 7; 5; 2; 6; 1]]).
Proof. vm_compute. reflexivity. Qed.

Example C20_nonvacuous_discovery :
  getm (discover [(100, [3; 9]); (101, []); (102, [1])]) 3 = Some 100 /\ getm (discover [(100, [3; 9]); (101, []); (102, [1])]) 0 = Some 101.
Proof. vm_compute. split; reflexivity. Qed.

Example C20_nonvacuous_update :
  encode_doc (update_rank (mkDoc [("schemaVersion"%string, JTok 1); ("distributedInfo"%string, JInfo [("backend"%string, 5); ("rank"%string, 0)])] [1; 2; 3]) 4) =
  ([("schemaVersion"%string, [(""%string, 1)]); ("distributedInfo"%string, [("backend"%string, 5); ("rank"%string, 4)])], [1; 2; 3]).
Proof. vm_compute. reflexivity. Qed.
