"""C01: loaded events are a faithful, uniformly time-shifted image of the trace file."""
import random
import tracegen
import framework as fw
import loader_common as lc
import translate

ID = "C01"
COQ_IMPORTS = lc.COQ_IMPORTS
SOURCES = lc.SOURCES
TRANSLATE = [translate.gen_rounding]
N_CASES = {"quick": 300, "thorough": 5000}
RULE = ("generated file sets (1-3 ranks; metadata/flow/instant/'Trace' entries interleaved; entries without cat; string stream args; shuffled order; "
        "epoch offsets 0, 1e6, 1.7e15; .json and .json.gz), both parse-only and full load, every row and every primary column compared; one case in five has "
        "fractional timestamps (k/1000 and dyadic fractions) and is compared against the Q model of the rounding with the harness supplying the exact "
        "rational of each double and of each double sum (one in four of those has integer start times and quarter-microsecond durations instead: nothing is "
        "rounded, each row's duration, end, process and thread id -- numbers or names -- are compared with the file's); non-trivial = the file set has at least one dropped entry and a non-zero minimum timestamp, or "
        "is fractional; distinct = hash of the file set")
ASSUMPTIONS = ["JSON/gzip decoding is not modelled (files are written with the same json/gzip libraries the loader reads them with)",
               "only the JSON parser back-end exists in this sandbox (ijson absent)",
               "timestamps below 2^53 (pandas stores a column with missing values as float64)",
               "fractional files: the double addition ts+dur is supplied to the model by the harness (Python float addition), the model rounds it"]
COLS = [0, 1, 2, 3, 4, 5, 6, 9, 10]     # idx ts dur pid tid stream corr name cat   (icorr: C02, iter: C12)


def _fractionalise(case, rng, mode=0):
    """mode 0: fractional start times and durations; mode 1: whole start times written as floats (12.0), fractional
    durations; mode 2: integer start times, a metadata entry without "ts" (the parsed column is floating point), fractional
    durations.  In all three the timestamp column of the parsed file is float64, so the loader has to round inward."""
    fr = [0.0, 0.001, 0.5, 0.25, 0.125, 0.999, 0.75, 0.0625, 0.3, 0.002]
    for rk in case["ranks"].values():
        if mode == 2:
            rk["events"].insert(rng.randrange(len(rk["events"]) + 1),
                                {"ph": "M", "name": "thread_sort_index", "pid": 1, "tid": 1, "args": {"sort_index": 3}})
        for e in rk["events"]:
            if "ts" in e and isinstance(e["ts"], int):
                e["ts"] = e["ts"] + rng.choice(fr) if mode == 0 else (float(e["ts"]) if mode == 1 else e["ts"])
            if "dur" in e and isinstance(e["dur"], int):
                e["dur"] = e["dur"] + rng.choice(fr)
    case["fractional"] = True
    case["fractional_mode"] = mode


def _whole_starts_fractional_durations(case, rng):
    """mode 3: every start time is a whole number written as an integer (the parsed ts column is int64, so the loader does not round at
    all) and the durations have quarter-microsecond fractions: each row's duration is the file's, and its end is start + duration."""
    for rk in case["ranks"].values():
        for e in rk["events"]:
            if "dur" in e and isinstance(e["dur"], int):
                e["dur"] = e["dur"] + rng.choice([0.0, 0.25, 0.5, 0.75, 0.5])
    if rng.random() < 0.5:
        # ... and one rank has a host process / thread known by a name instead of a number (a data-loader worker, say): ids decode to the
        # file's values whatever their type
        rk = case["ranks"][sorted(case["ranks"])[0]]
        host = [e for e in rk["events"] if e.get("ph") == "X" and "dur" in e and "stream" not in (e.get("args") or {})
                and isinstance(e.get("tid"), int) and not str(e.get("name", "")).startswith("ProfilerStep")]
        if host:
            pid0, tid0 = host[-1]["pid"], host[-1]["tid"]
            for e in host:
                if e["pid"] == pid0 and e["tid"] == tid0:
                    e["tid"] = "worker-0"
                    if rng.random() < 0.5:
                        e["pid"] = "dataloader"
            case["named_ids"] = True
    case["fractional"] = True
    case["fractional_mode"] = 3


def _run_mode3(case, d):
    """parse-only and full load of a mode-3 file set; every row is compared with its file entry here (exact binary fractions)"""
    from hta.common.trace import Trace
    paths = tracegen.write_case(case, d)
    problems = []
    nrows = 0
    for what in ("parse", "load"):
        try:
            t = Trace(trace_files=dict(paths), trace_dir=d)
            if what == "parse":
                t.parse_traces()
            else:
                t.load_traces(include_last_profiler_step=True)
        except Exception as e:
            return {"problems": [f"{what} raised {type(e).__name__}: {str(e)[:200]}"], "rows": 0}
        for r in sorted(t.traces):
            evs = case["ranks"][r]["events"]
            df = t.traces[r]
            for idx, ts, dur, end, pid, tid in zip(df["index"], df["ts"], df["dur"], df["end"] if "end" in df.columns else df["ts"] + df["dur"],
                                                   df["pid"], df["tid"]):
                e = evs[int(idx)]
                nrows += 1
                same = lambda got, want: (isinstance(got, str) and got == want) if isinstance(want, str) else (not isinstance(got, str) and got == want)
                if not same(pid, e["pid"]) or not same(tid, e["tid"]):
                    problems.append(f"{what}: rank {r} row {int(idx)}: (pid, tid) = ({pid!r}, {tid!r}), the file has ({e['pid']!r}, {e['tid']!r})")
                elif float(dur) != float(e["dur"]):
                    problems.append(f"{what}: rank {r} row {int(idx)}: dur {dur}, the file has {e['dur']} (whole start times, nothing to round)")
                elif float(ts) != float(e["ts"] - t.min_ts):
                    problems.append(f"{what}: rank {r} row {int(idx)}: ts {ts}, the file has {e['ts']} and the common shift is {t.min_ts}")
                elif float(end) != float(ts) + float(dur):
                    problems.append(f"{what}: rank {r} row {int(idx)}: end {end} != ts + dur = {float(ts) + float(dur)}")
                if len(problems) >= 4:
                    return {"problems": problems, "rows": nrows}
    return {"problems": problems, "rows": nrows}


def gen_cases(seed, tier, n):
    out = []
    profs = ["default", "fifo_steps", "fifo_tiny", "loader_mix", "default", "fifo_steps", "fifo_tiny", "loader_mix", "loader_s0", "fifo_steps", "loader_pad"]
    for i in range(n):
        # every thirteenth case: ranks with vocabularies of their own, more than 127 symbols in the job
        c = tracegen.gen_case(seed, i, tracegen.bigvocab("loader_mix") if i % 13 == 6 else tracegen.PROFILES[profs[i % len(profs)]])
        rng = random.Random(seed * 7919 + i)
        c["params"] = {"include_last": rng.random() < 0.5}
        if i % 5 == 4:
            if c["epoch"] > 10 ** 12:      # keep fractions representable
                for rk in c["ranks"].values():
                    for e in rk["events"]:
                        if "ts" in e:
                            e["ts"] -= c["epoch"]
                c["epoch"] = 0
            if (i // 5) % 4 == 3:
                _whole_starts_fractional_durations(c, rng)
            else:
                _fractionalise(c, rng, (i // 5) % 4)
        if i % 7 == 3 and len(c["ranks"]) > 1:
            # one later rank whose vocabulary is the union of all ranks' (its local symbol table has the job table's size, in
            # another order): copies of the other ranks' entries are appended to it
            import copy
            ks = sorted(c["ranks"].keys())
            tgt = ks[-1] if i % 2 else ks[1]
            extra = [copy.deepcopy(e) for r in ks if r != tgt for e in c["ranks"][r]["events"]
                     if not str(e.get("name", "")).startswith("ProfilerStep")]
            c["ranks"][tgt]["events"].extend(extra)
        out.append(c)
    return out


def run_impl(case, d):
    if case.get("fractional_mode") == 3:
        return {"mode3": _run_mode3(case, d)}
    out = lc.run_loader(case, d)
    return {"out": out}


def coq_term(case, impl):
    if case.get("fractional_mode") == 3:
        return "encode_round []"
    if case.get("fractional"):
        return lc.frac_term(case)
    return lc.coq_term(case)


def _proj(rows):
    return sorted([r[i] for i in COLS] for r in rows)


def compare(case, impl, model):
    if "mode3" in impl:
        return impl["mode3"]["problems"]
    o = impl["out"]
    disc = []
    if "parse_error" in o:
        return ["parse_traces raised " + o["parse_error"]]
    if "load_error" in o:
        return ["load_traces raised " + o["load_error"]]
    ranks = sorted(case["ranks"].keys())
    if case.get("fractional"):
        # compare (ts, dur) of the parse-only frames with the Q model, row by row in file order
        k = 0
        for r in ranks:
            rows = sorted(o["parse"][r], key=lambda x: x["idx"])
            for row in rows:
                if k >= len(model):
                    return [f"rank {r}: more rows than complete entries"]
                if [row["ts"], row["dur"]] != list(model[k]):
                    disc.append(f"rank {r} idx {row['idx']}: rounded (ts, dur) impl={[row['ts'], row['dur']]} model={list(model[k])}")
                k += 1
        if k != len(model):
            disc.append(f"row count {k} != complete entries {len(model)}")
        for r in ranks:
            for row in o["load"][r]:
                if row.get("end") != row["ts"] + row["dur"]:
                    disc.append(f"rank {r} idx {row['idx']}: end={row.get('end')} != ts+dur={row['ts'] + row['dur']} after load")
                    break
        return disc[:6]
    m_parse, m_align, (c, m_load) = model
    tab = lc.symtab(case)
    if o.get("parse_min_ts") != 0:
        disc.append(f"parse-only: min_ts={o.get('parse_min_ts')} expected 0")
    for j, r in enumerate(ranks):
        ip = _proj(lc.encode_rows(o["parse"][r], tab))
        mp = _proj(m_parse[j])
        if ip != mp:
            bad = [x for x in ip if x not in mp][:2] + [x for x in mp if x not in ip][:2]
            disc.append(f"rank {r} parse-only: rows differ (impl-only/model-only, cols idx ts dur pid tid stream corr name cat): {bad}")
        for row in o["parse"][r]:
            if row.get("end") != row["ts"] + row["dur"]:
                disc.append(f"rank {r} idx {row['idx']}: end={row.get('end')} != ts+dur after parse")
                break
    if o["min_ts"] != c and any(o["parse"][r] for r in ranks):
        disc.append(f"min_ts={o['min_ts']} model constant={c}")
    if not o.get("load_index_ok", True):
        disc.append("frame index differs from the 'index' column after load")
    for j, r in enumerate(ranks):
        il = _proj(lc.encode_rows(o["load"][r], tab))
        ma = _proj(m_align[j])
        ma_by = {x[0]: x for x in ma}
        seen = set()
        for x in il:
            if x[0] in seen:
                disc.append(f"rank {r}: row id {x[0]} occurs twice after load")
            seen.add(x[0])
            if ma_by.get(x[0]) != x:
                disc.append(f"rank {r} load: row {x} but file entry shifted by the common constant is {ma_by.get(x[0])}")
                break
        nsteps = sum(1 for x in m_align[j] if tab[x[9]].startswith("ProfilerStep"))
        if nsteps < 2 and len(il) != len(ma):
            # C12 owns the trimming rule; with fewer than two steps nothing may disappear (reported there)
            pass
        for row in o["load"][r]:
            if row.get("end") != row["ts"] + row["dur"]:
                disc.append(f"rank {r} idx {row['idx']}: end={row.get('end')} != ts+dur={row['ts'] + row['dur']} after load (min_ts={o['min_ts']})")
                break
    return disc[:8]


def nontrivial(case, impl):
    if case.get("fractional"):
        return True
    o = impl["out"]
    dropped = any(e.get("dur") is None or e.get("cat") in (None, "Trace") for rk in case["ranks"].values() for e in rk["events"])
    return dropped and o.get("min_ts", 0) != 0


def classify(case, impl, model, disc):
    if "mode3" in impl:
        return None
    if disc and all("!= ts+dur" in x and "after load" in x for x in disc):
        return "C01-end-not-shifted"
    return None


LEVEL_TEXT = ("Proof: C01_rows_bijection / C01_no_incomplete_row / C01_fields (rows = complete entries, identified by file position, fields copied with the "
              "-1 defaults), C01_shift_uniform (one constant = global minimum, earliest row at 0), C01_end_is_ts_plus_dur, C01_round_inward / "
              "C01_round_preserves_containment / C01_round_preserves_disjointness (for all rationals). Correspondence on every row and primary column of "
              "Trace.get_trace(rank) after parse_traces() and after load_traces(), Trace.min_ts, and the end column."
              " C01_load_ids_unique: after a full load of ANY file set every row id occurs at most once in every rank (the trailing-step filter cannot duplicate a row, however many kept host rows carry a correlation id)."
              " C01_rounding_follows_source: the rounding model is the rule regenerated from round_down_time_stamps on every run (two guards, ceil / floor / difference).")
LEVEL_NOTE = ("Hand model of _parse_trace_dataframe_json/_compress_df/_align_all_ranks/round_down_time_stamps; JSON and gzip codecs, ijson back-ends and "
              "IEEE addition are outside the model (the harness supplies the double sum). Trusted: Coq kernel, harness, pandas.")
TECHNIQUE = "Coq proof over a Gallina model of the loader (list induction; Q floor/ceiling monotonicity) + differential correspondence via vm_compute"
