"""C20: trace files written by the tool preserve every source event."""
import copy
import gzip
import json
import os
import random
import tracegen
import framework as fw
import cp_common as cp
import translate
import pC08

ID = "C20"
COQ_IMPORTS = ["From HTA.model Require Import C08_Model C20_Model."]
SOURCES = {"hta/analyzers/critical_path_analysis.py": ["CriticalPathAnalysis", "CPGraph"],
           "hta/trace_analysis.py": ["generate_trace_with_counters"],
           "hta/common/trace.py": ["get_raw_trace_for_one_rank", "write_raw_trace", "flow_event", "convert_time_series_to_events"],
           "hta/common/trace_file.py": ["read_trace", "write_trace", "update_trace_rank", "create_rank_to_trace_dict", "create_rank_to_trace_dict_from_dir",
                                        "get_trace_files"],
           "hta/common/trace_parser.py": ["parse_trace_dict"]}
TRANSLATE = [translate.gen_overlay_rules]
N_CASES = {"quick": 200, "thorough": 3000}
RULE = ("four kinds of generated case: overlay (causally consistent traces and windows as C08, both file formats, all 8 combinations of only_show_critical_events / "
        "show_all_edges / CRITICAL_PATH_SHOW_ZERO_WEIGHT_LAUNCH_EDGE, with and without zero-weight launch edges in the graph; then, on the same TraceAnalysis object, a "
        "second analysis over another window overlaid after the first, and the trace with counters written after the overlays), counters (queue profiles, both "
        "formats), file (random documents: key order, distributedInfo present / absent / with other fields, unicode, floats, nested args, both formats; write -> "
        "read, one or two rank updates), discovery (1-4 files written by the tool's writer or json.dump, compact or indented, both formats, with and without "
        "metadata, duplicate ranks, ranks of two or three digits whose digits straddle a multiple of 4096 .. 131072 characters of the file's text, and the adversarial "
        "class: an event argument named \"rank\" earlier in the text than the metadata). Every written file is read "
        "back with the tool's own reader chosen by the file name; the events are interned by canonical JSON (minus args.critical) and compared position by "
        "position with the model's output; flow pairs are canonicalised by content after checking in the harness that ids are 0..n-1, start before end, adjacent. "
        "non-trivial = overlay with >= 3 drawn edges, counters with >= 3 counter events, update on a file with other metadata, discovery of >= 2 files; "
        "distinct = hash of case")
ASSUMPTIONS = ["JSON / gzip byte codecs are runtime behaviour (hypothesis of C20_write_read), exercised by the real round trips here",
               "files are in the formats python's json module writes (separator ': ' after a key); rank discovery is a text search and does not see "
               "\"rank\":<digits> without the blank",
               "source traces carry no args.critical and no event named critical_path of their own"]
TY = pC08.TY
CAT = {"critical_path_operator": 0, "critical_path_dependency": 1, "critical_path_kernel_launch_delay": 2, "critical_path_kernel_kernel_delay": 3,
       "critical_path_sync_dependency": 4}
KINDS = ["overlay", "overlay", "counters", "file", "discovery", "overlay", "file", "discovery"]


# ----------------------------------------------------------------------------- generation
def _rand_value(rng, depth=0):
    k = rng.randrange(8 if depth < 2 else 5)
    if k == 0:
        return rng.randint(-5, 10 ** 6)
    if k == 1:
        return rng.choice([0.5, 1.25, 3.0, 1e-3, 123456.789])
    if k == 2:
        return rng.choice(["aten::add", "naïve ✓", "", "a\"b", "rank", "\"rank\": 5", "x\ny"])
    if k == 3:
        return rng.choice([True, False, None])
    if k == 4:
        return rng.randint(0, 9)
    if k == 5:
        return [_rand_value(rng, depth + 1) for _ in range(rng.randint(0, 3))]
    return {rng.choice(["a", "device", "External id", "Rank", "local_rank", "stream"]): _rand_value(rng, depth + 1) for _ in range(rng.randint(0, 3))}


def _rand_event(rng, i, adversarial):
    ev = {"ph": rng.choice(["X", "X", "X", "M", "i", "s", "f"]), "name": rng.choice(["aten::mm", "kernel_a", "process_name", "ncclKernel_AllReduce"]),
          "pid": rng.randint(0, 3), "tid": rng.randint(0, 9), "ts": rng.randint(0, 10 ** 6) + rng.choice([0, 0.5])}
    if ev["ph"] == "X":
        ev["dur"] = rng.randint(0, 100)
        ev["cat"] = rng.choice(["cpu_op", "kernel", "cuda_runtime", "user_annotation"])
    if rng.random() < 0.6:
        ev["args"] = {k: _rand_value(rng, 1) for k in rng.sample(["External id", "device", "stream", "correlation", "Input Dims", "label"], rng.randint(0, 3))}
        if adversarial and rng.random() < 0.5:
            ev["args"]["rank"] = rng.randint(0, 9)
    return ev


def _rand_doc(rng, rank, adversarial=False, with_info=None):
    events = [_rand_event(rng, i, adversarial) for i in range(rng.randint(0, 8))]
    keys = ["schemaVersion", "deviceProperties", "traceName", "displayTimeUnit", "baseTimeNanoseconds"]
    chosen = rng.sample(keys, rng.randint(0, len(keys)))
    items = [(k, _rand_value(rng, 1)) for k in chosen]
    has_info = rng.random() < 0.7 if with_info is None else with_info
    if has_info:
        info = {}
        extra = rng.sample(["backend", "world_size", "pg_count", "nccl_version"], rng.randint(0, 3))
        if rng.random() < 0.4:
            extra.append("pg_config")           # a nested object inside the metadata block (closing braces before / after the rank)
        names = extra + (["rank"] if rank is not None else [])
        rng.shuffle(names)
        for k in names:
            info[k] = rank if k == "rank" else ([{"pg_name": "default", "pg_size": rng.randint(1, 64)}] if k == "pg_config" else _rand_value(rng, 2))
        items.append(("distributedInfo", info))
    items.append(("traceEvents", events))
    if adversarial:
        # the events come first in the text
        items.sort(key=lambda kv: 0 if kv[0] == "traceEvents" else 1)
    else:
        rng.shuffle(items)
        if has_info and rng.random() < 0.7:
            # as Kineto writes it: metadata before the events
            items.sort(key=lambda kv: 1 if kv[0] == "traceEvents" else 0)
    return dict(items)


def _serialise(doc, writer, gz):
    """the text the chosen writer produces (tool: write_trace = compact for .gz, indent=2 for .json)"""
    if writer == "tool":
        return json.dumps(doc) if gz else json.dumps(doc, indent=2)
    return json.dumps(doc, indent=2 if writer == "dump_indent" else None)


def _align_rank_digits(doc, rank, writer, gz, boundary):
    """metadata first, preceded by a filler string sized so that the digits of the rank straddle a multiple of `boundary` characters of the
    file's text: a reader that scans the file in pieces must not cut the number"""
    base = {"filler": "", "distributedInfo": {"rank": rank}}
    base.update({k: v for k, v in doc.items() if k not in ("distributedInfo", "filler")})
    text = _serialise(base, writer, gz)
    pos = text.index(f'"rank": {rank}') + len('"rank": ') + 1          # index of the second digit
    need = (-pos) % boundary
    if need == 0:
        need = boundary
    base["filler"] = "x" * need
    text = _serialise(base, writer, gz)
    assert (text.index(f'"rank": {rank}') + len('"rank": ') + 1) % boundary == 0
    return base


def gen_cases(seed, tier, n):
    out = []
    profs = {"overlay": ["cp", "cp_tiny", "cp"], "counters": ["queue", "fifo_tiny", "queue_wide"]}
    for i in range(n):
        kind = KINDS[i % len(KINDS)]
        rng = random.Random(seed * 104729 + i)
        if kind in profs:
            c = tracegen.gen_case(seed, i, tracegen.PROFILES[profs[kind][(i // len(KINDS)) % 3]])
            c["params"] = {"kind": kind, "pseed": rng.randint(0, 10 ** 9), "zw": rng.random() < 0.4,
                           "combos": rng.sample([[oc, sa, zs] for oc in (False, True) for sa in (False, True) for zs in (False, True)], 3)}
            # make sure both formats occur
            for r, rk in c["ranks"].items():
                rk["fmt"] = "gz" if (i // len(KINDS) + int(r)) % 2 == 0 else "json"
        elif kind == "file":
            r0 = rng.choice([None, rng.randint(0, 7)])
            c = {"ranks": {}, "params": {"kind": kind, "doc": _rand_doc(rng, r0), "gz": rng.random() < 0.5,
                                         "updates": [rng.randint(0, 64) for _ in range(rng.randint(1, 2))]}, "case_id": i, "seed": seed}
            if r0 is None and rng.random() < 0.6:
                c["params"]["updates"][0] = 0       # rank 0 written into a file that records no rank: the field must appear
        else:
            nfiles = rng.randint(1, 4)
            mode = rng.choice(["unique", "unique", "unique", "dups", "nometa", "adversarial", "boundary"])
            ranks = rng.sample(range(1 if mode == "nometa" else 0, 12), nfiles)   # a file without metadata counts as rank 0
            if mode == "boundary":
                ranks = rng.sample(range(10, 1000), nfiles)     # ranks of two or three digits
            if mode == "dups" and nfiles >= 2:
                ranks[-1] = ranks[0]
            files = []
            for k in range(nfiles):
                adv = mode == "adversarial" and k == 0
                no_meta = mode == "nometa" and k == 0
                doc = _rand_doc(rng, None if no_meta else ranks[k], adversarial=adv, with_info=not no_meta)
                if no_meta and "distributedInfo" in doc:
                    del doc["distributedInfo"]
                writer = rng.choice(["tool", "dump", "dump_indent"])
                gzf = rng.random() < 0.5
                if mode == "boundary" and k == 0:
                    doc = _align_rank_digits(doc, ranks[k], writer, gzf, rng.choice([4096, 8192, 16384, 32768, 65536, 131072]))
                files.append({"doc": doc, "gz": gzf, "writer": writer,
                              "meta_rank": None if no_meta else ranks[k],
                              # update_trace_rank on a file without metadata appends the key at the end of the document
                              "update_to": (ranks[k] if (no_meta and rng.random() < 0.5) else None)})
            c = {"ranks": {}, "params": {"kind": kind, "files": files, "mode": mode, "via_dir": mode != "dups" and rng.random() < 0.5}, "case_id": i, "seed": seed}
        out.append(c)
    return out


# ----------------------------------------------------------------------------- interning
def _canon(ev):
    e = copy.deepcopy(ev)
    if isinstance(e, dict) and isinstance(e.get("args"), dict):
        e["args"].pop("critical", None)
    return json.dumps(e, sort_keys=True, allow_nan=True)


class Intern:
    def __init__(self):
        self.t = {}

    def tok(self, v):
        return self.t.setdefault(_canon(v), len(self.t))


def _int(v):
    try:
        if isinstance(v, bool):
            return 0
        if isinstance(v, (int, float)) and v == int(v):
            return int(v)
    except Exception:
        pass
    return 0


def _is_cp_flow(e):
    return isinstance(e, dict) and e.get("name") == "critical_path" and e.get("ph") in ("s", "f")


def _raw_fields(e, it):
    args = e.get("args") if isinstance(e.get("args"), dict) else {}
    dev = args.get("device", -1)
    return {"tok": it.tok(e), "pid": _int(e.get("pid")), "tid": _int(e.get("tid")), "ts": _int(e.get("ts")), "dur": _int(e.get("dur")),
            "dev": bool(isinstance(dev, (int, float)) and not isinstance(dev, bool) and dev >= 0), "phx": e.get("ph") == "X",
            "annot": e.get("cat", "") in ("user_annotation", "python_function"), "crit": args.get("critical", 0) == 1}


def _read_tool(path):
    from hta.common.trace_parser import parse_trace_dict
    return parse_trace_dict(path)


# ----------------------------------------------------------------------------- implementation runs
def _run_overlay(case, d):
    res, ta, g = cp.run_cp(case, d, zero_weight_env=case["params"]["zw"])
    if g is None or "graph" not in res or not res.get("success"):
        return res
    rank = res["rank"]
    src_path = ta.t.trace_files[rank]
    it = Intern()
    src = _read_tool(src_path)["traceEvents"]
    res["src"] = [_raw_fields(e, it) for e in src]
    res["fmt"] = "gz" if src_path.endswith(".gz") else "json"
    outs = []
    for k, (oc, sa, zs) in enumerate(case["params"]["combos"]):
        o = {"only_crit": oc, "show_all": sa, "zw_show": zs}
        if zs:
            os.environ["CRITICAL_PATH_SHOW_ZERO_WEIGHT_LAUNCH_EDGE"] = "1"
        else:
            os.environ.pop("CRITICAL_PATH_SHOW_ZERO_WEIGHT_LAUNCH_EDGE", None)
        try:
            out_dir = os.path.join(d, f"ov{k}")
            path = ta.overlay_critical_path_analysis(rank, g, out_dir, only_show_critical_events=oc, show_all_edges=sa)
            o["path"] = os.path.basename(path)
            if os.path.basename(path) != "overlaid_critical_path_" + os.path.basename(src_path):
                o["error"] = f"unexpected output name {path}"
            doc = _read_tool(path)
            evs = doc["traceEvents"]
            nflow = 0
            while nflow < len(evs) and _is_cp_flow(evs[len(evs) - 1 - nflow]):
                nflow += 1
            head, tail = evs[:len(evs) - nflow], evs[len(evs) - nflow:]
            o["head"] = [[it.tok(e), 1 if (isinstance(e.get("args"), dict) and e["args"].get("critical", 0) == 1) else 0] for e in head]
            o["flows"] = [[1 if e["ph"] == "s" else 0, e.get("id"), _int(e.get("pid")), _int(e.get("tid")), e.get("ts"), CAT.get(e.get("cat"), -1),
                           (e.get("args") or {}).get("weight"), 1 if (e.get("args") or {}).get("critical") else 0, e.get("name"),
                           sorted(k2 for k2 in e.keys())] for e in tail]
            o["other_keys_same"] = {k2: v for k2, v in doc.items() if k2 != "traceEvents"} == {k2: v for k2, v in _read_tool(src_path).items() if k2 != "traceEvents"}
            # the written file is itself a trace file: rank discovery over its directory finds it under the source's rank
            from hta.common.trace_file import create_rank_to_trace_dict_from_dir
            okd, found = create_rank_to_trace_dict_from_dir(out_dir)
            o["discovered"] = [bool(okd), sorted([int(r_), os.path.basename(p_)] for r_, p_ in found.items())]
            o["expected_discovery"] = [True, [[int(rank), os.path.basename(path)]]]
        except Exception as e:
            import traceback
            o["error"] = type(e).__name__ + ": " + str(e)[:200] + " @ " + traceback.format_exc()[-300:]
        outs.append(o)
    os.environ.pop("CRITICAL_PATH_SHOW_ZERO_WEIGHT_LAUNCH_EDGE", None)
    res["overlays"] = outs
    # history: a what-if re-weighting of the same graph, the path recomputed, then drawn again (all events kept): the marks and flows are
    # those of the NEW path
    try:
        rng = random.Random(case["params"]["pseed"] + 23)
        for u, v in list(g.edges):
            if rng.random() < 0.4:
                g.edges[u, v]["weight"] = int(g.edges[u, v]["weight"]) * rng.choice([0, 3, 10])
        if any(int(g.edges[u, v]["weight"]) != 0 for u, v in g.edges) and g.critical_path():
            o = {"only_crit": False, "show_all": False, "zw_show": False, "graph": cp.dump_graph(g), "reweighted": True}
            path = ta.overlay_critical_path_analysis(rank, g, os.path.join(d, "ov_whatif"), only_show_critical_events=False, show_all_edges=False)
            evs = _read_tool(path)["traceEvents"]
            nflow = 0
            while nflow < len(evs) and _is_cp_flow(evs[len(evs) - 1 - nflow]):
                nflow += 1
            head, tail = evs[:len(evs) - nflow], evs[len(evs) - nflow:]
            o["head"] = [[it.tok(e), 1 if (isinstance(e.get("args"), dict) and e["args"].get("critical", 0) == 1) else 0] for e in head]
            o["flows"] = [[1 if e["ph"] == "s" else 0, e.get("id"), _int(e.get("pid")), _int(e.get("tid")), e.get("ts"), CAT.get(e.get("cat"), -1),
                           (e.get("args") or {}).get("weight"), 1 if (e.get("args") or {}).get("critical") else 0, e.get("name"),
                           sorted(k2 for k2 in e.keys())] for e in tail]
            outs.append(o)
    except Exception as e:
        import traceback
        res["whatif_error"] = type(e).__name__ + ": " + str(e)[:200] + " @ " + traceback.format_exc()[-300:]
    # histories on the one TraceAnalysis object: (a) a second analysis over another window, overlaid after the first;
    # (b) the trace with counters written after the overlays: its source part must carry no marker at all
    try:
        ann2, inst2 = ("", None) if res["annotation"] != "" else ("ProfilerStep", None)
        rows = res["rows"]
        if cp.window_has_events(rows, ann2, inst2):
            out2 = ta.critical_path_analysis(rank=rank, annotation=ann2, instance_id=inst2)
            if out2 is not None and out2[1]:
                g2 = out2[0]
                o = {"only_crit": False, "show_all": False, "zw_show": False, "graph": cp.dump_graph(g2), "second_window": [ann2, inst2]}
                path = ta.overlay_critical_path_analysis(rank, g2, os.path.join(d, "ov_second"), only_show_critical_events=False, show_all_edges=False)
                evs = _read_tool(path)["traceEvents"]
                nflow = 0
                while nflow < len(evs) and _is_cp_flow(evs[len(evs) - 1 - nflow]):
                    nflow += 1
                head, tail = evs[:len(evs) - nflow], evs[len(evs) - nflow:]
                o["head"] = [[it.tok(e), 1 if (isinstance(e.get("args"), dict) and e["args"].get("critical", 0) == 1) else 0] for e in head]
                o["flows"] = [[1 if e["ph"] == "s" else 0, e.get("id"), _int(e.get("pid")), _int(e.get("tid")), e.get("ts"), CAT.get(e.get("cat"), -1),
                               (e.get("args") or {}).get("weight"), 1 if (e.get("args") or {}).get("critical") else 0, e.get("name"),
                               sorted(k2 for k2 in e.keys())] for e in tail]
                outs.append(o)
    except Exception as e:
        import traceback
        if not (isinstance(e, AssertionError)):
            res["second_error"] = type(e).__name__ + ": " + str(e)[:200] + " @ " + traceback.format_exc()[-300:]
    try:
        ta.generate_trace_with_counters(ranks=[rank])
        out_path = src_path.replace(".json", "_with_counters.json")
        if os.path.exists(out_path):
            evs = _read_tool(out_path)["traceEvents"][:len(src)]
            res["counters_after_overlay"] = [[it.tok(e), 1 if (isinstance(e.get("args"), dict) and e["args"].get("critical", 0) == 1) else 0] for e in evs]
    except Exception as e:
        res["counters_after_error"] = type(e).__name__ + ": " + str(e)[:200]
    return res


def _run_counters(case, d):
    ta, paths = fw.load_case(case, d)
    ranks = sorted(ta.t.get_ranks())
    captured = []
    orig = ta.t.convert_time_series_to_events

    def wrapped(series, counter_name, counter_col):
        out = orig(series, counter_name, counter_col)
        captured.append(list(out))
        return out
    ta.t.convert_time_series_to_events = wrapped
    res = {"files": {}}
    try:
        ta.generate_trace_with_counters(ranks=ranks)
    except Exception as e:
        res["error"] = type(e).__name__ + ": " + str(e)[:300]
        return res
    # the calls come rank by rank within a series type: regroup per rank by the pid of the source (each rank has its own file)
    from hta.analyzers.trace_counters import TraceCounters
    per_rank = {r: [] for r in ranks}
    try:
        q = TraceCounters.get_queue_length_time_series(ta.t, ranks)
        b = TraceCounters.get_memory_bw_time_series(ta.t, ranks)
        order = [r for r in q.keys()] + [r for r in b.keys()]
        if len(order) != len(captured):
            res["error"] = f"harness: {len(captured)} conversions captured, {len(order)} series"
            return res
        for r, evs in zip(order, captured):
            per_rank[int(r)].extend(evs)
    except Exception as e:
        res["error"] = "harness: " + type(e).__name__ + ": " + str(e)[:300]
        return res
    for r in ranks:
        it = Intern()
        src_path = paths[r]
        out_path = src_path.replace(".json", "_with_counters.json")
        f = {"fmt": "gz" if src_path.endswith(".gz") else "json", "expected_counters": len(per_rank[r])}
        if not per_rank[r]:
            f["no_counters"] = True
            f["exists"] = os.path.exists(out_path)
            res["files"][r] = f
            continue
        try:
            src = _read_tool(src_path)
            f["src"] = [it.tok(e) for e in src["traceEvents"]]
            f["ctr"] = [it.tok(json.loads(json.dumps(e))) for e in per_rank[r]]
            if not os.path.exists(out_path):
                f["error"] = f"no file {os.path.basename(out_path)} written"
            else:
                doc = _read_tool(out_path)
                f["out"] = [it.tok(e) for e in doc["traceEvents"]]
                f["ctr_ph"] = sorted({str(e.get("ph")) for e in doc["traceEvents"][len(src["traceEvents"]):]})
                f["other_keys_same"] = {k: v for k, v in doc.items() if k != "traceEvents"} == {k: v for k, v in src.items() if k != "traceEvents"}
        except Exception as e:
            f["error"] = f"reading {os.path.basename(out_path)} with the tool's reader: " + type(e).__name__ + ": " + str(e)[:200]
        res["files"][r] = f
    return res


def _doc_lit_parts(doc, it):
    keys = []
    for k, v in doc.items():
        if k == "traceEvents":
            continue
        if k == "distributedInfo" and isinstance(v, dict):
            keys.append([k, [[f, (v2 if f == "rank" else it.tok(v2))] for f, v2 in v.items()]])
        else:
            keys.append([k, [["", it.tok(v)]]])
    return keys, [it.tok(e) for e in doc.get("traceEvents", [])]


def _run_file(case, d):
    from hta.common.trace_file import read_trace, write_trace, update_trace_rank
    p = case["params"]
    doc = p["doc"]
    path = os.path.join(d, "sub", "t_trace.json" + (".gz" if p["gz"] else ""))
    it = Intern()
    res = {"key_pos": list(doc.keys()).index("traceEvents")}
    try:
        write_trace(copy.deepcopy(doc), path)
        back = read_trace(path)
        res["rt_equal"] = (back == doc and json.dumps(back) == json.dumps(doc))
        res["src"] = _doc_lit_parts(doc, it)
        res["steps"] = []
        for r in p["updates"]:
            update_trace_rank(path, r)
            cur = read_trace(path)
            res["steps"].append({"rank": r, "doc": _doc_lit_parts(cur, it), "events_same": cur.get("traceEvents") == doc.get("traceEvents"),
                                 "events_pos": list(cur.keys()).index("traceEvents")})
        # is the file still in the format its name says?
        raw = open(path, "rb").read()
        res["is_gzip"] = raw[:2] == b"\x1f\x8b"
    except Exception as e:
        import traceback
        res["error"] = type(e).__name__ + ": " + str(e)[:200] + " @ " + traceback.format_exc()[-300:]
    return res


def _mentions(doc):
    """values of the keys named "rank" holding a non-negative integer, in serialisation order (what a text search for  "rank": <digits>  meets)"""
    out = []

    def walk(v):
        if isinstance(v, dict):
            for k, x in v.items():
                if k == "rank" and isinstance(x, int) and not isinstance(x, bool) and x >= 0:
                    out.append(x)
                elif k == "rank" and isinstance(x, float) and x >= 0:
                    out.append(int(x))
                walk(x)
        elif isinstance(v, list):
            for x in v:
                walk(x)
    walk(doc)
    return out


def _run_discovery(case, d):
    from hta.common.trace_file import write_trace, update_trace_rank, create_rank_to_trace_dict, create_rank_to_trace_dict_from_dir, read_trace
    p = case["params"]
    res = {"files": []}
    sub = os.path.join(d, "traces")
    os.makedirs(sub, exist_ok=True)
    paths = []
    try:
        for k, f in enumerate(p["files"]):
            path = os.path.join(sub, f"f{k}_trace.json" + (".gz" if f["gz"] else ""))
            if f["writer"] == "tool":
                write_trace(copy.deepcopy(f["doc"]), path)
            else:
                ind = 2 if f["writer"] == "dump_indent" else None
                if f["gz"]:
                    with gzip.open(path, "wt") as fh:
                        json.dump(f["doc"], fh, indent=ind)
                else:
                    with open(path, "w") as fh:
                        json.dump(f["doc"], fh, indent=ind)
            meta = f["meta_rank"]
            if f["update_to"] is not None:
                update_trace_rank(path, f["update_to"])
                meta = f["update_to"]
            cur = read_trace(path)
            res["files"].append({"token": k, "meta_rank": meta, "mentions": _mentions(cur),
                                 "info_rank": (cur.get("distributedInfo") or {}).get("rank") if isinstance(cur.get("distributedInfo"), dict) else None})
            paths.append(path)
        if p["via_dir"]:
            ok, m = create_rank_to_trace_dict_from_dir(sub)
            # directory order is the file system's: pass the model the same order
            listed = [os.path.join(sub, fn) for fn in os.listdir(sub) if fn.endswith(".gz") or fn.endswith(".json")]
            res["order"] = [paths.index(x) for x in listed]
        else:
            ok, m = create_rank_to_trace_dict(paths)
            res["order"] = list(range(len(paths)))
        res["ok"] = bool(ok)
        res["map"] = sorted([int(r), paths.index(pth)] for r, pth in m.items())
    except Exception as e:
        import traceback
        res["error"] = type(e).__name__ + ": " + str(e)[:200] + " @ " + traceback.format_exc()[-300:]
    return res


def run_impl(case, d):
    kind = case["params"]["kind"]
    r = {"overlay": _run_overlay, "counters": _run_counters, "file": _run_file, "discovery": _run_discovery}[kind](case, d)
    r["kind"] = kind
    return r


# ----------------------------------------------------------------------------- model terms
def _w_lit(x):
    return f"mkW {x['tok']} {fw.z(x['pid'])} {fw.z(x['tid'])} {fw.z(x['ts'])} {fw.z(x['dur'])} {fw.b(x['dev'])} {fw.b(x['phx'])} {fw.b(x['annot'])} {fw.b(x['crit'])}"


def _info_lit(fields):
    return "[" + "; ".join(f"({fw.s(k)}, {fw.z(v)})" for k, v in fields) + "]"


def _doc_lit(parts):
    keys, events = parts
    ks = []
    for k, fields in keys:
        if k == "distributedInfo" and not (len(fields) == 1 and fields[0][0] == ""):
            ks.append(f"({fw.s(k)}, JInfo {_info_lit(fields)})")
        elif k == "distributedInfo" and not fields:
            ks.append(f"({fw.s(k)}, JInfo [])")
        else:
            ks.append(f"({fw.s(k)}, JTok {fields[0][1]})")
    return f"(mkDoc [{'; '.join(ks)}] {fw.zl(events)})"


def coq_term(case, impl):
    kind = impl["kind"]
    if kind == "overlay":
        if "overlays" not in impl:
            return "0"
        def graph_lits(g):
            N = pC08.nodes_lit(g)
            all_e = "[" + "; ".join(f"mkE {fw.z(be[0])} {fw.z(be[1])} {fw.z(w)} {TY[t]}" for u, v, w, _wa, t, be in sorted(g["edges"], key=lambda e: (e[5], e[2], e[4]))) + "]"
            # the critical edges and events are read off the reported PATH (consecutive nodes), not off the reported sets: which events
            # are marked and which edges are drawn is the overlay's own business
            by = {(be[0], be[1]): (w, t) for u, v, w, _wa, t, be in g["edges"]}
            pairs = list(zip(g["cp_nodes"], g["cp_nodes"][1:]))
            cpl = sorted([a, b_, by[(a, b_)][0], by[(a, b_)][1]] for a, b_ in pairs if (a, b_) in by)
            cp_e = "[" + "; ".join(f"mkE {fw.z(u)} {fw.z(v)} {fw.z(w)} {TY[t]}" for u, v, w, t in cpl) + "]"
            ev_of = {n[0]: n[1] for n in g["nodes"]}
            return N, cp_e, all_e, fw.zl(sorted({ev_of[n] for n in g["cp_nodes"] if n in ev_of}))
        N, cp_e, all_e, crit = graph_lits(impl["graph"])
        src = "[" + ";\n    ".join(_w_lit(x) for x in impl["src"]) + "]"
        terms = []
        for o in impl["overlays"]:
            if "graph" in o:
                N2, cp2, all2, crit2 = graph_lits(o["graph"])
                terms.append(f"encode_overlay {fw.b(o['only_crit'])} {fw.b(o['show_all'])} {fw.b(o['zw_show'])} src {crit2} {N2} {cp2} {all2}")
            else:
                terms.append(f"encode_overlay {fw.b(o['only_crit'])} {fw.b(o['show_all'])} {fw.b(o['zw_show'])} src crit nodes cpe alle")
        return f"(let src := {src} in let crit := {crit} in let nodes := {N} in let cpe := {cp_e} in let alle := {all_e} in [{'; '.join(terms)}])"
    if kind == "counters":
        ts = []
        for r, f in sorted(impl.get("files", {}).items()):
            if "src" in f and "ctr" in f:
                ts.append(f"with_counters {fw.zl(f['src'])} {fw.zl(f['ctr'])}")
        return "[" + "; ".join(ts) + "]" if ts else "0"
    if kind == "file":
        if "src" not in impl:
            return "0"
        cur = _doc_lit(impl["src"])
        ts = []
        for r in case["params"]["updates"]:
            cur = f"(update_rank {cur} {fw.z(r)})"
            ts.append(f"encode_doc {cur}")
        return "[" + "; ".join(ts) + "]"
    if kind == "discovery":
        if "map" not in impl:
            return "0"
        fl = [impl["files"][k] for k in impl["order"]]
        return "discover [" + "; ".join(f"({f['token']}, {fw.zl(f['mentions'])})" for f in fl) + "]"
    return "0"


# ----------------------------------------------------------------------------- comparison
def _canon_pairs(flows, where, disc):
    """flows: rows [start, id, pid, tid, ts, cat, w, crit]; checks the id structure, returns the sorted pair contents"""
    pairs = []
    if len(flows) % 2:
        disc.append(f"{where}: odd number of flow events ({len(flows)})")
        return None
    for k in range(0, len(flows), 2):
        a, b = flows[k], flows[k + 1]
        if not (a[0] == 1 and b[0] == 0 and a[1] == b[1] == k // 2):
            disc.append(f"{where}: flow events {k},{k + 1} are not a start/end pair with id {k // 2}: {a[:2]} {b[:2]}")
            return None
        pairs.append((tuple(a[2:]), tuple(b[2:])))
    return sorted(pairs)


def compare(case, impl, model):
    kind = impl["kind"]
    disc = []
    if kind == "overlay":
        w = f"(rank {impl.get('rank')}, annotation {impl.get('annotation')!r}, instance {impl.get('instance')}, format {impl.get('fmt')})"
        if "error" in impl:
            if impl["error"].startswith("AssertionError") and impl.get("all_zero_weights"):
                return []
            return [f"critical_path_analysis raised {impl['error'][:300]} {w}"]
        if "overlays" not in impl:
            return []
        for o, (wf, items) in zip(impl["overlays"], model):
            opt = f"only_show_critical_events={o['only_crit']} show_all_edges={o['show_all']} SHOW_ZERO_WEIGHT={o['zw_show']} {w}" + \
                (f" second window {o['second_window']} analysed and overlaid after the first" if "second_window" in o else "")
            if "error" in o:
                disc.append(f"overlay raised / unreadable: {o['error'][:300]} [{opt}]")
                continue
            if not wf:
                disc.append(f"model: a drawn edge has no node / source event [{opt}]")
                continue
            m_head = [[r[1], r[2]] for r in items if r[0] == 0]
            m_flows = [r[1:] for r in items if r[0] == 1]
            if o["head"] != m_head:
                k = next((i for i, (a, b) in enumerate(zip(o["head"], m_head)) if a != b), min(len(o["head"]), len(m_head)))
                disc.append(f"source part of the overlay differs at position {k}: file has {o['head'][k:k + 2]} (of {len(o['head'])}), "
                            f"expected {m_head[k:k + 2]} (of {len(m_head)}) as (event token, critical) [{opt}]")
            bad = [f for f in o["flows"] if f[8] != "critical_path" or not isinstance(f[4], int) or isinstance(f[4], bool) or f[6] is None
                   or f[9] != sorted(["ph", "id", "pid", "tid", "ts", "cat", "name", "args"] + (["bp"] if f[0] == 0 else []))]
            if bad:
                disc.append(f"malformed flow event {bad[0]} [{opt}]")
                continue
            ip = _canon_pairs([f[:8] for f in o["flows"]], "file", disc)
            mp = _canon_pairs(m_flows, "model", disc)
            if ip is not None and mp is not None and ip != mp:
                only_i = [x for x in ip if x not in mp][:2]
                only_m = [x for x in mp if x not in ip][:2]
                disc.append(f"flow pairs differ: {len(ip)} in the file, {len(mp)} expected; only in file {only_i}; only expected {only_m} "
                            f"as (pid, tid, ts, type, weight, critical) [{opt}]")
            if not o.get("other_keys_same", True):
                disc.append(f"keys other than traceEvents differ from the source [{opt}]")
            if "discovered" in o and o["discovered"] != o["expected_discovery"]:
                disc.append(f"rank discovery over the directory of the written overlay gives {o['discovered']}, the source is rank {o['expected_discovery'][1][0][0]} [{opt}]")
        if "whatif_error" in impl:
            disc.append(f"what-if re-weighting / recomputed path / overlay on the same graph raised {impl['whatif_error'][:300]} {w}")
        if "second_error" in impl:
            disc.append(f"second analysis / overlay on the same object raised {impl['second_error'][:300]} {w}")
        if "counters_after_error" in impl:
            disc.append(f"generate_trace_with_counters after the overlays raised {impl['counters_after_error']} {w}")
        if "counters_after_overlay" in impl:
            want = [[x["tok"], 1 if x["crit"] else 0] for x in impl["src"]]
            got = impl["counters_after_overlay"]
            if got != want:
                k = next((i for i, (a, b) in enumerate(zip(got, want)) if a != b), min(len(got), len(want)))
                disc.append(f"trace with counters written after the overlays: source part differs from the source at position {k}: {got[k:k + 2]} vs {want[k:k + 2]} "
                            f"as (event token, critical) {w}")
        return disc[:6]
    if kind == "counters":
        if "error" in impl:
            return [f"generate_trace_with_counters: {impl['error']}"]
        mi = 0
        for r, f in sorted(impl["files"].items()):
            if f.get("no_counters"):
                continue
            if "error" in f:
                disc.append(f"rank {r} ({f['fmt']} source): {f['error']}")
                if "src" in f and "ctr" in f:
                    mi += 1
                continue
            exp = model[mi]
            mi += 1
            if f["out"] != exp:
                k = next((i for i, (a, b) in enumerate(zip(f["out"], exp)) if a != b), min(len(f["out"]), len(exp)))
                disc.append(f"rank {r} ({f['fmt']} source): with-counters file differs from source ++ counters at position {k} "
                            f"({len(f['out'])} events, expected {len(exp)} = {len(f['src'])} source + {len(f['ctr'])} counters)")
            if f["ctr_ph"] not in ([], ["C"]):
                disc.append(f"rank {r}: appended events are not all counter events: phases {f['ctr_ph']}")
            if not f.get("other_keys_same", True):
                disc.append(f"rank {r}: keys other than traceEvents differ from the source")
        return disc[:6]
    if kind == "file":
        fmt = "gz" if case["params"]["gz"] else "json"
        if "error" in impl:
            return [f"write_trace / read_trace / update_trace_rank raised {impl['error']} ({fmt})"]
        if not impl["rt_equal"]:
            disc.append(f"read_trace(write_trace(doc)) differs from doc ({fmt})")
        if impl["is_gzip"] != case["params"]["gz"]:
            disc.append(f"file format after update does not match its name ({fmt})")
        for st, (mkeys, mevents) in zip(impl["steps"], model):
            ikeys, ievents = st["doc"]
            mk = [[k, [[a, b] for a, b in fields]] for k, fields in mkeys]
            if ikeys != mk:
                disc.append(f"after update_trace_rank({st['rank']}): top-level keys / distributedInfo {ikeys} but expected {mk} ({fmt})")
            if ievents != list(mevents) or not st["events_same"]:
                disc.append(f"after update_trace_rank({st['rank']}): traceEvents changed ({fmt})")
        return disc[:6]
    if kind == "discovery":
        if "error" in impl:
            return [f"rank discovery raised {impl['error']}"]
        mm = sorted([int(a), int(b)] for a, b in model)
        if impl["map"] != mm:
            disc.append(f"create_rank_to_trace_dict returned {impl['map']} but the model {mm} as (rank, file)")
        # the property itself: every file under the rank its metadata records (files without metadata: rank 0 by documented default)
        p = case["params"]
        if p["mode"] != "dups":
            got = {r: k for r, k in impl["map"]}
            for f in impl["files"]:
                want = f["meta_rank"] if f["meta_rank"] is not None else 0
                if f["meta_rank"] is not None and f["info_rank"] != f["meta_rank"]:
                    disc.append(f"harness: metadata rank of file {f['token']} is {f['info_rank']}, expected {f['meta_rank']}")
                if got.get(want) != f["token"]:
                    disc.append(f"file {f['token']} records rank {want} in its metadata but discovery maps rank {want} to "
                                f"{got.get(want)} (first \"rank\" occurrences in its text: {f['mentions'][:3]}; mode {p['mode']})")
        return disc[:6]
    return []


def nontrivial(case, impl):
    kind = impl.get("kind")
    if kind == "overlay":
        return any(len(o.get("flows", [])) >= 6 for o in impl.get("overlays", []))
    if kind == "counters":
        return any(f.get("expected_counters", 0) >= 3 for f in impl.get("files", {}).values())
    if kind == "file":
        return "src" in impl and any(k == "distributedInfo" and len(f) >= 2 for k, f in impl["src"][0])
    if kind == "discovery":
        return len(impl.get("files", [])) >= 2
    return False


def classify(case, impl, model, disc):
    """the one listed finding: a file whose text shows a "rank" key (an event argument) before its metadata is filed under that
    value; only that file and the file it displaces may be affected, and implementation and model must agree"""
    if impl.get("kind") != "discovery" or "map" not in impl or not disc:
        return None
    if any("records rank" not in x for x in disc):
        return None
    files = impl["files"]
    adv = {f["token"] for f in files if f["meta_rank"] is not None and f["mentions"] and f["mentions"][0] != f["meta_rank"]}
    if not adv:
        return None
    taken = {f["mentions"][0] for f in files if f["token"] in adv}
    displaced = {f["token"] for f in files if (f["meta_rank"] if f["meta_rank"] is not None else 0) in taken}
    got = {r: k for r, k in impl["map"]}
    for f in files:
        want = f["meta_rank"] if f["meta_rank"] is not None else 0
        if got.get(want) != f["token"] and f["token"] not in adv | displaced:
            return None
    return "C20-rank-key-in-event-args-precedes-metadata"


LEVEL_TEXT = ("Proof: C20_counters_preserve, C20_overlay_preserves_events, C20_overlay_tail_is_flow, C20_overlay_marks_exact, C20_drawn_edges, C20_flow_pairs (any source, "
              "any graph, all option combinations: source events at their own positions, identical up to the marker; marker exactly on the critical set; one "
              "start/end pair per drawn edge with shared id on the end points' process / thread), C20_update_rank (events, other keys, other metadata fields "
              "untouched; last update wins), C20_write_read (under the codec hypothesis), C20_discovery and C20_discovery_last_wins. Correspondence: real "
              "generate_trace_with_counters / overlay_critical_path_analysis / write_trace / read_trace / update_trace_rank / create_rank_to_trace_dict on generated "
              "inputs in both formats, files read back with the tool's reader and compared position by position with the model's output."
              " C20_drawn_edges_follow_source: which edges are drawn (and what a hidden zero-weight launch edge is) is regenerated from the source on every run.")
LEVEL_NOTE = ("The JSON / gzip byte codecs are runtime behaviour: hypothesis of C20_write_read, exercised by the correspondence. Discovery is modelled at the level of "
              "the \"rank\" occurrences in text order (computed by the harness from the parsed document, not with the tool's regular expression).")
TECHNIQUE = "Coq proof over a hand-written list-level model of the writers + differential run against the real writers and readers in both file formats"
