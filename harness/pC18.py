"""C18: trace filters are pure row selections with the documented predicates."""
import random
import re as _re
import tracegen
import framework as fw
import translate

ID = "C18"
COQ_IMPORTS = ["From HTA.lib Require Import Regex.", "From HTA.model Require Import C18_Model."]
SOURCES = {"hta/common/trace_filter.py": ["IterationFilter", "IterationIndexFilter", "FirstIterationFilter", "RankFilter", "TimeRangeFilter",
                                          "NameStringColumnFilter", "NameIdColumnFilter", "NameFilter", "_filter_gpu_kernels_with_cuda_sync",
                                          "GPUKernelFilter", "CPUOperatorFilter", "CompositeFilter", "MemCopyEventFilter"],
           "hta/utils/utils.py": ["get_symbol_column_names"]}
TRANSLATE = [translate.gen_filter_rules]
N_CASES = {"quick": 200, "thorough": 3000}
RULE = ("frames = all ranks of a generated, loaded file set concatenated with a rank column, once with unique labels and once with the repeated per-rank "
        "labels pd.concat leaves (plus the empty frame); per frame 10 random filters: each class with "
        "parameters drawn around the frame's own values (present/absent iterations and ranks, time ranges on event boundaries, name patterns from a pool of "
        "regexes translated to the Coq AST by re._parser, fail-closed) and composites of depth <= 3; each applied twice: encoded frame + symbol table, and decoded "
        "frame (s_name column) without table; compared: list of selected row ids in order, row contents, input frame unchanged (deep comparison); "
        "non-trivial = at least one filter selects a proper non-empty subset; distinct = hash of the file set")
ASSUMPTIONS = ["for the regex subset generated CPython's matcher finds a prefix match iff one exists (the Coq matcher is proved to decide that)",
               "purity (input frame unmodified) is observed on the implementation, not proved: model inputs are immutable by construction"]

PATTERNS = ["aten::", "aten::.*", "nccl", "^nccl", ".*Kernel", "cuda(Launch|Memcpy).*", "Memc?py", "aten::(add|mul)_?", "[a-c].*",
            "ProfilerStep#[0-9]+", "Mem(cpy|set) .toD", "void .*<", "(aten|cuda).+", "", "cudaLaunchKernel", ".*Sync",
            "nccl|Memcpy", "aten::add|Launch", "Kernel|Sync|mul"]       # ungrouped alternations: every alternative is anchored at the start


class Stop(Exception):
    pass


def chr_lit(c):
    o = c if isinstance(c, int) else ord(c)
    if not (32 <= o < 127):
        raise Stop("non-ascii literal")
    return f'"{chr(o)}"%char' if chr(o) != '"' else '""""%char'


def re_to_coq(pat):
    import re._parser as sp
    import re._constants as sc

    def seq(items):
        out = None
        for it in reversed(items):
            t = one(it)
            out = t if out is None else f"(Cat {t} {out})"
        return out or "Eps"

    def one(it):
        op, av = it
        if op == sc.LITERAL:
            return f"(Chr {chr_lit(av)})"
        if op == sc.ANY:
            return "Any"
        if op == sc.AT and av == sc.AT_BEGINNING:
            return "Eps"
        if op == sc.MAX_REPEAT:
            lo, hi, sub = av
            s = seq(list(sub))
            if (lo, hi) == (0, sc.MAXREPEAT):
                return f"(Star {s})"
            if (lo, hi) == (1, sc.MAXREPEAT):
                return f"(Plus {s})"
            if (lo, hi) == (0, 1):
                return f"(Opt {s})"
            raise Stop(f"repeat {lo},{hi}")
        if op == sc.BRANCH:
            alts = [seq(list(a)) for a in av[1]]
            out = alts[-1]
            for a in reversed(alts[:-1]):
                out = f"(Alt {a} {out})"
            return out
        if op == sc.SUBPATTERN:
            return seq(list(av[3]))
        if op == sc.IN:
            cs = []
            for o2, a2 in av:
                if o2 == sc.LITERAL:
                    cs.append(a2)
                elif o2 == sc.RANGE:
                    cs += list(range(a2[0], a2[1] + 1))
                else:
                    raise Stop(f"class item {o2}")
            return "(Cls [" + "; ".join(chr_lit(c) for c in cs) + "])"
        raise Stop(f"regex construct {op} not in the supported subset")

    parsed = sp.parse(pat)
    items = list(parsed)
    # '^' is only supported where it can only be tried at position 0
    for k, (op, av) in enumerate(items):
        if op == sc.AT and k != 0:
            raise Stop("anchor not at the beginning")
    return seq(items)


def gen_filters(rng, frame_info, depth=0):
    its, ranks, tss, names, memnames = frame_info
    kind = rng.choice(["iter", "iteridx", "rank", "time", "name", "gpu", "cpu", "memcpy", "comp", "first"] if depth < 3 else
                      ["iter", "iteridx", "rank", "time", "name", "gpu", "cpu", "memcpy"])
    if kind == "iter":
        pool = list(its) + [-1, 7, 999]
        v = rng.sample(pool, rng.randint(1, min(3, len(pool))))
        return {"k": "iter", "v": v if rng.random() < 0.7 else v[0]}
    if kind == "iteridx":
        v = rng.sample([0, 1, 2, 3, 5], rng.randint(1, 3))
        return {"k": "iteridx", "v": v if rng.random() < 0.7 else v[0]}
    if kind == "first":
        return {"k": "iteridx", "v": [0], "first": True}
    if kind == "rank":
        pool = list(ranks) + [5]
        v = rng.sample(pool, rng.randint(1, min(2, len(pool))))
        return {"k": "rank", "v": v if rng.random() < 0.7 else v[0]}
    if kind == "time":
        pts = sorted(set(tss)) or [0]
        a = rng.choice(pts) + rng.choice([-1, 0, 0, 1])
        b = rng.choice(pts) + rng.choice([-1, 0, 0, 1])
        lo, hi = min(a, b), max(a, b)
        return {"k": "time", "v": [lo, hi]}
    if kind == "name":
        if rng.random() < 0.3 and names:
            nm = rng.choice(names)
            pat = _re.escape(nm[:rng.randint(1, len(nm))])
            try:
                re_to_coq(pat)
            except Stop:
                pat = "aten::"
            return {"k": "name", "v": pat}
        return {"k": "name", "v": rng.choice(PATTERNS)}
    if kind == "gpu":
        return {"k": "gpu"}
    if kind == "cpu":
        return {"k": "cpu"}
    if kind == "memcpy":
        return {"k": "memcpy", "v": rng.choice(memnames + ["Memcpy DtoH (Device -> Pinned)", "no such copy"])}
    return {"k": "comp", "v": [gen_filters(rng, frame_info, depth + 1) for _ in range(rng.randint(0, 3))]}


def gen_cases(seed, tier, n):
    out = []
    profs = ["fifo_steps", "steps_mix", "loader_mix", "default"]
    for i in range(n):
        c = tracegen.gen_case(seed, i, tracegen.PROFILES[profs[i % len(profs)]])
        c["params"] = {"fseed": seed * 7919 + i, "empty": i % 17 == 16}
        if i % 3 == 1:
            # device-wide synchronisation records without a correlation id (their runtime call is not in the trace): still device-side rows
            tracegen.add_idless_sync_record(c, random.Random(seed * 86243 + i))
        out.append(c)
    return out


def mk_filter(f, tab_obj):
    from hta.common import trace_filter as tf
    k = f["k"]
    if k == "iter":
        return tf.IterationFilter(f["v"])
    if k == "iteridx":
        return tf.FirstIterationFilter() if f.get("first") else tf.IterationIndexFilter(f["v"])
    if k == "rank":
        return tf.RankFilter(f["v"])
    if k == "time":
        return tf.TimeRangeFilter(tuple(f["v"]))
    if k == "name":
        return tf.NameFilter(f["v"])
    if k == "gpu":
        return tf.GPUKernelFilter()
    if k == "cpu":
        return tf.CPUOperatorFilter()
    if k == "memcpy":
        return tf.MemCopyEventFilter(f["v"])
    return tf.CompositeFilter([mk_filter(g, tab_obj) for g in f["v"]])


def flt_lit(f):
    k = f["k"]
    lst = lambda v: fw.zl(v if isinstance(v, list) else [v])
    if k == "iter":
        return f"(FIter {lst(f['v'])})"
    if k == "iteridx":
        return f"(FIterIdx {lst(f['v'])})"
    if k == "rank":
        return f"(FRank {lst(f['v'])})"
    if k == "time":
        return f"(FTime {fw.z(f['v'][0])} {fw.z(f['v'][1])})"
    if k == "name":
        return f"(FName {re_to_coq(f['v'])})"
    if k == "gpu":
        return "FGpu"
    if k == "cpu":
        return "FCpu"
    if k == "memcpy":
        return f"(FMemcpy {fw.s(f['v'])})"
    return "(FComposite [" + "; ".join(flt_lit(g) for g in f["v"]) + "])"


def run_impl(case, d):
    import pandas as pd
    ta, paths = fw.load_case(case, d)
    st = ta.t.symbol_table
    sym = st.get_sym_table()
    frames = []
    for r in sorted(ta.t.get_ranks()):
        x = ta.t.get_trace(r).copy()
        x["rank"] = r
        frames.append(x)
    df = pd.concat(frames, ignore_index=True)
    if case["params"]["empty"]:
        df = df.iloc[0:0].copy()
    rows = []
    for rid, rec in zip(df.index, fw.dump_frame(df, sym)):
        rec = dict(rec, idx=int(rid))
        rows.append(rec)
    rank_col = [int(x) for x in df["rank"]]
    rng = random.Random(case["params"]["fseed"])
    info = (sorted({r["iter"] for r in rows if r["iter"] >= 0}), sorted(set(rank_col)), [r["ts"] for r in rows] + [r["ts"] + r["dur"] for r in rows],
            sorted({r["name"] for r in rows}), sorted({r["name"] for r in rows if r["cat"] == "gpu_memcpy"}))
    filters = [gen_filters(rng, info) for _ in range(10)]
    dec = df.copy()
    dec["s_name"] = dec["name"].apply(lambda i: sym[i])
    outs = {}
    problems = []
    # ONE filter object per filter, used for every call of this case (with a table, then without): a filter must not remember anything of a call
    objs = [mk_filter(f, st) for f in filters]
    for mode, frame, tab in (("encoded+table", df, st), ("decoded, no table", dec, None)):
        before = frame.copy(deep=True)
        res = []
        for f, fobj in zip(filters, objs):
            try:
                o = fobj(frame, tab) if tab is not None else fobj(frame)
                ids = [int(i) for i in o.index]
                if len(o.columns) and len(o) and not o.equals(frame.loc[o.index]):
                    problems.append(f"{mode}: filter {f}: selected rows differ in content from the input rows")
                res.append(ids)
            except Exception as e:
                res.append("error: " + type(e).__name__ + ": " + str(e)[:120])
        if not frame.equals(before) or list(frame.columns) != list(before.columns):
            problems.append(f"{mode}: the input frame was modified")
        outs[mode] = res
        if tab is not None:
            # a NameFilter constructed with ANOTHER table (the same symbols numbered the other way round) and called with the frame's own
            # table: the table given to the call decides
            from hta.common import trace_filter as _tf
            from hta.common.trace_symbol_table import TraceSymbolTable as _TST
            decoy = _TST()
            decoy.add_symbols(list(reversed(sym)))
            for f, want in zip(filters, res):
                if f["k"] != "name" or isinstance(want, str):
                    continue
                try:
                    got = [int(i) for i in _tf.NameFilter(f["v"], symbol_table=decoy)(frame, tab).index]
                    if got != want:
                        problems.append(f"{mode}: NameFilter({f['v']!r}) constructed with another table and called with the frame's table selects "
                                        f"{got[:10]}, constructed without a table {want[:10]}")
                except Exception as e:
                    problems.append(f"{mode}: NameFilter({f['v']!r}, symbol_table=other)(frame, table) raised {type(e).__name__}: {str(e)[:100]}")
        # the same frame as pd.concat of the ranks gives it: every rank's labels start again at 0, so labels repeat.  A filter is a selection of
        # ROWS: positions, order, contents and labels of the selected rows must be the same as on the frame with unique labels
        if len(frame) and len(set(rank_col)) > 1:
            dup = frame.copy(deep=True)
            dup["_pos"] = range(len(dup))
            labels = []
            for r in sorted(set(rank_col)):
                labels += list(range(rank_col.count(r)))
            dup.index = labels
            for f, want in zip(filters, res):
                if isinstance(want, str):
                    continue
                try:
                    o = mk_filter(f, st)(dup, tab) if tab is not None else mk_filter(f, st)(dup)
                    pos = [int(x) for x in o["_pos"]] if (len(o) or "_pos" in o.columns) else []      # an empty selection may come back without columns
                    if pos != want:
                        problems.append(f"{mode}: filter {f} on the frame with repeated labels (ranks concatenated) selects row positions {pos[:12]}, "
                                        f"on the same frame with unique labels {want[:12]}")
                    elif [int(x) for x in o.index] != [labels[k] for k in pos]:
                        problems.append(f"{mode}: filter {f} on the frame with repeated labels: labels of the selected rows changed")
                    elif pos and not o.reset_index(drop=True).equals(dup.iloc[pos].reset_index(drop=True)):
                        problems.append(f"{mode}: filter {f} on the frame with repeated labels: contents of the selected rows changed")
                except Exception as e:
                    problems.append(f"{mode}: filter {f} raised {type(e).__name__}: {str(e)[:120]} on the frame with repeated labels")
    # a frame whose name / cat columns hold the strings themselves: the same NameFilter objects, called once more without a table, must select
    # the same rows as with the table (a filter that remembered the table of an earlier call would compare strings with ids)
    if len(df):
        dec3 = df.copy()
        dec3["name"] = dec3["name"].apply(lambda i: sym[i])
        dec3["cat"] = dec3["cat"].apply(lambda i: sym[i])
        for f, fobj, want in zip(filters, objs, outs["encoded+table"]):
            if f["k"] != "name" or isinstance(want, str):
                continue
            try:
                got = [int(i) for i in fobj(dec3).index]
                if got != want:
                    problems.append(f"name filter {f} called again, without a table, on the frame whose name column holds strings selects {got[:12]}; "
                                    f"with the table it selected {want[:12]}")
            except Exception as e:
                problems.append(f"name filter {f} called again without a table on the string-valued frame raised {type(e).__name__}: {str(e)[:120]}")
        # the same frame with a further string column s_name / s_cat that holds OTHER strings (as a frame has after decode_symbol_ids with
        # shortened names followed by add_symbols_to_trace_df): the name column is the one a name pattern is about
        dec4 = dec3.copy()
        dec4["s_name"] = df["name"].apply(lambda i: sym[(i + 1) % len(sym)][:12])
        dec4["s_cat"] = df["cat"].apply(lambda i: sym[(i + 1) % len(sym)][:12])
        for f, want in zip(filters, outs["encoded+table"]):
            if f["k"] != "name" or isinstance(want, str):
                continue
            try:
                got = [int(i) for i in mk_filter(f, st)(dec4).index]
                if got != want:
                    problems.append(f"name filter {f}, without a table, on the frame whose name column holds the names and whose s_name column holds "
                                    f"other (shortened) strings selects {got[:12]}; by the name column it is {want[:12]}")
            except Exception as e:
                problems.append(f"name filter {f} without a table on the frame with string name and s_name columns raised {type(e).__name__}: {str(e)[:120]}")
    return {"rows": rows, "ranks": rank_col, "filters": filters, "symtab": list(sym), "out": outs, "problems": problems}


def coq_term(case, impl):
    fr = "[" + ";\n  ".join(f"({fw.ev_lit(r)}, {fw.z(k)})" for r, k in zip(impl["rows"], impl["ranks"])) + "]"
    fl = "[" + ";\n  ".join(flt_lit(f) for f in impl["filters"]) + "]"
    return (f"let fr := {fr} in let fl := {fl} in\n (encode_C18 true {fw.sl(impl['symtab'])} fl fr, encode_C18 false [] fl fr)")


def compare(case, impl, model):
    disc = list(impl["problems"])
    for mode, m in zip(("encoded+table", "decoded, no table"), model):
        for f, o, mm in zip(impl["filters"], impl["out"][mode], m):
            if isinstance(o, str):
                disc.append(f"{mode}: filter {f} raised {o} on a frame of {len(impl['rows'])} rows (model selects {list(mm)})")
            elif list(o) != list(mm):
                disc.append(f"{mode}: filter {f}: selected row ids impl={o[:12]} model={list(mm)[:12]} (frame of {len(impl['rows'])} rows)")
    return disc[:8]


def nontrivial(case, impl):
    n = len(impl["rows"])
    return any(isinstance(o, list) and 0 < len(o) < n for o in impl["out"]["encoded+table"])


def classify(case, impl, model, disc):
    return None


LEVEL_TEXT = ("Proof: C18_sublist (every filter, composites included, returns a subsequence of its input), C18_exact_selection + C18_documented_predicates, "
              "C18_composite_sequential, C18_rowlocal_commute / _idempotent / _intersection (for every row-local filter incl. composites of them, every "
              "parameter value at once), C18_regex_prefix_match (the derivative matcher decides prefix membership). Correspondence on the selected row ids, "
              "row contents and input purity for every filter class and random composites, encoded and decoded frames.")
LEVEL_NOTE = ("Hand model of the filter classes; the name pattern is translated from the Python regex by re._parser (fail-closed subset). CPython's regex "
              "engine is trusted to agree with the language semantics on that subset. QueryFilter (pandas query strings) is not modelled.")
TECHNIQUE = "Coq proof (filter algebra over a filter language with nested composites; verified regex matcher) + differential correspondence via vm_compute"
