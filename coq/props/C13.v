(* C13 property theorems: call-graph attributes agree with the tree (verified checker). *)
From HTA.lib Require Import Base.
From HTA.proof Require Import C13_Proofs.
From HTA.model Require Import C13_Model.
From HTA.proof Require Import Scale C13_Scale.
Open Scope Z_scope.

(* a table accepted by the checker reports, for every host row, the count, summed duration, earliest start, latest end
   and span of ALL device activities among its descendants ((0, 0, -1, -1, 0) when there are none) *)
Theorem C13_local_equations_sound : forall T, check_table T = true ->
  forall n, In n T -> n_dev n = false -> 0 <= n_height n -> aggregates n (klist T (Z.to_nat (n_height n)) n).
Proof. exact check_table_sound. Qed.
Print Assumptions C13_local_equations_sound.

Theorem C13_depth_parent_plus_one : forall T, (forall n, In n T -> local_ok T n) -> forall n, In n T ->
  match lookup_node T (n_parent n) with Some p => n_depth n = n_depth p + 1 | None => n_depth n = 0 end.
Proof. exact depth_rule. Qed.
Print Assumptions C13_depth_parent_plus_one.

Theorem C13_height_rule : forall T, (forall n, In n T -> local_ok T n) -> forall n, In n T ->
  if n_dev n then n_height n = 0 else n_height n = 1 + maxZ 0 (0 :: map n_height (kids T (n_id n))).
Proof. exact height_rule. Qed.
Print Assumptions C13_height_rule.

Theorem C13_checker_sound : forall T n, local_okb T n = true -> local_ok T n.
Proof. exact local_okb_sound. Qed.
Print Assumptions C13_checker_sound.

(* non-vacuity: op 0 -> {launch 1 -> kernel 3, op 2 -> launch 4 -> kernel 5}; kernels [10,13) and [20,24) *)
Definition t13 : list node :=
  [ mkNode 0 (-1) false 0 30 0 3 2 7 10 24 14; mkNode 1 0 false 1 2 1 1 1 3 10 13 3; mkNode 2 0 false 5 10 1 2 1 4 20 24 4;
    mkNode 3 1 true 10 3 2 0 1 3 10 13 3; mkNode 4 2 false 6 1 2 1 1 4 20 24 4; mkNode 5 4 true 20 4 3 0 1 4 20 24 4 ].
Example C13_nonvacuous : check_table t13 = true /\ map n_id (klist t13 3 (mkNode 0 (-1) false 0 30 0 3 2 7 10 24 14)) = [3; 5].
Proof. vm_compute. split; reflexivity. Qed.

(* resolution independence of the tree: times multiplied by k > 0 leave the parent relation (host trees, backward attachment, device
   children) unchanged, hence depth and height, which are functions of that relation alone *)
Theorem C13_tree_resolution_independent : forall k l, 0 < k -> parent_map (scale_evs k l) = parent_map l.
Proof. exact C13_parent_map_scale. Qed.
Print Assumptions C13_tree_resolution_independent.

(* ... and the kernel totals: the count is unchanged, the summed duration and the earliest start are multiplied by k, the latest
   end is multiplied by k or is still the sentinel -1 -- the statement the whole-microsecond truncation fixed in 1b44595 violated *)
Theorem C13_kernel_totals_resolution_independent : forall k fuel l devs m tmax i, 0 < k ->
  kinfo_rel k (kinfo_of fuel l devs m tmax i) (kinfo_of fuel (scale_evs k l) devs m (k * tmax) i).
Proof. exact C13_kinfo_scale. Qed.
Print Assumptions C13_kernel_totals_resolution_independent.
