(* C17: TraceDiff.compare_traces / ops_diff and LabeledTrace.extract_ops / get_ops_summary
   (hta/trace_diff.py), shorten_name (hta/utils/utils.py), hand model. *)
From HTA.lib Require Import Base.
Open Scope Z_scope.

Definition memZ (x : Z) (l : list Z) : bool := existsb (Z.eqb x) l.

(* ---------- shorten_name ---------- *)
Fixpoint remove_arrow (s : string) : string :=
  match s with
  | String a (String b r as t) => if Ascii.eqb a "-" && Ascii.eqb b ">" then remove_arrow r else String a (remove_arrow t)
  | _ => s
  end.

(* stack as a list with the top first *)
Fixpoint pop_until (c : ascii) (st : list ascii) : list ascii :=
  match st with
  | [] => []
  | x :: r => if Ascii.eqb x c then r else pop_until c r
  end.
Fixpoint scan (s : string) (st : list ascii) : list ascii :=
  match s with
  | EmptyString => st
  | String c r =>
      if Ascii.eqb c ">" then scan r (pop_until "<" st)
      else if Ascii.eqb c ")" then scan r (pop_until "(" st)
      else scan r (c :: st)
  end.
(* "".join(stack).split(" ")[-1]: the characters after the last space; the stack is top-first *)
Fixpoint take_to_space (st : list ascii) (acc : string) : string :=
  match st with
  | [] => acc
  | x :: r => if Ascii.eqb x " " then acc else take_to_space r (String x acc)
  end.
Fixpoint has_char (c : ascii) (s : string) : bool :=
  match s with EmptyString => false | String x r => Ascii.eqb x c || has_char c r end.

Definition shorten_name (n : string) : string :=
  if is_memory_kernel n then n
  else if negb (has_char "<" n) && negb (has_char "(" n) then n
  else take_to_space (scan (remove_arrow n) []) EmptyString.

(* ---------- extract_ops ---------- *)
(* dev: 0 = ALL, 1 = CPU (stream == -1), 2 = GPU (stream != -1) *)
Definition devsel (dev : Z) (e : ev) : bool :=
  if dev =? 1 then stream e =? -1 else if dev =? 2 then negb (stream e =? -1) else true.
Definition sel (frames : list (list ev)) (its : list Z) (dev : Z) : list ev :=
  filter (fun e => memZ (iter e) its && devsel dev e) (List.concat frames).

(* ---------- summary by (short) name ---------- *)
Definition key (short : bool) (e : ev) : string := if short then shorten_name (name e) else name e.
Definition cnt (short : bool) (k : string) (l : list ev) : Z := count (fun e => String.eqb (key short e) k) l.
Definition tot (short : bool) (k : string) (l : list ev) : Z :=
  sumZ (map dur (filter (fun e => String.eqb (key short e) k) l)).

Fixpoint dedup (l : list string) : list string :=
  match l with
  | [] => []
  | x :: r => if str_in x r then dedup r else x :: dedup r
  end.
Definition keys (short : bool) (c t : list ev) : list string := dedup (map (key short) (c ++ t)).

(* change classes of ops_diff: 0 added 1 deleted 2 increased 3 decreased 4 unchanged, as five masks *)
Definition masks (c t : Z) : list bool :=
  [ (c =? 0) && (0 <? t); (0 <? c) && (t =? 0); (0 <? c) && (0 <? t - c); (0 <? t) && (t - c <? 0); (0 <? t) && (t - c =? 0) ].
Definition sign (d : Z) : Z := if 0 <? d then 1 else if d <? 0 then -1 else 0.

Record drow := mkDrow { d_key : string; d_cc : Z; d_tc : Z; d_cd : Z; d_td : Z }.
Definition diff_rows (short : bool) (c t : list ev) : list drow :=
  map (fun k => mkDrow k (cnt short k c) (cnt short k t) (tot short k c) (tot short k t)) (keys short c t).

Definition encode_row (tab : list string) (r : drow) : list Z :=
  [ index_of (d_key r) tab; d_cc r; d_tc r; d_cd r; d_td r; d_tc r - d_cc r; d_td r - d_cd r; sign (d_tc r - d_cc r) ]
  ++ map b2z (masks (d_cc r) (d_tc r)).
Definition encode_C17 (tab : list string) (short : bool) (dev : Z)
    (cf : list (list ev)) (cits : list Z) (tf : list (list ev)) (tits : list Z) : list (list Z) :=
  sort_rows (map (encode_row tab) (diff_rows short (sel cf cits dev) (sel tf tits dev))).
