"""Regenerate MANIFEST.json from the property modules present (keeps it valid at all times)."""
import glob, importlib, json, os, sys
HERE = os.path.dirname(os.path.abspath(__file__))
sys.path.insert(0, HERE)
VERIF = os.path.dirname(HERE)
props = [json.loads(l) for l in open(os.path.join(VERIF, "properties.jsonl"))]
checks, na = [], []
for p in props:
    pid = p["id"]
    f = os.path.join(HERE, f"p{pid}.py")
    if os.path.exists(f):
        mod = importlib.import_module(f"p{pid}")
        checks.append({
            "property_id": pid,
            "quick_cmd": f"./check {pid} --tier quick",
            "thorough_cmd": f"./check {pid} --tier thorough",
            "evidence_file": f"/verif/evidence/{pid}.json",
            "replay_cmd_template": f"./check {pid} --replay {{path}}",
            "engine": "coq-model+correspondence",
            "level_claimed": {"category": "proof", "text": mod.LEVEL_TEXT, "design_ref": f"DESIGN.md section 5 ({pid})"},
            "level_note": mod.LEVEL_NOTE,
            "technique": mod.TECHNIQUE,
        })
    else:
        na.append({"property_id": pid, "reason": "not claimed yet: model, theorems and correspondence check not built at this commit (see DESIGN.md section 10 build order)"})
man = {
    "version": 1,
    "setup_cmd": "./setup.sh",
    "hooks": {"guard": "HTA_VERIF", "enable": "checks set HTA_VERIF=1 and PYTHONPATH=/repo; no source hook exists (everything observed is reachable through the public API)",
              "baseline_off_cmd": "cd /repo && /venv/bin/python -m pytest -ra -q -p no:cacheprovider --timeout=900 --continue-on-collection-errors",
              "source_commits": [], "add_only": True},
    "engines": [{"name": "coq-model+correspondence", "path": "/verif/check",
                 "serves_properties": [c["property_id"] for c in checks],
                 "kind_free_text": "Coq 8.16.1 theorems about executable Gallina models (coq/), tied to /repo by a fail-closed Python-ast translator (harness/translate.py) and by a correspondence run that evaluates the model with vm_compute on the inputs the real API was run on"}],
    "checks": checks,
    "notes": "See DESIGN.md. ./check honours VERIF_SEED / VERIF_TIER; replays are written under /verif/replays/.",
    "not_applicable": na,
}
if os.path.exists(os.path.join(VERIF, "fix_commits.json")):
    man["hooks"]["source_commits"] = json.load(open(os.path.join(VERIF, "fix_commits.json")))
json.dump(man, open(os.path.join(VERIF, "MANIFEST.json"), "w"), indent=1)
print("checks:", [c["property_id"] for c in checks], "not_applicable:", len(na))
