(* C19: CPGraph.save / restore_cpgraph (hta/analyzers/critical_path_analysis.py).  The field lists are GENERATED from the
   source (gen/SaveFields_gen.v); the three codecs (node-link + pickle for the graph, CSV for the clipped frame, pickle for
   the data object) are section variables with a round-trip hypothesis. *)
From HTA.lib Require Import Base.
From HTA.gen Require Import SaveFields_gen.

Definition all_reads : list string := flat_map snd observer_reads.

(* every attribute an observer reads is restored from a saved field, or set by __init__ on the restore path, or restored
   from the trace csv *)
Definition field_covered (f : string) : bool :=
  (str_in f restored_fields && str_in f saved_fields) || str_in f init_fields || str_in f restored_other.
Definition fields_covered : bool := forallb field_covered all_reads.
(* the dataclass, the save call and the restore function agree on the field list *)
Definition lists_agree : bool :=
  forallb (fun f => str_in f saved_fields && str_in f restored_fields) data_fields &&
  forallb (fun f => str_in f data_fields) saved_fields && forallb (fun f => str_in f data_fields) restored_fields.

Section SaveRestore.
  Variables V G T : Type.                 (* attribute values, the networkx graph, the clipped frame *)
  Variables PG PT PD : Type.              (* what is written to the three files *)
  Variable encG : G -> PG.  Variable decG : PG -> G.
  Variable encT : T -> PT.  Variable decT : PT -> T.
  Variable encD : list (string * V) -> PD.  Variable decD : PD -> list (string * V).

  Record gstate := mkState { s_graph : G; s_trace : T; s_attr : string -> V }.

  Fixpoint assoc (f : string) (l : list (string * V)) (d : V) : V :=
    match l with [] => d | (k, v) :: r => if String.eqb f k then v else assoc f r d end.

  Definition save (s : gstate) : PG * PT * PD :=
    (encG (s_graph s), encT (s_trace s), encD (map (fun f => (f, s_attr s f)) saved_fields)).

  (* base: the instance CPGraph(None, t_full, rank, G) creates before the attributes are copied back *)
  Definition restore (base : string -> V) (z : PG * PT * PD) : gstate :=
    let '(pg, pt, pd) := z in
    mkState (decG pg) (decT pt)
            (fun f => if str_in f restored_fields then assoc f (decD pd) (base f) else base f).

  Fixpoint cycles (n : nat) (base : string -> V) (s : gstate) : gstate :=
    match n with O => s | S k => cycles k base (restore base (save s)) end.

  (* what the property observes: the graph, the frame, and every attribute the observers read *)
  Definition observe (s : gstate) : G * T * list V := (s_graph s, s_trace s, map (s_attr s) all_reads).
End SaveRestore.
