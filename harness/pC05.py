"""C05: kernel breakdown partitions busy time by type and conserves per-kernel time."""
import math
import random
import tracegen
import framework as fw
import translate

ID = "C05"
COQ_IMPORTS = ["From HTA.model Require Import C05_Model."]
SOURCES = {"hta/analyzers/breakdown_analysis.py": ["get_gpu_kernel_breakdown", "_get_gpu_kernel_type_time", "_aggr_gpu_kernel_time",
                                                   "get_gpu_user_annotation_breakdown"],
           "hta/utils/utils.py": ["merge_kernel_intervals", "get_kernel_type", "is_comm_kernel", "is_memory_kernel", "is_compute_kernel"]}
TRANSLATE = [translate.gen_kernel_rules, translate.gen_launch_names, translate.gen_kernel_breakdown_rules]
INPUT_CONTRACT = True        # the loaded frame is re-checked against the file (framework.input_contract)
N_CASES = {"quick": 300, "thorough": 5000}
RULE = ("generated file sets (free placement of device intervals on tiny time domains: identical, nested, touching, zero-length; computation, communication and "
        "memory kernels; few distinct names occurring several times so that bucketing happens; gpu_user_annotation events), 1-3 ranks; num_kernels in 1..12, "
        "duration_ratio k/16, with and without memory kernels; compared: every row of the kernel-type table (times summed over ranks, percentages), every row of "
        "the per-kernel table and of get_gpu_user_annotation_breakdown; when two names have equal total durations the choice of which lands in 'others' is left "
        "free and only the property itself is checked (sum conserved, at most num_kernels named rows, named rows carry their own kernels' statistics); "
        "non-trivial = some (rank, type) has more names than num_kernels and a kept name occurring at least twice; distinct = hash of file set and parameters")
ASSUMPTIONS = ["durations non-negative", "means compared with relative tolerance 1e-9, percentages with 0.05+1e-9 (one decimal)",
               "duration_ratio is drawn as k/16 so that the interpolated quantile is exact in double arithmetic and the comparison cumsum > quantile cannot flip"]
TYPES = ["COMPUTATION", "COMMUNICATION", "MEMORY"]


def gen_cases(seed, tier, n):
    out = []
    profs = ["kbreak_fewnames", "kbreak", "kbreak_fewnames", "comm_overlap"]
    for i in range(n):
        if i % 10 == 9:
            c = tracegen.gen_chain_case(seed, i)        # every duration below 128 (int8 column), sums and unions far above
        else:
            c = tracegen.gen_case(seed, i, tracegen.PROFILES[profs[i % len(profs)]])
        rng = random.Random(seed * 7919 + i)
        c["params"] = {"numk": rng.choice([1, 1, 2, 2, 3, 4, 5, 8, 12]), "k16": rng.randint(1, 16), "mem": rng.random() < 0.5}
        if i % 3 == 1:
            tracegen.relabel_ranks(c)      # a subset of a job: rank ids are not 0..n-1, and not listed in order
        if i % 6 == 3:
            # history: the trace is decoded for display (decode_symbol_ids(), shortened names) before the analysis runs; some kernels have
            # names whose kind is decided by the part the shortening strips
            import random as _r
            tracegen.tricky_kernel_names(c, _r.Random(seed * 271 + i))
            c["params"]["decoded"] = True
        if i % 8 == 6:
            fw.set_quarter_us(c)           # quarter-microsecond resolution (framework.resolution)
        if i % 16 == 3 and not c["params"].get("quarter_us"):
            tracegen.scale_case_int32_edge(c)    # latest start just below 2**31, latest ends above
        if i % 16 == 11 and not c["params"].get("quarter_us"):
            tracegen.scale_case(c, 10 ** 8)     # a long trace: sums beyond 2**24 and 2**31 (the models are homogeneous in time)
        out.append(c)
    return out


def _rows(df, by, k=1):
    out = {}
    for rec in df.to_dict("records"):
        key = tuple(rec[b] for b in by)
        out.setdefault(key, []).append({"name": str(rec["name"]), "sum": float(rec["sum (us)"]) * k, "max": float(rec["max (us)"]) * k,
                                        "min": float(rec["min (us)"]) * k, "mean": float(rec["mean (us)"]) * k})
    return out


def run_impl(case, d):
    k = fw.time_scale(case)
    with fw.resolution(case):
        ta, paths = fw.load_case_res(case, d)
        sym = ta.t.symbol_table.get_sym_table()
        ranks = sorted(ta.t.get_ranks())
        frames = {r: fw.dump_frame_res(case, ta.t.get_trace(r), sym) for r in ranks}
        p = case["params"]
        out = {}
        if case["params"].get("decoded"):
            ta.t.decode_symbol_ids()
        if case.get("case_no", 0) % 4 == 2 and not case["params"].get("decoded"):
            import cp_common
            cp_common.cp_analysis_first(ta, frames, sorted(frames))        # history: another analysis of the same object first
        try:
            tdf, kdf = ta.get_gpu_kernel_breakdown(visualize=False, duration_ratio=p["k16"] / 16.0, num_kernels=p["numk"], include_memory_kernels=p["mem"])
            out["types"] = [[str(rec["kernel_type"]), float(rec["sum"]) * k, float(rec["percentage"])] for rec in tdf.to_dict("records")]
            out["kernels"] = {f"{int(key[0])}|{key[1]}": v for key, v in _rows(kdf, ["rank", "kernel_type"], k).items()}
        except Exception as e:
            out["error"] = "get_gpu_kernel_breakdown: " + type(e).__name__ + ": " + str(e)[:200]
        try:
            adf = ta.get_gpu_user_annotation_breakdown(visualize=False, duration_ratio=p["k16"] / 16.0, num_kernels=p["numk"])
            out["anno"] = None if adf is None else {str(int(key[0])): v for key, v in _rows(adf, ["rank"], k).items()}
        except Exception as e:
            out["anno_error"] = "get_gpu_user_annotation_breakdown: " + type(e).__name__ + ": " + str(e)[:200]
    return {"frames": frames, "out": out, "frames_altered": fw.frames_altered(case, ta, frames, sym)}


def _tab(impl):
    return sorted({r["name"] for rows in impl["frames"].values() for r in rows})


def coq_term(case, impl):
    p = case["params"]
    tab = fw.sl(_tab(impl))
    return "[" + ";\n ".join(f"encode_C05 {tab} {fw.b(p['mem'])} {fw.z(p['numk'])} {fw.z(p['k16'])} {fw.evl(rows)}"
                             for r, rows in sorted(impl["frames"].items())) + "]"


def _label(m):
    return " overlapping ".join(t for i, t in enumerate(TYPES) if m >> i & 1)


def _check_table(where, rows, aggr_m, groups_m, tab, numk, disc):
    """rows: implementation rows of one (rank, type); aggr_m: model's (named rows, others total); groups_m: all groups."""
    groups = {tab[g[0]]: g[1:] for g in groups_m}          # name -> [sum, max, min, cnt]
    total = sum(g[0] for g in groups.values())
    named = [r for r in rows if r["name"] != "others"]
    others = [r for r in rows if r["name"] == "others"]
    if len(others) > 1:
        disc.append(f"{where}: more than one 'others' row")
    got_total = sum(r["sum"] for r in rows)
    if got_total != total:
        disc.append(f"{where}: reported sums add up to {got_total}, the kernels' durations add up to {total}")
    if len(named) > numk and len(groups) > numk:
        disc.append(f"{where}: {len(named)} named rows, num_kernels={numk}")
    if len(groups) <= numk and (others or len(named) != len(groups)):
        disc.append(f"{where}: {len(groups)} names <= num_kernels={numk} but rows are {[r['name'] for r in rows]}")
    seen = set()
    for r in named:
        g = groups.get(r["name"])
        if g is None:
            disc.append(f"{where}: row for unknown name {r['name']!r}")
            continue
        if r["name"] in seen:
            disc.append(f"{where}: name {r['name']!r} listed twice")
        seen.add(r["name"])
        s_, mx, mn, cnt = g
        if (r["sum"], r["max"], r["min"]) != (s_, mx, mn) or abs(r["mean"] - s_ / cnt) > 1e-9 * max(1.0, abs(s_ / cnt)):
            disc.append(f"{where}: row {r['name']!r} reports sum/max/min/mean = {r['sum']}/{r['max']}/{r['min']}/{r['mean']}, its {cnt} kernels have "
                        f"{s_}/{mx}/{mn}/{s_ / cnt}")
    sums = [g[0] for g in groups.values()]
    if len(set(sums)) == len(sums):
        # no equal totals: the bucketing is determined; compare which names are kept and the 'others' total
        m_named, m_others = aggr_m
        want = sorted(tab[g[0]] for g in m_named)
        if sorted(r["name"] for r in named) != want:
            disc.append(f"{where}: named rows impl={sorted(r['name'] for r in named)} model={want}")
        o_sum = others[0]["sum"] if others else -1
        if o_sum != m_others:
            disc.append(f"{where}: 'others' total impl={o_sum} model={m_others}")


def compare(case, impl, model):
    o = impl["out"]
    p = case["params"]
    if "error" in o:
        return [o["error"] + f" (params {p})"]
    disc = []
    if "anno_error" in o:
        disc.append(o["anno_error"])
    tab = _tab(impl)
    masks = [1, 2, 3, 4, 5, 6, 7] if p["mem"] else [1, 2, 3]
    want = {_label(m): 0 for m in masks}
    ranks = sorted(impl["frames"])
    for r, m in zip(ranks, model):
        types_m, aggr_ms, groups_ms, anno = m
        anno_aggr, anno_groups = (anno[0], anno[1]), anno[2]
        for mk, v in zip(masks, types_m):
            want[_label(mk)] += v
        for ti, ty in enumerate(TYPES[:3 if p["mem"] else 2]):
            rows = o["kernels"].get(f"{r}|{ty}", [])
            _check_table(f"rank {r} type {ty} (num_kernels={p['numk']}, ratio={p['k16']}/16)", rows, aggr_ms[ti], groups_ms[ti], tab, p["numk"], disc)
        if o.get("anno") is not None:
            _check_table(f"rank {r} gpu_user_annotation (num_kernels={p['numk']}, ratio={p['k16']}/16)", o["anno"].get(str(r), []), anno_aggr, anno_groups, tab,
                         p["numk"], disc)
        elif "anno_error" not in o and anno_groups:
            disc.append(f"rank {r}: get_gpu_user_annotation_breakdown returned None but the rank has gpu_user_annotation events")
    got = {}
    for lab, s_, pct in o["types"]:
        if lab in got:
            disc.append(f"kernel-type table lists {lab!r} twice")
        got[lab] = (s_, pct)
    total = sum(want.values())
    for lab in sorted(set(want) | set(got)):
        s_, pct = got.get(lab, (0.0, None))
        if s_ != want.get(lab, 0):
            disc.append(f"kernel-type table: time[{lab}] impl={s_} model={want.get(lab, 0)} (all: impl={ {k: v[0] for k, v in got.items()} } model={want})")
        elif pct is not None and total > 0 and abs(pct - 100.0 * want.get(lab, 0) / total) > 0.05 + 1e-9:
            disc.append(f"kernel-type table: percentage[{lab}] impl={pct} exact={100.0 * want.get(lab, 0) / total}")
    return disc[:8]


def nontrivial(case, impl):
    o = impl["out"]
    if "kernels" not in o:
        return False
    numk = case["params"]["numk"]
    for key, rows in o["kernels"].items():
        if any(r["name"] == "others" for r in rows) and any(r["name"] != "others" and r["max"] != r["min"] for r in rows):
            return True
    return False


def classify(case, impl, model, disc):
    return None


LEVEL_TEXT = ("Proof: C05_type_rows_exact (for every tie order of the boundary rows the time credited to a bit pattern is the number of time cells during which exactly "
              "that combination of kernel types runs), C05_type_rows_partition (the patterns' times add up to the measure of the union), C05_sum_conserved, "
              "C05_named_at_most_k, C05_named_row_stats for every num_kernels >= 1 and every bucketing; correspondence on both returned frames of "
              "get_gpu_kernel_breakdown and on get_gpu_user_annotation_breakdown."
              " C05_types_resolution_independent: times multiplied by k > 0 multiply every combination's time by k."
              " C05_rules_follow_source: the type bits of the sweep, the condition for aggregating at all and the rule that moves a row to 'others' are read from _get_gpu_kernel_type_time / _aggr_gpu_kernel_time (statement sequence pinned by digest) and are the model's.")
LEVEL_NOTE = ("Hand model of _get_gpu_kernel_type_time (per-type merge, +-2^i rows, sort, running sum) and _aggr_gpu_kernel_time (group, sort by sum, cumulative "
              "sum, interpolated quantile, the two 'others' rules). Which of several names with equal totals lands in 'others' is left free.")
TECHNIQUE = "Coq proof (sweep-line lemma with bit-pattern selection, cell-counting measure; list induction for the aggregator) + differential correspondence via vm_compute"
