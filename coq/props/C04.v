(* C04 property theorems: temporal breakdown is an exact partition of the GPU activity span. *)
From Coq Require Import Permutation Sorted.
From HTA.lib Require Import Base Cells Intervals.
From HTA.model Require Import C04_Model.
From HTA.gen Require Import KernelRules_gen.
From HTA.proof Require Import KernelRulesTie C04_Proofs.
From HTA.gen Require Import BreakdownRules_gen.
From HTA.proof Require Import Scale C04_Scale C04_RulesTie.

(* For EVERY ts-sorted permutation D', C' of the device / computation intervals (pandas' unstable
   sort may return any of them): kernel_time = span, idle = uncovered cells, compute = cells covered
   by computation kernels, non_compute = the remainder; all >= 0; they add up to kernel_time. *)
Theorem C04_parts_exact : forall (l : list ev),
  durs_nonneg l -> dev_itvs l <> [] ->
  forall D' C', Permutation (dev_itvs l) D' -> sorted_ts D' -> Permutation (comp_itvs l) C' -> sorted_ts C' ->
  let '(idle, comp, noncomp, kt) := breakdown D' C' in
  exists lo hi, is_min_start lo (dev_itvs l) /\ is_max_end hi (dev_itvs l) /\ lo <= hi /\
    kt = hi - lo /\
    idle = cells (fun t => negb (covered (dev_itvs l) t)) lo hi /\
    comp = cells (covered (comp_itvs l)) lo hi /\
    noncomp = cells (fun t => covered (dev_itvs l) t && negb (covered (comp_itvs l) t)) lo hi /\
    0 <= idle /\ 0 <= comp /\ 0 <= noncomp /\ idle + comp + noncomp = kt.
Proof. exact model_parts_exact. Qed.
Print Assumptions C04_parts_exact.

Theorem C04_model_is_instance : forall l,
  model_C04 l = breakdown (sort_ts (dev_itvs l)) (sort_ts (comp_itvs l)) /\
  Permutation (dev_itvs l) (sort_ts (dev_itvs l)) /\ sorted_ts (sort_ts (dev_itvs l)) /\
  Permutation (comp_itvs l) (sort_ts (comp_itvs l)) /\ sorted_ts (sort_ts (comp_itvs l)).
Proof. exact model_is_instance. Qed.
Print Assumptions C04_model_is_instance.

Theorem C04_asserts_hold : forall (l : list ev),
  durs_nonneg l -> dev_itvs l <> [] ->
  forall D' C', Permutation (dev_itvs l) D' -> sorted_ts D' -> Permutation (comp_itvs l) C' -> sorted_ts C' ->
  let '(idle, comp, noncomp, kt) := breakdown D' C' in idle <= kt /\ comp <= kt /\ 0 <= noncomp.
Proof. exact asserts_hold. Qed.
Print Assumptions C04_asserts_hold.

(* the interval-union routine itself, for every ts-sorted input *)
Theorem C04_merge_measure : forall l lo hi,
  wf_itvs l -> sorted_ts l -> l <> [] -> (forall i, In i l -> lo <= fst i /\ snd i <= hi) ->
  total (merge_sorted l) = cells (covered l) lo hi.
Proof. exact merge_sorted_measure. Qed.
Print Assumptions C04_merge_measure.

Theorem C04_merge_separated : forall l, wf_itvs l -> sorted_ts l -> separated (merge_sorted l).
Proof. exact merge_sorted_separated. Qed.
Print Assumptions C04_merge_separated.

(* non-vacuity: identical, nested, touching, zero-length, equal-start intervals; a comm kernel *)
Definition ex04 : list ev :=
  [ mkEv 0 0 1 1 1 (-1) (-1) (-1) (-1) "aten::zeros" "cpu_op";
    mkEv 1 2 3 0 7 7 1 0 (-1) "gemm" "kernel";
    mkEv 2 2 3 0 8 8 2 0 (-1) "gemm" "kernel";
    mkEv 3 5 2 0 7 7 3 0 (-1) "ncclKernel_AllReduce" "kernel";
    mkEv 4 3 1 0 9 9 4 0 (-1) "relu" "kernel";
    mkEv 5 9 0 0 7 7 5 0 (-1) "zero" "kernel";
    mkEv 6 10 2 0 7 7 6 0 (-1) "Memcpy DtoH" "gpu_memcpy" ].
Example C04_nonvacuous : encode_C04 ex04 = [3; 3; 4; 10].
Proof. vm_compute. reflexivity. Qed.

(* the tie by regeneration: the kernel classification of the model is the chain GENERATED from the current source (get_kernel_type, the codes of
   KernelType, the three regex wrappers; the regular expressions themselves are compared literally on every run) *)
Theorem C04_kernel_types_follow_source : forall n,
  ktype_code (get_kernel_type n) = kernel_type_gen (is_comm_kernel n) (is_memory_kernel n) (is_compute_kernel n).
Proof. exact kernel_type_is_generated. Qed.
Print Assumptions C04_kernel_types_follow_source.

(* resolution independence: a trace whose times are multiplied by k > 0 (fractional microseconds brought to a common denominator)
   has k times the idle, compute, non-compute and kernel time -- the percentages are those of the original *)
Theorem C04_resolution_independent : forall k l, 0 < k -> model_C04 (scale_evs k l) = scale4 k (model_C04 l).
Proof. exact C04_scale. Qed.
Print Assumptions C04_resolution_independent.

(* the grouping test of merge_kernel_intervals (a new group iff the start is STRICTLY greater than the running maximum of the previous ends)
   and the arithmetic of the four reported times are read from the source on every run (strict statement-by-statement reading of
   merge_kernel_intervals, _get_idle_time_for_kernels and the per-rank helper) and are the model's *)
Theorem C04_rules_follow_source : forall (D' C' : list itv) cs ce m s e r,
  breakdown D' C' = breakdown_gen (first_ts (merge_sorted D')) (last_end (merge_sorted D')) (total (merge_sorted D')) (total (merge_sorted C')) /\
  merge_aux cs ce m ((s, e) :: r) =
    (if new_group_gen m s then (cs, ce) :: merge_aux s e (Z.max m e) r else merge_aux (Z.min cs s) (Z.max ce e) (Z.max m e) r).
Proof. exact breakdown_rules_are_generated. Qed.
Print Assumptions C04_rules_follow_source.
