(* The row predicates of the filter model are the ones GENERATED from the current source (gen/FilterRules_gen.v). *)
From Coq Require Import ZArith List Bool String Lia.
From HTA.lib Require Import Base Regex.
From HTA.gen Require Import FilterRules_gen.
From HTA.model Require Import C18_Model.
Import ListNotations.
Open Scope Z_scope.

Lemma is_dev_is_generated e : is_dev e = dev_pred_table_gen e.
Proof.
  unfold is_dev, dev_pred_table_gen, str_in. cbn [existsb]. rewrite !Z.geb_leb, orb_false_r, orb_assoc. reflexivity.
Qed.

Theorem filter_predicates_are_generated with_tab tab l x :
  (forall lo hi, pred with_tab tab (FTime lo hi) l x = time_pred_gen lo hi (fst x)) /\
  pred with_tab tab FGpu l x = (if with_tab then xorb gpu_table_negated_gen (dev_pred_table_gen (fst x)) else gpu_pred_notable_gen (fst x)) /\
  pred with_tab tab FCpu l x = (if with_tab then xorb cpu_table_negated_gen (dev_pred_table_gen (fst x)) else cpu_pred_notable_gen (fst x)).
Proof.
  split; [intros lo hi; reflexivity|]. cbn [pred]. unfold is_host. rewrite is_dev_is_generated.
  unfold gpu_table_negated_gen, cpu_table_negated_gen, gpu_pred_notable_gen, cpu_pred_notable_gen. rewrite !Z.geb_leb.
  split; destruct with_tab; cbn [xorb]; try reflexivity.
  destruct (dev_pred_table_gen (fst x)); reflexivity.
Qed.
