(* C06 property theorems: idle-time breakdown = gaps between stream-consecutive kernels, classified by rule. *)
From Coq Require Import Permutation Sorted.
From HTA.lib Require Import Base.
From HTA.model Require Import C06_Model.
From HTA.proof Require Import C06_Proofs.
From HTA.gen Require Import IdleRules_gen.
From HTA.proof Require Import Scale C06_Scale C06_RulesTie.
Open Scope Z_scope.

Theorem C06_gaps_are_consecutive : forall l d prev ks, map snd (walk l d prev ks) = consecutive_gaps prev ks.
Proof. exact gaps_are_consecutive. Qed.
Print Assumptions C06_gaps_are_consecutive.

(* the stream's kernels are handled in start order: the sort returns a start-ordered permutation *)
Theorem C06_start_order : forall l, Permutation l (sort_ev l) /\ StronglySorted (fun a b => ts a <= ts b) (sort_ev l).
Proof. intro l. split; [apply sort_ev_perm | apply sort_ev_sorted]. Qed.
Print Assumptions C06_start_order.

Theorem C06_ties_by_end : forall l, StronglySorted lex_le (sort_ev l).
Proof. exact sort_ev_lex. Qed.
Print Assumptions C06_ties_by_end.

Theorem C06_gaps_nonneg : forall prev ks, chain ks -> (forall k r, ks = k :: r -> prev <= ts k) ->
  Forall (fun g => 0 <= g) (consecutive_gaps prev ks).
Proof. exact gaps_nonneg. Qed.
Print Assumptions C06_gaps_nonneg.

Theorem C06_classification : forall d rt prev gap,
  let c := classify d rt prev gap in
  (c = 0 <-> exists r, rt = Some r /\ prev < r) /\
  (c = 1 <-> ~ (exists r, rt = Some r /\ prev < r) /\ gap < d) /\
  (c = 2 <-> ~ (exists r, rt = Some r /\ prev < r) /\ d <= gap) /\
  (c = 0 \/ c = 1 \/ c = 2).
Proof. exact classification. Qed.
Print Assumptions C06_classification.

(* the 'launch call' of the rule is the row the kernel is positively linked to, nothing else *)
Theorem C06_launch_call : forall l k r, ts_runtime l k = Some r ->
  0 < icorr k /\ exists c, In c l /\ idx c = icorr k /\ ts c = r.
Proof. exact ts_runtime_spec. Qed.
Print Assumptions C06_launch_call.

(* a stream's categories add up to its span minus its busy time *)
Theorem C06_telescope : forall l d k r,
  let gs := gaps_sorted l d (k :: r) in
  cat_sum 0 gs + cat_sum 1 gs + cat_sum 2 gs = (eend (last (k :: r) k) - ts k) - sumZ (map dur (k :: r)).
Proof. exact telescope. Qed.
Print Assumptions C06_telescope.

Theorem C06_last_ends_last : forall ks k0, chain ks -> forall k, In k ks -> eend k <= eend (last ks k0).
Proof. exact chain_last_max. Qed.
Print Assumptions C06_last_ends_last.

(* non-vacuity: launch after the previous kernel ended (host_wait 6), short gap (kernel_wait 1), long gap (other 10),
   an unlinked kernel after a zero-length one *)
Definition ex06 : list ev :=
  [ mkEv 0 40 1 1 1 (-1) (-1) (-1) (-1) "aten::zeros" "cpu_op";
    mkEv 1 0 1 1 1 (-1) 1 2 (-1) "cudaLaunchKernel" "cuda_runtime";
    mkEv 2 2 3 0 7 7 1 1 (-1) "k0" "kernel";
    mkEv 3 8 1 1 1 (-1) 2 4 (-1) "cudaLaunchKernel" "cuda_runtime";
    mkEv 4 11 2 0 7 7 2 3 (-1) "k1" "kernel";
    mkEv 5 1 1 1 1 (-1) 3 6 (-1) "cudaLaunchKernel" "cuda_runtime";
    mkEv 6 14 0 0 7 7 3 5 (-1) "k2" "kernel";
    mkEv 7 24 2 0 7 7 9 0 (-1) "orphan" "gpu_memcpy" ].
Example C06_nonvacuous : encode_C06 ex06 5 [7; 8] = [[6; 1; 10]; [0; 0; 0]].
Proof. vm_compute. reflexivity. Qed.

(* resolution independence: times and threshold multiplied by k > 0 give k times every category's idle time (same classification) *)
Theorem C06_resolution_independent : forall k l d s, 0 < k ->
  model_C06 (scale_evs k l) (k * d) s = map (Z.mul k) (model_C06 l d s).
Proof. exact C06_scale. Qed.
Print Assumptions C06_resolution_independent.

(* the classification rule is regenerated from _analyze_idle_time_for_stream on every run (strict statement-by-statement reading) and
   is the model's; the rows are ordered by (start, end) as the code sorts them *)
Theorem C06_rules_follow_source : forall d rt prev_end gap, classify d rt prev_end gap = classify_gen d rt prev_end gap.
Proof. exact idle_rules_are_generated. Qed.
Print Assumptions C06_rules_follow_source.
