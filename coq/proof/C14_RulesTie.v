(* C14: the increments, the device-row test, the order inside one instant and the floor of a zero-length copy used by the model are
   those read from the source (gen/CounterRules_gen.v) *)
From HTA.lib Require Import Base.
From HTA.model Require Import C14_Model.
From HTA.gen Require Import CounterRules_gen.
Open Scope list_scope.
Open Scope Z_scope.

Theorem counter_rules_are_generated : forall l,
  (forall x y, q_lt x y = queue_before_gen (q_ts x) (q_delta x) (q_ts y) (q_delta y)) /\
  dev_rows l = filter (fun e => is_dev_queue_gen (stream e)) l /\
  Forall (fun r => q_delta r = launch_delta_gen) (launch_rows l) /\
  Forall (fun r => q_delta r = kernel_delta_gen) (kernel_rows l) /\
  (forall e, dur1 e = bw_dur_gen (dur e)) /\
  (forall e, is_mem e = true -> is_dev_bw_gen (stream e) = true).
Proof.
  intros l. repeat split.
  - unfold launch_rows. apply Forall_forall. intros r Hr. apply in_flat_map in Hr. destruct Hr as [x [_ Hx]].
    apply in_map_iff in Hx. destruct Hx as [k [Hk _]]. subst r. reflexivity.
  - unfold kernel_rows. apply Forall_forall. intros r Hr. apply in_map_iff in Hr. destruct Hr as [k [Hk _]]. subst r. reflexivity.
  - intros e H. unfold is_mem in H. apply andb_true_iff in H. exact (proj1 H).
Qed.
