(* C16: get_frequent_cuda_kernel_sequences (hta/analyzers/cuda_kernel_analysis.py) on top of the call graph (C13's model). *)
From HTA.lib Require Import Base.
From HTA.gen Require Import Cmp_gen.
From HTA.model Require Import C03_Model C13_Model.
Open Scope Z_scope.

(* device activities among the descendants of node i *)
Fixpoint desc_dev (fuel : nat) (devs : list Z) (m : list (Z * Z)) (i : Z) : list Z :=
  match fuel with
  | O => []
  | S f => flat_map (fun c => if is_dev_node devs c then [c] else desc_dev f devs m c) (children m i)
  end.

Fixpoint insert_k (x : ev) (l : list ev) : list ev :=
  match l with [] => [x] | y :: r => if ts x <? ts y then x :: l else y :: insert_k x r end.
Definition sort_k (l : list ev) : list ev := fold_right insert_k [] l.

Definition ev_of (l : list ev) (i : Z) : list ev := match find (fun e => idx e =? i) l with Some e => [e] | None => [] end.

Record inst := mkInst { i_pat : list string; i_gpu : Z; i_cpu : Z }.

Fixpoint list_eqb (a b : list string) : bool :=
  match a, b with
  | [], [] => true
  | x :: a', y :: b' => String.eqb x y && list_eqb a' b'
  | _, _ => false
  end.

Fixpoint dedup_p (l : list (list string)) : list (list string) :=
  match l with
  | [] => []
  | x :: r => if existsb (list_eqb x) r then dedup_p r else x :: dedup_p r
  end.

Definition instances (l : list ev) (op : string) (minlen : Z) : list inst :=
  let m := parent_map l in
  let devs := map fst (dev_edges l) in
  let fuel := S (List.length l) in
  let tmax := 2 * maxZ 0 (map ts l) in
  let cand := filter (fun e => contains op (name e)) l in
  let depth e := match lookupZ (idx e) m with Some _ => depth_of fuel m (idx e) | None => -1 end in
  let nk e := match lookupZ (idx e) m with Some _ => fst (fst (fst (kinfo_of fuel l devs m tmax (idx e)))) | None => 0 end in
  let ks e := match lookupZ (idx e) m with Some _ => snd (fst (fst (kinfo_of fuel l devs m tmax (idx e)))) | None => 0 end in
  match cand with
  | [] => []
  | c0 :: _ =>
      let dmin := minZ (depth c0) (map depth cand) in
      map (fun r => mkInst (name r :: map name (sort_k (flat_map (ev_of l) (desc_dev fuel devs m (idx r)))))
                           (if nk r <=? 0 then 0 else ks r) (dur r))
          (filter (fun e => (depth e =? dmin) && (minlen <=? nk e)) cand)
  end.

Definition pat_count (p : list string) (is : list inst) : Z := count (fun i => list_eqb (i_pat i) p) is.
Definition pat_gpu (p : list string) (is : list inst) : Z := sumZ (map i_gpu (filter (fun i => list_eqb (i_pat i) p) is)).
Definition pat_cpu (p : list string) (is : list inst) : Z := sumZ (map i_cpu (filter (fun i => list_eqb (i_pat i) p) is)).

Definition patterns (is : list inst) : list (list string * Z * Z * Z) :=
  map (fun p => (p, pat_count p is, pat_gpu p is, pat_cpu p is)) (dedup_p (map i_pat is)).

Definition encode_C16 (tab : list string) (l : list ev) (op : string) (minlen : Z) : list (list Z) :=
  sort_rows (map (fun r : list string * Z * Z * Z => let '(p, c, g, u) := r in (c :: g :: u :: map (fun s => index_of s tab) p)%list) (patterns (instances l op minlen))).
