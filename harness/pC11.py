"""C11: symbol ids are a stable bijection; results ignore id numbering and parse order."""
import json
import os
import random
import subprocess
import sys
import tracegen
import framework as fw
import translate

ID = "C11"
COQ_IMPORTS = ["From HTA.gen Require Import Symtab_gen.", "From HTA.model Require Import C11_Model."]
SOURCES = {"hta/common/trace_symbol_table.py": ["TraceSymbolTable", "_SymbolCollector"],
           "hta/common/trace.py": ["parse_multiple_ranks", "parse_single_rank"], "hta/common/trace_parser.py": ["_compress_df"]}
TRANSLATE = [translate.gen_symtab]
N_CASES = {"quick": 150, "thorough": 2000}
RULE = ("two kinds of case. (a) random histories of add_symbols (with repeats) / add_symbols_mp / clone / combine_symbol_tables over a pool of tables, symbols from a "
        "small alphabet: sym_table and sym_index of every table compared with the model after the history (add_symbols_mp: the appended order is taken from the "
        "implementation, its set and the prefix rule are checked). (b) metamorphic: a generated multi-rank file set is loaded and 11 public getters are evaluated "
        "in fresh interpreters under 3 further hash seeds x process pool on/off x ascending/descending/rotated rank dictionaries x reversed worker completion "
        "order; all canonical outputs must be identical, the table a bijection, and every row must decode to the file's strings; non-trivial = a history with a "
        "repeat and >= 3 tables, or a metamorphic case with >= 2 ranks of different vocabularies; distinct = hash of the history / file set")
ASSUMPTIONS = ["pool.map returns results in argument order whatever the completion order (Python's contract; exercised with reversed completion order, not proved)",
               "independence of the ANALYSES from the id numbering is established by the metamorphic runs (testing), not by a theorem: the Coq models consume "
               "decoded strings, so their independence is by construction and says nothing about the code"]
ALPHA = ["a", "b", "kernel", "cpu_op", "aten::add", "", "x y", "ProfilerStep#1", "nccl", "Memcpy", "c", "d", "e", "cuda_runtime", "Z"]


def gen_cases(seed, tier, n):
    out = []
    n_meta = 10 if tier == "quick" else 60
    for i in range(n):
        rng = random.Random(seed * 7919 + i)
        if i < n_meta:
            # every third metamorphic case has a vocabulary beyond 127 symbols, different per rank (narrow local id types, wide global ids)
            if i % 10 == 4:
                # nine or ten ranks of different sizes: the process pool is sized from a memory estimate (more than 8 ranks)
                from dataclasses import replace as _replace
                c = tracegen.gen_case(seed, i, _replace(tracegen.PROFILES["meta"], name="meta+manyranks", n_ranks=(9, 10), tmax_choices=(12, 24, 40)))
            else:
                c = tracegen.gen_case(seed, i, tracegen.PROFILES["meta_bigvocab" if i % 3 == 2 else "meta"])
            if i % 3 == 1:
                tracegen.make_superset_rank(c, rng)     # a later rank whose vocabulary is the union of all ranks'
            c["kind"] = "meta"
            c["params"] = {"kind": "meta"}
            if i % 2 == 1:
                # two device-side annotations of EQUAL duration that overlap each other and a kernel of their stream: which of them a kernel
                # is credited to must not depend on the numbering of the symbols
                for rk in c["ranks"].values():
                    ks = [e for e in rk["events"] if e.get("cat") == "kernel" and "stream" in (e.get("args") or {}) and e.get("dur", 0) > 0]
                    for k_ in ks[:3]:
                        L = k_["dur"] + 4
                        for nm, off in (("zz_phase_tie", 2), ("aa_phase_tie", 1), ("mm_phase_tie", 3)):
                            rk["events"].append({"ph": "X", "cat": "gpu_user_annotation", "name": nm, "pid": k_["pid"], "tid": k_["tid"],
                                                 "ts": k_["ts"] - off, "dur": L, "args": {"stream": k_["args"]["stream"]}})
        else:
            ops = []
            npool = 1
            for _ in range(rng.randint(1, 9)):
                k = rng.random()
                if k < 0.55:
                    ops.append(["add", rng.randrange(npool), [rng.choice(ALPHA) for _ in range(rng.randint(0, 7))]])
                elif k < 0.6 and i % 10 == 0:
                    ops.append(["addmp", rng.randrange(npool), [[rng.choice(ALPHA) for _ in range(rng.randint(0, 4))] for _ in range(rng.randint(1, 3))]])
                elif k < 0.8:
                    ops.append(["clone", rng.randrange(npool)])
                    npool += 1
                else:
                    ops.append(["combine", [rng.randrange(npool) for _ in range(rng.randint(0, 3))]])
                    npool += 1
            c = {"ranks": {}, "profile": "history", "seed": seed, "case_no": i, "kind": "history", "params": {"kind": "history", "ops": ops}}
        out.append(c)
    return out


def run_meta(case, d):
    cf = os.path.join(d, "case.json")
    json.dump({"ranks": case["ranks"]}, open(cf, "w"))
    configs = [("0", False, "asc", False), ("1", True, "desc", True), ("2", False, "rot", False), ("3", True, "asc", False)]
    if len(case["ranks"]) < 2:
        configs = configs[:2]
    outs = []
    for hs, mp_, order, delay in configs:
        wd = os.path.join(d, f"w{hs}")
        os.makedirs(wd, exist_ok=True)
        env = dict(os.environ, PYTHONHASHSEED=hs, PYTHONPATH=fw.REPO, HTA_REPO=fw.REPO)
        p = subprocess.run([sys.executable, os.path.join(fw.VERIF, "harness", "meta_runner.py"), cf, wd, "1" if mp_ else "0", order, "1" if delay else "0"],
                           env=env, stdout=subprocess.PIPE, stderr=subprocess.PIPE, text=True, timeout=600)
        line = [ln for ln in p.stdout.splitlines() if ln.startswith("META_RESULT ")]
        outs.append({"config": [hs, mp_, order, delay], "result": json.loads(line[0][12:]) if line else {"crash": p.stderr[-400:]}})
    return {"meta": outs}


def run_impl(case, d):
    if case["kind"] == "meta":
        return run_meta(case, d)
    from hta.common.trace_symbol_table import TraceSymbolTable
    pool = [TraceSymbolTable()]
    model_ops = []
    problems = []

    def views(t, when):
        # the cached Series views and the getters built on them are read after EVERY operation (a cache extended wrongly shows only on the
        # second read): id -> string and string -> id must be those of the table
        tab = list(t.sym_table)
        ser = t.get_sym_table_series()
        if list(ser.index) != list(range(len(tab))) or list(ser) != tab:
            problems.append(f"{when}: get_sym_table_series() is not the table: {ser.to_dict()} for {tab}")
        ids = list(range(len(tab)))
        if t.get_symbol_names(ids) != {i: s for i, s in enumerate(tab)}:
            problems.append(f"{when}: get_symbol_names({ids}) = {t.get_symbol_names(ids)} for the table {tab}")
        idx = t.get_sym_index_series()
        if idx.to_dict() != {s: i for i, s in enumerate(tab)}:
            problems.append(f"{when}: get_sym_index_series() = {idx.to_dict()} for the table {tab}")
    for op_no, op in enumerate(case["params"]["ops"]):
        views(pool[op[1]] if op[0] in ("add", "addmp", "clone") else pool[0], f"before operation {op_no} {op[0]}")
        if op[0] == "add":
            pool[op[1]].add_symbols(list(op[2]))
            model_ops.append(["add", op[1], op[2]])
        elif op[0] == "addmp":
            t = pool[op[1]]
            before = list(t.sym_table)
            t.add_symbols_mp([list(x) for x in op[2]])
            after = list(t.sym_table)
            if after[:len(before)] != before:
                problems.append(f"add_symbols_mp changed existing ids: {before} -> {after}")
            new = after[len(before):]
            want = {s for x in op[2] for s in x} - set(before)
            if set(new) != want or len(new) != len(set(new)):
                problems.append(f"add_symbols_mp appended {new}, expected the set {sorted(want)}")
            model_ops.append(["add", op[1], new])
        elif op[0] == "clone":
            pool.append(TraceSymbolTable.clone(pool[op[1]]))
            model_ops.append(op)
        else:
            pool.append(TraceSymbolTable.combine_symbol_tables([pool[i] for i in op[1]]))
            model_ops.append(op)
    for i, t in enumerate(pool):
        views(t, f"at the end, table {i}")
    return {"pool": [[list(t.sym_table), sorted(t.sym_index.items())] for t in pool], "model_ops": model_ops, "problems": problems[:6]}


def coq_term(case, impl):
    if case["kind"] == "meta":
        return "0%Z"
    lits = []
    for op in impl["model_ops"]:
        if op[0] == "add":
            lits.append(f"OAdd {op[1]}%nat {fw.sl(op[2])}")
        elif op[0] == "clone":
            lits.append(f"OClone {op[1]}%nat")
        else:
            lits.append("OCombine [" + "; ".join(f"{i}%nat" for i in op[1]) + "]")
    return "encode_pool (run [" + "; ".join(lits) + "])"


def compare(case, impl, model):
    if case["kind"] == "meta":
        outs = impl["meta"]
        base = outs[0]["result"]
        disc = []
        if "crash" in base:
            return ["metamorphic base run crashed: " + base["crash"]]
        de = base.get("decode_exact")
        if isinstance(de, dict) and any(v != 0 for v in de.values()):
            disc.append(f"after decode_symbol_ids() and decode_symbol_ids(use_shorten_name=False) the decoded columns differ from the table's strings "
                        f"in (rank: rows) {de}")
        elif isinstance(de, str):
            disc.append(f"decode_symbol_ids twice: {de}")
        if base.get("bijection") != [True, True, True]:
            disc.append(f"symbol table of the loaded trace is not a bijection: {base.get('bijection')}")
        # rows decode to the file's own strings
        for r, rk in case["ranks"].items():
            evs = rk["events"]
            for row in (base.get("rows") or {}).get(str(r), []):
                e = evs[row[0]]
                if [e.get("name"), e.get("cat")] != row[1:3]:
                    disc.append(f"rank {r} row {row[0]} decodes to {row[1:3]}, the file has {[e.get('name'), e.get('cat')]}")
                    break
        inc = base.get("incremental")
        if isinstance(inc, str):
            disc.append(f"incremental loading (parse_single_rank, then parse_multiple_ranks) failed: {inc}")
        elif inc is not None:
            if not inc.get("ids_stable"):
                disc.append("incremental loading: ids assigned while loading an earlier rank changed when later ranks were added")
            for r, rk in case["ranks"].items():
                evs = rk["events"]
                for row in inc["rows"].get(str(r), []):
                    e = evs[row[0]]
                    if [e.get("name"), e.get("cat")] != row[1:3]:
                        disc.append(f"incremental loading: rank {r} row {row[0]} decodes to {row[1:3]}, the file has {[e.get('name'), e.get('cat')]}")
                        break
            if inc.get("views_ok") is False:
                disc.append("incremental loading: the Series views of the symbol table (get_sym_table_series / get_symbol_names / get_sym_index_series), "
                            "read after each step, are not the table's")
        for o in outs:
            sf = o["result"].get("same_file_twice") if "crash" not in o["result"] else None
            if isinstance(sf, str):
                disc.append(f"config {o['config']}: loading with two rank numbers given the file of another rank failed: {sf}")
            elif sf is not None:
                for r, rk in case["ranks"].items():
                    evs = rk["events"]
                    for which, rows_ in (("", sf["rows"].get(str(r), [])), (" (loaded a second time under another rank number)", sf["copies"].get(str(r), []))):
                        for row in rows_:
                            e = evs[row[0]]
                            if [e.get("name"), e.get("cat")] != row[1:3]:
                                disc.append(f"config {o['config']}: one file under two rank numbers: rank {r}{which} row {row[0]} decodes to {row[1:3]}, "
                                            f"the file has {[e.get('name'), e.get('cat')]}")
                                break
        for o in outs[1:]:
            res = o["result"]
            if "crash" in res:
                disc.append(f"config {o['config']} crashed: {res['crash']}")
                continue
            for k in sorted(base):
                if res.get(k) != base[k]:
                    disc.append(f"getter {k!r} differs between config {outs[0]['config']} and {o['config']} (hash seed, pool, rank order, delayed workers): "
                                f"{json.dumps(base[k])[:160]} vs {json.dumps(res.get(k))[:160]}")
        return disc[:6]
    disc = list(impl["problems"])
    if len(model) != len(impl["pool"]):
        return disc + [f"pool size impl={len(impl['pool'])} model={len(model)}"]
    for i, ((tab, idx), (mtab, midx)) in enumerate(zip(impl["pool"], model)):
        if list(tab) != list(mtab):
            disc.append(f"table {i}: sym_table impl={tab} model={list(mtab)}")
        if sorted([list(x) for x in idx]) != sorted([list(x) for x in midx]):
            disc.append(f"table {i}: sym_index impl={idx} model={sorted(map(list, midx))}")
    return disc[:6]


def nontrivial(case, impl):
    if case["kind"] == "meta":
        return len(case["ranks"]) >= 2
    ops = case["params"]["ops"]
    return len(impl["pool"]) >= 3 and any(op[0] == "add" and len(set(op[2])) < len(op[2]) for op in ops)


def classify(case, impl, model, disc):
    return None


LEVEL_TEXT = ("Proof (partial): C11_history_consistent (every table reachable by any sequence of add_symbols/clone/combine calls has no symbol twice and its list "
              "and dictionary agree), C11_encode_decode / C11_decode_encode / C11_ids_injective, C11_prefix_stable (an id never changes), C11_reencode_commutes "
              "(after multi-rank gathering every local id re-encodes to a global id decoding to the same string, for every fill order and rank order), "
              "C11_symbols_order_independent; add_symbols is REGENERATED from the source by the translator on every run. Independence of the analyses from the id "
              "numbering, the parse order and the worker completion order is established by metamorphic runs (hash seeds x pool on/off x rank order x delayed "
              "workers), which is testing, not proof.")
LEVEL_NOTE = ("Translator (fail-closed, single supported shape) for TraceSymbolTable.add_symbols; hand model of combine/clone/gather/reencode. pool.map's ordering "
              "contract and real process scheduling are runtime behaviour a theorem cannot exhibit: assumed and exercised.")
TECHNIQUE = "Coq proof over a model regenerated from the source (invariant by induction over operation histories) + differential and metamorphic correspondence"
