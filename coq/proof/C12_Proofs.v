From Coq Require Import Permutation.
From HTA.lib Require Import Base ListExtra.
From HTA.model Require Import Loader_Model.
From HTA.proof Require Import Loader_Proofs.
Open Scope Z_scope.

(* ================= iteration of host rows: _get_profiler_step ================= *)
Definition in_step (t : Z) (s : ev) : bool := (ts s <=? t) && (t <? ts s + dur s).

Lemma find_app_none {A} (f : A -> bool) l1 l2 : find f (l1 ++ l2) = match find f l1 with Some x => Some x | None => find f l2 end.
Proof. induction l1 as [|x l1 IH]; simpl; [reflexivity|]. destruct (f x); [reflexivity | exact IH]. Qed.

Lemma step_of_fold steps t acc :
  fold_left (fun a s => if (ts s <=? t) && (t <? ts s + dur s) then step_no (name s) else a) steps acc =
  match find (in_step t) (rev steps) with Some s => step_no (name s) | None => acc end.
Proof.
  revert acc. induction steps as [|s steps IH]; intro acc; simpl; [reflexivity|].
  rewrite IH. rewrite find_app_none. destruct (find (in_step t) (rev steps)) as [s'|]; [reflexivity|].
  simpl. unfold in_step. destruct ((ts s <=? t) && (t <? ts s + dur s)); reflexivity.
Qed.

(* no two steps with different numbers contain the same instant (disjoint half-open spans) *)
Definition steps_unambiguous (steps : list ev) : Prop :=
  forall t s1 s2, In s1 steps -> In s2 steps -> in_step t s1 = true -> in_step t s2 = true ->
                  step_no (name s1) = step_no (name s2).

Theorem step_of_contains steps t s :
  steps_unambiguous steps -> In s steps -> ts s <= t < ts s + dur s -> step_of steps t = step_no (name s).
Proof.
  intros Hu Hs Ht. unfold step_of. rewrite step_of_fold.
  assert (Hin : in_step t s = true) by (unfold in_step; lia).
  destruct (find (in_step t) (rev steps)) as [s'|] eqn:F.
  - apply find_some in F. destruct F as [Hs' Hin']. apply in_rev in Hs'. apply (Hu t); assumption.
  - pose proof (find_none _ _ F s) as Hn. rewrite <- in_rev in Hn. rewrite (Hn Hs) in Hin. discriminate.
Qed.

Theorem step_of_none steps t :
  (forall s, In s steps -> ~ (ts s <= t < ts s + dur s)) -> step_of steps t = -1.
Proof.
  intro Hn. unfold step_of. rewrite step_of_fold.
  destruct (find (in_step t) (rev steps)) as [s'|] eqn:F; [|reflexivity].
  apply find_some in F. destruct F as [Hs' Hin']. apply in_rev in Hs'. exfalso. apply (Hn s' Hs').
  unfold in_step in Hin'. lia.
Qed.

Theorem host_iteration l e s :
  stream e < 0 -> steps_unambiguous (step_rows l) -> In s (step_rows l) -> ts s <= ts e < ts s + dur s ->
  iter_of l e = step_no (name s).
Proof.
  intros Hst Hu Hs Ht. unfold iter_of. replace (stream e <? 0) with true by lia.
  apply step_of_contains; assumption.
Qed.

Theorem host_no_step l e :
  stream e < 0 -> (forall s, In s (step_rows l) -> ~ (ts s <= ts e < ts s + dur s)) -> iter_of l e = -1.
Proof.
  intros Hst Hn. unfold iter_of. replace (stream e <? 0) with true by lia. apply step_of_none. exact Hn.
Qed.

Lemma find_idx_unique l r : NoDup (map idx l) -> In r l -> find (fun p => idx p =? idx r) l = Some r.
Proof.
  induction l as [|x l IH]; intros Hnd Hr; [destruct Hr|]. simpl in *.
  inversion Hnd as [|? ? Hx Hnd']; subst.
  destruct Hr as [Hr|Hr].
  - subst. rewrite Z.eqb_refl. reflexivity.
  - destruct (idx x =? idx r) eqn:E.
    + exfalso. apply Hx. apply Z.eqb_eq in E. rewrite E. apply in_map. exact Hr.
    + apply IH; assumption.
Qed.

(* a device row inherits the iteration of the host call linked to it; -1 if unlinked *)
Theorem device_iteration l e r :
  0 < stream e -> NoDup (map idx l) -> In r l -> icorr e = idx r -> 0 < idx r -> stream r < 0 ->
  iter_of l e = iter_of l r.
Proof.
  intros Hst Hnd Hr Hic Hpos Hsr. unfold iter_of at 1.
  replace (stream e <? 0) with false by lia. replace (0 <? stream e) with true by lia.
  replace (0 <? icorr e) with true by lia. rewrite Hic. rewrite find_idx_unique by assumption.
  unfold iter_of. replace (stream r <? 0) with true by lia. reflexivity.
Qed.

Theorem device_unlinked l e : 0 < stream e -> icorr e <= 0 -> iter_of l e = -1.
Proof.
  intros Hst Hic. unfold iter_of. replace (stream e <? 0) with false by lia.
  replace (0 <? stream e) with true by lia. replace (0 <? icorr e) with false by lia. reflexivity.
Qed.

Theorem add_iter_rows l e' : In e' (add_iter l) <-> exists e, In e l /\ e' = set_iter e (iter_of l e).
Proof. unfold add_iter. rewrite in_map_iff. split; intros [e [H1 H2]]; exists e; split; auto. Qed.

(* ================= trimming ================= *)
Lemma maxZ_ge d l : forall x, In x l -> x <= maxZ d l.
Proof.
  revert d. induction l as [|y l IH]; intros d x Hx; [destruct Hx|]. simpl.
  destruct Hx as [Hx|Hx]; [subst; lia|]. specialize (IH y x Hx). lia.
Qed.

Lemma maxZ_in d l : l <> [] -> In (maxZ d l) l.
Proof.
  revert d. induction l as [|y l IH]; intros d Hne; [congruence|]. simpl.
  destruct l as [|z l']; [simpl; left; lia|].
  specialize (IH y ltac:(discriminate)).
  destruct (Z.max_spec y (maxZ y (z :: l'))) as [[_ E]|[_ E]]; rewrite E; [right; exact IH | left; reflexivity].
Qed.

Definition last_start (l : list ev) : Z := maxZ 0 (map ts (host_steps l)).
Definition last_end (l : list ev) : Z := maxZ 0 (map eend (host_steps l)).
Definition cut (incl : bool) (l : list ev) (e : ev) : Prop :=
  if incl then ts e <= last_end l else ts e < last_start l.

Lemma keep_host_spec incl l e : keep_host incl l e = true <-> is_host e = true /\ cut incl l e.
Proof.
  unfold keep_host, cut, last_end, last_start. rewrite andb_true_iff.
  destruct incl; [rewrite Z.leb_le | rewrite Z.ltb_lt]; tauto.
Qed.

Theorem trim_exact incl l e :
  2 <= Z.of_nat (List.length (host_steps l)) ->
  (In e (trim incl l) <->
   In e l /\ ((is_host e = true /\ cut incl l e) \/
              (is_dev e = true /\ exists c, In c l /\ is_host c = true /\ cut incl l c /\ corr c = corr e))).
Proof.
  intro H2. unfold trim. replace (Z.of_nat (List.length (host_steps l)) <? 2) with false by lia.
  rewrite in_app_iff. unfold kept_dev, kept_host. rewrite !filter_In, existsb_exists. split.
  - intros [[[Hel Hdev] [c [Hcin Hcc]]] | [Hel Hk]].
    + apply filter_In in Hcin. destruct Hcin as [Hcl Hk]. apply keep_host_spec in Hk.
      split; [exact Hel|]. right. split; [exact Hdev|]. exists c. apply Z.eqb_eq in Hcc. tauto.
    + apply keep_host_spec in Hk. tauto.
  - intros [Hel [[Hh Hc] | [Hd [c [Hcl [Hch [Hcc Hcorr]]]]]]].
    + right. split; [exact Hel | apply keep_host_spec; tauto].
    + left. split; [tauto|]. exists c. split.
      * apply filter_In. split; [exact Hcl | apply keep_host_spec; tauto].
      * apply Z.eqb_eq. exact Hcorr.
Qed.

Theorem trim_noop_lt2 incl l : Z.of_nat (List.length (host_steps l)) < 2 -> trim incl l = l.
Proof. intro H. unfold trim. replace (Z.of_nat (List.length (host_steps l)) <? 2) with true by lia. reflexivity. Qed.

(* the cut-offs are those of the step with the largest start *)
Theorem last_step_start l : host_steps l <> [] ->
  exists L, In L (host_steps l) /\ ts L = last_start l /\ forall s, In s (host_steps l) -> ts s <= ts L.
Proof.
  intro Hne. unfold last_start.
  assert (Hm : map ts (host_steps l) <> []) by (destruct (host_steps l); [congruence | discriminate]).
  pose proof (maxZ_in 0 _ Hm) as Hin. apply in_map_iff in Hin. destruct Hin as [L [HL HLin]].
  exists L. repeat split; auto. intros s Hs. rewrite HL. apply maxZ_ge. apply in_map. exact Hs.
Qed.

(* with pairwise disjoint steps of positive length, the latest end is the end of the step with the latest start *)
Theorem last_step_end l L :
  (forall a b, In a (host_steps l) -> In b (host_steps l) -> a = b \/ eend a <= ts b \/ eend b <= ts a) ->
  (forall a, In a (host_steps l) -> 0 < dur a) ->
  In L (host_steps l) -> (forall s, In s (host_steps l) -> ts s <= ts L) ->
  last_end l = eend L.
Proof.
  intros Hdis Hpos HL Hmax. unfold last_end.
  assert (Hm : map eend (host_steps l) <> []) by (destruct (host_steps l); [destruct HL | discriminate]).
  pose proof (maxZ_in 0 _ Hm) as Hin. apply in_map_iff in Hin. destruct Hin as [M [HM HMin]].
  pose proof (maxZ_ge 0 (map eend (host_steps l)) (eend L) (in_map eend _ _ HL)) as Hge.
  destruct (Hdis M L HMin HL) as [E | [E | E]].
  - subst. symmetry. exact HM.
  - pose proof (Hpos L HL). unfold eend in *. lia.
  - pose proof (Hmax M HMin). pose proof (Hpos L HL). unfold eend in *. lia.
Qed.

(* nothing is duplicated, however many kept host rows carry a device row's correlation id *)
Lemma NoDup_filter {A} (f : A -> bool) l : NoDup l -> NoDup (filter f l).
Proof.
  induction 1 as [|x l Hx Hnd IH]; simpl; [constructor|].
  destruct (f x); [constructor; [rewrite filter_In; tauto | exact IH] | exact IH].
Qed.

Theorem trim_no_dup incl l : NoDup l -> NoDup (trim incl l).
Proof.
  intros Hnd. unfold trim. destruct (Z.of_nat (List.length (host_steps l)) <? 2); [exact Hnd|].
  apply NoDup_app_intro.
  - unfold kept_dev. apply NoDup_filter. apply NoDup_filter. exact Hnd.
  - apply NoDup_filter. exact Hnd.
  - intros x Hx1 Hx2. unfold kept_dev in Hx1. apply filter_In in Hx1. destruct Hx1 as [Hx1 _].
    apply filter_In in Hx1. destruct Hx1 as [_ Hdev].
    apply filter_In in Hx2. destruct Hx2 as [_ Hk]. apply keep_host_spec in Hk. destruct Hk as [Hh _].
    unfold is_host in Hh. rewrite Hdev in Hh. discriminate.
Qed.

(* row ids stay unique through the trimming, for any event mix *)
Lemma NoDup_map_filter {A B} (f : A -> B) (p : A -> bool) l : NoDup (map f l) -> NoDup (map f (filter p l)).
Proof.
  induction l as [|x r IH]; cbn [map filter]; intro H; [constructor|].
  inversion H as [|? ? Hx Hr]; subst. destruct (p x); cbn [map]; [|apply IH; exact Hr].
  constructor; [|apply IH; exact Hr].
  intro Hin. apply Hx. apply in_map_iff in Hin. destruct Hin as [y [Hy Hyin]]. apply filter_In in Hyin.
  apply in_map_iff. exists y. tauto.
Qed.

Lemma NoDup_map_inj {A B} (f : A -> B) l a b : NoDup (map f l) -> In a l -> In b l -> f a = f b -> a = b.
Proof.
  induction l as [|x r IH]; cbn [map]; intros H Ha Hb Hab; [destruct Ha|].
  inversion H as [|? ? Hx Hr]; subst. destruct Ha as [Ha|Ha]; destruct Hb as [Hb|Hb]; subst.
  - reflexivity.
  - exfalso. apply Hx. rewrite Hab. apply in_map. exact Hb.
  - exfalso. apply Hx. rewrite <- Hab. apply in_map. exact Ha.
  - apply IH; assumption.
Qed.

Theorem trim_ids_unique incl l : NoDup (map idx l) -> NoDup (map idx (trim incl l)).
Proof.
  intro Hnd. unfold trim. destruct (Z.of_nat (List.length (host_steps l)) <? 2); [exact Hnd|].
  rewrite map_app. apply NoDup_app_intro.
  - unfold kept_dev. apply NoDup_map_filter, NoDup_map_filter. exact Hnd.
  - unfold kept_host. apply NoDup_map_filter. exact Hnd.
  - intros x Hx1 Hx2. apply in_map_iff in Hx1. destruct Hx1 as [g [Hg Hgin]]. apply in_map_iff in Hx2. destruct Hx2 as [c [Hc Hcin]].
    unfold kept_dev in Hgin. apply filter_In in Hgin. destruct Hgin as [Hgin _]. apply filter_In in Hgin. destruct Hgin as [Hgl Hdev].
    apply filter_In in Hcin. destruct Hcin as [Hcl Hk]. apply keep_host_spec in Hk. destruct Hk as [Hh _].
    assert (g = c) by (apply (NoDup_map_inj idx l); [exact Hnd | exact Hgl | exact Hcl | congruence]).
    subst c. unfold is_host in Hh. rewrite Hdev in Hh. discriminate.
Qed.

Lemma parse_rank_ids f : map idx (parse_rank f) = map idx (parse_file f).
Proof. unfold parse_rank, add_iter, link. rewrite !map_map. apply map_ext. intro e. reflexivity. Qed.

(* after a full load of any file set every row id occurs at most once in every rank *)
Theorem load_ids_unique incl files j : NoDup (map idx (nth j (load incl files) [])).
Proof.
  unfold load, align. set (P := map parse_rank files). set (c := global_min P).
  destruct (Nat.lt_ge_cases j (List.length P)) as [Hj|Hj].
  - rewrite (nth_indep _ [] (trim incl [])) by (rewrite !map_length; exact Hj).
    rewrite map_nth. apply trim_ids_unique.
    rewrite (nth_indep _ [] (map (shift c) [])) by (rewrite map_length; exact Hj).
    rewrite map_nth, map_map.
    replace (map (fun x => idx (shift c x)) (nth j P [])) with (map idx (nth j P [])) by (apply map_ext; intro e; reflexivity).
    unfold P. rewrite (nth_indep _ [] (parse_rank [])) by (unfold P in Hj; exact Hj).
    rewrite map_nth, parse_rank_ids. apply parse_rows_bijection.
  - rewrite nth_overflow by (rewrite !map_length; exact Hj). constructor.
Qed.
