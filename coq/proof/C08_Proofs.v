From HTA.lib Require Import Base Dag.
From HTA.model Require Import C08_Model.
Open Scope list_scope.
Open Scope Z_scope.

(* ---------- what an accepted edge guarantees ---------- *)
Theorem edge_ok_forward zw clipped N E e : edge_ok zw clipped N E e = true ->
  exists nu nv, find_node N (g_u e) = Some nu /\ find_node N (g_v e) = Some nv /\
                c_ts nu <= c_ts nv /\ 0 <= g_w e.
Proof.
  unfold edge_ok. destruct (find_node N (g_u e)) as [nu|]; [|discriminate]. destruct (find_node N (g_v e)) as [nv|]; [|discriminate].
  intro H. apply andb_prop in H. destruct H as [H _]. apply andb_prop in H. exists nu, nv. repeat split; auto; lia.
Qed.

(* the weight is the time difference of the end points or zero, as the type prescribes *)
Theorem edge_ok_weight zw clipped N E e : edge_ok zw clipped N E e = true ->
  exists nu nv, find_node N (g_u e) = Some nu /\ find_node N (g_v e) = Some nv /\
    ((g_ty e = 1 \/ g_ty e = 4) -> g_w e = 0) /\
    (g_ty e = 3 -> g_w e = c_ts nv - c_ts nu) /\
    (g_ty e = 0 -> g_w e = c_ts nv - c_ts nu \/ (g_w e = 0 /\ c_start nv = false /\ c_block nv = true)) /\
    (g_ty e = 2 -> g_w e = c_ts nv - c_ts nu \/ (zw = true /\ g_w e = 0)) /\
    (g_ty e = 0 \/ g_ty e = 1 \/ g_ty e = 2 \/ g_ty e = 3 \/ g_ty e = 4).
Proof.
  unfold edge_ok. destruct (find_node N (g_u e)) as [nu|]; [|discriminate]. destruct (find_node N (g_v e)) as [nv|]; [|discriminate].
  intro H. apply andb_prop in H. destruct H as [_ H].
  destruct (find_ev clipped (c_ev nu)) as [eu|]; [|discriminate]. destruct (find_ev clipped (c_ev nv)) as [ev_|]; [|discriminate].
  exists nu, nv. split; [reflexivity|]. split; [reflexivity|].
  destruct (g_ty e =? 0) eqn:T0.
  { apply Z.eqb_eq in T0. apply orb_prop in H.
    split; [intros [X|X]; lia|]. split; [intro X; lia|]. split; [|split; [intro X; lia | lia]].
    intros _. destruct H as [H|H]; [left; lia|].
    right. apply andb_prop in H. destruct H as [H Hb]. apply andb_prop in H. destruct H as [Hw Hs].
    split; [lia|]. split; [destruct (c_start nv); [discriminate | reflexivity] | exact Hb]. }
  apply Z.eqb_neq in T0.
  destruct (g_ty e =? 1) eqn:T1.
  { apply Z.eqb_eq in T1. split; [intros _; lia|]. split; [intro X; lia|]. split; [intro X; lia|]. split; [intro X; lia | lia]. }
  apply Z.eqb_neq in T1.
  destruct (g_ty e =? 2) eqn:T2.
  { apply Z.eqb_eq in T2. split; [intros [X|X]; lia|]. split; [intro X; lia|]. split; [intro X; lia|]. split; [|lia].
    intros _. apply andb_prop in H. destruct H as [_ H]. apply orb_prop in H.
    destruct H as [H|H]; [left; lia | right]. apply andb_prop in H. destruct H as [Hz Hw]. split; [exact Hz | lia]. }
  apply Z.eqb_neq in T2.
  destruct (g_ty e =? 3) eqn:T3.
  { apply Z.eqb_eq in T3. split; [intros [X|X]; lia|]. split; [|split; [intro X; lia | split; [intro X; lia | lia]]].
    intros _. apply andb_prop in H. destruct H as [H _]. apply andb_prop in H. destruct H as [_ H]. lia. }
  apply Z.eqb_neq in T3.
  destruct (g_ty e =? 4) eqn:T4; [|discriminate]. apply Z.eqb_eq in T4.
  split; [|split; [intro X; lia | split; [intro X; lia | split; [intro X; lia | lia]]]].
  intros _. apply andb_prop in H. destruct H as [H _]. apply andb_prop in H. destruct H as [H _].
  apply andb_prop in H. destruct H as [H _]. lia.
Qed.

(* each edge type joins only what it stands for *)
Theorem edge_ok_types zw clipped N E e : edge_ok zw clipped N E e = true ->
  exists nu nv eu ev_, find_node N (g_u e) = Some nu /\ find_node N (g_v e) = Some nv /\
    find_ev clipped (c_ev nu) = Some eu /\ find_ev clipped (c_ev nv) = Some ev_ /\
    (g_ty e = 2 -> c_start nu = true /\ c_start nv = true /\ is_dev_ev eu = false /\ is_dev_ev ev_ = true /\ icorr ev_ = idx eu /\ 0 < icorr ev_) /\
    (g_ty e = 3 -> c_start nu = false /\ c_start nv = true /\ is_dev_ev eu = true /\ is_dev_ev ev_ = true /\ stream eu = stream ev_ /\
                   forall k, In k clipped -> analysed k = true -> is_dev_ev k = true -> stream k = stream eu -> cat k <> "cuda_sync"%string ->
                             ~ (ts eu < ts k < ts ev_)) /\
    (g_ty e = 4 -> c_start nu = false /\ is_dev_ev eu = true /\
                   ((c_start nv = false /\ is_dev_ev ev_ = false) \/ (c_start nv = true /\ is_dev_ev ev_ = true /\ stream eu <> stream ev_))).
Proof.
  unfold edge_ok. destruct (find_node N (g_u e)) as [nu|]; [|discriminate]. destruct (find_node N (g_v e)) as [nv|]; [|discriminate].
  intro H. apply andb_prop in H. destruct H as [_ H].
  destruct (find_ev clipped (c_ev nu)) as [eu|] eqn:Eeu; [|discriminate]. destruct (find_ev clipped (c_ev nv)) as [ev_|] eqn:Eev; [|discriminate].
  exists nu, nv, eu, ev_. repeat (split; [first [reflexivity | assumption]|]).
  destruct (g_ty e =? 0) eqn:T0; [apply Z.eqb_eq in T0; split; [intro X; exfalso; lia | split; intro X; exfalso; lia]|].
  destruct (g_ty e =? 1) eqn:T1; [apply Z.eqb_eq in T1; split; [intro X; exfalso; lia | split; intro X; exfalso; lia]|].
  destruct (g_ty e =? 2) eqn:T2.
  { apply Z.eqb_eq in T2. split; [|split; intro X; exfalso; lia]. intros _. rewrite !andb_true_iff in H. destruct H as [[[[[H1 H2] H3] H4] H5] _].
    repeat split; auto; [destruct (is_dev_ev eu); [discriminate | reflexivity] | lia | lia]. }
  destruct (g_ty e =? 3) eqn:T3.
  { apply Z.eqb_eq in T3. split; [intro X; exfalso; lia|]. split; [|intro X; exfalso; lia]. intros _. rewrite !andb_true_iff in H.
    destruct H as [[[[[[[H1 H2] H3] H4] H5] H6] H7] H8].
    split; [destruct (c_start nu); [discriminate | reflexivity]|]. repeat split; auto; [lia|].
    intros k Hk Ha Hd Hs Hc Hbetween. rewrite negb_true_iff in H8.
    assert (existsb (fun k0 => analysed k0 && is_dev_ev k0 && (stream k0 =? stream eu) && negb (String.eqb (cat k0) "cuda_sync") &&
                               (ts eu <? ts k0) && (ts k0 <? ts ev_)) clipped = true).
    { apply existsb_exists. exists k. split; [exact Hk|]. rewrite Ha, Hd. cbn [andb].
      replace (stream k =? stream eu) with true by lia. cbn [andb].
      assert (String.eqb (cat k) "cuda_sync" = false) by (apply String.eqb_neq; exact Hc). rewrite H. cbn [negb andb]. lia. }
    congruence. }
  destruct (g_ty e =? 4) eqn:T4; [|discriminate]. apply Z.eqb_eq in T4.
  split; [intro X; exfalso; lia|]. split; [intro X; exfalso; lia|]. intros _. rewrite !andb_true_iff in H. destruct H as [[[_ H1] H2] H3].
  split; [destruct (c_start nu); [discriminate | reflexivity]|]. split; [exact H2|].
  apply orb_prop in H3. destruct H3 as [H3|H3]; rewrite !andb_true_iff in H3.
  - left. destruct H3 as [Ha Hb]. split; [destruct (c_start nv); [discriminate | reflexivity] | destruct (is_dev_ev ev_); [discriminate | reflexivity]].
  - right. destruct H3 as [[Ha Hb] Hc]. repeat split; auto. rewrite negb_true_iff in Hc. lia.
Qed.

(* acyclic: no path of the graph returns to its start *)
Theorem check_acyclic E order p :
  rank_okb (map to_edge E) (rank_of 1 order) = true -> is_path (map to_edge E) p -> path_end (path_start p) p <> path_start p.
Proof. intros H Hp. apply (acyclic (map to_edge E) (alookup (rank_of 1 order))); [apply rank_okb_sound; exact H | exact Hp]. Qed.

(* ---------- C09: an accepted path is a maximum-weight path ---------- *)
Theorem check_C09_optimal (W : list edge) order cp p :
  potential_okb W (dp W order) = true -> path_edges W cp = Some p -> p <> [] ->
  path_weight p = max_value (dp W order) ->
  is_path W p /\ forall q, is_path W q -> path_weight q <= path_weight p.
Proof.
  intros Hpot Hp Hne Hw. destruct (path_edges_spec W cp p Hp Hne) as [Hpath _]. split; [exact Hpath|].
  intros q Hq. rewrite Hw. apply (optimum_bound W (alookup (dp W order))); [apply potential_okb_sound; exact Hpot | | exact Hq].
  intro v. apply alookup_le_max.
Qed.

(* the path never weighs more than the makespan when every edge weighs at most the time difference of its end points *)
Theorem path_le_makespan (G : list edge) (tsf : Z -> Z) p lo hi :
  (forall e, In e G -> e_w e <= tsf (e_dst e) - tsf (e_src e)) -> (forall v, lo <= tsf v <= hi) ->
  is_path G p -> path_weight p <= hi - lo.
Proof.
  intros Hw Hb Hp. pose proof (path_le_span G tsf p Hw Hp) as H.
  pose proof (Hb (path_end (path_start p) p)). pose proof (Hb (path_start p)). lia.
Qed.

(* when span_okb accepts the graph, EVERY path of it (not only the reported one) weighs at most the span of the node time stamps *)
Definition ts_of_node (N : list cpnode) (v : Z) : Z := match find_node N v with Some n => c_ts n | None => 0 end.

Lemma find_node_in N v n : find_node N v = Some n -> In (c_ts n) (map c_ts N).
Proof. unfold find_node. intro H. apply find_some in H. destruct H as [H _]. apply in_map. exact H. Qed.

Lemma minZ_le_in d l x : In x l -> minZ d l <= x.
Proof.
  revert d. induction l as [|y l IH]; intros d Hx; [destruct Hx|]. simpl. destruct Hx as [Hx|Hx]; [subst; lia|]. specialize (IH y Hx). lia.
Qed.

Lemma chain_end_dst : forall p u, p <> [] -> exists e, In e p /\ path_end u p = e_dst e.
Proof.
  induction p as [|e r IH]; intros u Hne; [congruence|]. cbn [path_end]. destruct r as [|e' r'].
  - exists e. split; [left; reflexivity | reflexivity].
  - destruct (IH (e_dst e) ltac:(discriminate)) as [x [Hx Hd]]. exists x. split; [right; exact Hx | exact Hd].
Qed.

Theorem makespan_guaranteed N W p : span_okb N W = true -> is_path W p ->
  path_weight p <= maxZ 0 (map c_ts N) - minZ 0 (map c_ts N).
Proof.
  intros Hs Hp. unfold span_okb in Hs. rewrite forallb_forall in Hs.
  assert (Hw : forall e, In e W -> e_w e <= ts_of_node N (e_dst e) - ts_of_node N (e_src e)).
  { intros e He. specialize (Hs e He). unfold ts_of_node. destruct (find_node N (e_src e)); [|discriminate]. destruct (find_node N (e_dst e)); [|discriminate]. lia. }
  pose proof (path_le_span W (ts_of_node N) p Hw Hp) as Hb.
  destruct p as [|e0 r0]; [destruct Hp|]. destruct Hp as [Hin Hch]. cbn [path_start] in Hb.
  assert (H0 : In e0 W) by (apply Hin; left; reflexivity).
  destruct (chain_end_dst (e0 :: r0) (e_src e0) ltac:(discriminate)) as [x [Hx Hd]]. rewrite Hd in Hb.
  assert (Hx' : In x W) by (apply Hin; exact Hx).
  pose proof (Hs e0 H0) as A. pose proof (Hs x Hx') as B. unfold ts_of_node in Hb.
  destruct (find_node N (e_src e0)) as [a|] eqn:Ea; [|discriminate]. destruct (find_node N (e_dst e0)); [|discriminate].
  destruct (find_node N (e_src x)); [|discriminate]. destruct (find_node N (e_dst x)) as [b|] eqn:Eb; [|discriminate].
  pose proof (maxZ_ge_in 0 _ _ (find_node_in N _ b Eb)). pose proof (minZ_le_in 0 _ _ (find_node_in N _ a Ea)). lia.
Qed.

(* ---------- C10: what an accepted breakdown row guarantees ---------- *)
Theorem brow_ok_sound clipped N r : brow_ok clipped N r = true ->
  exists nu nv, find_node N (r_u r) = Some nu /\ find_node N (r_v r) = Some nv /\
    r_bound r = bound_code clipped (r_ty r) (r_ev r) /\
    (r_ty r = 0 -> exists a eu ev_, find_ev clipped (r_ev r) = Some a /\ find_ev clipped (c_ev nu) = Some eu /\ find_ev clipped (c_ev nv) = Some ev_ /\
                   ts a <= c_ts nu /\ c_ts nv <= ts a + dur a /\ pid a = pid eu /\ tid a = tid eu /\ pid a = pid ev_ /\ tid a = tid ev_) /\
    (r_ty r = 3 -> r_ev r = c_ev nu) /\
    (r_ty r <> 0 -> r_ty r <> 3 -> r_ev r = -1).
Proof.
  unfold brow_ok. destruct (find_node N (r_u r)) as [nu|]; [|discriminate]. destruct (find_node N (r_v r)) as [nv|]; [|discriminate].
  intro H. apply andb_prop in H. destruct H as [Hb H]. exists nu, nv. split; [reflexivity|]. split; [reflexivity|]. split; [lia|].
  destruct (r_ty r =? 0) eqn:T0.
  - apply Z.eqb_eq in T0. split; [|split; [intro X; exfalso; lia | intros X; exfalso; lia]]. intros _.
    destruct (find_ev clipped (r_ev r)) as [a|]; [|discriminate]. destruct (find_ev clipped (c_ev nu)) as [eu|]; [|discriminate].
    destruct (find_ev clipped (c_ev nv)) as [ev_|]; [|discriminate]. exists a, eu, ev_. rewrite !andb_true_iff in H. repeat split; auto; lia.
  - apply Z.eqb_neq in T0. split; [intro X; exfalso; lia|]. destruct (r_ty r =? 3) eqn:T3.
    + apply Z.eqb_eq in T3. split; [intros _; lia | intros _ X; exfalso; lia].
    + apply Z.eqb_neq in T3. split; [intro X; exfalso; lia | intros _ _; lia].
Qed.

Theorem check_C10_sound clipped N cp_edges rows path_w :
  check_C10 clipped N cp_edges rows path_w = [true; true; true] ->
  sumZ (map r_w rows) = path_w /\ forall r, In r rows -> brow_ok clipped N r = true.
Proof.
  unfold check_C10. intro H. injection H as H1 H2 H3. split; [lia|]. apply forallb_forall. exact H3.
Qed.
