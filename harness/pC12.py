"""C12: iteration numbers follow profiler steps; loading trims only the trailing step."""
import random
import tracegen
import framework as fw
import loader_common as lc
import translate

ID = "C12"
COQ_IMPORTS = lc.COQ_IMPORTS
SOURCES = lc.SOURCES
TRANSLATE = [translate.gen_trim_rules]
N_CASES = {"quick": 300, "thorough": 5000}
RULE = ("generated well-formed file sets, 1-3 ranks with DIFFERENT numbers of ProfilerStep annotations (0..5, with gaps, events before the first and after "
        "the last step, tiny time domains so that events start exactly at step boundaries), include_last_profiler_step drawn per case; compared: the iteration "
        "column of every row after parse and after load, the set of row ids after load, Trace.get_iterations(); non-trivial = some rank has >= 2 steps and loses "
        "at least one row, or ranks differ in their number of steps; distinct = hash of the file set and the flag")
ASSUMPTIONS = ["profiler steps of a rank: one thread, pairwise disjoint spans, names ProfilerStep#<n> (generator guarantees; quantifier's well-formedness)",
               "device streams are positive (stream 0 gets no iteration in the code and is outside the quantifier)"]


def gen_cases(seed, tier, n):
    out = []
    profs = ["steps_mix", "steps_mix", "fifo_steps", "steps_tiny"]
    for i in range(n):
        c = tracegen.gen_case(seed, i, tracegen.PROFILES[profs[i % len(profs)]])
        rng = random.Random(seed * 7919 + i)
        c["params"] = {"include_last": rng.random() < 0.5}
        if i % 7 == 3:
            tracegen.make_superset_rank(c, rng, fresh_ids=True)     # a later rank whose vocabulary is the union of all ranks' 
        if i % 9 == 7:
            # step numbers that do not grow with time (a counter reset: #8, #9, #3): "the last step" is the one that starts last
            for rk in c["ranks"].values():
                steps = [e for e in rk["events"] if str(e.get("name", "")).startswith("ProfilerStep#") and "dur" in e]
                names = [e["name"] for e in steps]
                rng.shuffle(names)
                for e, nm in zip(steps, names):
                    e["name"] = nm
        if i % 8 == 6:
            fw.set_quarter_us(c)           # quarter-microsecond resolution (framework.resolution): step containment on fractional times
        out.append(c)
    return out


def run_impl(case, d):
    return {"out": lc.run_loader(case, d)}


def coq_term(case, impl):
    return lc.coq_term(case)


def compare(case, impl, model):
    o = impl["out"]
    if "parse_error" in o:
        return ["parse_traces raised " + o["parse_error"]]
    if "load_error" in o:
        return ["load_traces raised " + o["load_error"]]
    m_parse, m_align, (c, m_load) = model
    disc = []
    ranks = sorted(case["ranks"].keys())
    for j, r in enumerate(ranks):
        mi = {x[0]: x[8] for x in m_parse[j]}
        for row in o["parse"][r]:
            if mi.get(row["idx"]) != row["iter"]:
                disc.append(f"rank {r} parse: idx {row['idx']} iteration impl={row['iter']} model={mi.get(row['idx'])}")
                break
        ids_impl = sorted(row["idx"] for row in o["load"][r])
        ids_model = sorted(x[0] for x in m_load[j])
        if ids_impl != ids_model:
            only_i = [x for x in ids_impl if x not in ids_model][:5]
            only_m = [x for x in ids_model if x not in ids_impl][:5]
            dup = sorted({x for x in ids_impl if ids_impl.count(x) > 1})[:3]
            disc.append(f"rank {r} load(include_last={case['params']['include_last']}): kept row ids differ: impl has {len(ids_impl)} model {len(ids_model)}; "
                        f"impl-only {only_i} model-only {only_m} duplicated {dup}")
        ml = {x[0]: x[8] for x in m_load[j]}
        for row in o["load"][r]:
            if row["idx"] in ml and ml[row["idx"]] != row["iter"]:
                disc.append(f"rank {r} load: idx {row['idx']} iteration impl={row['iter']} model={ml[row['idx']]}")
                break
        its = sorted({x[8] for x in m_load[j] if x[8] >= 0})
        if o["iterations"][r] != its:
            disc.append(f"rank {r}: get_iterations()={o['iterations'][r]} model={its}")
    return disc[:8]


def _nsteps(rk):
    return sum(1 for e in rk["events"] if str(e.get("name", "")).startswith("ProfilerStep") and e.get("dur") is not None)


def nontrivial(case, impl):
    o = impl["out"]
    ns = [_nsteps(rk) for rk in case["ranks"].values()]
    if len(set(ns)) > 1:
        return True
    if "load" in o and "parse" in o:
        return any(n >= 2 for n in ns) and any(len(o["load"][r]) < len(o["parse"][r]) for r in o["load"])
    return False


def classify(case, impl, model, disc):
    return None


LEVEL_TEXT = ("Proof: C12_host_iteration / C12_host_no_step (half-open containment, for every family of steps no two of which contain the same instant), "
              "C12_device_iteration (inherits the linked host call's, -1 if unlinked), C12_trim_exact (kept host rows = those starting before the last step "
              "starts / no later than its end; kept device rows = those whose id is carried by a kept host row; nothing else), C12_trim_noop_lt2, "
              "C12_trim_no_dup, C12_last_step_end. Correspondence on the iteration column, the kept id set and get_iterations()."
              " C12_trim_no_dup now without any uniqueness hypothesis (no row is duplicated for any event mix); C12_resolution_independent: times multiplied by k > 0 change no iteration number and keep exactly the same rows."
              " C12_trim_rules_follow_source: the trimming rule is regenerated from Trace._filter_irrelevant_gpu_kernels on every run (strict reading of the per-rank helper).")
LEVEL_NOTE = ("Hand model of add_iteration (_get_profiler_step: last match wins) and _filter_irrelevant_gpu_kernels. Trusted: harness, pandas.")
TECHNIQUE = "Coq proof over a Gallina model of iteration assignment and trimming + differential correspondence via vm_compute"
