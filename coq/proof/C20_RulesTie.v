(* C20: which edges the overlay draws: the model's rule is the one regenerated from the source (gen/OverlayRules_gen.v) *)
From HTA.lib Require Import Base.
From HTA.model Require Import C08_Model C20_Model.
From HTA.gen Require Import OverlayRules_gen.
Open Scope Z_scope.

Theorem overlay_rules_are_generated : forall oc sa zw cp all e,
  zero_launch e = zero_launch_gen (g_ty e) (g_w e) /\
  drawn_edges oc sa zw cp all =
    (if draws_all_gen oc sa then filter (fun e => drawn_member_gen zw (g_ty e) (g_w e)) all else cp).
Proof.
  intros oc sa zw cp all e. split; [reflexivity|].
  unfold drawn_edges, draws_all_gen. destruct oc, sa; reflexivity.
Qed.
