"""C17: trace diff counts and durations are exact; change classes partition the names."""
import copy
import os
import random
import tracegen
import framework as fw
import translate

ID = "C17"
COQ_IMPORTS = ["From HTA.model Require Import C17_Model."]
SOURCES = {"hta/trace_diff.py": ["LabeledTrace", "TraceDiff", "_trace_argument_adapter"], "hta/utils/utils.py": ["shorten_name", "flatten_column_names"]}
TRANSLATE = [translate.gen_diff_rules]
N_CASES = {"quick": 200, "thorough": 3000}
RULE = ("pairs of generated file sets (1-3 ranks each, 1-4 profiler steps, different vocabularies; one pair in six compares a set with itself); rank selection "
        "drawn from {default, single, proper subset list, all}, iteration selection from {default, single, list}, device filter ALL/CPU/GPU, long or short names "
        "(kernel names with template and argument brackets); compared: every row of compare_traces (counts, durations, diffs, sign) and the five lists of "
        "ops_diff; non-trivial = both selections non-empty and at least two change classes occur; distinct = hash of both file sets and the parameters")
ASSUMPTIONS = ["each trace has at least one ProfilerStep (otherwise extract_ops raises, as documented)"]


def gen_cases(seed, tier, n):
    out = []
    for i in range(n):
        rng = random.Random(seed * 7919 + i)
        a = tracegen.gen_case(seed, 2 * i, tracegen.PROFILES["diff"])
        if i % 6 == 5:
            b = copy.deepcopy(a)
            if i % 12 == 11:
                # the test trace is the control trace with some occurrences removed: exactly the same names, smaller counts
                thin = True
                for rk in b["ranks"].values():
                    cnt = {}
                    for e in rk["events"]:
                        if e.get("cat") in ("cpu_op", "kernel"):
                            cnt[e["name"]] = cnt.get(e["name"], 0) + 1
                    keep = []
                    for e in rk["events"]:
                        if e.get("cat") in ("cpu_op", "kernel") and cnt.get(e["name"], 0) >= 3 and rng.random() < 0.3 and e is not rk["events"][0]:
                            cnt[e["name"]] -= 1
                            continue
                        keep.append(e)
                    rk["events"] = keep
        else:
            b = tracegen.gen_case(seed, 2 * i + 1, tracegen.PROFILES["diff"])
        a["params"] = {"pseed": rng.randint(0, 10 ** 9), "self": i % 6 == 5, "thinned": i % 12 == 11}
        if i % 4 == 2:
            # full names that share a short name (template arguments, parameter lists): with use_short_name they are ONE row
            FAM = ["gemm<float>", "gemm<double>", "gemm<int>", "helper(int)", "helper(float)", "void at::kern<int>(float*)", "void at::kern<long>(float*)"]
            for tr_ in (a, b):
                for rk in tr_["ranks"].values():
                    for e in rk["events"]:
                        if e.get("cat") in ("cpu_op", "kernel") and rng.random() < 0.4:
                            e["name"] = rng.choice(FAM)
        if i % 8 == 6:
            fw.set_quarter_us(a)           # quarter-microsecond resolution (framework.resolution), both traces
            fw.set_quarter_us(b)
        a["ranks2"] = b["ranks"]
        out.append(a)
    return out


def _steps(ranks):
    s = set()
    for rk in ranks.values():
        for e in rk["events"]:
            n = str(e.get("name", ""))
            if n.startswith("ProfilerStep#") and e.get("dur") is not None:
                s.add(int(n.split("#")[1]))
    return sorted(s)


def _draw(rng, ranks, steps):
    rk = sorted(int(r) for r in ranks)
    mode = rng.choice(["default", "single", "subset", "all"])
    if mode == "default":
        rsel = None
    elif mode == "single":
        rsel = rng.choice(rk)
    elif mode == "subset":
        rsel = sorted(rng.sample(rk, rng.randint(1, len(rk))))
    else:
        rsel = list(rk)
    mode = rng.choice(["default", "single", "list"])
    if mode == "default":
        isel = None
    elif mode == "single":
        isel = rng.choice(steps)
    else:
        isel = sorted(rng.sample(steps, rng.randint(1, len(steps))))
    return rsel, isel


def run_impl(case, d):
    with fw.resolution(case):
        return _run_impl(case, d)


def _run_impl(case, d):
    from hta.common.trace import Trace
    from hta.trace_diff import LabeledTrace, TraceDiff, DeviceType
    rng = random.Random(case["params"]["pseed"])
    d1, d2 = os.path.join(d, "c"), os.path.join(d, "t")
    ksc = fw.time_scale(case)
    p1 = tracegen.write_case(fw.quartered(case) if ksc != 1 else case, d1)
    p2 = tracegen.write_case(fw.quartered({"ranks": case["ranks2"]}) if ksc != 1 else {"ranks": case["ranks2"]}, d2)
    s1, s2 = _steps(case["ranks"]), _steps({int(k): v for k, v in case["ranks2"].items()})
    if not s1 or not s2:
        return {"skip": True}
    # a quarter of the cases give both traces the same label (the tool then renames the test trace itself)
    same_label = rng.random() < 0.25
    lc = LabeledTrace("same" if same_label else "ctl", t=Trace(trace_files=dict(p1), trace_dir=d1))
    lt = LabeledTrace("same" if same_label else "tst", t=Trace(trace_files=dict(p2), trace_dir=d2))
    symc, symt = lc.t.symbol_table.get_sym_table(), lt.t.symbol_table.get_sym_table()
    fc = {r: fw.dump_frame_res(case, lc.t.traces[r], symc) for r in sorted(lc.t.traces)}
    ft = {r: fw.dump_frame_res(case, lt.t.traces[r], symt) for r in sorted(lt.t.traces)}
    crank, citer = _draw(rng, case["ranks"], s1)
    if case["params"]["self"]:
        trank, titer = crank, citer
        if rng.random() < 0.5 and not case["params"].get("thinned"):
            # the same trace, the same ranks, another draw of iterations: (nearly) the same names with other counts
            titer = _draw(rng, case["ranks"], s1)[1]
    else:
        trank, titer = _draw(rng, case["ranks2"], s2)
    dev = rng.choice(["ALL", "CPU", "GPU"])
    short = rng.random() < 0.5
    params = {"crank": crank, "citer": citer, "trank": trank, "titer": titer, "dev": dev, "short": short, "same_label": same_label}
    out = {}
    # the two public calls in either order: ops_diff as the FIRST call on a fresh pair in half of the cases
    ops_first = rng.random() < 0.5
    params["ops_first"] = ops_first
    if ops_first:
        try:
            od = TraceDiff.ops_diff(lc, lt, crank, trank, citer, titer, DeviceType[dev])
            out["ops_diff"] = {k: sorted(map(str, v)) for k, v in od.items()}
        except Exception as e:
            out["error2"] = "ops_diff: " + type(e).__name__ + ": " + str(e)[:200]
    try:
        df = TraceDiff.compare_traces(lc, lt, crank, trank, citer, titer, DeviceType[dev], short)
        rows = {}
        cl, tl = lc.label, lt.label
        for k, rec in zip(df.index, df.to_dict("records")):
            rows[str(k)] = [fw.as_int(rec[f"{cl}_counts"]), fw.as_int(rec[f"{tl}_counts"]), fw.as_int(rec[f"{cl}_total_duration"] * ksc),
                            fw.as_int(rec[f"{tl}_total_duration"] * ksc), fw.as_int(rec["diff_counts"]), fw.as_int(rec["diff_duration"] * ksc),
                            {"+": 1, "-": -1, "=": 0}[rec["counts_change_categories"]]]
        out["rows"] = rows
        out["dup_index"] = len(set(df.index)) != len(df.index)
    except Exception as e:
        out["error"] = "compare_traces: " + type(e).__name__ + ": " + str(e)[:200]
    if not ops_first:
        try:
            od = TraceDiff.ops_diff(lc, lt, crank, trank, citer, titer, DeviceType[dev])
            out["ops_diff"] = {k: sorted(map(str, v)) for k, v in od.items()}
        except Exception as e:
            out["error2"] = "ops_diff: " + type(e).__name__ + ": " + str(e)[:200]
    # the comparison reads the two traces: it must leave them as they were (the next comparison of the same objects reads them again)
    fc2 = {r: fw.dump_frame_res(case, lc.t.traces[r], symc) for r in sorted(lc.t.traces)}
    ft2 = {r: fw.dump_frame_res(case, lt.t.traces[r], symt) for r in sorted(lt.t.traces)}
    key = lambda x: x["idx"]
    out["altered"] = [nm for nm, a, b_ in (("control", fc, fc2), ("test", ft, ft2))
                      if any(sorted(a[r], key=key) != sorted(b_.get(r, []), key=key) for r in a)]
    return {"fc": fc, "ft": ft, "params": params, "steps": [s1, s2], "out": out}


def _resolve(sel, default):
    if sel is None:
        return default[:1]
    return [sel] if isinstance(sel, int) else list(sel)


def _tab(impl):
    from hta.utils.utils import shorten_name
    names = {r["name"] for fr in (impl["fc"], impl["ft"]) for rows in fr.values() for r in rows}
    return sorted(names | {shorten_name(n) for n in names})


def coq_term(case, impl):
    p = impl["params"]
    cr = _resolve(p["crank"], sorted(impl["fc"]))
    tr = _resolve(p["trank"], sorted(impl["ft"]))
    ci = _resolve(p["citer"], impl["steps"][0])
    ti = _resolve(p["titer"], impl["steps"][1])
    dev = {"ALL": 0, "CPU": 1, "GPU": 2}[p["dev"]]
    cf = "[" + ";\n ".join(fw.evl(impl["fc"][r]) for r in cr) + "]"
    tf = "[" + ";\n ".join(fw.evl(impl["ft"][r]) for r in tr) + "]"
    tab = fw.sl(_tab(impl))
    return (f"let cf := {cf} in let tf := {tf} in let tab := {tab} in\n"
            f" (encode_C17 tab {fw.b(p['short'])} {dev} cf {fw.zl(ci)} tf {fw.zl(ti)}, encode_C17 tab false {dev} cf {fw.zl(ci)} tf {fw.zl(ti)})")


CLASSES = ["added", "deleted", "increased", "decreased", "unchanged"]


def compare(case, impl, model):
    pre = []
    if isinstance(impl, dict) and isinstance(impl.get("out"), dict) and impl["out"].get("altered"):
        pre = [f"the comparison altered the {impl['out']['altered']} trace(s) it was given (rows of the loaded frames differ afterwards)"]
    return pre + list(_compare(case, impl, model))


def _compare(case, impl, model):
    o = impl["out"]
    p = impl["params"]
    disc = []
    if "error" in o:
        return [f"{o['error']} (params {p})"]
    tab = _tab(impl)
    m_rows, m_long = model
    want = {tab[r[0]] if r[0] >= 0 else f"<not in table {r[0]}>": list(r[1:8]) for r in m_rows}
    if o.get("dup_index"):
        disc.append("a name occurs on two rows of the comparison")
    if want != o["rows"]:
        ks = sorted(set(want) | set(o["rows"]))
        bad = [(k, o["rows"].get(k), want.get(k)) for k in ks if o["rows"].get(k) != want.get(k)][:3]
        disc.append(f"compare_traces rows differ (name, impl, model; cols c_cnt t_cnt c_dur t_dur d_cnt d_dur sign): {bad} params {p}")
    if "error2" in o:
        disc.append(f"{o['error2']} (params {p})")
    else:
        wantc = {c: sorted(tab[r[0]] for r in m_long if r[8 + j] == 1) for j, c in enumerate(CLASSES)}
        if wantc != o["ops_diff"]:
            disc.append(f"ops_diff differs: impl={o['ops_diff']} model={wantc}")
        allnames = sorted(tab[r[0]] for r in m_long)
        got = sorted(n for c in CLASSES for n in o["ops_diff"].get(c, []))
        if got != allnames:
            disc.append(f"ops_diff classes do not partition the names: union-with-multiplicity {got[:8]} vs names {allnames[:8]}")
    if case["params"]["self"] and not case["params"].get("thinned") and impl["params"].get("titer") == impl["params"].get("citer") and impl["params"].get("trank") == impl["params"].get("crank") and "rows" in o:
        for k, r in o["rows"].items():
            if r[4] != 0 or r[5] != 0 or r[6] != 0:
                disc.append(f"self-comparison: {k} has non-zero difference {r}")
                break
    return disc[:6]


def nontrivial(case, impl):
    o = impl.get("out", {})
    if "ops_diff" not in o:
        return False
    return sum(1 for v in o["ops_diff"].values() if v) >= 2


def classify(case, impl, model, disc):
    return None


LEVEL_TEXT = ("Proof: C17_selection_exact, C17_rows_exact (one row per name of either selection, none twice; counts and durations are those of the matching "
              "events), C17_classes_partition (exactly one of ops_diff's five masks holds for every listed name) + C17_classes_meaning, C17_self_compare; for all "
              "frames and selections. Correspondence on every row of compare_traces and the five lists of ops_diff, long and short names."
              " C17_resolution_independent: durations multiplied by k give the same names and counts and k times the total durations.")
LEVEL_NOTE = ("Hand model of extract_ops / get_ops_summary / compare_traces / ops_diff and of shorten_name (bracket-matching stack). pandas group-by and outer "
              "concat are modelled as count/sum per key over the de-duplicated key list.")
TECHNIQUE = "Coq proof over a Gallina model (counting per key, lia over the five masks) + differential correspondence via vm_compute"
