(* C06: get_idle_time_breakdown / _analyze_idle_time_for_stream (hta/analyzers/breakdown_analysis.py:729-919), hand model. *)
From HTA.lib Require Import Base.
Open Scope Z_scope.

Definition kernel_cats : list string :=
  ["kernel"; "Kernel"; "gpu_memset"; "Memset"; "gpu_memcpy"; "Memcpy"; "mtia_ccp_events"].
Definition is_kernel (e : ev) : bool := negb (stream e =? -1) && str_in (cat e) kernel_cats.

(* join with the row labelled by index_correlation: the launch call's start, for linked kernels *)
Definition ts_runtime (l : list ev) (k : ev) : option Z :=
  if 0 <? icorr k then option_map ts (find (fun r => idx r =? icorr k) l) else None.

(* sort by (start, end): among equal starts - possible only with a zero-length kernel - the one that ends first *)
Definition ev_lt (x y : ev) : bool := (ts x <? ts y) || ((ts x =? ts y) && (eend x <? eend y)).
Fixpoint insert_ev (x : ev) (l : list ev) : list ev :=
  match l with
  | [] => [x]
  | y :: r => if ev_lt x y then x :: l else y :: insert_ev x r
  end.
Definition sort_ev (l : list ev) : list ev := fold_right insert_ev [] l.

Definition stream_kernels (l : list ev) (s : Z) : list ev := filter (fun e => is_kernel e && (stream e =? s)) l.

(* 0 host_wait, 1 kernel_wait, 2 other *)
Definition classify (d : Z) (rt : option Z) (prev_end gap : Z) : Z :=
  match rt with
  | Some r => if prev_end <? r then 0 else if gap <? d then 1 else 2
  | None => if gap <? d then 1 else 2
  end.

(* ks: the stream's kernels in start order; prev_end: end of the previous one *)
Fixpoint walk (l : list ev) (d prev_end : Z) (ks : list ev) : list (Z * Z) :=
  match ks with
  | [] => []
  | k :: r => (classify d (ts_runtime l k) prev_end (ts k - prev_end), ts k - prev_end) :: walk l d (eend k) r
  end.

Definition gaps_sorted (l : list ev) (d : Z) (ks : list ev) : list (Z * Z) :=
  match ks with [] => [] | k :: r => walk l d (eend k) r end.

Definition cat_sum (c : Z) (gs : list (Z * Z)) : Z := sumZ (map snd (filter (fun g => fst g =? c) gs)).

Definition model_C06 (l : list ev) (d s : Z) : list Z :=
  let gs := gaps_sorted l d (sort_ev (stream_kernels l s)) in [cat_sum 0 gs; cat_sum 1 gs; cat_sum 2 gs].

Definition streams_of (l : list ev) : list Z := map stream (filter is_kernel l).
Definition encode_C06 (l : list ev) (d : Z) (ss : list Z) : list (list Z) := map (model_C06 l d) ss.
