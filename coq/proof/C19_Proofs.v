From HTA.lib Require Import Base.
From HTA.gen Require Import SaveFields_gen.
From HTA.model Require Import C19_Model.

Lemma str_in_In s l : str_in s l = true <-> In s l.
Proof.
  unfold str_in. rewrite existsb_exists. split.
  - intros [x [Hx E]]. apply String.eqb_eq in E. subst. exact Hx.
  - intro H. exists s. split; [exact H | apply String.eqb_refl].
Qed.

Section SaveRestore.
  Variables V G T PG PT PD : Type.
  Variable encG : G -> PG.  Variable decG : PG -> G.
  Variable encT : T -> PT.  Variable decT : PT -> T.
  Variable encD : list (string * V) -> PD.  Variable decD : PD -> list (string * V).
  (* the codecs round-trip on the values that occur (pickle, node-link, CSV: runtime behaviour, assumed and exercised) *)
  Hypothesis codecG : forall g, decG (encG g) = g.
  Hypothesis codecT : forall t, decT (encT t) = t.
  Hypothesis codecD : forall d, decD (encD d) = d.

  Notation gstate := (gstate V G T).
  Notation save := (save V G T PG PT PD encG encT encD).
  Notation restore := (restore V G T PG PT PD decG decT decD).
  Notation observe := (observe V G T).

  Lemma assoc_map (s : gstate) f l d : In f l -> assoc V f (map (fun k => (k, s_attr V G T s k)) l) d = s_attr V G T s f.
  Proof.
    induction l as [|k l IH]; intro H; [destruct H|]. simpl. destruct (String.eqb f k) eqn:E.
    - apply String.eqb_eq in E. subst. reflexivity.
    - destruct H as [H|H]; [subst; rewrite String.eqb_refl in E; discriminate | apply IH; exact H].
  Qed.

  (* one save / restore cycle: every covered attribute, the graph and the frame come back unchanged, provided the fresh
     instance agrees with the original on the attributes __init__ sets (same full trace, same rank) and on the frame *)
  Theorem roundtrip_attr (base : string -> V) (s : gstate) f :
    field_covered f = true ->
    (forall k, In k init_fields \/ In k restored_other -> base k = s_attr V G T s k) ->
    s_attr V G T (restore base (save s)) f = s_attr V G T s f.
  Proof.
    intros Hc Hbase. unfold save, restore, C19_Model.save, C19_Model.restore. cbn [s_attr]. rewrite codecD.
    unfold field_covered in Hc. destruct (str_in f restored_fields) eqn:R.
    - destruct (str_in f saved_fields) eqn:S.
      + apply assoc_map. apply str_in_In. exact S.
      + cbn [andb orb] in Hc. apply orb_prop in Hc.
        (* restored but not saved cannot happen when the lists agree; fall back on the base value *)
        assert (Hk : In f init_fields \/ In f restored_other) by (destruct Hc as [Hc|Hc]; [left | right]; apply str_in_In; exact Hc).
        (* the association list has no entry for f: the default base f is returned *)
        assert (Hn : forall l, ~ In f l -> assoc V f (map (fun k => (k, s_attr V G T s k)) l) (base f) = base f).
        { induction l as [|k l IH]; intro Hnot; [reflexivity|]. simpl. destruct (String.eqb f k) eqn:E.
          - apply String.eqb_eq in E. subst. exfalso. apply Hnot. left. reflexivity.
          - apply IH. intro H. apply Hnot. right. exact H. }
        rewrite Hn; [apply Hbase; exact Hk|]. intro H. apply str_in_In in H. congruence.
    - cbn [andb orb] in Hc. apply orb_prop in Hc. apply Hbase. destruct Hc as [Hc|Hc]; [left | right]; apply str_in_In; exact Hc.
  Qed.

  Theorem roundtrip (base : string -> V) (s : gstate) :
    fields_covered = true ->
    (forall k, In k init_fields \/ In k restored_other -> base k = s_attr V G T s k) ->
    observe (restore base (save s)) = observe s.
  Proof.
    intros Hcov Hbase. unfold observe, C19_Model.observe. f_equal; [f_equal|].
    - unfold save, restore, C19_Model.save, C19_Model.restore. cbn. apply codecG.
    - unfold save, restore, C19_Model.save, C19_Model.restore. cbn. apply codecT.
    - apply map_ext_in. intros f Hf. apply roundtrip_attr; [|exact Hbase].
      unfold fields_covered in Hcov. rewrite forallb_forall in Hcov. apply Hcov. exact Hf.
  Qed.

  (* any number of cycles *)
  Theorem iterated (base : string -> V) n : forall s : gstate,
    fields_covered = true ->
    (forall k, In k init_fields \/ In k restored_other -> base k = s_attr V G T s k) ->
    (forall k, In k init_fields \/ In k restored_other -> field_covered k = true) ->
    observe (cycles V G T PG PT PD encG decG encT decT encD decD n base s) = observe s.
  Proof.
    induction n as [|n IH]; intros s Hcov Hbase Hself; [reflexivity|]. cbn [cycles].
    rewrite IH; [apply roundtrip; assumption | exact Hcov | | exact Hself].
    intros k Hk. rewrite roundtrip_attr; [apply Hbase; exact Hk | apply Hself; exact Hk | exact Hbase].
  Qed.
End SaveRestore.

(* the generated lists: decided by computation on every run *)
Theorem fields_covered_now : fields_covered = true.
Proof. vm_compute. reflexivity. Qed.
Theorem lists_agree_now : lists_agree = true.
Proof. vm_compute. reflexivity. Qed.
Theorem init_and_other_covered : forallb field_covered (init_fields ++ restored_other) = true.
Proof. vm_compute. reflexivity. Qed.
