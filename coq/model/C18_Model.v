(* C18: trace filters (hta/common/trace_filter.py), hand model. A frame is a list of rows (event, rank). *)
From HTA.lib Require Import Base Regex.
Open Scope Z_scope.

Definition frow := (ev * Z)%type.
Definition frame := list frow.

Inductive flt : Type :=
| FIter (its : list Z)               (* IterationFilter *)
| FIterIdx (ixs : list Z)            (* IterationIndexFilter / FirstIterationFilter *)
| FRank (rs : list Z)                (* RankFilter *)
| FTime (lo hi : Z)                  (* TimeRangeFilter *)
| FName (pat : re)                   (* NameFilter: ids through the table, or decoded strings *)
| FGpu | FCpu                        (* GPUKernelFilter / CPUOperatorFilter *)
| FMemcpy (nm : string)              (* MemCopyEventFilter *)
| FComposite (fs : list flt).        (* CompositeFilter *)

Definition memZ (x : Z) (l : list Z) : bool := existsb (Z.eqb x) l.

(* sorted(df["iteration"].unique()) *)
Fixpoint insertZ (x : Z) (l : list Z) : list Z :=
  match l with
  | [] => [x]
  | y :: r => if x <? y then x :: l else if x =? y then l else y :: insertZ x r
  end.
Definition sorted_unique (l : list Z) : list Z := fold_right insertZ [] l.

Fixpoint select_idx (i : Z) (its ixs : list Z) : list Z :=
  match its with
  | [] => []
  | it :: r => (if memZ i ixs then [it] else []) ++ select_idx (i + 1) r ixs
  end.

(* the iterations an index filter selects on frame l; None = "return the input unchanged" *)
Definition idx_selection (ixs : list Z) (l : frame) : option (list Z) :=
  let its := sorted_unique (map (fun x => iter (fst x)) l) in
  match its with
  | [] => None                                  (* empty frame *)
  | [-1] => None
  | h :: r => Some (select_idx 0 (if h =? -1 then r else its) ixs)
  end.

(* with_tab: a symbol table is passed (the side filters then know the synchronisation events by name);
   tab: the symbols of the table (MemCopyEventFilter looks the type up) *)
Definition pred (with_tab : bool) (tab : list string) (f : flt) (l : frame) (x : frow) : bool :=
  let e := fst x in
  match f with
  | FIter its => memZ (iter e) its
  | FIterIdx ixs => match idx_selection ixs l with None => true | Some sel => memZ (iter e) sel end
  | FRank rs => memZ (snd x) rs
  | FTime lo hi => (lo <=? ts e) && (ts e + dur e <=? hi)
  | FName pat => match_prefix pat (name e)
  | FGpu => if with_tab then is_dev e else (stream e >=? 0) && (corr e >=? 0)
  | FCpu => if with_tab then is_host e else (stream e =? -1)
  | FMemcpy nm => str_in nm tab && String.eqb (name e) nm && String.eqb (cat e) "gpu_memcpy"
  | FComposite _ => true
  end.

Fixpoint apply (with_tab : bool) (tab : list string) (f : flt) (l : frame) {struct f} : frame :=
  match f with
  | FComposite fs =>
      (fix go (fs : list flt) (l : frame) : frame :=
         match fs with [] => l | g :: r => go r (apply with_tab tab g l) end) fs l
  | _ => filter (pred with_tab tab f l) l
  end.

(* filters whose predicate depends on the row alone *)
Fixpoint rowlocal (f : flt) : bool :=
  match f with
  | FIterIdx _ => false
  | FComposite fs => (fix all (fs : list flt) : bool := match fs with [] => true | g :: r => rowlocal g && all r end) fs
  | _ => true
  end.

Definition encode_C18 (with_tab : bool) (tab : list string) (fs : list flt) (l : frame) : list (list Z) :=
  map (fun f => map (fun x => idx (fst x)) (apply with_tab tab f l)) fs.
