(* C03 property theorems: call stack: parent is the innermost enclosing event on the thread.
   The comparators are regenerated from the source on every run (gen/Cmp_gen.v). *)
From Coq Require Import Permutation Sorted.
From HTA.lib Require Import Base.
From HTA.gen Require Import Cmp_gen.
From HTA.model Require Import C03_Model.
From HTA.proof Require Import C03_Order C03_Proofs.
From HTA.proof Require Import Scale C03_Scale.
Open Scope Z_scope.

(* (a) on ends of positive-duration events the GENERATED _less_than is exactly the lexicographic key order *)
Theorem C03_new_cmp_is_key_order : forall x y,
  okk x -> okk y -> (e_idx x = e_idx y -> e_time x <> e_time y) -> less_than_gen x y = Some (key_lt x y).
Proof. exact less_than_is_key_order. Qed.
Print Assumptions C03_new_cmp_is_key_order.

Theorem C03_new_cmp_total_order :
  (forall x, key_lt x x = false) /\
  (forall x y z, key_lt x y = true -> key_lt y z = true -> key_lt x z = true) /\
  (forall x y, (e_kind x = -1 \/ e_kind x = 1) -> (e_kind y = -1 \/ e_kind y = 1) -> key_lt x y = false -> key_lt y x = false ->
               e_time x = e_time y /\ e_kind x = e_kind y /\ e_dur x = e_dur y /\ e_idx x = e_idx y).
Proof. split; [exact key_lt_irrefl | split; [exact key_lt_trans | exact key_lt_total]]. Qed.
Print Assumptions C03_new_cmp_total_order.

(* (b) the deprecated builder's GENERATED compare_events: the same order except for equal-duration closing ends *)
Theorem C03_old_cmp_is_key_order : forall x y, okk x -> okk y -> e_idx x <> e_idx y ->
  exists c, compare_events_gen x y = Some c /\ (c <? 0) = key_lt_old x y.
Proof. exact compare_events_is_key_order. Qed.
Print Assumptions C03_old_cmp_is_key_order.

(* (c) enclosure is key order; endpoints of a nested pair never cross *)
Theorem C03_enclosure_is_key_order : forall a b, 0 < dur a -> 0 < dur b -> idx a <> idx b ->
  (encl a b <-> ts a <= ts b /\ eend b <= eend a /\ (ts a = ts b -> eend a = eend b -> idx a < idx b)).
Proof. exact enclosure_is_key_order. Qed.
Print Assumptions C03_enclosure_is_key_order.

Theorem C03_no_crossing : forall e t, 0 < dur e -> 0 < dur t -> idx e <> idx t -> nested e t ->
  kl (open_new e) (open_new t) -> kl (open_new t) (close_new e) -> kl (close_new e) (close_new t) -> False.
Proof. exact no_crossing. Qed.
Print Assumptions C03_no_crossing.

(* (d) for EVERY key-sorted permutation W of the endpoints of a properly nested family of positive-duration events with
   distinct ids, the push-on-open / pop-the-top-on-close machine gives each event, exactly once, its innermost encloser *)
Theorem C03_parent_innermost : forall F W, wf_family F -> Permutation (endpoints_new F) W -> sortedK W ->
  (forall b, In b F -> exists p, In (idx b, p) (machine OPEN_END (-1) [] W) /\ innermost_of F b p) /\
  (forall c p, In (c, p) (machine OPEN_END (-1) [] W) -> exists b, In b F /\ idx b = c /\ innermost_of F b p) /\
  NoDup (map fst (machine OPEN_END (-1) [] W)).
Proof. exact parent_innermost. Qed.
Print Assumptions C03_parent_innermost.

(* the model of the new builder (generated comparator + sort driver + machine) is such an instance *)
Theorem C03_model_new_builder : forall F, wf_family F ->
  (forall b, In b F -> exists p, In (idx b, p) (parents_new F) /\ innermost_of F b p) /\
  (forall c p, In (c, p) (parents_new F) -> exists b, In b F /\ idx b = c /\ innermost_of F b p) /\
  NoDup (map fst (parents_new F)).
Proof. exact model_parents_new. Qed.
Print Assumptions C03_model_new_builder.

(* (e) zero-duration events: the generated comparator has a 4-cycle at a touching instant (refutation witness; the
   replay on the implementation is the known finding C03-zero-duration-at-touching-instant) *)
Theorem C03_zero_duration_refuted :
  less_than_gen epB_open epZ_open = Some true /\ less_than_gen epZ_open epZ_close = Some true /\
  less_than_gen epZ_close epA_close = Some true /\ less_than_gen epA_close epB_open = Some true.
Proof. exact zero_duration_cycle. Qed.
Print Assumptions C03_zero_duration_refuted.

(* non-vacuity: shared start, identical spans, back-to-back siblings, arbitrary ids *)
Definition f03 : list ev :=
  [ mkEv 7 0 10 1 1 (-1) (-1) (-1) (-1) "a" "c"; mkEv 3 0 10 1 1 (-1) (-1) (-1) (-1) "b" "c";
    mkEv 9 0 4 1 1 (-1) (-1) (-1) (-1) "c" "c"; mkEv 1 4 6 1 1 (-1) (-1) (-1) (-1) "d" "c";
    mkEv 5 4 2 1 1 (-1) (-1) (-1) (-1) "e" "c"; mkEv 2 10 3 1 1 (-1) (-1) (-1) (-1) "f" "c" ].
Example C03_nonvacuous : encode_C03 f03 =
  ([[1; 7; 2]; [2; -1; 0]; [3; -1; 0]; [5; 1; 3]; [7; 3; 1]; [9; 7; 2]], [[1; 7; 2]; [2; -1; 0]; [3; -1; 0]; [5; 1; 3]; [7; 3; 1]; [9; 7; 2]]).
Proof. vm_compute. reflexivity. Qed.

(* resolution independence: multiplying every time and duration by k > 0 (fractional microseconds brought to a common
   denominator) changes neither builder's parent relation -- proved over the comparators generated from the source *)
Theorem C03_resolution_independent : forall k l, 0 < k ->
  parents_new (scale_evs k l) = parents_new l /\ parents_old (scale_evs k l) = parents_old l.
Proof. exact C03_scale. Qed.
Print Assumptions C03_resolution_independent.
