(* C11: the symbol table (hta/common/trace_symbol_table.py) and the gather-then-reencode step of
   Trace.parse_multiple_ranks (hta/common/trace.py).  add_symbols itself is GENERATED (gen/Symtab_gen.v). *)
From HTA.lib Require Import Base.
From HTA.gen Require Import Symtab_gen.
Open Scope Z_scope.

(* combine_symbol_tables: result = empty; for t in tables: result.add_symbols(t.get_sym_table()) *)
Definition combine (tables : list symtab) : symtab :=
  fold_left (fun acc t => add_symbols acc (sym_table t)) tables empty_symtab.
Definition clone (t : symtab) : symtab := mkSym (sym_table t) (sym_index t).

(* a history of operations on a pool of tables; tables are named by their position in the pool *)
Inductive op :=
| OAdd (t : nat) (syms : list string)        (* pool[t].add_symbols(syms) *)
| OClone (t : nat)                           (* pool.append(clone(pool[t])) *)
| OCombine (ts : list nat).                  (* pool.append(combine_symbol_tables([pool[i] for i in ts])) *)

Fixpoint set_nth {A} (n : nat) (x : A) (l : list A) : list A :=
  match n, l with
  | O, _ :: r => x :: r
  | S n', y :: r => y :: set_nth n' x r
  | _, [] => []
  end.

Definition step (pool : list symtab) (o : op) : list symtab :=
  match o with
  | OAdd t syms => set_nth t (add_symbols (nth t pool empty_symtab) syms) pool
  | OClone t => pool ++ [clone (nth t pool empty_symtab)]
  | OCombine ts => pool ++ [combine (map (fun i => nth i pool empty_symtab) ts)]
  end.
Definition run (ops : list op) : list symtab := fold_left step ops [empty_symtab].

(* parse_multiple_ranks: the global table gathers every rank's local table in rank order; a local id x of rank r
   is re-encoded as global_map[local_table[x]] *)
Definition gather (g : symtab) (locals : list symtab) : symtab :=
  fold_left (fun acc t => add_symbols acc (sym_table t)) locals g.
Definition reencode (g local : symtab) (x : Z) : option Z :=
  match nth_error (sym_table local) (Z.to_nat x) with
  | Some s => lookup s (sym_index g)
  | None => None
  end.
Definition decode (t : symtab) (i : Z) : option string := if i <? 0 then None else nth_error (sym_table t) (Z.to_nat i).

Definition encode_pool (pool : list symtab) : list (list string * list (string * Z)) :=
  map (fun t => (sym_table t, sym_index t)) pool.
