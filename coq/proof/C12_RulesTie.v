(* C12: the trimming rule of the model is the one regenerated from Trace._filter_irrelevant_gpu_kernels (gen/TrimRules_gen.v) *)
From HTA.lib Require Import Base.
From HTA.model Require Import Loader_Model.
From HTA.gen Require Import TrimRules_gen.
Open Scope list_scope.
Open Scope Z_scope.

Theorem trim_rules_are_generated : forall incl l e,
  keep_host incl l e = is_host e && host_cut_gen incl (ts e) (maxZ 0 (map ts (host_steps l))) (maxZ 0 (map eend (host_steps l))) /\
  is_step_row e = is_host e && contains step_marker_gen (name e) /\
  trim incl l = if Z.of_nat (List.length (host_steps l)) <? min_steps_gen then l else kept_dev incl l ++ kept_host incl l.
Proof. intros incl l e. split; [unfold keep_host, host_cut_gen; destruct incl; reflexivity|]. split; reflexivity. Qed.
