(* C17 property theorems: trace diff counts and durations are exact; change classes partition the names. *)
From HTA.lib Require Import Base.
From HTA.model Require Import C17_Model.
From HTA.gen Require Import DiffRules_gen.
From HTA.proof Require Import C17_RulesTie C17_Proofs.
From HTA.proof Require Import Scale C17_Scale.
Open Scope Z_scope.

Theorem C17_selection_exact : forall frames its dev e,
  In e (sel frames its dev) <-> (exists f, In f frames /\ In e f) /\ In (iter e) its /\ devsel dev e = true.
Proof. exact sel_exact. Qed.
Print Assumptions C17_selection_exact.

(* one row per (short) name occurring in either selection; its counts and durations are those of the matching events *)
Theorem C17_rows_exact : forall short c t,
  NoDup (map d_key (diff_rows short c t)) /\
  (forall k, In k (map d_key (diff_rows short c t)) <-> exists e, In e (c ++ t) /\ key short e = k) /\
  (forall r, In r (diff_rows short c t) ->
     d_cc r = cnt short (d_key r) c /\ d_tc r = cnt short (d_key r) t /\
     d_cd r = tot short (d_key r) c /\ d_td r = tot short (d_key r) t).
Proof. exact rows_exact. Qed.
Print Assumptions C17_rows_exact.

Theorem C17_row_counts_positive : forall short c t r, In r (diff_rows short c t) ->
  0 <= d_cc r /\ 0 <= d_tc r /\ 0 < d_cc r + d_tc r.
Proof. exact row_counts_positive. Qed.
Print Assumptions C17_row_counts_positive.

(* exactly one of the five masks of ops_diff holds for every listed name *)
Theorem C17_classes_partition : forall c t, 0 <= c -> 0 <= t -> 0 < c + t -> sumZ (map b2z (masks c t)) = 1.
Proof. exact classes_partition. Qed.
Print Assumptions C17_classes_partition.

Theorem C17_classes_meaning : forall c t, 0 <= c -> 0 <= t ->
  masks c t = [ (c =? 0) && (0 <? t); (0 <? c) && (t =? 0); (0 <? c) && (c <? t); (0 <? t) && (t <? c); (0 <? t) && (t =? c) ].
Proof. exact classes_meaning. Qed.
Print Assumptions C17_classes_meaning.

Theorem C17_self_compare : forall short c r, In r (diff_rows short c c) ->
  d_tc r - d_cc r = 0 /\ d_td r - d_cd r = 0 /\ masks (d_cc r) (d_tc r) = [false; false; false; false; true].
Proof. exact self_compare. Qed.
Print Assumptions C17_self_compare.

Definition c17 : list ev :=
  [ mkEv 0 0 5 1 1 (-1) (-1) (-1) 3 "aten::add" "cpu_op";
    mkEv 1 6 2 1 1 (-1) (-1) (-1) 3 "aten::add" "cpu_op";
    mkEv 2 9 4 0 7 7 7 1 3 "void at::native::kernel<4, Add<float> >(int)" "kernel";
    mkEv 3 20 1 1 1 (-1) (-1) (-1) 4 "aten::mul" "cpu_op" ].
Definition t17 : list ev :=
  [ mkEv 0 0 7 1 1 (-1) (-1) (-1) 5 "aten::add" "cpu_op";
    mkEv 1 9 3 0 7 7 7 1 5 "void at::native::kernel<8, Add<float> >(int)" "kernel";
    mkEv 2 9 3 0 7 7 7 1 5 "aten::relu" "cpu_op" ].
Example C17_nonvacuous :
  encode_C17 ["at::native::kernel"; "aten::add"; "aten::relu"] true 0 [c17] [3] [t17] [5] =
  [[0; 1; 1; 4; 3; 0; -1; 0; 0; 0; 0; 0; 1]; [1; 2; 1; 7; 7; -1; 0; -1; 0; 0; 0; 1; 0]; [2; 0; 1; 0; 3; 1; 3; 1; 1; 0; 0; 0; 0]].
Proof. vm_compute. reflexivity. Qed.

(* the tie by regeneration: the five class masks and the sign column are those read out of TraceDiff.ops_diff / compare_traces *)
Theorem C17_classes_follow_source : (forall c t, masks c t = masks_gen c t) /\ (forall d, sign d = sign_gen d).
Proof. split; [exact masks_are_generated | exact sign_is_generated]. Qed.
Print Assumptions C17_classes_follow_source.

(* resolution independence: durations multiplied by k give the same names with the same counts (hence the same change classes)
   and k times the total durations; selecting rows by iteration and device commutes with the scaling *)
Theorem C17_resolution_independent : forall k short c t frames its dev,
  diff_rows short (scale_evs k c) (scale_evs k t) = map (sdr k) (diff_rows short c t) /\
  sel (map (scale_evs k) frames) its dev = scale_evs k (sel frames its dev).
Proof. intros. split; [apply C17_scale | apply sel_scale]. Qed.
Print Assumptions C17_resolution_independent.
