(* C02 property theorems: correlation links are mutual, opposite-side, same-id, or a sentinel. *)
From HTA.lib Require Import Base.
From HTA.model Require Import Loader_Model.
From HTA.gen Require Import LinkRules_gen.
From HTA.proof Require Import C02_Proofs C02_RulesTie.
Open Scope Z_scope.

Theorem C02_link_mutual : forall l e p,
  wf_corr l -> In e l -> In p l -> partner_b e p = true ->
  link_of l e = idx p /\ link_of l p = idx e.
Proof. exact link_mutual. Qed.
Print Assumptions C02_link_mutual.

Theorem C02_link_sentinel : forall l e,
  (forall p, In p l -> partner_b e p = false) ->
  link_of l e = Z.min (corr e) 0 /\
  (corr e = -1 -> link_of l e = -1) /\ (0 <= corr e -> link_of l e = 0).
Proof. exact link_sentinel. Qed.
Print Assumptions C02_link_sentinel.

(* no wf hypothesis at all: never another id, never the own side *)
Theorem C02_never_other_id_or_same_side : forall l e,
  0 < link_of l e ->
  exists p, In p l /\ idx p = link_of l e /\ corr p = corr e /\ corr e <> -1 /\ is_dev p <> is_dev e.
Proof. exact link_never_wrong. Qed.
Print Assumptions C02_never_other_id_or_same_side.

Theorem C02_trichotomy : forall l e,
  (exists p, In p l /\ partner_b e p = true /\ link_of l e = idx p) \/
  (corr e = -1 /\ link_of l e = -1) \/ (0 <= corr e /\ link_of l e = 0) \/ (corr e < -1 /\ link_of l e = corr e).
Proof. exact link_trichotomy. Qed.
Print Assumptions C02_trichotomy.

Theorem C02_partner_spec : forall e p,
  partner_b e p = true <-> corr p = corr e /\ corr e <> -1 /\ is_dev p <> is_dev e.
Proof. exact partner_b_spec. Qed.
Print Assumptions C02_partner_spec.

Theorem C02_link_rows : forall l e',
  In e' (link l) <-> exists e, In e l /\ e' = set_icorr e (link_of l e).
Proof. exact link_rows. Qed.
Print Assumptions C02_link_rows.

(* non-vacuity: a launch/kernel pair, a launch without kernel, an orphan kernel, a Context Sync on stream -1 *)
Definition ex02 : list ev :=
  [ mkEv 0 0 2 1 1 (-1) (-1) 0 0 "aten::zeros" "cpu_op";
    mkEv 1 1 3 1 1 (-1) 10 0 0 "cudaLaunchKernel" "cuda_runtime";
    mkEv 2 9 4 0 7 7 10 0 0 "gemm" "kernel";
    mkEv 3 5 1 1 1 (-1) 11 0 0 "cudaLaunchKernel" "cuda_runtime";
    mkEv 4 20 1 0 7 7 13 0 0 "orphan" "kernel";
    mkEv 5 21 5 1 1 (-1) 14 0 0 "cudaDeviceSynchronize" "cuda_runtime";
    mkEv 6 22 3 0 0 (-1) 14 0 0 "Context Sync" "cuda_sync" ].
Example C02_nonvacuous : map icorr (link ex02) = [-1; 2; 1; 0; 0; 6; 5].
Proof. vm_compute. reflexivity. Qed.
Example C02_wf_nonvacuous : forall e p q, In e ex02 -> In p ex02 -> In q ex02 ->
  partner_b e p = true -> partner_b e q = true -> idx p = idx q.
Proof.
  intros e p q He Hp Hq. simpl in He, Hp, Hq.
  repeat (destruct He as [He|He]; [subst e|]); try contradiction;
  repeat (destruct Hp as [Hp|Hp]; [subst p|]); try contradiction;
  repeat (destruct Hq as [Hq|Hq]; [subst q|]); try contradiction; vm_compute; congruence.
Qed.

(* the fallback value, the "has an id" test of the pairing and the alignment shift are regenerated from transform_correlation_to_index
   and Trace._align_all_ranks on every run (strict statement-by-statement reading) and are the model's *)
Theorem C02_rules_follow_source : forall l e,
  (find (partner_b e) l = None -> link_of l e = link_fallback_gen (corr e)) /\
  (forall p, partner_b e p = (corr p =? corr e) && has_id_gen (corr e) && xorb (is_dev p) (is_dev e)).
Proof. exact link_rules_are_generated. Qed.
Print Assumptions C02_rules_follow_source.

Theorem C02_alignment_follows_source : forall c e, ts (shift c e) = aligned_gen c (ts e).
Proof. exact align_rule_is_generated. Qed.
Print Assumptions C02_alignment_follows_source.
