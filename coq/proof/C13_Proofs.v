(* C13: a table of call-graph rows that satisfies the LOCAL equations reports, for every host node, the aggregates of ALL
   device activities among its descendants.  Induction on the height column. *)
From HTA.lib Require Import Base.
Open Scope list_scope.
Open Scope Z_scope.

Record node := mkNode {
  n_id : Z; n_parent : Z; n_dev : bool; n_ts : Z; n_dur : Z;
  n_depth : Z; n_height : Z; n_nk : Z; n_ks : Z; n_kf : Z; n_kl : Z; n_sp : Z }.

Definition kids (T : list node) (i : Z) : list node := filter (fun c => n_parent c =? i) T.
Definition lookup_node (T : list node) (i : Z) : option node := find (fun c => n_id c =? i) T.

Definition is_min (m : Z) (l : list Z) : Prop := In m l /\ Forall (fun x => m <= x) l.
Definition is_max (m : Z) (l : list Z) : Prop := In m l /\ Forall (fun x => x <= m) l.

(* the local equations of one row *)
Definition local_ok (T : list node) (n : node) : Prop :=
  (match lookup_node T (n_parent n) with
   | Some p => n_depth n = n_depth p + 1
   | None => n_depth n = 0
   end) /\
  if n_dev n then
    n_height n = 0 /\ n_nk n = 1 /\ n_ks n = n_dur n /\ n_kf n = n_ts n /\ n_kl n = n_ts n + n_dur n /\ n_sp n = n_dur n
  else
    let ch := kids T (n_id n) in
    let act := filter (fun c => 0 <? n_nk c) ch in
    n_height n = 1 + maxZ 0 (0 :: map n_height ch) /\
    n_nk n = sumZ (map n_nk ch) /\ n_ks n = sumZ (map n_ks ch) /\
    (match act with
     | [] => n_kf n = -1 /\ n_kl n = -1 /\ n_sp n = 0
     | _ => is_min (n_kf n) (map n_kf act) /\ is_max (n_kl n) (map n_kl act) /\ n_sp n = n_kl n - n_kf n
     end).

(* the device activities among the descendants of n, by unfolding the child relation h times *)
Fixpoint klist (T : list node) (h : nat) (n : node) : list node :=
  match h with
  | O => []
  | S h' => flat_map (fun c => if n_dev c then [c] else klist T h' c) (kids T (n_id n))
  end.

(* what the property asks of a host row, in terms of the list K of device activities beneath it *)
Definition aggregates (n : node) (K : list node) : Prop :=
  n_nk n = Z.of_nat (List.length K) /\ n_ks n = sumZ (map n_dur K) /\
  match K with
  | [] => n_kf n = -1 /\ n_kl n = -1 /\ n_sp n = 0
  | _ => is_min (n_kf n) (map n_ts K) /\ is_max (n_kl n) (map (fun k => n_ts k + n_dur k) K) /\ n_sp n = n_kl n - n_kf n
  end.

Lemma maxZ_ge_all d l x : In x l -> x <= maxZ d l.
Proof.
  revert d. induction l as [|y l IH]; intros d Hx; [destruct Hx|]. simpl. destruct Hx as [Hx|Hx]; [subst; lia|].
  specialize (IH y Hx). lia.
Qed.

Lemma kid_height T n c : local_ok T n -> n_dev n = false -> In c (kids T (n_id n)) -> n_height c < n_height n.
Proof.
  intros [_ Hl] Hd Hc. rewrite Hd in Hl. destruct Hl as [Hh _]. rewrite Hh.
  assert (n_height c <= maxZ 0 (0 :: map n_height (kids T (n_id n)))).
  { apply maxZ_ge_all. right. apply in_map. exact Hc. }
  lia.
Qed.

Lemma sumZ_cons_l x l : sumZ (x :: l) = x + sumZ l.
Proof. reflexivity. Qed.

(* sums and extrema over a concatenation of per-child lists *)
Lemma length_flat_map {A B} (f : A -> list B) l :
  Z.of_nat (List.length (flat_map f l)) = sumZ (map (fun a => Z.of_nat (List.length (f a))) l).
Proof. induction l as [|a l IH]; [reflexivity|]. cbn [flat_map map]. rewrite app_length, sumZ_cons_l. lia. Qed.

Lemma flat_map_filter_empty {A B} (f : A -> list B) (p : A -> bool) l :
  (forall x, In x l -> p x = false -> f x = []) -> flat_map f l = flat_map f (filter p l).
Proof.
  induction l as [|a l IH]; intro H; [reflexivity|]. cbn [flat_map filter].
  rewrite IH by (intros x Hx; apply H; right; exact Hx).
  destruct (p a) eqn:E; [reflexivity|]. rewrite (H a (or_introl eq_refl) E). reflexivity.
Qed.

Lemma is_min_concat (parts : list (Z * list Z)) m :
  (forall mp, In mp parts -> is_min (fst mp) (snd mp)) -> is_min m (map fst parts) -> is_min m (List.concat (map snd parts)).
Proof.
  intros Hparts [Hin Hall]. split.
  - apply in_map_iff in Hin. destruct Hin as [[mc P] [E Hmp]]. cbn in E. subst mc.
    apply in_concat. exists P. split; [apply in_map_iff; exists (m, P); auto|]. exact (proj1 (Hparts _ Hmp)).
  - rewrite Forall_forall in *. intros x Hx. apply in_concat in Hx. destruct Hx as [P [HP Hx]].
    apply in_map_iff in HP. destruct HP as [[mc P'] [E Hmp]]. cbn in E. subst P'.
    destruct (Hparts _ Hmp) as [_ Hle]. rewrite Forall_forall in Hle. cbn in Hle.
    assert (m <= mc) by (apply Hall; apply in_map_iff; exists (mc, P); auto). specialize (Hle x Hx). lia.
Qed.

Lemma is_max_concat (parts : list (Z * list Z)) m :
  (forall mp, In mp parts -> is_max (fst mp) (snd mp)) -> is_max m (map fst parts) -> is_max m (List.concat (map snd parts)).
Proof.
  intros Hparts [Hin Hall]. split.
  - apply in_map_iff in Hin. destruct Hin as [[mc P] [E Hmp]]. cbn in E. subst mc.
    apply in_concat. exists P. split; [apply in_map_iff; exists (m, P); auto|]. exact (proj1 (Hparts _ Hmp)).
  - rewrite Forall_forall in *. intros x Hx. apply in_concat in Hx. destruct Hx as [P [HP Hx]].
    apply in_map_iff in HP. destruct HP as [[mc P'] [E Hmp]]. cbn in E. subst P'.
    destruct (Hparts _ Hmp) as [_ Hle]. rewrite Forall_forall in Hle. cbn in Hle.
    assert (mc <= m) by (apply Hall; apply in_map_iff; exists (mc, P); auto). specialize (Hle x Hx). lia.
Qed.

Lemma map_flat_map {A B C} (g : B -> C) (f : A -> list B) l : map g (flat_map f l) = List.concat (map (fun a => map g (f a)) l).
Proof. induction l as [|a l IH]; [reflexivity|]. cbn [flat_map map List.concat]. rewrite map_app, IH. reflexivity. Qed.

Lemma sumZ_concat l : sumZ (List.concat l) = sumZ (map sumZ l).
Proof. induction l as [|a l IH]; [reflexivity|]. cbn [List.concat map]. rewrite sumZ_app, sumZ_cons_l, IH. reflexivity. Qed.

Lemma match_nonempty {A} (K : list A) (P Q : Prop) : K <> [] -> Q -> match K with [] => P | _ :: _ => Q end.
Proof. destruct K; [congruence | auto]. Qed.

Section Table.
  Variable T : list node.
  Hypothesis Hlocal : forall n, In n T -> local_ok T n.

  Definition part (h : nat) (c : node) : list node := if n_dev c then [c] else klist T h c.

  Lemma kids_in n c : In c (kids T (n_id n)) -> In c T.
  Proof. unfold kids. intro H. apply filter_In in H. tauto. Qed.

  (* S(h): every row of height <= h satisfies the aggregate statement w.r.t. its h-fold unfolding *)
  Lemma aggregates_by_height : forall h n, In n T -> n_dev n = false -> n_height n <= Z.of_nat h -> aggregates n (klist T h n).
  Proof.
    induction h as [|h IH]; intros n Hn Hd Hh.
    - (* height <= 0 is impossible for a host row: height = 1 + max(0, ...) *)
      exfalso. destruct (Hlocal n Hn) as [_ Hl]. rewrite Hd in Hl. destruct Hl as [Hheight _].
      assert (0 <= maxZ 0 (0 :: map n_height (kids T (n_id n)))) by (apply maxZ_ge_all; left; reflexivity). lia.
    - pose proof (Hlocal n Hn) as [_ Hl]. rewrite Hd in Hl. cbv zeta in Hl. destruct Hl as [Hheight [Hnk [Hks Hext]]].
      set (ch := kids T (n_id n)) in *.
      (* every child is described by its own part *)
      assert (Hch : forall c, In c ch -> n_nk c = Z.of_nat (List.length (part h c)) /\ n_ks c = sumZ (map n_dur (part h c)) /\
                                         (0 < n_nk c -> is_min (n_kf c) (map n_ts (part h c)) /\
                                                        is_max (n_kl c) (map (fun k => n_ts k + n_dur k) (part h c)))).
      { intros c Hc. pose proof (kids_in n c Hc) as HcT. unfold part. destruct (n_dev c) eqn:Dc.
        - destruct (Hlocal c HcT) as [_ Hlc]. rewrite Dc in Hlc. destruct Hlc as [_ [H1 [H2 [H3 [H4 _]]]]].
          cbn [List.length map sumZ fold_right]. repeat split; try lia.
          + left. symmetry. exact H3. + constructor; [lia | constructor]. + left. symmetry. exact H4. + constructor; [lia | constructor].
        - assert (Hlt : n_height c < n_height n) by (apply (kid_height T n c (Hlocal n Hn) Hd Hc)).
          destruct (IH c HcT Dc ltac:(lia)) as [A1 [A2 A3]]. split; [exact A1|]. split; [exact A2|].
          intro Hpos. destruct (klist T h c) as [|k K'] eqn:EK; [cbn in A1; lia|]. destruct A3 as [B1 [B2 _]]. split; assumption. }
      assert (Hempty : forall c, In c ch -> (0 <? n_nk c) = false -> part h c = []).
      { intros c Hc Hz. destruct (Hch c Hc) as [A1 _]. destruct (part h c); [reflexivity | cbn in A1; lia]. }
      change (klist T (S h) n) with (flat_map (part h) ch).
      unfold aggregates. split; [|split].
      + rewrite Hnk, length_flat_map. f_equal. apply map_ext_in. intros c Hc. exact (proj1 (Hch c Hc)).
      + rewrite Hks, map_flat_map, sumZ_concat, map_map. f_equal. apply map_ext_in. intros c Hc. exact (proj1 (proj2 (Hch c Hc))).
      + set (act := filter (fun c => 0 <? n_nk c) ch) in *.
        assert (Hflat : flat_map (part h) ch = flat_map (part h) act) by (apply flat_map_filter_empty; exact Hempty).
        assert (Hact : forall c, In c act -> In c ch /\ 0 < n_nk c).
        { intros c Hc. unfold act in Hc. apply filter_In in Hc. destruct Hc as [H1 H2]. split; [exact H1 | lia]. }
        destruct act as [|a0 act'] eqn:Eact.
        * rewrite Hflat. cbn. exact Hext.
        * assert (Hne : flat_map (part h) ch <> []).
          { rewrite Hflat. cbn [flat_map]. destruct (Hact a0 (or_introl eq_refl)) as [Ha0 Hpos]. destruct (Hch a0 Ha0) as [A1 _].
            destruct (part h a0); [cbn in A1; lia | discriminate]. }
          apply match_nonempty; [exact Hne|].
          destruct Hext as [Hmin [Hmax Hsp]]. split; [|split; [|exact Hsp]].
          -- rewrite Hflat, map_flat_map.
             replace (map (fun a => map n_ts (part h a)) (a0 :: act')) with (map snd (map (fun c => (n_kf c, map n_ts (part h c))) (a0 :: act')))
               by (rewrite map_map; reflexivity).
             apply is_min_concat.
             ++ intros mp Hmp. apply in_map_iff in Hmp. destruct Hmp as [c [E Hc]]. subst mp. cbn [fst snd].
                destruct (Hact c Hc) as [Hc' Hpos]. exact (proj1 (proj2 (proj2 (Hch c Hc')) Hpos)).
             ++ rewrite map_map. cbn [fst]. exact Hmin.
          -- rewrite Hflat, map_flat_map.
             replace (map (fun a => map (fun k => n_ts k + n_dur k) (part h a)) (a0 :: act'))
               with (map snd (map (fun c => (n_kl c, map (fun k => n_ts k + n_dur k) (part h c))) (a0 :: act')))
               by (rewrite map_map; reflexivity).
             apply is_max_concat.
             ++ intros mp Hmp. apply in_map_iff in Hmp. destruct Hmp as [c [E Hc]]. subst mp. cbn [fst snd].
                destruct (Hact c Hc) as [Hc' Hpos]. exact (proj2 (proj2 (proj2 (Hch c Hc')) Hpos)).
             ++ rewrite map_map. cbn [fst]. exact Hmax.
  Qed.

  Theorem local_equations_sound n : In n T -> n_dev n = false -> 0 <= n_height n ->
    aggregates n (klist T (Z.to_nat (n_height n)) n).
  Proof. intros Hn Hd Hh. apply aggregates_by_height; auto. lia. Qed.

  Theorem depth_rule n : In n T ->
    match lookup_node T (n_parent n) with Some p => n_depth n = n_depth p + 1 | None => n_depth n = 0 end.
  Proof. intro Hn. exact (proj1 (Hlocal n Hn)). Qed.

  Theorem height_rule n : In n T ->
    if n_dev n then n_height n = 0 else n_height n = 1 + maxZ 0 (0 :: map n_height (kids T (n_id n))).
  Proof. intro Hn. destruct (Hlocal n Hn) as [_ Hl]. destruct (n_dev n); cbv zeta in *; tauto. Qed.
End Table.

(* ---------------- the boolean checker, evaluated on every implementation table ---------------- *)
Definition is_minb (m : Z) (l : list Z) : bool := existsb (Z.eqb m) l && forallb (fun x => m <=? x) l.
Definition is_maxb (m : Z) (l : list Z) : bool := existsb (Z.eqb m) l && forallb (fun x => x <=? m) l.

Definition local_okb (T : list node) (n : node) : bool :=
  (match lookup_node T (n_parent n) with
   | Some p => n_depth n =? n_depth p + 1
   | None => n_depth n =? 0
   end) &&
  (if n_dev n then
     (n_height n =? 0) && (n_nk n =? 1) && (n_ks n =? n_dur n) && (n_kf n =? n_ts n) && (n_kl n =? n_ts n + n_dur n) && (n_sp n =? n_dur n)
   else
     let ch := kids T (n_id n) in
     let act := filter (fun c => 0 <? n_nk c) ch in
     (n_height n =? 1 + maxZ 0 (0 :: map n_height ch)) && (n_nk n =? sumZ (map n_nk ch)) && (n_ks n =? sumZ (map n_ks ch)) &&
     (match act with
      | [] => (n_kf n =? -1) && (n_kl n =? -1) && (n_sp n =? 0)
      | _ => is_minb (n_kf n) (map n_kf act) && is_maxb (n_kl n) (map n_kl act) && (n_sp n =? n_kl n - n_kf n)
      end)).

Lemma is_minb_spec m l : is_minb m l = true -> is_min m l.
Proof.
  unfold is_minb, is_min. rewrite andb_true_iff, existsb_exists, forallb_forall, Forall_forall. intros [[x [Hx E]] H].
  apply Z.eqb_eq in E. subst. split; [exact Hx|]. intros y Hy. specialize (H y Hy). lia.
Qed.
Lemma is_maxb_spec m l : is_maxb m l = true -> is_max m l.
Proof.
  unfold is_maxb, is_max. rewrite andb_true_iff, existsb_exists, forallb_forall, Forall_forall. intros [[x [Hx E]] H].
  apply Z.eqb_eq in E. subst. split; [exact Hx|]. intros y Hy. specialize (H y Hy). lia.
Qed.

Theorem local_okb_sound T n : local_okb T n = true -> local_ok T n.
Proof.
  unfold local_okb, local_ok. rewrite andb_true_iff. intros [H1 H2]. split.
  - destruct (lookup_node T (n_parent n)); lia.
  - destruct (n_dev n).
    + lia.
    + cbv zeta in *. rewrite !andb_true_iff in H2. destruct H2 as [[[Ha Hb] Hc] Hd].
      split; [lia|]. split; [lia|]. split; [lia|].
      destruct (filter (fun c => 0 <? n_nk c) (kids T (n_id n))) as [|a act] eqn:E.
      * lia.
      * rewrite !andb_true_iff in Hd. destruct Hd as [[Hmin Hmax] Hsp]. split; [apply is_minb_spec; exact Hmin|].
        split; [apply is_maxb_spec; exact Hmax | lia].
Qed.

Definition check_table (T : list node) : bool := forallb (local_okb T) T.

Theorem check_table_sound T : check_table T = true ->
  forall n, In n T -> n_dev n = false -> 0 <= n_height n -> aggregates n (klist T (Z.to_nat (n_height n)) n).
Proof.
  intros H n Hn. apply local_equations_sound; [|exact Hn]. intros m Hm. apply local_okb_sound.
  unfold check_table in H. rewrite forallb_forall in H. apply H. exact Hm.
Qed.
