From HTA.lib Require Import Base ListExtra.
From HTA.model Require Import C15_Model.

Lemma memZ_In x l : memZ x l = true <-> In x l.
Proof.
  unfold memZ. rewrite existsb_exists. split.
  - intros [y [Hy He]]. apply Z.eqb_eq in He. subst. exact Hy.
  - intro H. exists x. split; [exact H | apply Z.eqb_refl].
Qed.

Lemma in_launch_corrs mem l c :
  In c (launch_corrs mem l) <-> exists r', In r' l /\ is_launch_name mem (name r') = true /\ corr r' = c.
Proof.
  unfold launch_corrs. rewrite in_map_iff. split.
  - intros [r' [Hc Hin]]. apply filter_In in Hin. destruct Hin as [Hin Hl]. exists r'. auto.
  - intros [r' [Hin [Hl Hc]]]. exists r'. split; [exact Hc|]. apply filter_In. auto.
Qed.

(* "linked pair" exactly as the code selects it *)
Definition pair_sel (mem : bool) (l : list ev) (r k : ev) : Prop :=
  In r l /\ In k l /\ stream r = -1 /\ stream k <> -1 /\ corr k = corr r /\
  exists r', In r' l /\ is_launch_name mem (name r') = true /\ corr r' = corr r.

Lemma in_pairs mem l r k : In (r, k) (pairs mem l) <-> pair_sel mem l r k.
Proof.
  unfold pairs, pair_sel. rewrite in_flat_map. split.
  - intros [r0 [Hr0 Hin]]. apply in_map_iff in Hin. destruct Hin as [k0 [Heq Hk0]].
    inversion Heq; subst r0 k0; clear Heq.
    apply filter_In in Hk0. destruct Hk0 as [Hk0 Hc]. apply Z.eqb_eq in Hc.
    unfold cpu_sel in Hr0. apply filter_In in Hr0. destruct Hr0 as [Hr Hr0].
    apply andb_true_iff in Hr0. destruct Hr0 as [Hs Hm]. apply Z.eqb_eq in Hs.
    unfold gpu_sel in Hk0. apply filter_In in Hk0. destruct Hk0 as [Hk Hk0].
    apply andb_true_iff in Hk0. destruct Hk0 as [Hks _].
    apply negb_true_iff in Hks. apply Z.eqb_neq in Hks.
    apply memZ_In in Hm. apply in_launch_corrs in Hm.
    repeat split; auto.
  - intros [Hr [Hk [Hs [Hks [Hc Hex]]]]]. exists r. split.
    + unfold cpu_sel. apply filter_In. split; [exact Hr|].
      apply andb_true_iff. split; [apply Z.eqb_eq; exact Hs|].
      apply memZ_In. apply in_launch_corrs. exact Hex.
    + apply in_map_iff. exists k. split; [reflexivity|].
      apply filter_In. split; [|apply Z.eqb_eq; exact Hc].
      unfold gpu_sel. apply filter_In. split; [exact Hk|].
      apply andb_true_iff. split; [apply negb_true_iff; apply Z.eqb_neq; exact Hks|].
      apply memZ_In. apply in_launch_corrs. rewrite Hc. exact Hex.
Qed.

Lemma NoDup_pairs mem l : NoDup l -> NoDup (pairs mem l).
Proof.
  intro Hnd. unfold pairs.
  apply (NoDup_flat_map_pairs (fun r => filter (fun k => corr k =? corr r) (gpu_sel mem l))).
  - unfold cpu_sel. apply NoDup_filter. exact Hnd.
  - intros a _. apply NoDup_filter. unfold gpu_sel. apply NoDup_filter. exact Hnd.
Qed.

(* Well-formedness used by the property: the correlation id of a launch call is carried by no
   other row on stream -1 (a correlation id pairs at most one host call ...), and launch calls
   are host rows. *)
Definition wf_launch (l : list ev) : Prop :=
  forall r r', In r l -> In r' l -> is_launch_name true (name r') = true ->
    stream r = -1 -> corr r' = corr r -> r' = r.

Definition linked_pair (mem : bool) (l : list ev) (r k : ev) : Prop :=
  In r l /\ In k l /\ is_launch_name mem (name r) = true /\ stream r = -1 /\
  stream k <> -1 /\ corr k = corr r.

Lemma launch_name_mono mem n : is_launch_name mem n = true -> is_launch_name true n = true.
Proof.
  unfold is_launch_name. destruct mem; [auto|]. rewrite andb_false_l, orb_false_r.
  intro H. rewrite H. reflexivity.
Qed.

Lemma pair_sel_wf mem l r k : wf_launch l -> (pair_sel mem l r k <-> linked_pair mem l r k).
Proof.
  intro Hwf. unfold pair_sel, linked_pair. split.
  - intros [Hr [Hk [Hs [Hks [Hc [r' [Hr' [Hl Hc']]]]]]]].
    assert (r' = r) by (apply Hwf; auto; eapply launch_name_mono; eassumption). subst r'. auto 10.
  - intros [Hr [Hk [Hl [Hs [Hks Hc]]]]]. repeat split; auto. exists r. auto.
Qed.

Theorem rows_exact mem l :
  NoDup l -> wf_launch l ->
  NoDup (pairs mem l) /\ (forall r k, In (r, k) (pairs mem l) <-> linked_pair mem l r k).
Proof.
  intros Hnd Hwf. split; [apply NoDup_pairs; exact Hnd|].
  intros r k. rewrite in_pairs. apply pair_sel_wf. exact Hwf.
Qed.

Theorem row_values r k :
  row (r, k) = [corr r; dur r; dur k; Z.max 0 (ts k - (ts r + dur r))].
Proof. unfold row. f_equal. f_equal. f_equal. f_equal. lia. Qed.

Theorem delay_floor r k :
  0 <= nth 3 (row (r, k)) 0 /\
  (ts r + dur r <= ts k -> nth 3 (row (r, k)) 0 = ts k - (ts r + dur r)) /\
  (ts k <= ts r + dur r -> nth 3 (row (r, k)) 0 = 0).
Proof. unfold row; simpl. lia. Qed.

Definition is_mem_launch (n : string) : bool :=
  str_in n memory_launch_names && negb (str_in n kernel_launch_names).

(* Flag off = flag on minus the pairs whose launch call is a memory launch. *)
Theorem memory_flag l r k :
  wf_launch l ->
  (In (r, k) (pairs false l) <->
   In (r, k) (pairs true l) /\ is_mem_launch (name r) = false).
Proof.
  intro Hwf. rewrite !in_pairs, !(pair_sel_wf _ _ _ _ Hwf). unfold linked_pair, is_mem_launch, is_launch_name.
  destruct (str_in (name r) kernel_launch_names); destruct (str_in (name r) memory_launch_names);
    simpl; intuition congruence.
Qed.
