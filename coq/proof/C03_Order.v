(* The generated _less_than is the lexicographic key order on endpoints of positive-duration events. *)
From Coq Require Import ZifyBool.
From HTA.lib Require Import Base.
From HTA.gen Require Import Cmp_gen.
From HTA.model Require Import C03_Model.
Open Scope Z_scope.

(* the key order: time; inside an instant closing ends first; opening ends: longer first, then smaller id;
   closing ends: shorter first, then larger id *)
Definition key_lt (x y : ep) : bool :=
  (e_time x <? e_time y) ||
  ((e_time x =? e_time y) &&
   (((e_kind x =? 1) && (e_kind y =? -1)) ||
    ((e_kind x =? -1) && (e_kind y =? -1) && ((e_dur y <? e_dur x) || ((e_dur x =? e_dur y) && (e_idx x <? e_idx y)))) ||
    ((e_kind x =? 1) && (e_kind y =? 1) && ((e_dur x <? e_dur y) || ((e_dur x =? e_dur y) && (e_idx y <? e_idx x)))))).

(* an end of a positive-duration event *)
Definition okk (x : ep) : Prop := 0 < e_dur x /\ (e_kind x = -1 \/ e_kind x = 1).

Theorem less_than_is_key_order x y :
  okk x -> okk y -> (e_idx x = e_idx y -> e_time x <> e_time y) ->
  less_than_gen x y = Some (key_lt x y).
Proof.
  intros [Hdx Hkx] [Hdy Hky] Hsame. unfold less_than_gen, cmp_zero_gen, key_lt.
  destruct (e_time x =? e_time y) eqn:Et; cbn [negb].
  - destruct (e_idx x =? e_idx y) eqn:Ei; [exfalso; lia|].
    replace ((e_dur x =? 0) || (e_dur y =? 0)) with false by lia.
    destruct Hkx as [Hkx|Hkx], Hky as [Hky|Hky]; rewrite Hkx, Hky;
      repeat match goal with |- context [Z.eqb ?a ?b] =>
        match a with 1 => idtac | -1 => idtac end; match b with 1 => idtac | -1 => idtac end;
        let r := eval vm_compute in (Z.eqb a b) in change (Z.eqb a b) with r end;
      cbn [andb orb negb];
      try (destruct (e_dur x =? e_dur y) eqn:Ed; cbn [negb]); f_equal; lia.
  - f_equal. lia.
Qed.

Theorem key_lt_irrefl x : key_lt x x = false.
Proof. unfold key_lt. lia. Qed.

Theorem key_lt_trans x y z : key_lt x y = true -> key_lt y z = true -> key_lt x z = true.
Proof. unfold key_lt. lia. Qed.

Theorem key_lt_asym x y : key_lt x y = true -> key_lt y x = false.
Proof. unfold key_lt. lia. Qed.

(* total on distinct endpoints: two ends with the same key fields are the same end *)
Theorem key_lt_total x y : (e_kind x = -1 \/ e_kind x = 1) -> (e_kind y = -1 \/ e_kind y = 1) ->
  key_lt x y = false -> key_lt y x = false ->
  e_time x = e_time y /\ e_kind x = e_kind y /\ e_dur x = e_dur y /\ e_idx x = e_idx y.
Proof. unfold key_lt. lia. Qed.

(* the deprecated builder's comparator: the same key order (with its own kind encoding START = 1, END = -1), except that
   two closing ends of equal duration at one instant are left unordered (the `x.idx < y.idx ... x.idx < y.idx` slip) *)
Definition key_lt_old (x y : ep) : bool :=
  (e_time x <? e_time y) ||
  ((e_time x =? e_time y) &&
   (((e_kind x =? -1) && (e_kind y =? 1)) ||
    ((e_kind x =? 1) && (e_kind y =? 1) && ((e_dur y <? e_dur x) || ((e_dur x =? e_dur y) && (e_idx x <? e_idx y)))) ||
    ((e_kind x =? -1) && (e_kind y =? -1) && (e_dur x <? e_dur y)))).

Theorem compare_events_is_key_order x y :
  okk x -> okk y -> e_idx x <> e_idx y ->
  exists c, compare_events_gen x y = Some c /\ (c <? 0) = key_lt_old x y.
Proof.
  intros [Hdx Hkx] [Hdy Hky] Hne. unfold compare_events_gen, key_lt_old.
  replace (e_idx x =? e_idx y) with false by lia.
  destruct (e_time x - e_time y =? 0) eqn:Et.
  - replace ((0 <? e_dur x) && (0 <? e_dur y)) with true by lia.
    destruct Hkx as [Hkx|Hkx], Hky as [Hky|Hky]; rewrite Hkx, Hky;
      repeat match goal with |- context [Z.eqb ?a ?b] =>
        match a with 1 => idtac | -1 => idtac end; match b with 1 => idtac | -1 => idtac end;
        let r := eval vm_compute in (Z.eqb a b) in change (Z.eqb a b) with r end;
      cbn [andb orb negb];
      try (destruct (e_dur x =? e_dur y) eqn:Ed); eexists; (split; [reflexivity|]);
      repeat match goal with |- context [if ?c then _ else _] => destruct c eqn:? end; lia.
  - eexists. split; [reflexivity|]. lia.
Qed.

Theorem key_lt_old_strict_order :
  (forall x, key_lt_old x x = false) /\
  (forall x y z, key_lt_old x y = true -> key_lt_old y z = true -> key_lt_old x z = true).
Proof. unfold key_lt_old. split; intros; lia. Qed.
