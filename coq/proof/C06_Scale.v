(* C06: resolution independence of the idle-time model (threshold scaled with the times) *)
From HTA.lib Require Import Base.
From HTA.model Require Import C06_Model.
From HTA.proof Require Import Scale.
Open Scope Z_scope.

Lemma ev_lt_scale k x y : 0 < k -> ev_lt (scale_ev k x) (scale_ev k y) = ev_lt x y.
Proof.
  intro Hk. unfold ev_lt. rewrite !eend_scale. unfold scale_ev at 1 2 3 4. cbn [ts].
  rewrite !ltb_scale, eqb_scale by exact Hk. reflexivity.
Qed.

Lemma insert_ev_scale k x l : 0 < k ->
  insert_ev (scale_ev k x) (scale_evs k l) = scale_evs k (insert_ev x l).
Proof.
  intro Hk. induction l as [|y r IH]; cbn [scale_evs map insert_ev]; [reflexivity|].
  rewrite ev_lt_scale by exact Hk. destruct (ev_lt x y); cbn [map]; [reflexivity|].
  f_equal. exact IH.
Qed.

Lemma sort_ev_scale k l : 0 < k -> sort_ev (scale_evs k l) = scale_evs k (sort_ev l).
Proof.
  intro Hk. unfold sort_ev. induction l as [|x r IH]; cbn [scale_evs map fold_right]; [reflexivity|].
  fold (scale_evs k r). rewrite IH. apply insert_ev_scale. exact Hk.
Qed.

Lemma stream_kernels_scale k l s : stream_kernels (scale_evs k l) s = scale_evs k (stream_kernels l s).
Proof. unfold stream_kernels, scale_evs. apply filter_map_comm. reflexivity. Qed.

Lemma ts_runtime_scale k l e : ts_runtime (scale_evs k l) (scale_ev k e) = option_map (Z.mul k) (ts_runtime l e).
Proof.
  unfold ts_runtime. unfold scale_ev at 1 2. cbn [icorr]. destruct (0 <? icorr e); [|reflexivity].
  rewrite find_scale by reflexivity. destruct (find _ l); reflexivity.
Qed.

Lemma classify_scale k d rt pe gap : 0 < k ->
  classify (k * d) (option_map (Z.mul k) rt) (k * pe) (k * gap) = classify d rt pe gap.
Proof.
  intro Hk. unfold classify. destruct rt as [r|]; cbn [option_map]; rewrite ?ltb_scale by exact Hk; reflexivity.
Qed.

Definition scale_gap (k : Z) (g : Z * Z) : Z * Z := (fst g, k * snd g).

Lemma walk_scale k l d pe ks : 0 < k ->
  walk (scale_evs k l) (k * d) (k * pe) (scale_evs k ks) = map (scale_gap k) (walk l d pe ks).
Proof.
  intro Hk. revert pe. induction ks as [|e r IH]; intro pe; cbn [scale_evs map walk]; [reflexivity|].
  fold (scale_evs k r). rewrite ts_runtime_scale, eend_scale, IH.
  unfold scale_gap at 2. cbn [fst snd]. unfold scale_ev at 1 2. cbn [ts].
  replace (k * ts e - k * pe) with (k * (ts e - pe)) by ring.
  rewrite classify_scale by exact Hk. reflexivity.
Qed.

Lemma gaps_sorted_scale k l d ks : 0 < k ->
  gaps_sorted (scale_evs k l) (k * d) (scale_evs k ks) = map (scale_gap k) (gaps_sorted l d ks).
Proof.
  intro Hk. destruct ks as [|e r]; cbn [scale_evs map gaps_sorted]; [reflexivity|].
  fold (scale_evs k r). rewrite eend_scale. apply walk_scale. exact Hk.
Qed.

Lemma cat_sum_scale k c gs : cat_sum c (map (scale_gap k) gs) = k * cat_sum c gs.
Proof.
  unfold cat_sum. rewrite <- sumZ_scale. f_equal.
  induction gs as [|g r IH]; [reflexivity|].
  cbn [map filter]. unfold scale_gap at 1. cbn [fst snd].
  destruct (fst g =? c); cbn [map snd]; rewrite IH; reflexivity.
Qed.

Theorem C06_scale k l d s : 0 < k ->
  model_C06 (scale_evs k l) (k * d) s = map (Z.mul k) (model_C06 l d s).
Proof.
  intro Hk. unfold model_C06. rewrite stream_kernels_scale, sort_ev_scale, gaps_sorted_scale by exact Hk.
  rewrite !cat_sum_scale. reflexivity.
Qed.
