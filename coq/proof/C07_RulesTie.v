(* C07: the boundary-row weights and the overlap level of the model are those read from get_comm_comp_overlap (gen/OverlapRules_gen.v) *)
From HTA.lib Require Import Base Cells Intervals Sweep.
From HTA.model Require Import C04_Model C07_Model.
From HTA.gen Require Import OverlapRules_gen.
Open Scope list_scope.
Open Scope Z_scope.

Theorem overlap_rules_are_generated : forall (A B A' : list itv) (R' : list row),
  status_rows A B = rows_of comm_weight_gen A ++ rows_of comp_weight_gen B /\
  overlap A' R' = (sweep (Z.eqb overlap_level_gen) 0 R', total (merge_sorted A')) /\
  overlap_level_gen = comm_weight_gen + comp_weight_gen.
Proof. intros. repeat split. Qed.
