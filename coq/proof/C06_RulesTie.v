(* C06: the classification rule of the model is the one regenerated from _analyze_idle_time_for_stream (gen/IdleRules_gen.v) *)
From HTA.lib Require Import Base.
From HTA.model Require Import C06_Model.
From HTA.gen Require Import IdleRules_gen.
Open Scope Z_scope.

Theorem idle_rules_are_generated : forall d rt prev_end gap, classify d rt prev_end gap = classify_gen d rt prev_end gap.
Proof. intros d [r|] prev_end gap; unfold classify, classify_gen; [destruct (prev_end <? r)|]; reflexivity. Qed.

(* the sort is by (start, end): ev_lt is the lexicographic order on those two keys *)
Theorem idle_sort_is_by_start_then_end : forall x y,
  ev_lt x y = (ts x <? ts y) || ((ts x =? ts y) && (eend x <? eend y)) /\ idle_sort_keys_gen = ["ts"%string; "end_ts"%string].
Proof. intros x y. split; reflexivity. Qed.
