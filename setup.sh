#!/bin/sh
# Build the Coq development from clean (full .vo build), offline.
set -e
cd "$(dirname "$0")"
/venv/bin/python - <<'PY'
import sys, os
sys.path.insert(0, os.path.join(os.getcwd(), "harness"))
import framework as fw, translate
# regenerate translated files for every property that has them, then the Makefile
import glob, importlib
for f in sorted(glob.glob("harness/pC*.py")):
    prop = os.path.basename(f)[1:-3]
    r = translate.run(prop)
    if not r["ok"]:
        print("translator stopped for", prop, r.get("error"))
fw.ensure_makefile()
PY
cd coq
timeout 3000 make -j16
