(* C02 / C01: the link fallback, the "has an id" test and the alignment of the model are those regenerated from
   transform_correlation_to_index and Trace._align_all_ranks (gen/LinkRules_gen.v) *)
From HTA.lib Require Import Base.
From HTA.model Require Import Loader_Model.
From HTA.gen Require Import LinkRules_gen.
Open Scope Z_scope.

Theorem link_rules_are_generated : forall l e,
  (find (partner_b e) l = None -> link_of l e = link_fallback_gen (corr e)) /\
  (forall p, partner_b e p = (corr p =? corr e) && has_id_gen (corr e) && xorb (is_dev p) (is_dev e)).
Proof. intros l e. split; [intro H; unfold link_of; rewrite H; reflexivity | intro p; reflexivity]. Qed.

Theorem align_rule_is_generated : forall c e, ts (shift c e) = aligned_gen c (ts e).
Proof. reflexivity. Qed.
