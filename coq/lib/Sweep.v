(* Boundary-row sweeps: rows (time, delta) sorted by time, running sum of the deltas, the time to the
   next row credited to the running value.  Used by the comm/comp overlap (C07) and by the kernel-type
   table (C05).  The main theorem holds for EVERY time-sorted permutation of the rows (pandas'
   sort_values is unstable), because the rows inside one instant get duration 0 except the last. *)
From Coq Require Import ZArith List Bool Lia Permutation Sorted.
From HTA.lib Require Import Base Cells Intervals.
Open Scope Z_scope.

Notation row := (Z * Z)%type.   (* (time, delta) *)

Definition sorted_time (l : list row) : Prop := StronglySorted (fun a b => fst a <= fst b) l.

(* level of the step function at cell u: sum of the deltas of all rows with time <= u *)
Definition level (rows : list row) (u : Z) : Z :=
  sumZ (map (fun r => if fst r <=? u then snd r else 0) rows).

(* cumsum; rows whose running value satisfies sel are credited the time to the NEXT row
   (status_df.shift(-1), last row dropped) *)
Fixpoint sweep (sel : Z -> bool) (acc : Z) (rows : list row) : Z :=
  match rows with
  | [] => 0
  | r :: rest =>
      match rest with
      | [] => 0
      | r' :: _ => (if sel (acc + snd r) then fst r' - fst r else 0) + sweep sel (acc + snd r) rest
      end
  end.

Definition last_time (rows : list row) : Z := fst (last rows (0, 0)).

Lemma level_nil u : level [] u = 0.
Proof. reflexivity. Qed.

Lemma level_cons r rows u : level (r :: rows) u = (if fst r <=? u then snd r else 0) + level rows u.
Proof. reflexivity. Qed.

Lemma level_app r1 r2 u : level (r1 ++ r2) u = level r1 u + level r2 u.
Proof. unfold level. rewrite map_app, sumZ_app. reflexivity. Qed.

Lemma level_perm rows rows' u : Permutation rows rows' -> level rows u = level rows' u.
Proof.
  induction 1 as [| x l l' _ IH | x y l | l l' l'' _ IH1 _ IH2]; rewrite ?level_cons in *; try reflexivity; lia.
Qed.

Lemma level_before rows u : (forall r, In r rows -> u < fst r) -> level rows u = 0.
Proof.
  induction rows as [|r rows IH]; intro H; [reflexivity|]. rewrite level_cons.
  rewrite IH by (intros r' Hr'; apply H; right; exact Hr').
  specialize (H r (or_introl eq_refl)). destruct (fst r <=? u) eqn:E; lia.
Qed.

Lemma level_after rows u : (forall r, In r rows -> fst r <= u) -> level rows u = sumZ (map snd rows).
Proof.
  induction rows as [|r rows IH]; intro H; [reflexivity|]. rewrite level_cons. simpl map. simpl sumZ.
  rewrite IH by (intros r' Hr'; apply H; right; exact Hr').
  specialize (H r (or_introl eq_refl)). destruct (fst r <=? u) eqn:E; lia.
Qed.

Lemma sorted_time_last r rows : sorted_time (r :: rows) -> fst r <= last_time (r :: rows).
Proof.
  revert r. induction rows as [|r' rows IH]; intros r Hs; unfold last_time; simpl; [lia|].
  inversion Hs as [|? ? Hs' Hall]; subst. inversion Hall as [|? ? Hr _]; subst.
  specialize (IH r' Hs'). unfold last_time in IH. simpl in IH. simpl. lia.
Qed.

Lemma sweep_cells sel : forall rows acc, sorted_time rows -> rows <> [] ->
  sweep sel acc rows =
  cells (fun u => sel (acc + level rows u)) (fst (hd (0, 0) rows)) (last_time rows).
Proof.
  induction rows as [|r rest IH]; intros acc Hs Hne; [congruence|].
  destruct rest as [|r' rest'].
  - simpl. unfold last_time. simpl. rewrite cells_empty; lia.
  - inversion Hs as [|? ? Hs' Hall]; subst. inversion Hall as [|? ? Hrr' Hall']; subst.
    change (sweep sel acc (r :: r' :: rest')) with
      ((if sel (acc + snd r) then fst r' - fst r else 0) + sweep sel (acc + snd r) (r' :: rest')).
    rewrite (IH (acc + snd r) Hs') by congruence.
    cbn [hd]. change (last_time (r :: r' :: rest')) with (last_time (r' :: rest')).
    pose proof (sorted_time_last r' rest' Hs') as Hlast.
    rewrite (cells_split _ (fst r) (fst r') (last_time (r' :: rest'))) by lia.
    f_equal.
    + (* cells [fst r, fst r'): level is constantly snd r *)
      rewrite (cells_const (sel (acc + snd r))); [ | lia | ].
      * destruct (sel (acc + snd r)); lia.
      * intros u Hu. rewrite level_cons.
        rewrite level_before.
        -- destruct (fst r <=? u) eqn:E; [f_equal; lia | lia].
        -- intros x Hx. destruct Hx as [Hx|Hx]; [subst; lia|].
           rewrite Forall_forall in Hall'.
           inversion Hs' as [|? ? _ Hall'']; subst. rewrite Forall_forall in Hall''.
           specialize (Hall'' x Hx). lia.
    + apply cells_ext. intros u Hu. rewrite (level_cons r).
      destruct (fst r <=? u) eqn:E; [f_equal; lia | lia].
Qed.

(* For every time-sorted permutation rows' of rows: the sweep equals the measure of the set of cells
   whose level satisfies sel, over any window [lo, hi] that contains all row times, provided the
   deltas cancel (every start has its end) and sel rejects level 0. *)
Theorem sweep_exact sel rows rows' lo hi :
  sel 0 = false -> sumZ (map snd rows) = 0 ->
  Permutation rows rows' -> sorted_time rows' ->
  (forall r, In r rows -> lo <= fst r <= hi) ->
  sweep sel 0 rows' = cells (fun u => sel (level rows u)) lo hi.
Proof.
  intros H0 Hsum Hp Hs Hb.
  destruct rows' as [|r rest].
  - apply Permutation_sym, Permutation_nil in Hp. subst rows. simpl.
    symmetry. apply cells_false. intros t _. rewrite level_nil. exact H0.
  - rewrite sweep_cells by (auto; congruence). cbn [hd].
    assert (Hin : forall x, In x (r :: rest) -> lo <= fst x <= hi).
    { intros x Hx. apply Hb. apply Permutation_sym in Hp. eapply Permutation_in; eauto. }
    pose proof (sorted_time_last r rest Hs) as Hlast.
    assert (Hlast_in : In (last (r :: rest) (0, 0)) (r :: rest)).
    { destruct (exists_last (l := r :: rest)) as [l' [a Ha]]; [congruence|]. rewrite Ha.
      rewrite last_last. apply in_or_app. right. left. reflexivity. }
    assert (Hall_le : forall x, In x (r :: rest) -> fst r <= fst x <= last_time (r :: rest)).
    { clear - Hs. revert r Hs. induction rest as [|r' rest IH]; intros r Hs x Hx.
      - destruct Hx as [Hx|[]]. subst. unfold last_time. simpl. lia.
      - inversion Hs as [|? ? Hs' Hall]; subst. rewrite Forall_forall in Hall.
        destruct Hx as [Hx|Hx].
        + subst. pose proof (sorted_time_last x (r' :: rest) Hs). lia.
        + specialize (IH r' Hs' x Hx). specialize (Hall r' (or_introl eq_refl)).
          change (last_time (r :: r' :: rest)) with (last_time (r' :: rest)). lia. }
    pose proof (Hin r (or_introl eq_refl)) as Hr.
    pose proof (Hin _ Hlast_in) as Hl. fold (last_time (r :: rest)) in Hl.
    rewrite (cells_split _ lo (fst r) hi) by lia.
    rewrite (cells_split _ (fst r) (last_time (r :: rest)) hi) by lia.
    rewrite (cells_false _ lo (fst r)).
    2:{ intros t Ht. rewrite (level_perm _ _ t Hp). rewrite level_before; [exact H0|].
        intros x Hx. specialize (Hall_le x Hx). lia. }
    rewrite (cells_false _ (last_time (r :: rest)) hi).
    2:{ intros t Ht. rewrite (level_perm _ _ t Hp). rewrite level_after.
        - assert (E : sumZ (map snd (r :: rest)) = sumZ (map snd rows)).
          { clear - Hp. apply Permutation_sym in Hp.
            induction Hp as [| x l l' _ IH | x y l | l l' l'' _ IH1 _ IH2]; simpl in *; lia. }
          rewrite E, Hsum. exact H0.
        - intros x Hx. specialize (Hall_le x Hx). lia. }
    replace (0 + (cells (fun u => sel (level rows u)) (fst r) (last_time (r :: rest)) + 0))
      with (cells (fun u => sel (level rows u)) (fst r) (last_time (r :: rest))) by lia.
    apply cells_ext. intros t _. rewrite (level_perm _ _ t Hp). f_equal.
Qed.

(* ---- boundary rows of an interval list with weight v: (ts, +v) and (end, -v) ---- *)
Definition rows_of (v : Z) (l : list itv) : list row :=
  map (fun i => (fst i, v)) l ++ map (fun i => (snd i, - v)) l.

Lemma rows_of_sum v l : sumZ (map snd (rows_of v l)) = 0.
Proof.
  unfold rows_of. rewrite map_app, sumZ_app, !map_map. simpl.
  induction l as [|i l IH]; simpl; lia.
Qed.

Lemma sumZ_cons x l : sumZ (x :: l) = x + sumZ l.
Proof. reflexivity. Qed.

Lemma level_rows_of v l u : wf_itvs l -> level (rows_of v l) u = v * cover_count l u.
Proof.
  intro Hw. unfold rows_of. rewrite level_app. unfold level, cover_count. rewrite !map_map.
  cbn [fst snd].
  induction Hw as [|i l Hi Hw IH]; [cbn [map sumZ fold_right]; lia|].
  cbn [map]. rewrite !sumZ_cons.
  unfold inb at 1. unfold b2z at 1.
  destruct (fst i <=? u) eqn:E1, (snd i <=? u) eqn:E2, (u <? snd i) eqn:E3; cbn [andb]; lia.
Qed.

Lemma rows_of_bounds v l lo hi :
  (forall i, In i l -> lo <= fst i /\ snd i <= hi) -> wf_itvs l ->
  forall r, In r (rows_of v l) -> lo <= fst r <= hi.
Proof.
  intros Hb Hw r Hr. unfold rows_of in Hr. apply in_app_or in Hr.
  unfold wf_itvs in Hw. rewrite Forall_forall in Hw.
  destruct Hr as [Hr|Hr]; apply in_map_iff in Hr; destruct Hr as [i [Hi Hin]]; subst r; simpl;
    specialize (Hb i Hin); specialize (Hw i Hin); lia.
Qed.

(* separated (pairwise disjoint, gap > 0) lists cover each cell at most once *)
Lemma separated_lower i l : separated (i :: l) -> Forall (fun k => snd i < fst k) l.
Proof.
  revert i. induction l as [|j r IH]; intros i Hs; [constructor|].
  inversion Hs as [| |? ? ? Hi Hij Hs']; subst.
  constructor; [exact Hij|].
  specialize (IH j Hs'). eapply Forall_impl; [|exact IH]. intros k Hk. simpl in Hk.
  inversion Hs' as [|? Hj|? ? ? Hj _ _]; subst; lia.
Qed.

Lemma separated_tail i l : separated (i :: l) -> separated l.
Proof. intro Hs. inversion Hs; subst; [constructor | assumption]. Qed.

Lemma separated_wf l : separated l -> wf_itvs l.
Proof.
  induction l as [|i l IH]; intro Hs; [constructor|].
  constructor; [inversion Hs; subst; assumption | apply IH; eapply separated_tail; eauto].
Qed.

Lemma separated_cover_count l t : separated l -> cover_count l t = b2z (covered l t).
Proof.
  induction l as [|i l IH]; intro Hs; [reflexivity|].
  unfold cover_count in *. simpl map. simpl sumZ. rewrite covered_cons.
  rewrite IH by (eapply separated_tail; eauto).
  destruct (inb (fst i) (snd i) t) eqn:E; simpl; [|lia].
  assert (Hc : covered l t = false).
  { apply separated_lower in Hs. rewrite Forall_forall in Hs.
    destruct (covered l t) eqn:C; [|reflexivity]. apply covered_true_iff in C.
    destruct C as [k [Hk Ht]]. specialize (Hs k Hk). unfold inb in E. lia. }
  rewrite Hc. reflexivity.
Qed.
