(* C14 property theorems: queue-length and memory-bandwidth counters are exact step functions. *)
From Coq Require Import Permutation Sorted.
From HTA.lib Require Import Base Sweep.
From HTA.model Require Import C14_Model.
From HTA.gen Require Import KernelRules_gen LaunchNames_gen CounterRules_gen.
From HTA.proof Require Import KernelRulesTie C14_Proofs.
From HTA.proof Require Import Scale C14_Scale C14_RulesTie.
Open Scope list_scope.
Open Scope Z_scope.

(* rows = the +1 (launch) / -1 (activity start) rows of the linked pairs P of one stream; rows' = ANY time-sorted
   permutation (pandas' sort is unstable). After the last row x of an instant the running sum equals
   (launch calls issued up to that instant) - (their activities started up to that instant). *)
Theorem C14_queue_value_at_instant : forall P rows' pre x post,
  Permutation (from_pairs P) rows' -> rows' = pre ++ x :: post -> sorted_time rows' ->
  (forall y, In y post -> fst x < fst y) ->
  sumZ (map snd (pre ++ [x])) =
  count (fun p => fst p <=? fst x) P - count (fun p => snd p <=? fst x) P.
Proof.
  intros P rows' pre x post Hp E Hs Hpost.
  rewrite (value_at_instant (from_pairs P) rows' pre x post Hp E Hs Hpost). apply level_from_pairs.
Qed.
Print Assumptions C14_queue_value_at_instant.

(* no row of the series is negative when no activity starts before its launch call and, inside an instant, launch
   rows precede start rows (sorted refined times) *)
Theorem C14_queue_nonneg : forall P rows',
  Permutation (from_pairs P) rows' -> (forall p, In p P -> fst p <= snd p) ->
  sorted_time (map refine rows') -> forall v, In v (psums 0 rows') -> 0 <= v.
Proof. exact series_nonneg. Qed.
Print Assumptions C14_queue_nonneg.

(* the model's (and, after the fix, the code's) sort key (ts ascending, queue descending) is such an order *)
Theorem C14_sort_puts_launches_first : forall l, pm1 l ->
  Permutation l (sort_q l) /\ sorted_time (map (fun y => refine (rowz y)) (sort_q l)).
Proof. intros l H. split; [apply sort_q_perm | apply sort_q_sorted; exact H]. Qed.
Print Assumptions C14_sort_puts_launches_first.

Theorem C14_series_is_prefix_sums : forall acc l, map snd (cumsum acc l) = psums acc (map rowz l).
Proof. exact cumsum_psums. Qed.
Print Assumptions C14_series_is_prefix_sums.

Theorem C14_queue_ends_zero : forall P rows', Permutation (from_pairs P) rows' -> rows' <> [] -> last (psums 0 rows') 0 = 0.
Proof. exact series_ends_zero. Qed.
Print Assumptions C14_queue_ends_zero.

Theorem C14_queue_row_count : forall P rows', Permutation (from_pairs P) rows' ->
  List.length (psums 0 rows') = (2 * List.length P)%nat.
Proof. exact series_row_count. Qed.
Print Assumptions C14_queue_row_count.

(* bandwidth of a copy type after the last row of an instant = sum of the bandwidths of the copies active then
   (C: (start, end, bw) with start < end, i.e. after the zero-length -> one-unit rule) *)
Theorem C14_bw_value_at_instant : forall C rows' pre x post,
  (forall c, In c C -> fst (fst c) < snd (fst c)) ->
  Permutation (copy_rows C) rows' -> rows' = pre ++ x :: post -> sorted_time rows' ->
  (forall y, In y post -> fst x < fst y) ->
  sumZ (map snd (pre ++ [x])) = active_bw C (fst x).
Proof. exact bw_value_at_instant. Qed.
Print Assumptions C14_bw_value_at_instant.

Theorem C14_bw_nonneg_at_instants : forall C t, (forall c, In c C -> 0 <= snd c) -> 0 <= active_bw C t.
Proof. exact bw_nonneg_at_instants. Qed.
Print Assumptions C14_bw_nonneg_at_instants.

Theorem C14_counter_events_unshift : forall c ts_file, (ts_file - c) + c = ts_file.
Proof. exact counter_events_unshift. Qed.
Print Assumptions C14_counter_events_unshift.

(* non-vacuity: two launches in instant 1, the first kernel starting at the very timestamp of its launch call *)
Definition ex14 : list ev :=
  [ mkEv 0 0 1 1 1 (-1) (-1) (-1) (-1) "aten::zeros" "cpu_op";
    mkEv 1 1 0 1 1 (-1) 5 2 (-1) "cudaLaunchKernel" "cuda_runtime";
    mkEv 2 1 2 0 7 7 5 1 (-1) "gemm" "kernel";
    mkEv 3 1 1 1 1 (-1) 6 4 (-1) "cudaMemcpyAsync" "cuda_runtime";
    mkEv 4 3 0 0 7 7 6 3 (-1) "Memcpy DtoH (Device -> Pinned)" "gpu_memcpy";
    mkEv 5 9 1 0 7 7 7 0 (-1) "orphan" "kernel" ].
Example C14_nonvacuous :
  map (fun t => snd (fst t)) (encode_queue ex14) = [[[1; 1]; [1; 2]; [1; 1]; [3; 0]]] /\
  encode_bw ["Memcpy DtoH"] (map (fun e => (e, 10)) ex14) = [(0, [[3; 10]; [4; 0]])].
Proof. vm_compute. split; reflexivity. Qed.

(* the tie by regeneration: the kernel classification of the model is the chain GENERATED from the current source (get_kernel_type, the codes of
   KernelType, the three regex wrappers; the regular expressions themselves are compared literally on every run) *)
Theorem C14_kernel_types_follow_source : forall n,
  ktype_code (get_kernel_type n) = kernel_type_gen (is_comm_kernel n) (is_memory_kernel n) (is_compute_kernel n).
Proof. exact kernel_type_is_generated. Qed.
Print Assumptions C14_kernel_types_follow_source.

(* and the copy-type label of a memory activity is the one get_memory_kernel_type, GENERATED from the source, returns *)
Theorem C14_memory_types_follow_source : forall n, mem_type n = mem_type_gen n.
Proof. exact mem_type_is_generated. Qed.
Print Assumptions C14_memory_types_follow_source.

(* which host calls count as launches: the names (and the positive-link condition) read out of get_runtime_launch_events_query *)
Theorem C14_launch_names_follow_source : launch_names = launch_names_gen /\ (forall e, is_launch e = str_in (name e) launch_names_gen && (0 <? icorr e)).
Proof. split; [exact launch_names_are_generated | intro e; unfold is_launch; rewrite launch_names_are_generated; reflexivity]. Qed.
Print Assumptions C14_launch_names_follow_source.

(* resolution independence of the queue-length series: times multiplied by k > 0 give the same rows in the same order with the
   same counts, at k times the instants; the set of streams is unchanged.  (The bandwidth series is not homogeneous: the 1 us floor
   of zero-length copies is an absolute constant, see C14_Scale.v.) *)
Theorem C14_queue_resolution_independent : forall k l s, 0 < k ->
  stream_series (scale_evs k l) s = map (fun p => (sq k (fst p), snd p)) (stream_series l s) /\
  streams_of (scale_evs k l) = streams_of l.
Proof. intros k l s Hk. split; [apply C14_queue_scale; exact Hk | apply C14_streams_scale]. Qed.
Print Assumptions C14_queue_resolution_independent.

(* the tie by regeneration, second part: the +1 of a launch and the -1 of a device activity, the test that makes a row a device row,
   the order of rows inside one instant (launches first) and the 1 us floor of a zero-length copy are those READ from
   TraceCounters._get_queue_length_time_series_for_rank / _get_memory_bw_time_series_for_rank, whose statement sequence the
   translator accepts in exactly one shape *)
Theorem C14_rules_follow_source : forall l,
  (forall x y, q_lt x y = queue_before_gen (q_ts x) (q_delta x) (q_ts y) (q_delta y)) /\
  dev_rows l = filter (fun e => is_dev_queue_gen (stream e)) l /\
  Forall (fun r => q_delta r = launch_delta_gen) (launch_rows l) /\
  Forall (fun r => q_delta r = kernel_delta_gen) (kernel_rows l) /\
  (forall e, dur1 e = bw_dur_gen (dur e)) /\
  (forall e, is_mem e = true -> is_dev_bw_gen (stream e) = true).
Proof. exact counter_rules_are_generated. Qed.
Print Assumptions C14_rules_follow_source.
