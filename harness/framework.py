"""Shared machinery of ./check: Coq build + assumption parsing, case execution on the real code,
evaluation of the Coq model on the same inputs (generated cases.v + vm_compute), comparison,
decision (DESIGN.md 2.4), evidence, replay files, known findings."""
from __future__ import annotations

import ast
import concurrent.futures as cf
import fcntl
import hashlib
import json
import multiprocessing as mp
import os
import re
import shutil
import subprocess
import sys
import tempfile
import time
import traceback
from typing import Any, Callable, Dict, List, Optional, Tuple

VERIF = os.path.dirname(os.path.dirname(os.path.abspath(__file__)))
COQ = os.path.join(VERIF, "coq")
REPO = os.environ.get("HTA_REPO", "/repo")
GUARD = "HTA_VERIF"
NPROC = int(os.environ.get("VERIF_NPROC", "14"))

FORBIDDEN = re.compile(
    r"\b(Admitted|admit|Axiom|Axioms|Parameter|Parameters|Conjecture|Conjectures|Admit Obligations)\b"
    r"|Unset Guard Checking|bypass_check|Unset Positivity Checking|Unset Universe Checking|-type-in-type|-impredicative-set")
ALLOWED_AXIOMS: List[str] = []  # std-lib axioms we accept; none are needed so far


# ----------------------------------------------------------------------------- Coq literals
def z(n: Any) -> str:
    n = int(n)
    return f"({n})" if n < 0 else str(n)


def s(x: str) -> str:
    assert all(32 <= ord(c) < 127 for c in x), f"non-printable/ASCII in {x!r}"
    return '"' + x.replace('"', '""') + '"'


def zl(xs) -> str:
    return "[" + "; ".join(z(x) for x in xs) + "]"


def sl(xs) -> str:
    return "[" + "; ".join(s(x) for x in xs) + "]"


def ev_lit(r: dict) -> str:
    return ("(mkEv " + " ".join(z(r[k]) for k in ("idx", "ts", "dur", "pid", "tid", "stream", "corr", "icorr", "iter"))
            + " " + s(r["name"]) + " " + s(r["cat"]) + ")")


def evl(rows: List[dict]) -> str:
    return "[" + ";\n   ".join(ev_lit(r) for r in rows) + "]"


def b(x: bool) -> str:
    return "true" if x else "false"


# ----------------------------------------------------------------------------- Coq build
class CoqLock:
    def __enter__(self):
        self.fh = open(os.path.join(COQ, ".lock"), "w")
        fcntl.flock(self.fh, fcntl.LOCK_EX)
        return self

    def __exit__(self, *a):
        fcntl.flock(self.fh, fcntl.LOCK_UN)
        self.fh.close()


def sh(cmd: str, timeout: int = 1800, cwd: Optional[str] = None) -> Tuple[int, str]:
    try:
        p = subprocess.run(cmd, shell=True, cwd=cwd, stdout=subprocess.PIPE, stderr=subprocess.STDOUT, timeout=timeout, text=True)
        return p.returncode, p.stdout
    except subprocess.TimeoutExpired as e:
        return 124, (e.stdout or "") + "\nTIMEOUT"


def coq_files() -> List[str]:
    out = []
    for d in ("lib", "gen", "model", "proof", "props"):
        dd = os.path.join(COQ, d)
        if os.path.isdir(dd):
            out += sorted(os.path.join(d, f) for f in os.listdir(dd) if f.endswith(".v"))
    return out


def ensure_makefile() -> None:
    files = coq_files()
    stamp = os.path.join(COQ, ".files")
    cur = "\n".join(files)
    if not os.path.exists(os.path.join(COQ, "Makefile")) or not os.path.exists(stamp) or open(stamp).read() != cur:
        rc, out = sh("coq_makefile -f _CoqProject " + " ".join(files) + " -o Makefile", cwd=COQ)
        if rc != 0:
            raise RuntimeError("coq_makefile failed: " + out)
        open(stamp, "w").write(cur)


def grep_forbidden() -> List[str]:
    hits = []
    for f in coq_files():
        txt = open(os.path.join(COQ, f)).read()
        # strip comments (non-nested is enough for our files; nested handled by loop)
        prev = None
        while prev != txt:
            prev = txt
            txt = re.sub(r"\(\*[^*(]*(?:\*(?!\))[^*(]*|\((?!\*)[^*(]*)*\*\)", " ", txt)
        for m in FORBIDDEN.finditer(txt):
            hits.append(f"{f}: {m.group(0)}")
        # Variable / Hypothesis / Context outside a section declare axioms
        depth = 0
        for sentence in re.split(r"\.\s", txt):
            st = sentence.strip()
            if re.match(r"Section\s+\w+$", st):
                depth += 1
            elif re.match(r"End\s+\w+$", st) and depth > 0:
                depth -= 1
            elif depth == 0 and re.match(r"(Variable|Variables|Hypothesis|Hypotheses|Context)\b", st):
                hits.append(f"{f}: {st[:60]} (outside a section)")
    return hits


def import_targets(imports: List[str]) -> List[str]:
    """.vo targets of the libraries a property's case files import (they must be rebuilt with the property's closure:
    generated files may have changed since they were last compiled)."""
    out = []
    for ln in imports:
        m = re.match(r"From HTA\.(\w+) Require Import ([\w ]+)\.", ln.strip())
        if m:
            out += [f"{m.group(1)}/{n}.vo" for n in m.group(2).split()]
    return out


def coq_prove(prop: str, clean: bool = False, extra_targets: Optional[List[str]] = None) -> Dict[str, Any]:
    """Build the property's theorem file (full .vo build of its dependency closure) and parse the
    Print Assumptions output beneath each theorem."""
    res: Dict[str, Any] = {"ok": False, "theorems": [], "assumptions": {}, "log": "", "cmd": ""}
    target = f"props/{prop}.vo"
    with CoqLock():
        ensure_makefile()
        if clean:
            sh("make clean", cwd=COQ)
        # always recompile the property file itself so its output (assumptions) is from this run
        for ext in (".vo", ".glob", ".vos", ".vok"):
            try:
                os.remove(os.path.join(COQ, f"props/{prop}{ext}"))
            except FileNotFoundError:
                pass
        cmd = f"timeout 1500 make -j{NPROC} {target} " + " ".join(extra_targets or [])
        res["cmd"] = f"cd {COQ} && {cmd}"
        rc, out = sh(cmd, cwd=COQ, timeout=1600)
    res["log"] = out[-6000:]
    src = open(os.path.join(COQ, f"props/{prop}.v")).read()
    thms = re.findall(r"^\s*Theorem\s+(\w+)", src, re.M)
    res["theorems"] = thms
    if rc != 0:
        res["error"] = "coq build failed"
        m = re.search(r'File "\./([^"]+)", line (\d+)', out)
        if m:
            res["failed_at"] = f"{m.group(1)}:{m.group(2)}"
        return res
    # Print Assumptions output: one block per theorem, in order of appearance
    blocks = []
    cur = None
    for ln in out.splitlines():
        if ln.startswith("Closed under the global context"):
            if cur is not None:
                blocks.append(cur)
                cur = None
            blocks.append("Closed under the global context")
        elif ln.startswith("Axioms:"):
            if cur is not None:
                blocks.append(cur)
            cur = "Axioms:"
        elif cur is not None:
            if ln.startswith("COQC") or ln.startswith("make") or ln.startswith("COQDEP"):
                blocks.append(cur)
                cur = None
            else:
                cur += "\n" + ln
    if cur is not None:
        blocks.append(cur)
    prints = re.findall(r"Print Assumptions\s+(\w+)", src)
    closed = 0
    for i, name in enumerate(prints):
        blk = blocks[i] if i < len(blocks) else "<missing>"
        res["assumptions"][name] = blk.strip()
        if blk.startswith("Closed under the global context"):
            closed += 1
        else:
            axs = re.findall(r"^(\S+)\s*:", blk, re.M)
            if axs and all(a in ALLOWED_AXIOMS for a in axs):
                closed += 1
    res["discharged"] = closed if set(prints) >= set(thms) else 0
    res["obligations"] = len(thms)
    forb = grep_forbidden()
    res["forbidden"] = forb
    res["ok"] = (rc == 0 and closed == len(prints) and len(prints) >= len(thms) and len(thms) > 0 and not forb)
    return res


def coqchk(prop: str) -> Tuple[bool, str]:
    with CoqLock():
        rc, out = sh(f"timeout 1200 coqchk -silent -o -Q lib HTA.lib -Q gen HTA.gen -Q model HTA.model -Q proof HTA.proof -Q props HTA.props HTA.props.{prop}",
                     cwd=COQ, timeout=1300)
    return rc == 0, out[-3000:]


# ----------------------------------------------------------------------------- model evaluation in Coq
def parse_coq_value(txt: str) -> Any:
    """Parse the value printed by `Eval vm_compute in t.` for t built from Z, bool, lists, tuples, strings."""
    m = re.search(r"^\s*=\s", txt, re.M)
    if not m:
        raise ValueError("no value in coq output: " + txt[-2000:])
    body = txt[m.end():]
    k = body.rfind("\n     : ")
    if k < 0:
        k = body.rfind(": ")
    body = body[:k]
    # tokenise: Coq strings are "..." with "" as the escaped quote; everything else is Z / bool / list / tuple syntax
    out = []
    k, n = 0, len(body)
    while k < n:
        ch = body[k]
        if ch == '"':
            k += 1
            buf = []
            while k < n:
                if body[k] == '"':
                    if k + 1 < n and body[k + 1] == '"':
                        buf.append('"')
                        k += 2
                        continue
                    break
                buf.append(body[k])
                k += 1
            k += 1
            out.append(json.dumps("".join(buf)))
        else:
            out.append(ch)
            k += 1
    body = "".join(out)
    parts = re.split(r'("(?:[^"\\]|\\.)*")', body)
    for q in range(0, len(parts), 2):
        t = parts[q].replace("\n", " ").replace(";", ",").replace("%Z", "").replace("%string", "").replace("%nat", "")
        t = re.sub(r"\btrue\b", "True", t)
        t = re.sub(r"\bfalse\b", "False", t)
        parts[q] = t
    body = "".join(parts)
    return ast.literal_eval(body.strip())


def eval_coq_terms(imports: List[str], terms: List[Tuple[int, str]], workdir: str, shard: int = 120, tag: str = "cases") -> Tuple[Dict[int, Any], List[str]]:
    """terms: (case id, Coq term) -> evaluates each with vm_compute, returns id -> python value."""
    results: Dict[int, Any] = {}
    errors: List[str] = []
    shard = max(4, min(shard, -(-len(terms) // (2 * NPROC))))
    shards = [terms[i:i + shard] for i in range(0, len(terms), shard)]
    files = []
    for si, sh_terms in enumerate(shards):
        fn = os.path.join(workdir, f"{tag}_{si}.v")
        with open(fn, "w") as fh:
            fh.write("From HTA.lib Require Import Base.\n")
            for imp in imports:
                fh.write(imp + "\n")
            fh.write("Set Printing Depth 10000000.\nSet Printing Width 1000000.\n")
            for cid, t in sh_terms:
                fh.write(f"Definition c{cid} :=\n  {t}.\n")
            for cid, _ in sh_terms:
                fh.write(f"Eval vm_compute in ({cid}, c{cid}).\n")
        files.append(fn)

    def run(fn: str) -> Tuple[str, int, str]:
        cmd = (f"ulimit -s unlimited 2>/dev/null; timeout 900 coqc -Q {COQ}/lib HTA.lib -Q {COQ}/gen HTA.gen -Q {COQ}/model HTA.model "
               f"-Q {COQ}/proof HTA.proof -Q {workdir} Cases {fn}")
        rc, out = sh(cmd, timeout=1000)
        return fn, rc, out

    with cf.ThreadPoolExecutor(max_workers=NPROC) as ex:
        for fn, rc, out in ex.map(run, files):
            if rc != 0:
                errors.append(f"{fn}: coqc rc={rc}: {out[-1500:]}")
                continue
            try:
                chunks = re.split(r"^\s*= ", out, flags=re.M)[1:]
                for ch in chunks:
                    cid, v = parse_coq_value("     = " + ch)
                    results[cid] = v
            except Exception as e:  # pragma: no cover
                errors.append(f"{fn}: parse error {e}: {out[-500:]}")
    return results, errors


# ----------------------------------------------------------------------------- running the implementation
def _init_worker():
    import logging
    import warnings
    warnings.filterwarnings("ignore")
    os.environ[GUARD] = "1"
    if REPO not in sys.path:
        sys.path.insert(0, REPO)
    try:
        from hta.configs.config import logger
        logger.setLevel(logging.CRITICAL)
        logging.disable(logging.CRITICAL)
    except Exception:
        pass


def _run_one(args):
    modname, case, workdir = args
    import importlib
    mod = importlib.import_module(modname)
    d = tempfile.mkdtemp(prefix=f"c{case['case_no']}_", dir=workdir)
    try:
        out = mod.run_impl(case, d)
        return case["case_no"], out, None
    except Exception as e:
        return case["case_no"], None, f"{type(e).__name__}: {e}\n{traceback.format_exc()[-1500:]}"
    finally:
        shutil.rmtree(d, ignore_errors=True)


def run_impl_cases(modname: str, cases: List[dict], workdir: str) -> Dict[int, Tuple[Any, Optional[str]]]:
    out: Dict[int, Tuple[Any, Optional[str]]] = {}
    ctx = mp.get_context("fork")
    with cf.ProcessPoolExecutor(max_workers=NPROC, mp_context=ctx, initializer=_init_worker) as ex:
        for cid, res, err in ex.map(_run_one, [(modname, c, workdir) for c in cases], chunksize=4):
            out[cid] = (res, err)
    return out


# ----------------------------------------------------------------------------- frame dumping helpers (run inside workers)
def as_int(x: Any) -> int:
    import math
    if isinstance(x, bool):
        return int(x)
    if isinstance(x, int):
        return x
    try:
        import numpy as np
        if isinstance(x, np.integer):
            return int(x)
    except Exception:
        pass
    fx = float(x)
    if math.isnan(fx) or fx != int(fx):
        raise ValueError(f"not an exact integer: {x!r}")
    return int(fx)


def dump_frame(df, sym_table: List[str]) -> List[dict]:
    """Rows of a loaded frame as dicts with decoded names; exact-integer check on numeric columns."""
    rows = []
    cols = list(df.columns)
    for rec in df.to_dict("records"):
        r = {
            "idx": as_int(rec["index"]), "ts": as_int(rec["ts"]), "dur": as_int(rec["dur"]),
            "pid": as_int(rec["pid"]), "tid": as_int(rec["tid"]),
            "stream": as_int(rec["stream"]) if "stream" in cols else -1,
            "corr": as_int(rec["correlation"]) if "correlation" in cols else -1,
            "icorr": as_int(rec["index_correlation"]) if "index_correlation" in cols else -1,
            # add_iteration leaves the iteration of a device row on stream 0 undefined (NaN): reported as -9 (C12's quantifier: positive stream ids)
            "iter": (-9 if rec["iteration"] != rec["iteration"] else as_int(rec["iteration"])) if "iteration" in cols else -1,
            "name": sym_table[as_int(rec["name"])], "cat": sym_table[as_int(rec["cat"])],
        }
        if "end" in cols:
            r["end"] = as_int(rec["end"])
        if "memory_bw_gbps" in cols:
            r["bw"] = float(rec["memory_bw_gbps"])
        rows.append(r)
    return rows


def input_contract(case: dict, impl: Any) -> List[str]:
    """Stage contract (C01) re-checked where an analysis consumes the loaded frame: every row the analysis saw must be the image of the file
    entry at its position (stream, duration, name, category, start shifted by one constant), and a rank with fewer than two profiler steps
    must have lost no complete entry.  A loader fault would otherwise be invisible to a check whose model starts from the loaded frame."""
    if not isinstance(impl, dict):
        return []
    frames = impl.get("frames")
    if frames is None and "rows" in impl and "rank" in impl:
        frames = {impl["rank"]: impl["rows"]}
    if not isinstance(frames, dict) or not case.get("ranks"):
        return []
    out: List[str] = []
    shifts = set()
    for r, rows in frames.items():
        rk = case["ranks"].get(int(r)) if int(r) in case["ranks"] else case["ranks"].get(str(r))
        if rk is None or not isinstance(rows, list):
            continue
        evs = rk["events"]
        complete = {i for i, e in enumerate(evs) if e.get("ph") == "X" and "dur" in e and e.get("cat") not in (None, "Trace")}
        if any(isinstance(e.get("ts"), float) and e["ts"] != int(e["ts"]) for e in evs):
            continue            # fractional timestamps are C01's own subject
        n_steps = sum(1 for i in complete if str(evs[i].get("name", "")).startswith("ProfilerStep#"))
        seen = set()
        for row in rows:
            i = row["idx"]
            if i not in complete:
                out.append(f"rank {r}: loaded row {i} is not a complete entry of the file")
                continue
            seen.add(i)
            e = evs[i]
            a = e.get("args") or {}
            st = a.get("stream", -1)
            try:
                st = int(st)
            except (TypeError, ValueError):
                st = -1
            want = (st, int(e["dur"]), str(e["name"]), str(e["cat"]))
            got = (row["stream"], row["dur"], row["name"], row["cat"])
            if want != got:
                out.append(f"rank {r}: loaded row {i} is (stream, dur, name, cat) = {got}, the file entry at that position has {want}")
            shifts.add(int(e["ts"]) - row["ts"])
        if n_steps < 2 and seen != complete:
            out.append(f"rank {r}: complete file entries {sorted(complete - seen)[:6]} are missing from the loaded frame (the rank has {n_steps} profiler step(s))")
    if len(shifts) > 1:
        out.append(f"the loaded start times are not the file's shifted by ONE constant: shifts seen {sorted(shifts)[:4]}")
    return [("input stage (the frame the analysis consumed is not the image of the file, cf. C01): " + x) for x in out[:4]]


def load_case(case: dict, d: str, **kw):
    import tracegen
    from hta.trace_analysis import TraceAnalysis
    paths = tracegen.write_case(case, d)
    ta = TraceAnalysis(trace_files=dict(paths), trace_dir=d, **kw)
    return ta, paths


# sub-microsecond resolution: with params.quarter_us the file written for a case holds the case's times divided by 4 (exact binary
# fractions) and is loaded with HTA_DISABLE_NS_ROUNDING=1, so that the analyses see fractional microseconds.  Frames and time-valued
# outputs are multiplied by 4 again before they are compared: the models run on the integer case.
def time_scale(case: dict) -> int:
    return 4 if case.get("params", {}).get("quarter_us") else 1


def set_quarter_us(case: dict) -> None:
    case.setdefault("params", {})["quarter_us"] = True
    ep = case.get("epoch", 0)
    if ep > 10 ** 12:
        for rk in case["ranks"].values():
            for e in rk["events"]:
                if "ts" in e:
                    e["ts"] -= ep
        case["epoch"] = 0


def quartered(case: dict) -> dict:
    import copy
    c = copy.deepcopy(case)
    for rk in c["ranks"].values():
        for e in rk["events"]:
            for k in ("ts", "dur"):
                if isinstance(e.get(k), int) and not isinstance(e.get(k), bool):
                    e[k] = e[k] / 4.0
    return c


class resolution:
    """with fw.resolution(case): ... -- sets HTA_DISABLE_NS_ROUNDING for a quarter-microsecond case."""
    def __init__(self, case):
        self.on = time_scale(case) != 1

    def __enter__(self):
        if self.on:
            os.environ["HTA_DISABLE_NS_ROUNDING"] = "1"
        return self

    def __exit__(self, *a):
        if self.on:
            os.environ.pop("HTA_DISABLE_NS_ROUNDING", None)
        return False


def load_case_res(case: dict, d: str, **kw):
    """load_case honouring params.quarter_us (call inside `with fw.resolution(case)`)."""
    return load_case(quartered(case) if time_scale(case) != 1 else case, d, **kw)


def dump_frame_res(case: dict, df, sym_table: List[str]) -> List[dict]:
    k = time_scale(case)
    if k != 1:
        df = df.copy()
        for c in ("ts", "dur", "end"):
            if c in df.columns:
                df[c] = df[c] * k
    return dump_frame(df, sym_table)


def frames_altered(case: dict, ta, frames: dict, sym_table) -> List[Any]:
    """ranks whose loaded frame (primary columns, rows by id) is no longer what it was when `frames` was dumped: an analysis
    must leave the trace it was given as it found it (the next analysis of the same object reads it)"""
    out = []
    for r, rows in frames.items():
        try:
            now = dump_frame_res(case, ta.t.get_trace(r), sym_table)
        except Exception as e:
            out.append([r, "re-reading the frame raised " + type(e).__name__ + ": " + str(e)[:120]])
            continue
        key = lambda x: x["idx"]
        if sorted(now, key=key) != sorted(rows, key=key):
            a = {x["idx"]: x for x in rows}
            b = {x["idx"]: x for x in now}
            diff = [(i, a.get(i), b.get(i)) for i in sorted(set(a) | set(b)) if a.get(i) != b.get(i)][:2]
            out.append([r, f"{len(rows)} rows before, {len(now)} after; first differences {str(diff)[:300]}"])
    return out


# ----------------------------------------------------------------------------- evidence / findings / replay
def load_known_findings() -> List[dict]:
    p = os.path.join(VERIF, "known_findings.json")
    if not os.path.exists(p):
        return []
    return json.load(open(p))["findings"]


def case_hash(case: dict) -> str:
    return hashlib.sha1(json.dumps(case["ranks"], sort_keys=True, default=str).encode()).hexdigest()[:16] + \
        hashlib.sha1(json.dumps(case.get("params", {}), sort_keys=True, default=str).encode()).hexdigest()[:6]


def write_json(path: str, obj: Any) -> None:
    os.makedirs(os.path.dirname(path), exist_ok=True)
    tmp = path + ".tmp"
    with open(tmp, "w") as fh:
        json.dump(obj, fh, indent=1, default=str)
    os.replace(tmp, path)


def src_hash(relpath: str, funcs: List[str]) -> Dict[str, str]:
    """AST hash of the named functions/classes of a source file (source-drift sentinel)."""
    out: Dict[str, str] = {}
    try:
        tree = ast.parse(open(os.path.join(REPO, relpath)).read())
    except Exception as e:
        return {relpath: f"unparseable: {e}"}
    want = set(funcs)
    for node in ast.walk(tree):
        if isinstance(node, (ast.FunctionDef, ast.ClassDef)) and node.name in want:
            out[f"{relpath}:{node.name}"] = hashlib.sha1(ast.dump(node).encode()).hexdigest()[:12]
    for f in want:
        if not any(k.endswith(":" + f) for k in out):
            out[f"{relpath}:{f}"] = "missing"
    return out
