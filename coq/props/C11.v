(* C11 property theorems: symbol ids are a stable bijection; re-encoding after multi-rank loading commutes
   with decoding.  add_symbols is regenerated from the source on every run (gen/Symtab_gen.v). *)
From Coq Require Import Permutation.
From HTA.lib Require Import Base.
From HTA.gen Require Import Symtab_gen.
From HTA.model Require Import C11_Model.
From HTA.proof Require Import C11_Proofs.
Open Scope Z_scope.

(* for every sequence of add_symbols / clone / combine calls with arbitrary arguments (repeats allowed): every table
   of the pool has no symbol twice and its two structures agree *)
Theorem C11_history_consistent : forall ops, Forall consistent (run ops).
Proof. exact history_consistent. Qed.
Print Assumptions C11_history_consistent.

Theorem C11_encode_decode : forall t s i, consistent t -> lookup s (sym_index t) = Some i -> decode t i = Some s.
Proof. exact encode_decode. Qed.
Print Assumptions C11_encode_decode.

Theorem C11_decode_encode : forall t s i, consistent t -> decode t i = Some s -> lookup s (sym_index t) = Some i.
Proof. exact decode_encode. Qed.
Print Assumptions C11_decode_encode.

Theorem C11_ids_injective : forall t s1 s2 i, consistent t ->
  lookup s1 (sym_index t) = Some i -> lookup s2 (sym_index t) = Some i -> s1 = s2.
Proof. exact ids_injective. Qed.
Print Assumptions C11_ids_injective.

(* an id once assigned never changes as more symbols are added *)
Theorem C11_prefix_stable : forall t syms s i, consistent t ->
  lookup s (sym_index t) = Some i -> lookup s (sym_index (add_symbols t syms)) = Some i.
Proof. exact prefix_stable. Qed.
Print Assumptions C11_prefix_stable.

Theorem C11_table_is_extended : forall syms t, exists ext, sym_table (add_symbols t syms) = (sym_table t ++ ext)%list.
Proof. exact add_symbols_prefix. Qed.
Print Assumptions C11_table_is_extended.

(* after multi-rank loading every rank's local ids decode, through the re-encoding, to that rank's original strings:
   for every fill order of every local table, every rank order, every prior content of the global table *)
Theorem C11_reencode_commutes : forall g locals local x s,
  consistent g -> In local locals -> decode local x = Some s ->
  exists y, reencode (gather g locals) local x = Some y /\ decode (gather g locals) y = Some s.
Proof. exact reencode_commutes. Qed.
Print Assumptions C11_reencode_commutes.

Theorem C11_symbols_order_independent : forall t syms syms', consistent t -> Permutation syms syms' ->
  forall x, In x (sym_table (add_symbols t syms)) <-> In x (sym_table (add_symbols t syms')).
Proof. exact symbols_order_independent. Qed.
Print Assumptions C11_symbols_order_independent.

Example C11_nonvacuous :
  encode_pool (run [OAdd 0%nat ["b"; "a"; "b"]; OClone 0%nat; OAdd 1%nat ["c"; "a"]; OCombine [1%nat; 0%nat]; OAdd 0%nat ["a"; "z"]]) =
  [ (["b"; "a"; "z"], [("z", 2); ("a", 1); ("b", 0)]);
    (["b"; "a"; "c"], [("c", 2); ("a", 1); ("b", 0)]);
    (["b"; "a"; "c"], [("c", 2); ("a", 1); ("b", 0)]) ].
Proof. vm_compute. reflexivity. Qed.
