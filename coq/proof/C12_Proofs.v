From Coq Require Import Permutation.
From HTA.lib Require Import Base ListExtra.
From HTA.model Require Import Loader_Model.
Open Scope Z_scope.

(* ================= iteration of host rows: _get_profiler_step ================= *)
Definition in_step (t : Z) (s : ev) : bool := (ts s <=? t) && (t <? ts s + dur s).

Lemma find_app_none {A} (f : A -> bool) l1 l2 : find f (l1 ++ l2) = match find f l1 with Some x => Some x | None => find f l2 end.
Proof. induction l1 as [|x l1 IH]; simpl; [reflexivity|]. destruct (f x); [reflexivity | exact IH]. Qed.

Lemma step_of_fold steps t acc :
  fold_left (fun a s => if (ts s <=? t) && (t <? ts s + dur s) then step_no (name s) else a) steps acc =
  match find (in_step t) (rev steps) with Some s => step_no (name s) | None => acc end.
Proof.
  revert acc. induction steps as [|s steps IH]; intro acc; simpl; [reflexivity|].
  rewrite IH. rewrite find_app_none. destruct (find (in_step t) (rev steps)) as [s'|]; [reflexivity|].
  simpl. unfold in_step. destruct ((ts s <=? t) && (t <? ts s + dur s)); reflexivity.
Qed.

(* no two steps with different numbers contain the same instant (disjoint half-open spans) *)
Definition steps_unambiguous (steps : list ev) : Prop :=
  forall t s1 s2, In s1 steps -> In s2 steps -> in_step t s1 = true -> in_step t s2 = true ->
                  step_no (name s1) = step_no (name s2).

Theorem step_of_contains steps t s :
  steps_unambiguous steps -> In s steps -> ts s <= t < ts s + dur s -> step_of steps t = step_no (name s).
Proof.
  intros Hu Hs Ht. unfold step_of. rewrite step_of_fold.
  assert (Hin : in_step t s = true) by (unfold in_step; lia).
  destruct (find (in_step t) (rev steps)) as [s'|] eqn:F.
  - apply find_some in F. destruct F as [Hs' Hin']. apply in_rev in Hs'. apply (Hu t); assumption.
  - pose proof (find_none _ _ F s) as Hn. rewrite <- in_rev in Hn. rewrite (Hn Hs) in Hin. discriminate.
Qed.

Theorem step_of_none steps t :
  (forall s, In s steps -> ~ (ts s <= t < ts s + dur s)) -> step_of steps t = -1.
Proof.
  intro Hn. unfold step_of. rewrite step_of_fold.
  destruct (find (in_step t) (rev steps)) as [s'|] eqn:F; [|reflexivity].
  apply find_some in F. destruct F as [Hs' Hin']. apply in_rev in Hs'. exfalso. apply (Hn s' Hs').
  unfold in_step in Hin'. lia.
Qed.

Theorem host_iteration l e s :
  stream e < 0 -> steps_unambiguous (step_rows l) -> In s (step_rows l) -> ts s <= ts e < ts s + dur s ->
  iter_of l e = step_no (name s).
Proof.
  intros Hst Hu Hs Ht. unfold iter_of. replace (stream e <? 0) with true by lia.
  apply step_of_contains; assumption.
Qed.

Theorem host_no_step l e :
  stream e < 0 -> (forall s, In s (step_rows l) -> ~ (ts s <= ts e < ts s + dur s)) -> iter_of l e = -1.
Proof.
  intros Hst Hn. unfold iter_of. replace (stream e <? 0) with true by lia. apply step_of_none. exact Hn.
Qed.

Lemma find_idx_unique l r : NoDup (map idx l) -> In r l -> find (fun p => idx p =? idx r) l = Some r.
Proof.
  induction l as [|x l IH]; intros Hnd Hr; [destruct Hr|]. simpl in *.
  inversion Hnd as [|? ? Hx Hnd']; subst.
  destruct Hr as [Hr|Hr].
  - subst. rewrite Z.eqb_refl. reflexivity.
  - destruct (idx x =? idx r) eqn:E.
    + exfalso. apply Hx. apply Z.eqb_eq in E. rewrite E. apply in_map. exact Hr.
    + apply IH; assumption.
Qed.

(* a device row inherits the iteration of the host call linked to it; -1 if unlinked *)
Theorem device_iteration l e r :
  0 < stream e -> NoDup (map idx l) -> In r l -> icorr e = idx r -> 0 < idx r -> stream r < 0 ->
  iter_of l e = iter_of l r.
Proof.
  intros Hst Hnd Hr Hic Hpos Hsr. unfold iter_of at 1.
  replace (stream e <? 0) with false by lia. replace (0 <? stream e) with true by lia.
  replace (0 <? icorr e) with true by lia. rewrite Hic. rewrite find_idx_unique by assumption.
  unfold iter_of. replace (stream r <? 0) with true by lia. reflexivity.
Qed.

Theorem device_unlinked l e : 0 < stream e -> icorr e <= 0 -> iter_of l e = -1.
Proof.
  intros Hst Hic. unfold iter_of. replace (stream e <? 0) with false by lia.
  replace (0 <? stream e) with true by lia. replace (0 <? icorr e) with false by lia. reflexivity.
Qed.

Theorem add_iter_rows l e' : In e' (add_iter l) <-> exists e, In e l /\ e' = set_iter e (iter_of l e).
Proof. unfold add_iter. rewrite in_map_iff. split; intros [e [H1 H2]]; exists e; split; auto. Qed.

(* ================= trimming ================= *)
Lemma maxZ_ge d l : forall x, In x l -> x <= maxZ d l.
Proof.
  revert d. induction l as [|y l IH]; intros d x Hx; [destruct Hx|]. simpl.
  destruct Hx as [Hx|Hx]; [subst; lia|]. specialize (IH y x Hx). lia.
Qed.

Lemma maxZ_in d l : l <> [] -> In (maxZ d l) l.
Proof.
  revert d. induction l as [|y l IH]; intros d Hne; [congruence|]. simpl.
  destruct l as [|z l']; [simpl; left; lia|].
  specialize (IH y ltac:(discriminate)).
  destruct (Z.max_spec y (maxZ y (z :: l'))) as [[_ E]|[_ E]]; rewrite E; [right; exact IH | left; reflexivity].
Qed.

Definition last_start (l : list ev) : Z := maxZ 0 (map ts (host_steps l)).
Definition last_end (l : list ev) : Z := maxZ 0 (map eend (host_steps l)).
Definition cut (incl : bool) (l : list ev) (e : ev) : Prop :=
  if incl then ts e <= last_end l else ts e < last_start l.

Lemma keep_host_spec incl l e : keep_host incl l e = true <-> is_host e = true /\ cut incl l e.
Proof.
  unfold keep_host, cut, last_end, last_start. rewrite andb_true_iff.
  destruct incl; [rewrite Z.leb_le | rewrite Z.ltb_lt]; tauto.
Qed.

Theorem trim_exact incl l e :
  2 <= Z.of_nat (List.length (host_steps l)) ->
  (In e (trim incl l) <->
   In e l /\ ((is_host e = true /\ cut incl l e) \/
              (is_dev e = true /\ exists c, In c l /\ is_host c = true /\ cut incl l c /\ corr c = corr e))).
Proof.
  intro H2. unfold trim. replace (Z.of_nat (List.length (host_steps l)) <? 2) with false by lia.
  rewrite in_app_iff. unfold kept_dev, kept_host. rewrite in_flat_map. split.
  - intros [[g [Hg Hin]] | Hh].
    + apply in_map_iff in Hin. destruct Hin as [c [Hc Hcin]]. subst g.
      apply filter_In in Hg. destruct Hg as [Hel Hdev].
      apply filter_In in Hcin. destruct Hcin as [Hcin Hcc]. apply filter_In in Hcin. destruct Hcin as [Hcl Hk].
      apply keep_host_spec in Hk. split; [exact Hel|]. right. split; [exact Hdev|].
      exists c. apply Z.eqb_eq in Hcc. tauto.
    + apply filter_In in Hh. destruct Hh as [Hel Hk]. apply keep_host_spec in Hk. tauto.
  - intros [Hel [[Hh Hc] | [Hd [c [Hcl [Hch [Hcc Hcorr]]]]]]].
    + right. apply filter_In. split; [exact Hel | apply keep_host_spec; tauto].
    + left. exists e. split; [apply filter_In; tauto|].
      apply in_map_iff. exists c. split; [reflexivity|]. apply filter_In. split.
      * apply filter_In. split; [exact Hcl | apply keep_host_spec; tauto].
      * apply Z.eqb_eq. exact Hcorr.
Qed.

Theorem trim_noop_lt2 incl l : Z.of_nat (List.length (host_steps l)) < 2 -> trim incl l = l.
Proof. intro H. unfold trim. replace (Z.of_nat (List.length (host_steps l)) <? 2) with true by lia. reflexivity. Qed.

(* the cut-offs are those of the step with the largest start *)
Theorem last_step_start l : host_steps l <> [] ->
  exists L, In L (host_steps l) /\ ts L = last_start l /\ forall s, In s (host_steps l) -> ts s <= ts L.
Proof.
  intro Hne. unfold last_start.
  assert (Hm : map ts (host_steps l) <> []) by (destruct (host_steps l); [congruence | discriminate]).
  pose proof (maxZ_in 0 _ Hm) as Hin. apply in_map_iff in Hin. destruct Hin as [L [HL HLin]].
  exists L. repeat split; auto. intros s Hs. rewrite HL. apply maxZ_ge. apply in_map. exact Hs.
Qed.

(* with pairwise disjoint steps of positive length, the latest end is the end of the step with the latest start *)
Theorem last_step_end l L :
  (forall a b, In a (host_steps l) -> In b (host_steps l) -> a = b \/ eend a <= ts b \/ eend b <= ts a) ->
  (forall a, In a (host_steps l) -> 0 < dur a) ->
  In L (host_steps l) -> (forall s, In s (host_steps l) -> ts s <= ts L) ->
  last_end l = eend L.
Proof.
  intros Hdis Hpos HL Hmax. unfold last_end.
  assert (Hm : map eend (host_steps l) <> []) by (destruct (host_steps l); [destruct HL | discriminate]).
  pose proof (maxZ_in 0 _ Hm) as Hin. apply in_map_iff in Hin. destruct Hin as [M [HM HMin]].
  pose proof (maxZ_ge 0 (map eend (host_steps l)) (eend L) (in_map eend _ _ HL)) as Hge.
  destruct (Hdis M L HMin HL) as [E | [E | E]].
  - subst. symmetry. exact HM.
  - pose proof (Hpos L HL). unfold eend in *. lia.
  - pose proof (Hmax M HMin). pose proof (Hpos L HL). unfold eend in *. lia.
Qed.

(* nothing is duplicated when a device row's id is carried by at most one kept host row *)
Lemma NoDup_filter {A} (f : A -> bool) l : NoDup l -> NoDup (filter f l).
Proof.
  induction 1 as [|x l Hx Hnd IH]; simpl; [constructor|].
  destruct (f x); [constructor; [rewrite filter_In; tauto | exact IH] | exact IH].
Qed.

Theorem trim_no_dup incl l :
  NoDup l ->
  (forall g c1 c2, In g l -> is_dev g = true -> In c1 l -> In c2 l -> is_host c1 = true -> is_host c2 = true ->
                   corr c1 = corr g -> corr c2 = corr g -> c1 = c2) ->
  NoDup (trim incl l).
Proof.
  intros Hnd Huniq. unfold trim. destruct (Z.of_nat (List.length (host_steps l)) <? 2); [exact Hnd|].
  apply NoDup_app_intro.
  - unfold kept_dev.
    assert (Hd : NoDup (filter is_dev l)) by (apply NoDup_filter; exact Hnd).
    assert (Hsub : forall g, In g (filter is_dev l) -> In g l /\ is_dev g = true) by (intros g Hg; apply filter_In in Hg; exact Hg).
    induction (filter is_dev l) as [|g gs IH]; simpl; [constructor|].
    inversion Hd as [|? ? Hg Hd']; subst.
    apply NoDup_app_intro.
    + (* copies of g: at most one *)
      destruct (Hsub g (or_introl eq_refl)) as [Hgl Hgd].
      assert (Hk : NoDup (filter (fun c => corr c =? corr g) (kept_host incl l))).
      { apply NoDup_filter. apply NoDup_filter. exact Hnd. }
      remember (filter (fun c => corr c =? corr g) (kept_host incl l)) as K.
      assert (HK : forall c, In c K -> In c l /\ is_host c = true /\ corr c = corr g).
      { intros c Hc. subst K. apply filter_In in Hc. destruct Hc as [Hc Hcc]. apply filter_In in Hc.
        destruct Hc as [Hcl Hk']. apply keep_host_spec in Hk'. apply Z.eqb_eq in Hcc. tauto. }
      destruct K as [|c1 [|c2 K']]; simpl; [constructor | constructor; [intros [] | constructor] | ].
      exfalso. inversion Hk as [|x0 l0 Hc1 Hk']. apply Hc1. left.
      destruct (HK c1 (or_introl eq_refl)) as [? [? ?]].
      destruct (HK c2 (or_intror (or_introl eq_refl))) as [? [? ?]].
      symmetry. apply (Huniq g c1 c2); auto.
    + apply IH; [exact Hd' | intros g' Hg'; apply Hsub; right; exact Hg'].
    + intros x Hx1 Hx2. apply in_map_iff in Hx1. destruct Hx1 as [c [Hc _]]. subst x.
      apply in_flat_map in Hx2. destruct Hx2 as [g' [Hg' Hin]]. apply in_map_iff in Hin.
      destruct Hin as [c' [Hc' _]]. subst g'. contradiction.
  - apply NoDup_filter. exact Hnd.
  - intros x Hx1 Hx2. unfold kept_dev in Hx1. apply in_flat_map in Hx1. destruct Hx1 as [g [Hg Hin]].
    apply in_map_iff in Hin. destruct Hin as [c [Hc _]]. subst g. apply filter_In in Hg. destruct Hg as [_ Hdev].
    apply filter_In in Hx2. destruct Hx2 as [_ Hk]. apply keep_host_spec in Hk. destruct Hk as [Hh _].
    unfold is_host in Hh. rewrite Hdev in Hh. discriminate.
Qed.
