(* Shared vocabulary: events, string helpers, kernel classification, small list utilities.
   Executable definitions only plus a few basic lemmas; stdlib only. *)
From Coq Require Export ZArith List Bool String Ascii Lia.
From Coq Require Import ZifyBool.
Export ListNotations.
Open Scope string_scope.
Open Scope Z_scope.

(* ---------- events of a loaded frame (primary columns) ---------- *)
Record ev := mkEv {
  idx : Z; ts : Z; dur : Z; pid : Z; tid : Z; stream : Z; corr : Z; icorr : Z; iter : Z;
  name : string; cat : string }.

Definition eend (e : ev) : Z := ts e + dur e.

(* ---------- strings ---------- *)
Fixpoint starts_with (p s : string) : bool :=
  match p, s with
  | EmptyString, _ => true
  | String a p', String b s' => Ascii.eqb a b && starts_with p' s'
  | String _ _, EmptyString => false
  end.

Fixpoint contains (p s : string) : bool :=
  starts_with p s || match s with EmptyString => false | String _ s' => contains p s' end.

Fixpoint drop_str (n : nat) (s : string) : string :=
  match n, s with
  | O, _ => s
  | S n', String _ s' => drop_str n' s'
  | S _, EmptyString => EmptyString
  end.

Fixpoint take_str (n : nat) (s : string) : string :=
  match n, s with
  | O, _ => EmptyString
  | S n', String a s' => String a (take_str n' s')
  | S _, EmptyString => EmptyString
  end.

Definition str_in (s : string) (l : list string) : bool := existsb (String.eqb s) l.

Fixpoint index_of (s : string) (l : list string) : Z :=
  match l with
  | [] => -1
  | x :: r => if String.eqb s x then 0 else let i := index_of s r in if i <? 0 then -1 else i + 1
  end.

(* ---------- kernel classification: hta/utils/utils.py get_kernel_type ----------
   NCCL_KERNEL_RE          ^nccl.*Kernel
   MEMORY_KERNEL_RE        (^Memcpy)|(^Memset)|(^dma)
   NCCL_COMPUTE_KERNEL_RE  (^nccl.*Kernel)|(.*(Memcpy)|(Memset))|(.*Sync)
   all used with re.match (anchored at position 0); names contain no newline.
   The regex source strings are checked against these literals by harness/translate.py. *)
Inductive ktype := COMMUNICATION | MEMORY | COMPUTATION | OTHER.

Definition is_comm_kernel (n : string) : bool :=
  starts_with "nccl" n && contains "Kernel" (drop_str 4 n).
Definition is_memory_kernel (n : string) : bool :=
  starts_with "Memcpy" n || starts_with "Memset" n || starts_with "dma" n.
Definition nccl_compute_re (n : string) : bool :=
  is_comm_kernel n || contains "Memcpy" n || starts_with "Memset" n || contains "Sync" n.
Definition is_compute_kernel (n : string) : bool := negb (nccl_compute_re n).

Definition get_kernel_type (n : string) : ktype :=
  if is_comm_kernel n then COMMUNICATION
  else if is_memory_kernel n then MEMORY
  else if is_compute_kernel n then COMPUTATION
  else OTHER.

Definition ktype_eqb (a b : ktype) : bool :=
  match a, b with
  | COMMUNICATION, COMMUNICATION | MEMORY, MEMORY | COMPUTATION, COMPUTATION | OTHER, OTHER => true
  | _, _ => false
  end.

Lemma ktype_eqb_eq a b : ktype_eqb a b = true <-> a = b.
Proof. destruct a, b; simpl; split; intro H; try reflexivity; discriminate. Qed.

Definition ktype_code (k : ktype) : Z :=
  match k with COMMUNICATION => 0 | MEMORY => 1 | COMPUTATION => 2 | OTHER => 3 end.

(* ---------- host/device side: hta/common/trace_filter.py _filter_gpu_kernels_with_cuda_sync ---------- *)
Definition is_dev (e : ev) : bool :=
  ((stream e >=? 0) && (corr e >=? 0))
  || String.eqb (name e) "Event Sync" || String.eqb (name e) "Context Sync".
Definition is_host (e : ev) : bool := negb (is_dev e).

(* ---------- small list utilities ---------- *)
Definition sumZ (l : list Z) : Z := fold_right Z.add 0 l.

Lemma sumZ_app l1 l2 : sumZ (l1 ++ l2) = sumZ l1 + sumZ l2.
Proof. induction l1 as [|x l1 IH]; simpl; lia. Qed.

Fixpoint minZ (d : Z) (l : list Z) : Z :=
  match l with [] => d | x :: r => Z.min x (minZ x r) end.
Fixpoint maxZ (d : Z) (l : list Z) : Z :=
  match l with [] => d | x :: r => Z.max x (maxZ x r) end.

Definition count {A} (f : A -> bool) (l : list A) : Z := Z.of_nat (List.length (filter f l)).

Lemma count_nil {A} (f : A -> bool) : count f [] = 0.
Proof. reflexivity. Qed.

Lemma count_cons {A} (f : A -> bool) x l :
  count f (x :: l) = (if f x then 1 else 0) + count f l.
Proof. unfold count; simpl; destruct (f x); simpl List.length; lia. Qed.

Lemma count_app {A} (f : A -> bool) l1 l2 : count f (l1 ++ l2) = count f l1 + count f l2.
Proof. unfold count; rewrite filter_app, app_length; lia. Qed.

Lemma count_nonneg {A} (f : A -> bool) l : 0 <= count f l.
Proof. unfold count; lia. Qed.

(* lexicographic order on lists of Z, insertion sort: canonical form of row multisets *)
Fixpoint lexleb (a b : list Z) : bool :=
  match a, b with
  | [], _ => true
  | _ :: _, [] => false
  | x :: a', y :: b' => if x <? y then true else if y <? x then false else lexleb a' b'
  end.

Fixpoint insert_row (r : list Z) (l : list (list Z)) : list (list Z) :=
  match l with
  | [] => [r]
  | x :: l' => if lexleb r x then r :: l else x :: insert_row r l'
  end.

Definition sort_rows (l : list (list Z)) : list (list Z) := fold_right insert_row [] l.

Definition b2z (b : bool) : Z := if b then 1 else 0.
