(* C08, device side: hta/analyzers/critical_path_analysis.py CPGraph._construct_graph_from_kernels: the loop over the device
   activities and synchronisation records of the analysed window, in the order of the code's sort (activities by start, records
   by end, ties by end), with the per-stream 'last node' state.  Queue lengths (C14's subject) and the launch call of every
   activity are inputs.  CUDA-event synchronisation attaches no edge (pandas 3, see DESIGN section 7): such records are skipped. *)
From HTA.lib Require Import Base.
From HTA.model Require Import C08_Host.
Open Scope list_scope.
Open Scope Z_scope.

Inductive drow :=
| DK (eid stream t0 t1 : Z) (rt rt_ts : Z) (rt_has : bool) (q_rt q_k : Z)   (* device activity; its launch call; queue lengths *)
| DS (stream : Z) (rt rt_end : Z) (rt_has : bool)                            (* Stream Sync record of the call rt *)
| DC (rt rt_end : Z) (rt_has : bool)                                         (* Context Sync record *)
| DE.                                                                        (* Event Sync / Stream Wait Event *)


Fixpoint last_of (s : Z) (l : list (Z * hnode)) : option hnode :=
  match l with [] => None | (a, n) :: r => if a =? s then Some n else last_of s r end.
Fixpoint set_last (s : Z) (n : hnode) (l : list (Z * hnode)) : list (Z * hnode) :=
  match l with [] => [(s, n)] | (a, m) :: r => if a =? s then (a, n) :: r else (a, m) :: set_last s n r end.

(* result: edges, and whether the code's internal assertion about the launch call holds *)
Definition dstep (zw : bool) (st : list (Z * hnode)) (r : drow) : list (Z * hnode) * list hedge * bool :=
  match r with
  | DK eid s t0 t1 rt rt_ts rt_has q_rt q_k =>
      let sn := mkHN eid true t0 in
      let en := mkHN eid false t1 in
      let rn := mkHN rt true rt_ts in
      let span := [mkHE sn en (t1 - t0) 0 eid] in
      let l := last_of s st in
      let launch := (q_rt =? 1) && (q_k =? 0) && match l with None => true | Some n => n_ts n <? rt_ts end in
      let delay :=
        if launch then [mkHE rn sn (t0 - rt_ts) 2 (-2)]
        else match l with Some n => [mkHE n sn (t0 - n_ts n) 3 (n_ev n)] | None => [] end in
      let zero := if zw && negb launch && rt_has then [mkHE rn sn 0 2 (-2)] else [] in
      (set_last s en st, span ++ delay ++ zero, negb launch || rt_has)
  | DS s rt rt_end rt_has =>
      (* a call that started before the analysed window has no nodes: no edge *)
      match last_of s st with
      | Some n => (st, (if rt_has then [mkHE n (mkHN rt false rt_end) 0 4 (-2)] else []), true)
      | None => (st, [], true)
      end
  | DC rt rt_end rt_has =>
      (st, (if rt_has then map (fun sn => mkHE (snd sn) (mkHN rt false rt_end) 0 4 (-2)) st else []), true)
  | DE => (st, [], true)
  end.

Fixpoint drun (zw : bool) (st : list (Z * hnode)) (rows : list drow) : list hedge * bool :=
  match rows with
  | [] => ([], true)
  | r :: rest =>
      let '(st', es, ok) := dstep zw st r in
      let '(es', ok') := drun zw st' rest in
      (es ++ es', ok && ok')
  end.

(* the quantifier, on the processing sequence, with the loop's own per-stream state as ghost *)
Definition dwf_step (st : list (Z * hnode)) (r : drow) : bool :=
  match r with
  | DK eid s t0 t1 rt rt_ts rt_has q_rt q_k =>
      (t0 <=? t1) && (rt_ts <=? t0) && match last_of s st with Some n => n_ts n <=? t0 | None => true end
  | DS s rt rt_end _ => match last_of s st with Some n => n_ts n <=? rt_end | None => true end
  | DC rt rt_end _ => forallb (fun sn : Z * hnode => n_ts (snd sn) <=? rt_end) st
  | DE => true
  end.
Fixpoint dwf (st : list (Z * hnode)) (rows : list drow) : bool :=
  match rows with
  | [] => true
  | r :: rest => dwf_step st r && dwf (fst (fst (dstep false st r))) rest
  end.

(* (the code's assertion holds, the sequence is causally consistent, the edges) *)
Definition encode_dev (zw : bool) (rows : list drow) : bool * bool * list (list Z) :=
  let '(es, ok) := drun zw [] rows in (ok, dwf [] rows, sort_rows (map enc_hedge es)).
