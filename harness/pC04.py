"""C04: temporal breakdown is an exact partition of the GPU activity span."""
import math
import tracegen
import framework as fw
import translate

ID = "C04"
COQ_IMPORTS = ["From HTA.model Require Import C04_Model."]
SOURCES = {"hta/analyzers/breakdown_analysis.py": ["_get_idle_time_for_kernels", "get_temporal_breakdown"],
           "hta/utils/utils.py": ["merge_kernel_intervals", "get_kernel_type", "is_comm_kernel", "is_memory_kernel", "is_compute_kernel"]}
TRANSLATE = [translate.gen_kernel_rules, translate.gen_launch_names, translate.gen_breakdown_rules]
INPUT_CONTRACT = True        # the loaded frame is re-checked against the file (framework.input_contract)
N_CASES = {"quick": 400, "thorough": 6000}
RULE = ("generated file sets, mostly profile free_overlap (device intervals anywhere on a tiny time domain: identical, nested, touching, "
        "zero-length, equal starts, several streams, names on regex boundaries), 1-3 ranks; non-trivial = some rank has two device intervals that "
        "overlap, touch or share a start; distinct = hash of the file set")
ASSUMPTIONS = ["durs_nonneg: durations are non-negative", "each rank has at least one device activity (cases without are skipped as out of quantifier)",
               "percentages compared with tolerance 0.005+1e-9 against the exact rational (IEEE division in pandas not modelled)"]


def gen_cases(seed, tier, n):
    out = []
    profs = ["free_overlap", "free_overlap", "free_overlap_s0", "fifo_tiny", "default", "free_overlap"]
    for i in range(n):
        c = tracegen.gen_case(seed, i, tracegen.PROFILES[profs[i % len(profs)]])
        c["params"] = {}
        if i % 3 == 1:
            tracegen.relabel_ranks(c)      # a subset of a job: rank ids are not 0..n-1, and not listed in order
        if i % 6 == 3:
            # history: the trace is decoded for display (decode_symbol_ids(), shortened names) before the analysis runs; some kernels have
            # names whose kind is decided by the part the shortening strips
            import random as _r
            tracegen.tricky_kernel_names(c, _r.Random(seed * 271 + i))
            c["params"]["decoded"] = True
        if i % 8 == 6:
            fw.set_quarter_us(c)           # quarter-microsecond resolution (framework.resolution)
        if i % 16 == 3 and not c["params"].get("quarter_us"):
            tracegen.scale_case_int32_edge(c)    # latest start just below 2**31, latest ends above
        if i % 16 == 11 and not c["params"].get("quarter_us"):
            tracegen.scale_case(c, 10 ** 8)     # a long trace: sums beyond 2**24 and 2**31 (the models are homogeneous in time)
        out.append(c)
    return out


def run_impl(case, d):
    k = fw.time_scale(case)
    with fw.resolution(case):
        ta, paths = fw.load_case_res(case, d)
        sym = ta.t.symbol_table.get_sym_table()
        ranks = sorted(ta.t.get_ranks())
        frames = {r: fw.dump_frame_res(case, ta.t.get_trace(r), sym) for r in ranks}
        if any(all(row["stream"] == -1 for row in rows) for rows in frames.values()):
            return {"skip": True}
        if case["params"].get("decoded"):
            ta.t.decode_symbol_ids()
        if case.get("case_no", 0) % 4 == 2 and not case["params"].get("decoded"):
            import cp_common
            cp_common.cp_analysis_first(ta, frames, sorted(frames))        # history: another analysis of the same object first
        try:
            df = ta.get_temporal_breakdown(visualize=False)
            out = {}
            for rec in df.to_dict("records"):
                out[int(rec["rank"])] = {
                    "ints": [fw.as_int(rec[c] * k) for c in ("idle_time(us)", "compute_time(us)", "non_compute_time(us)", "kernel_time(us)")],
                    "pct": [float(rec[c]) for c in ("idle_time_pctg", "compute_time_pctg", "non_compute_time_pctg")]}
        except Exception as e:
            out = {"error": type(e).__name__ + ": " + str(e)[:200]}
    return {"frames": frames, "out": out, "frames_altered": fw.frames_altered(case, ta, frames, sym)}


def coq_term(case, impl):
    return "[" + ";\n ".join(f"encode_C04 {fw.evl(rows)}" for r, rows in sorted(impl["frames"].items())) + "]"


def compare(case, impl, model):
    if "error" in impl["out"]:
        return ["implementation raised " + impl["out"]["error"]]
    disc = []
    ranks = sorted(impl["frames"].keys())
    if sorted(impl["out"].keys()) != ranks:
        return [f"rank set differs: {sorted(impl['out'].keys())} vs {ranks}"]
    for r, m in zip(ranks, model):
        o = impl["out"][r]
        if list(o["ints"]) != list(m):
            disc.append(f"rank {r}: (idle, compute, non_compute, kernel_time) impl={o['ints']} model={list(m)}")
            continue
        kt = m[3]
        for j, p in enumerate(o["pct"]):
            if kt == 0:
                if not (math.isnan(p) or math.isinf(p)):
                    disc.append(f"rank {r}: percentage {j} = {p} with kernel_time 0")
            elif abs(p - 100.0 * m[j] / kt) > 0.005 + 1e-9:
                disc.append(f"rank {r}: percentage {j} impl={p} exact={100.0 * m[j] / kt}")
    return disc


def nontrivial(case, impl):
    for rows in impl["frames"].values():
        dev = [(r["ts"], r["ts"] + r["dur"]) for r in rows if r["stream"] != -1]
        for i in range(len(dev)):
            for j in range(i + 1, len(dev)):
                a, b_ = dev[i], dev[j]
                if a[0] == b_[0] or (a[0] <= b_[1] and b_[0] <= a[1]):
                    return True
    return False


def classify(case, impl, model, disc):
    return None


LEVEL_TEXT = ("Proof: C04_parts_exact (for every ts-sorted permutation pandas may produce: kernel_time = span, idle = uncovered cells, compute = cells "
              "covered by computation kernels, non_compute = remainder, all >= 0, sum = kernel_time), C04_merge_measure / C04_merge_separated for "
              "merge_kernel_intervals, C04_asserts_hold; unbounded in the number of intervals. Correspondence on all seven value columns of "
              "get_temporal_breakdown."
              " C04_resolution_independent: times multiplied by k > 0 multiply all four times by k."
              " C04_rules_follow_source: the grouping test of merge_kernel_intervals and the arithmetic of the four times are read from the source on every run (strict reading).")
LEVEL_NOTE = ("Hand model of merge_kernel_intervals / _get_idle_time_for_kernels / idle_time_per_rank; kernel classification modelled from the three "
              "regex constants (checked literally by the translator). Time measure = number of unit cells (integer timestamps). Float division and "
              "rounding of percentages not modelled (tolerance).")
TECHNIQUE = "Coq proof (induction over ts-sorted interval lists, cell-counting measure) + differential correspondence via vm_compute"
