(* C18 property theorems: trace filters are pure row selections with the documented predicates. *)
From HTA.lib Require Import Base ListExtra Regex.
From HTA.model Require Import C18_Model.
From HTA.gen Require Import FilterRules_gen.
From HTA.proof Require Import C18_RulesTie C18_Proofs.
Open Scope Z_scope.

(* every filter, composites included, returns a subsequence of its input (rows, order, contents kept) *)
Theorem C18_sublist : forall wt tab f l, sublist (apply wt tab f l) l.
Proof. exact apply_sublist. Qed.
Print Assumptions C18_sublist.

Theorem C18_exact_selection : forall wt tab f l x,
  (forall fs, f <> FComposite fs) -> (In x (apply wt tab f l) <-> In x l /\ pred wt tab f l x = true).
Proof. exact apply_exact. Qed.
Print Assumptions C18_exact_selection.

Theorem C18_documented_predicates : forall wt tab l x,
  let e := fst x in
  (forall its, pred wt tab (FIter its) l x = true <-> In (iter e) its) /\
  (forall rs, pred wt tab (FRank rs) l x = true <-> In (snd x) rs) /\
  (forall lo hi, pred wt tab (FTime lo hi) l x = true <-> lo <= ts e /\ ts e + dur e <= hi) /\
  (forall pat, pred wt tab (FName pat) l x = true <-> exists s1 s2, name e = (s1 ++ s2)%string /\ matches pat s1) /\
  (pred true tab FGpu l x = is_dev e) /\ (pred true tab FCpu l x = negb (is_dev e)).
Proof. exact pred_spec. Qed.
Print Assumptions C18_documented_predicates.

Theorem C18_composite_sequential : forall wt tab fs l,
  apply wt tab (FComposite fs) l = fold_left (fun acc f => apply wt tab f acc) fs l.
Proof. exact apply_composite. Qed.
Print Assumptions C18_composite_sequential.

Theorem C18_rowlocal_commute : forall wt tab f g l, rowlocal f = true -> rowlocal g = true ->
  apply wt tab f (apply wt tab g l) = apply wt tab g (apply wt tab f l).
Proof. exact rowlocal_commute. Qed.
Print Assumptions C18_rowlocal_commute.

Theorem C18_rowlocal_idempotent : forall wt tab f l, rowlocal f = true ->
  apply wt tab f (apply wt tab f l) = apply wt tab f l.
Proof. exact rowlocal_idempotent. Qed.
Print Assumptions C18_rowlocal_idempotent.

Theorem C18_rowlocal_intersection : forall wt tab f g l x, rowlocal f = true -> rowlocal g = true ->
  (In x (apply wt tab (FComposite [f; g]) l) <-> In x (apply wt tab f l) /\ In x (apply wt tab g l)).
Proof. exact rowlocal_intersection. Qed.
Print Assumptions C18_rowlocal_intersection.

(* the regex matcher used by the name filter decides prefix membership in the pattern's language *)
Theorem C18_regex_prefix_match : forall s r,
  match_prefix r s = true <-> exists s1 s2, s = (s1 ++ s2)%string /\ matches r s1.
Proof. exact match_prefix_spec. Qed.
Print Assumptions C18_regex_prefix_match.

Definition fr18 : frame :=
  [ (mkEv 0 0 5 1 1 (-1) (-1) (-1) 3 "aten::add" "cpu_op", 0);
    (mkEv 1 1 2 1 1 (-1) 7 2 3 "cudaLaunchKernel" "cuda_runtime", 0);
    (mkEv 2 4 3 0 7 7 7 1 3 "ncclKernel_AllReduce" "kernel", 0);
    (mkEv 3 9 1 1 1 (-1) (-1) (-1) 4 "aten::mul" "cpu_op", 1);
    (mkEv 4 9 0 0 0 (-1) 8 0 (-1) "Context Sync" "cuda_sync", 1) ].
Example C18_nonvacuous :
  encode_C18 true ["aten::add"] [FIterIdx [1]; FName (Cat (Lit "aten::") (Star Any)); FCpu; FComposite [FTime 0 8; FGpu]; FIter [-1; 4]] fr18
  = [[3]; [0; 3]; [0; 1; 3]; [2]; [3; 4]].
Proof. vm_compute. reflexivity. Qed.

(* the tie by regeneration: the time-range, device-row and host-row predicates of the model are the masks read out of TimeRangeFilter,
   _filter_gpu_kernels_with_cuda_sync, GPUKernelFilter and CPUOperatorFilter (with and without a symbol table) *)
Theorem C18_predicates_follow_source : forall with_tab tab l x,
  (forall lo hi, pred with_tab tab (FTime lo hi) l x = time_pred_gen lo hi (fst x)) /\
  pred with_tab tab FGpu l x = (if with_tab then xorb gpu_table_negated_gen (dev_pred_table_gen (fst x)) else gpu_pred_notable_gen (fst x)) /\
  pred with_tab tab FCpu l x = (if with_tab then xorb cpu_table_negated_gen (dev_pred_table_gen (fst x)) else cpu_pred_notable_gen (fst x)).
Proof. exact filter_predicates_are_generated. Qed.
Print Assumptions C18_predicates_follow_source.
