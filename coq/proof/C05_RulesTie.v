(* C05: the type bits, the aggregation condition and the 'others' rule of the model are those read from the source
   (gen/KernelBreakdownRules_gen.v) *)
From HTA.lib Require Import Base Cells Intervals Sweep.
From HTA.model Require Import C04_Model C07_Model C05_Model.
From HTA.gen Require Import KernelBreakdownRules_gen.
Open Scope list_scope.
Open Scope Z_scope.

Theorem kernel_breakdown_rules_are_generated : forall q16 numk i c t0 t1 t2 l,
  is_other q16 numk i c = is_other_gen q16 numk i c /\
  type_rows 1 [t0; t1; t2] l =
    rows_of (type_bit_gen 0) (merge_sorted (sort_ts (type_itvs t0 l))) ++
    rows_of (type_bit_gen 1) (merge_sorted (sort_ts (type_itvs t1 l))) ++
    rows_of (type_bit_gen 2) (merge_sorted (sort_ts (type_itvs t2 l))) /\
  (forall numk' k16 ks, aggregates_gen (Z.of_nat (List.length (sort_g (group_by_name ks)))) numk' = false ->
     aggr numk' k16 ks = (sort_g (group_by_name ks), None)).
Proof.
  intros. split; [reflexivity|]. split.
  - cbn [type_rows]. rewrite app_nil_r. reflexivity.
  - intros numk' k16 ks H. unfold aggr. unfold aggregates_gen in H. rewrite H. reflexivity.
Qed.
