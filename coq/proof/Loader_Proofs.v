From Coq Require Import QArith Qround Permutation Sorted.
From HTA.lib Require Import Base ListExtra.
From HTA.model Require Import Loader_Model.
Open Scope Z_scope.

(* ================= C01: parse ================= *)

Lemma parse_from_spec f : forall i e,
  In e (parse_from i f) <->
  exists k r, nth_error f k = Some r /\ complete r = true /\ e = to_ev (i + Z.of_nat k) r.
Proof.
  induction f as [|r f IH]; intros i e; simpl.
  - split; [intros [] | intros [k [r [H _]]]; destruct k; discriminate].
  - rewrite in_app_iff, IH. split.
    + intros [H | [k [r' [Hn [Hc He]]]]].
      * destruct (complete r) eqn:C; [|destruct H]. destruct H as [H|[]]. subst e.
        exists O, r. simpl. repeat split; auto. f_equal. lia.
      * exists (S k), r'. simpl. repeat split; auto. rewrite He. f_equal. lia.
    + intros [k [r' [Hn [Hc He]]]]. destruct k as [|k]; simpl in Hn.
      * inversion Hn; subst r'. left. rewrite Hc. left. rewrite He. f_equal. simpl. lia.
      * right. exists k, r'. repeat split; auto. rewrite He. f_equal. lia.
Qed.

Lemma parse_from_idx_ge f : forall i, Forall (fun e => i <= idx e) (parse_from i f).
Proof.
  induction f as [|r f IH]; intro i; simpl; [constructor|].
  apply Forall_app. split.
  - destruct (complete r); constructor; [simpl; lia | constructor].
  - eapply Forall_impl; [|apply (IH (i + 1))]. intros a Ha. simpl in Ha. lia.
Qed.

Lemma parse_from_sorted f : forall i, StronglySorted Z.lt (map idx (parse_from i f)).
Proof.
  induction f as [|r f IH]; intro i; simpl; [constructor|].
  destruct (complete r); simpl; [|apply IH].
  constructor; [apply IH|].
  pose proof (parse_from_idx_ge f (i + 1)) as H. rewrite Forall_map.
  eapply Forall_impl; [|exact H]. intros a Ha. simpl in Ha. lia.
Qed.

Lemma sorted_lt_nodup l : StronglySorted Z.lt l -> NoDup l.
Proof.
  induction 1 as [|x l _ IH Hall]; constructor; [|exact IH].
  intro Hin. rewrite Forall_forall in Hall. specialize (Hall x Hin). lia.
Qed.

Theorem parse_rows_bijection f :
  (forall e, In e (parse_file f) <->
     exists k r, nth_error f k = Some r /\ complete r = true /\ e = to_ev (Z.of_nat k) r) /\
  StronglySorted Z.lt (map idx (parse_file f)) /\ NoDup (map idx (parse_file f)).
Proof.
  split; [|split].
  - intro e. unfold parse_file. rewrite parse_from_spec. split; intros [k [r H]]; exists k, r; exact H.
  - apply parse_from_sorted.
  - apply sorted_lt_nodup, parse_from_sorted.
Qed.

Theorem no_incomplete_row f e :
  In e (parse_file f) ->
  exists k r d c, nth_error f k = Some r /\ idx e = Z.of_nat k /\ r_dur r = Some d /\ r_cat r = Some c /\ c <> "Trace"%string.
Proof.
  intro H. apply (proj1 (parse_rows_bijection f)) in H. destruct H as [k [r [Hn [Hc He]]]].
  unfold complete in Hc. destruct (r_dur r) as [d|] eqn:D; [|discriminate].
  destruct (r_cat r) as [c|] eqn:C; [|discriminate].
  exists k, r, d, c. subst e. simpl. repeat split; auto.
  intro E. subst c. simpl in Hc. discriminate.
Qed.

Theorem fields i r :
  let e := to_ev i r in
  idx e = i /\ ts e = r_ts r /\ pid e = r_pid r /\ tid e = r_tid r /\ name e = r_name r /\
  (forall d, r_dur r = Some d -> dur e = d) /\ (forall c, r_cat r = Some c -> cat e = c) /\
  stream e = match r_stream r with Some s => s | None => -1 end /\
  corr e = match r_corr r with Some c => c | None => -1 end.
Proof.
  simpl. repeat split; auto.
  - intros d H. rewrite H. reflexivity.
  - intros c H. rewrite H. reflexivity.
Qed.

(* the primary columns survive link and add_iter *)
Definition primary (e : ev) := (idx e, ts e, dur e, pid e, tid e, stream e, corr e, name e, cat e).

Theorem parse_rank_primary f : map primary (parse_rank f) = map primary (parse_file f).
Proof.
  unfold parse_rank, add_iter, link. rewrite !map_map. apply map_ext. intro e. reflexivity.
Qed.

(* ================= C01: align ================= *)

Lemma minZ_le d l : forall x, In x l -> minZ d l <= x.
Proof.
  revert d. induction l as [|y l IH]; intros d x Hx; [destruct Hx|]. simpl.
  destruct Hx as [Hx|Hx]; [subst; lia|]. specialize (IH y x Hx). lia.
Qed.

Lemma minZ_in d l : l <> [] -> In (minZ d l) l.
Proof.
  revert d. induction l as [|y l IH]; intros d Hne; [congruence|]. simpl.
  destruct l as [|z l']; [simpl; left; lia|].
  specialize (IH y ltac:(discriminate)).
  destruct (Z.min_spec y (minZ y (z :: l'))) as [[_ E]|[_ E]]; rewrite E; [left; reflexivity | right; exact IH].
Qed.

Theorem shift_uniform (ranks : list (list ev)) :
  let c := global_min ranks in
  align ranks = map (map (shift c)) ranks /\
  (forall l e, In l ranks -> In e l -> c <= ts e /\ ts (shift c e) = ts e - c /\ 0 <= ts (shift c e)) /\
  (List.concat ranks <> [] -> exists l e, In l ranks /\ In e l /\ ts (shift c e) = 0).
Proof.
  cbv zeta. split; [reflexivity|]. unfold global_min, all_ts.
  split.
  - intros l e Hl He.
    assert (Hin : In (ts e) (map ts (List.concat ranks))).
    { apply in_map. apply in_concat. exists l. split; assumption. }
    destruct (map ts (List.concat ranks)) as [|t r] eqn:E; [destruct Hin|].
    pose proof (minZ_le t (t :: r) (ts e) Hin). unfold shift, set_ts. cbn [ts]. lia.
  - intro Hne. destruct (map ts (List.concat ranks)) as [|t r] eqn:E.
    + destruct (List.concat ranks); [congruence | discriminate].
    + pose proof (minZ_in t (t :: r) ltac:(discriminate)) as Hin. rewrite <- E in Hin at 2.
      apply in_map_iff in Hin. destruct Hin as [e [He Hin]]. apply in_concat in Hin.
      destruct Hin as [l [Hl Hel]]. exists l, e. repeat split; auto. unfold shift, set_ts. cbn [ts]. lia.
Qed.

Theorem end_is_ts_plus_dur c e :
  eend (shift c e) = ts (shift c e) + dur (shift c e) /\ eend (shift c e) = eend e - c /\ dur (shift c e) = dur e.
Proof. unfold eend, shift. simpl. lia. Qed.

Lemma shift_primary c e :
  idx (shift c e) = idx e /\ dur (shift c e) = dur e /\ pid (shift c e) = pid e /\ tid (shift c e) = tid e /\
  stream (shift c e) = stream e /\ corr (shift c e) = corr e /\ icorr (shift c e) = icorr e /\
  iter (shift c e) = iter e /\ name (shift c e) = name e /\ cat (shift c e) = cat e.
Proof. repeat split. Qed.

(* ================= C12: trim selects rows, never changes them ================= *)

Lemma trim_incl incl l e : In e (trim incl l) -> In e l.
Proof.
  unfold trim. destruct (Z.of_nat (List.length (host_steps l)) <? 2); [auto|].
  intro H. apply in_app_or in H. destruct H as [H|H].
  - unfold kept_dev in H. apply filter_In in H. destruct H as [H _]. apply filter_In in H. tauto.
  - unfold kept_host in H. apply filter_In in H. tauto.
Qed.

(* every row of a fully loaded rank is a parsed row of that rank's file shifted by the common constant *)
Theorem load_rows incl files j e :
  In e (nth j (load incl files) []) ->
  exists e0, In e0 (nth j (map parse_rank files) []) /\ e = shift (global_min (map parse_rank files)) e0.
Proof.
  unfold load, align. intro H.
  set (P := map parse_rank files) in *. set (c := global_min P) in *.
  destruct (Nat.lt_ge_cases j (List.length P)) as [Hj|Hj].
  - rewrite (nth_indep _ [] (trim incl [])) in H by (rewrite !map_length; exact Hj).
    rewrite map_nth in H. apply trim_incl in H.
    rewrite (nth_indep _ [] (map (shift c) [])) in H by (rewrite map_length; exact Hj).
    rewrite map_nth in H. apply in_map_iff in H. destruct H as [e0 [He He0]].
    exists e0. split; [exact He0 | symmetry; exact He].
  - rewrite nth_overflow in H by (rewrite !map_length; exact Hj). destruct H.
Qed.

(* ================= C01: rounding of fractional timestamps ================= *)
Open Scope Q_scope.

Theorem round_inward (t e : Q) :
  t <= inject_Z (round_ts t) /\ inject_Z (round_end e) <= e.
Proof. split; [apply Qle_ceiling | apply Qfloor_le]. Qed.

Theorem round_preserves_containment (tA eA tB eB : Q) :
  tA <= tB -> eB <= eA ->
  (round_ts tA <= round_ts tB)%Z /\ (round_end eB <= round_end eA)%Z.
Proof. intros H1 H2. split; [apply Qceiling_resp_le | apply Qfloor_resp_le]; assumption. Qed.

Theorem round_preserves_disjointness (eA tB : Q) :
  eA <= tB -> (round_end eA <= round_ts tB)%Z.
Proof.
  intro H. unfold round_end, round_ts.
  assert (H1 : inject_Z (Qfloor eA) <= inject_Z (Qceiling tB)).
  { eapply Qle_trans; [apply Qfloor_le|]. eapply Qle_trans; [exact H | apply Qle_ceiling]. }
  rewrite <- Zle_Qle in H1. exact H1.
Qed.

(* the double addition (+) is monotone: the end pandas computes for a contained event is contained *)
Section FloatAdd.
  Variable fadd : Q -> Q -> Q.
  Hypothesis fadd_mono : forall a b a' b', a <= a' -> b <= b' -> fadd a b <= fadd a' b'.

  Theorem round_end_monotone tA dA tB dB :
    tB <= tA -> dB <= dA -> (round_end (fadd tB dB) <= round_end (fadd tA dA))%Z.
  Proof. intros. apply Qfloor_resp_le. apply fadd_mono; assumption. Qed.
End FloatAdd.
